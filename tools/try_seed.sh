#!/bin/bash
# usage: try_seed.sh <seed-name> <property ids...>
# applies /verif/seeded/<seed-name>/patch.diff to /repo, runs the quick checks, reverts.
name=$1; shift
cd /repo || exit 2
if [ -n "$(git status --porcelain -- src)" ]; then echo "/repo/src is dirty"; exit 2; fi
git apply /verif/seeded/$name/patch.diff || exit 2
cd /verif
for p in "$@"; do
  echo "--- $p on $name"
  VERIF_SEED=${VERIF_SEED:-1} python3 tools/check.py $p --tier ${TIER:-quick} 2>&1 | grep -v '^KNOWN-FINDING' | tail -4
  echo "$p exit=${PIPESTATUS[0]}"
done
git -C /repo checkout -- src
