"""usage: mutrun.py <repo-worktree> <property> <n> [seed]
runs the property's own generators (tools/props.py) against a library built from a
scratch worktree; uses check.py's compare.  For pre-testing seeds without touching /repo."""
import sys, random, subprocess, os
sys.path.insert(0,'/verif/tools')
import gen, buildlib, props, check
repo=sys.argv[1]; pid=sys.argv[2]; n=int(sys.argv[3]); seed=int(sys.argv[4]) if len(sys.argv)>4 else 1
exe=buildlib.build(repo, san=False)
spec=props.PROPS[pid]
gens=spec['gens']
bad=0; kinds={}
wd='/var/tmp/mutrun-%d'%os.getpid(); os.makedirs(wd,exist_ok=True)
i=0
tot=0
for (name,g,w) in gens:
    k=max(1,int(n*w))
    for j in range(k):
        rng=random.Random(seed*100003+hash(name)%1000+j)
        txt=g(rng)
        ri,rm=check.run_one(exe,'/verif/ocaml/mmodel',txt,wd,i); i+=1; tot+=1
        ds=check.compare(txt,ri,rm,pid)
        if ds:
            bad+=1
            kinds[name]=kinds.get(name,0)+1
            if bad<=2:
                d=ds[0]; print(name, d.get('kind'), 'line',d.get('line')); print('  impl :',str(d.get('impl',d.get('detail','')))[:300]); print('  model:',str(d.get('model',''))[:300])
print('disagreeing scripts: %d / %d'%(bad,tot), kinds)
import shutil; shutil.rmtree(wd,ignore_errors=True)
