"""Per-property registry: generators, case counts, predicates evaluated on the
implementation's own observations, signatures for known findings."""
import hashlib, re
import gen


def _tab(text):
    m = re.search(r"tab=(\S+)", text)
    return m.group(1).split(",") if m else None


def impl_predicates(pid, lines, iobs):
    """Property predicates on the implementation's own output (independent of
    the model's algorithms).  Returns a list of disagreement dicts."""
    out = []
    if pid == "C19":
        out += term_predicates(lines, iobs)
    names = {}     # edge name -> (table at definition, line)
    for i, ln in enumerate(lines, 1):
        t = ln.split()
        if not t:
            continue
        ob = iobs.get(i)
        if t[0] in ("coll", "minterm", "const", "var", "apply", "unary", "reattach") and ob and not ob.startswith("ERR"):
            tb = _tab(ob)
            if tb is not None:
                names[t[1]] = (tb, i)
        elif t[0] == "show" and ob and not ob.startswith("ERR"):
            # operands never change (C04) / held edges keep their function (C06)
            tb = _tab(ob)
            if t[1] in names and tb is not None and names[t[1]][0] != tb:
                out.append(dict(kind="pred-edge-changed", line=i, edge=t[1],
                                defined_at=names[t[1]][1], before=",".join(names[t[1]][0]),
                                after=",".join(tb)))
        elif t[0] in ("applyinto", "constinto") and ob and not ob.startswith("ERR"):
            names.pop(t[1], None)      # accepted: the edge legitimately holds a new function
        elif t[0] in ("release",):
            names.pop(t[1], None)
        elif t[0] == "reorder":
            names.clear()          # tables are printed in level order: they legitimately change
        elif t[0] in ("copyedge", "assign"):
            if t[2] in names:
                names[t[1]] = names[t[2]]
    return out


def term_predicates(lines, iobs):
    """C19 predicates on the implementation's own codec output"""
    out = []
    W = 1 << 30
    seen = {}    # handle -> rounded pattern (reals)
    for i, ln in enumerate(lines, 1):
        t = ln.split()
        if len(t) < 3 or t[0] != "term":
            continue
        ob = iobs.get(i)
        if ob is None:
            continue
        if t[1] == "int":
            v = int(t[2])
            if -W <= v <= W - 1:
                m = re.match(r"term int h=(-?\d+) back=(-?\d+)", ob)
                ok = bool(m) and int(m.group(2)) == v and int(m.group(1)) <= 0 and \
                    ((int(m.group(1)) == 0) == (v == 0))
                if not ok:
                    out.append(dict(kind="pred-int-codec", line=i, input=v, impl=ob))
            elif ob != "ERR VALUE_OVERFLOW":
                out.append(dict(kind="pred-int-overflow", line=i, input=v, impl=ob))
        elif t[1] == "real":
            b = int(t[2], 16)
            m = re.match(r"term real h=(-?\d+) back=([0-9a-f]+)", ob)
            if not m:
                out.append(dict(kind="pred-real-codec", line=i, input=t[2], impl=ob))
                continue
            h, back = int(m.group(1)), int(m.group(2), 16)
            iszero = (b & 0x7ffffffe) == 0     # +-0.0 after dropping the last mantissa bit
            want = 0 if iszero else (b & 0xfffffffe)
            if back != want or h > 0:
                out.append(dict(kind="pred-real-roundtrip", line=i, input=t[2], impl=ob,
                                expected="%08x" % want))
            # zero is the unique transparent handle: h == 0 iff the decoded value is +-0
            if (h == 0) != ((back & 0x7fffffff) == 0):
                out.append(dict(kind="pred-real-zero-unique", line=i, input=t[2], impl=ob,
                                note="non-zero handle decodes to +-0.0 (or zero handle to non-zero)"))
            if h != 0:
                if h in seen and seen[h] != want:
                    out.append(dict(kind="pred-real-injective", line=i, input=t[2], impl=ob))
                seen[h] = want
    return out


def nontrivial(pid, script, iobs):
    """keys of the distinct non-trivial cases of one script (see 'rule')"""
    keys = set()
    lines = script.splitlines()
    for ln, tx in iobs.items():
        m = re.search(r"dump=(.*)$", tx)
        if m and " n1=" in m.group(1):
            keys.add(hashlib.md5(m.group(1).encode()).hexdigest())
            continue
        if tx.startswith("mm req"):
            m = re.search(r"addr=(\d+) got=(\d+)", tx)
            if m and m.group(1) != "0":
                keys.add("mm:%s:%s:%s" % (lines[1] if len(lines) > 1 else "", m.group(1), m.group(2)))
        elif tx.startswith("term ") and " h=0 " not in tx + " ":
            if 0 < ln <= len(lines):
                keys.add(lines[ln - 1])
        elif tx.startswith(("iter", "getelem", "card", "range", "audit")):
            keys.add(hashlib.md5(tx.encode()).hexdigest())
    return keys


def variants(pid, script, idx):
    """other configurations under which the same script must behave the same"""
    import random as _r
    rng = _r.Random(hash((pid, idx)) & 0xffffffff)
    lines = script.splitlines()
    out = []
    if pid == "C07":
        cfgs = [(st, sr, ms, co) for st in gen.CT_STYLES for sr in gen.CT_STALE
                for ms in (1, 8, 1000000) for co in ("none", "type")]
        chosen = rng.sample(cfgs, 5)
        if "quiet 1" in lines[:3]:
            # heavy history: every table style x stale-removal policy
            chosen = [(st, sr, rng.choice([1000000, 1000000, 4096]), rng.choice(["none", "type"]))
                      for st in gen.CT_STYLES for sr in gen.CT_STALE]
        for st, sr, ms, co in chosen:
            label = "ct=%s stale=%s maxsize=%d compress=%s" % (st, sr, ms, co)
            ls = [("init " + label) if ln.split()[:1] == ["init"] else ln for ln in lines]
            out.append((label, "\n".join(ls) + "\n"))
        # and one run with the caches cleared after every line
        ls = []
        for ln in lines:
            ls.append(ln)
        out.append(("clearct-after-every-line", None))
        out[-1] = ("clearct-everywhere", "\n".join(_interleave_clearct(lines)) + "\n")
    elif pid == "C12":
        combos = [(a, b, c) for a in gen.STOR for b in gen.MMS for c in gen.DELS]
        for a, b, c in rng.sample(combos, 6):
            label = "storage=%s mm=%s del=%s" % (a, b, c)
            ls = []
            for ln in lines:
                t = ln.split()
                if t[:1] == ["forest"]:
                    t = [x for x in t if not x.startswith(("storage=", "mm=", "del="))]
                    ln = " ".join(t + ["storage=" + a, "mm=" + b, "del=" + c])
                ls.append(ln)
            out.append((label, "\n".join(ls) + "\n"))
    return out


def _interleave_clearct(lines):
    # keeps line numbers: a clearct is appended on the same line is not
    # possible, so instead every "show"/"card" line (pure observations) that
    # follows is kept and a clearct replaces nothing: we only turn existing
    # blank lines into clearct -- scripts for C07 are generated with a blank
    # line after every command for this purpose
    return [("clearct" if (ln.strip() == "" and i > 3) else ln) for i, ln in enumerate(lines)]


def signature(pid, script, ds):
    """stable key of a violation for known_findings.json"""
    d = ds[0] if ds else {}
    if pid == "C13" and d.get("kind") == "diff" and str(d.get("model", "")).startswith("audit FAILED"):
        # call-site key: which clause fails after reordering which kind of forest
        clauses = sorted(set(x.split("@")[0] for x in d["model"].split()[2:]))
        lines = script.splitlines()
        ro = [ln.split() for ln in lines if ln.startswith("reorder ")]
        if ro:
            fd = [ln for ln in lines if ln.startswith("forest %s " % ro[-1][1])]
            if fd and " rel " in fd[0] and "swap=var" in fd[0]:
                return "C13:relation-varswap:" + "+".join(clauses)
    core = [ln for ln in script.splitlines() if ln.split() and ln.split()[0] not in ("init",)]
    return "%s:%s:%s" % (pid, d.get("kind", "?"), hashlib.md5("\n".join(core).encode()).hexdigest()[:12])


def extra_checks(pid, tier, seed, exe, workdir):
    fn = EXTRA.get(pid)
    if fn:
        return fn(tier, seed, exe, workdir)
    return {}


EXTRA = {}

HOOK_COMMITS = ["ec0e30b"]
FIX_COMMITS = ["f38d614", "53a1696", "ab48bfa", "c882549", "be58dcf", "e268d80", "a281c03", "d168209", "866ad45", "ff93241", "ff97c81", "1d033aa", "67b591f", "56a0235", "341c413", "4c925f3", "4ee676c", "c7f562b"]

_MODELLED = ("Modelled, not verified: the C++ itself; the theorems are about the Gallina model "
             "(coq/theories/Model), tied to the code only by the correspondence run. ")

PROPS = {
    "C01": dict(
        gens=[("multipath", gen.gen_C01, 0.6), ("ev-repeat", gen.gen_C01_ev, 0.4), ("ir-full-storage", gen.gen_C01_irfull, 0.4), ("build", gen.gen_C03, 0.2), ("setalg", gen.gen_C04, 0.2)],
        quick=60, thorough=600,
        level_text="Proved for every domain, rule (fully/quasi/identity) and pair of diagrams: reduced diagrams "
                   "denoting the same function are identical, and every function has a reduced diagram "
                   "(multi-terminal forests). Tie: the same function built along several API paths must be == "
                   "in the library and have the model's canonical dump.",
        level_note=_MODELLED + "EV+ canonicity is proved for set forests and fully-/quasi-reduced relation "
                   "forests (EvP.ev_canon) and tied by canonical dumps; identity-reduced EV+ relations and EV* "
                   "are compared at table level only; the unique-table/hash mechanism is tied by the audit "
                   "(AuditP.audited_store_canonical) and by correspondence."),
    "C03": dict(
        gens=[("build", gen.gen_C03, 1.0), ("relation-group-mix", gen.gen_C03_relmix, 0.4)], quick=60, thorough=600,
        level_text="Proved: the recursive minterm builder evaluates to the max/min-of-matching-minterms "
                   "specification at every assignment, for every collection, rule and domain, and returns a "
                   "reduced diagram. Tie: tables and canonical dumps of the library's builders vs the model.",
        level_note=_MODELLED + "Builder shortcuts of minterms.cc are not mirrored; EV+ collections are "
                   "compared by table and by the canonical EV+ diagram of the table (EvDD.ev_of_fun, proved to "
                   "evaluate to the table and to be the unique reduced edge); EV* at table level only."),
    "C04": dict(
        gens=[("setalg", gen.gen_C04, 0.6), ("cross", gen.gen_C04_cross, 0.3),
              ("reuse-set", lambda r: gen.gen_reuse(r, "set"), 0.3),
              ("reuse-cross", lambda r: gen.gen_reuse(r, "cross"), 0.4),
              ("reuse-set-ir", lambda r: gen.gen_reuse(r, "set-ir"), 0.2),
              ("two-ir-forests", gen.gen_setops_two_ir, 0.4), ("recycle-cached", gen.gen_recycle_cached, 0.4)], quick=60, thorough=600,
        level_text="Proved: the generic apply recursion is pointwise for any scalar function under any mix of "
                   "operand/result reduction rules, and its result is reduced; two applications with the same pointwise result return the identical "
                   "edge (commutativity, De Morgan, difference-via-complement as corollaries). Tie: tables+dumps of "
                   "UNION/INTERSECTION/DIFFERENCE/COMPLEMENT across forests; operands re-shown unchanged.",
        level_note=_MODELLED + "The library's terminal shortcuts and compute table are not mirrored (C07)."),
    "C05": dict(
        gens=[("arith", gen.gen_C05, 0.8), ("reuse-arith", lambda r: gen.gen_reuse(r, "arith"), 0.4),
              ("evplus", gen.gen_C05_ev, 0.4), ("neutral-mixed-rules", gen.gen_C05_neutral, 0.4),
              ("evstar", gen.gen_evstar, 0.3), ("diagonal-rows-eager", gen.gen_C05_diag, 0.3)],
        quick=60, thorough=600,
        level_text="Proved: element-wise binary/unary operations are pointwise for an arbitrary scalar function "
                   "(instantiated with the catalogue in Model/Scalar.v); algebraic laws hold as edge identities "
                   "(commutative operations, comparison duals, neutral elements). Tie: tables+dumps for "
                   "plus/minus/mult/max/min/distmin/comparisons on integer and real MT forests.",
        level_note=_MODELLED + "IEEE rounding not modelled: real values are exact multiples of 1/2. EV+ "
                   "arithmetic/comparisons (Scalar.ev_scalar2, ev_compare, ev_undefined: +infinity and the three "
                   "documented errors) are applied to tables and the result is compared by table and canonical "
                   "EV+ diagram; EV* not covered."),
    "C10": dict(
        gens=[("copy", gen.gen_C10, 0.8), ("copy-ev", gen.gen_C10_ev, 0.5), ("evstar", gen.gen_evstar, 0.3), ("from-index-set", gen.gen_C10_idx, 0.3), ("evplus-to-boolean", gen.gen_C10_evbool, 0.3)],
        quick=60, thorough=600,
        level_text="Proved: copy is the pointwise scalar conversion and copy-there-and-back is the identity "
                   "when the conversion is invertible on the values taken (via canonicity). Tie: every ordered "
                   "pair of MT forest kinds over the same domain.",
        level_note=_MODELLED + "EV+ sources/targets: conversion applied to tables (Scalar.conv_to_ev / "
                   "conv_from_ev), result compared by table and canonical diagram; EV* not covered."),
}

PROPS["C19"] = dict(
    gens=[("codec", gen.gen_C19, 1.0), ("edge-values", gen.gen_C19_edges, 0.7), ("forest-entry", gen.gen_C19_forest, 0.7)], quick=8, thorough=120, uses_gen=True,
    rule="one script = ~2500 codec queries: boundary integers, all 512 sign/exponent classes with mantissa "
         "corner patterns, denormals, infinities, NaNs, random 32-bit patterns; edge-value scripts; forest-entry "
         "scripts (createConstant with boundary and far-out longs on integer forests); distinct_nontrivial counts "
         "distinct (kind,input) queries whose handle is not 0",
    level_text="Proved over the definitions REGENERATED from src/terminal.h on every run (clang AST -> Gallina): "
               "round trip, injectivity, zero handle, non-positive handles and overflow rejection for all "
               "integers, all 2^32 float patterns and both booleans. Tie: translator + the extracted generated "
               "functions run against terminal::getHandle/setFromHandle on boundary and random values.",
    level_note="Trusted: tools/cxx2v.py and clang's AST dump (cross-checked by the correspondence run); "
               "double->float conversion of rangeval and forest::termprec rounding are outside the codec model; "
               "EV+/EV* edge values are covered through C03-style scripts only.")

PROPS["C18"] = dict(
    gens=[("mmhist", gen.gen_C18, 0.8), ("growing-maximum", gen.gen_C18_growing, 0.6), ("capacity-sized", gen.gen_C18_big, 0.5), ("array-tail", gen.gen_C18_tail, 0.5)], quick=40, thorough=600,
    rule="random request/recycle histories (5 styles x 2 granularities x 5 recycle orders); every live chunk is "
         "filled with a per-chunk sentinel re-checked after every few calls; distinct_nontrivial = distinct "
         "(style, address, size) responses with a non-null address",
    level_text="Proved: every history accepted by the monitor [accept] keeps live chunks pairwise disjoint, "
               "at least as large as requested and at valid addresses, and memory is handed out again only after "
               "a recycle; the deterministic replica of the free-list manager only ever produces responses the "
               "monitor accepts. Tie: the extracted monitor validates every response of all 5 styles x 2 "
               "granularities; the free-list style is replayed by the replica handle by handle; sentinel contents; "
               "histories with growing maximum request.",
    level_note="Modelled, not verified: hole bookkeeping (grid, heap, boundary tags) of array_grid/orig_grid/"
               "heap_manager -- they are validated response by response by the proven-sound monitor, not "
               "replicated; malloc_style relies on libc. 'Contents never altered' is the driver's sentinel check.")

_AUDIT_RULE = ("mixed histories (constructions, apply operations across forests, edge copies/assignments, "
               "releases, cache clears) over MT and EV+ forests with all policies; the extracted audit runs on "
               "the dump of every active node after every few lines; distinct_nontrivial = distinct audit dumps "
               "and distinct canonical diagrams")

PROPS["C02"] = dict(
    gens=[("hist", gen.gen_hist, 1.0), ("node-churn", gen.gen_C02_nodes_mm, 0.3), ("node-tail", gen.gen_C02_tail, 0.4), ("level-arithmetic", gen.gen_levels, 0.1), ("reordered-sizes", gen.gen_C02_reorder, 0.4)], quick=40, thorough=500, rule=_AUDIT_RULE, uses_gen=True,
    level_text="Proved: mk/apply/build/of_fun only ever return diagrams that satisfy the reduction-rule clauses "
               "(reducedb) for all inputs; the store-level clauses are the executable Gallina audit (20 clauses) "
               "run on the implementation's own node dump at every quiescent point of generated histories; the "
               "audit is proved sound (an audited store is reduced and canonical, MT and EV+); the level order it "
               "uses is proved equal to isLevelAbove/downLevel/upLevel/topLevel as regenerated from "
               "src/forest_levels.h and src/defines.h on every run.",
    level_note=_MODELLED + "The audit is evaluated on dumps of the real node store; in-place reordering is "
               "covered by C13's scripts. Soundness of the audit w.r.t. the tree-level predicate: see DESIGN.")
PROPS["C06"] = dict(
    gens=[("hist", gen.gen_hist, 0.8), ("node-level", gen.gen_C06_nodes, 0.5), ("recycle-cached", gen.gen_recycle_cached, 0.6), ("counter-array", gen.gen_counter, 0.3), ("top-handles", gen.gen_C06_tail_handles, 0.4)], quick=40, thorough=500, rule=_AUDIT_RULE,
    level_text="Proved (RefStoreP, OptStoreP, OptStoreHeld): for every history of node creations (unique-table "
               "lookup, which under the optimistic policy may revive an unreferenced node kept by a cache "
               "entry), reference duplications and drops (recursive reclamation) and cache entries added and "
               "removed, under either deletion policy: incoming counts and cache counts are exact; a node is in "
               "the table iff referenced (pessimistic) / iff referenced or mentioned by a cache entry "
               "(optimistic); a handle is free iff both counts are zero; children are in the table and below "
               "their parent (nothing dangles: every diagram unfolds completely); a step never changes the "
               "diagram below an identifier that is still referenced after it (held references keep their "
               "function); no duplicates; the table is empty once no reference and no cache entry is left; the "
               "8/16/32-bit counter array refines unbounded counts. Tie: node-level histories driven through "
               "unpacked nodes / createReducedNode / linkNode / unlinkNode / cacheNode / uncacheNode with the "
               "incoming count and handle of every held node, the cache count and status behind every cache "
               "token and the number of active nodes compared with the model machine after every step (incl. "
               "the handle-reuse discipline); the counter array driven directly; and reference-count clauses "
               "(incoming count = parent references + registered root edges; no unreferenced live node beyond "
               "what the deletion policy allows; nothing live after everything is released and caches cleared; "
               "held edges re-evaluate to the same table) evaluated by the extracted Gallina audit on the "
               "implementation's dump after every few lines, incl. fan-in histories crossing the 8/16-bit "
               "counter widths.",
    level_note=_MODELLED + "Nodes under construction (unpacked nodes hold references the machine does not see) and "
               "mark-and-sweep mode are not modelled; use-after-free in the C++ runtime is outside what a "
               "Gallina model can exhibit (the thorough tier runs every script on an ASan build).")
PROPS["C07"] = dict(
    gens=[("hist", lambda r: gen.gen_hist(r, blank=True), 0.7), ("reuse", gen.gen_reuse, 0.6),
          ("heavy", gen.gen_heavy_ct, 0.2), ("recycle-cached", gen.gen_recycle_cached, 0.4),
          ("top-handles", gen.gen_C06_tail_handles, 0.2)],
    quick=30, thorough=300, rule=_AUDIT_RULE +
    "; every script is re-run under 5 other compute-table configurations (style x stale policy x max size x "
    "compression) and once with the caches cleared after every command: all observations must coincide",
    level_text="Proved: the apply recursion threaded through ANY sound cache with ANY purge policy returns the "
               "cache-free result; and for the mechanism (CTStore machine: handles with generation stamps recycled "
               "only when the node is gone and the cache count is zero, entries, sweeps) cache counts are exact and "
               "an entry that may be returned still names the node generations it was computed for. Tie: results "
               "compared across compute-table configurations and against the cache-free model; cache count = "
               "number of entries (hook vs countAllNodeEntries); cached results across handle recycling.",
    level_note=_MODELLED + "memo_transparent (any sound cache, any eviction) is proved for the generic "
               "memoised recursion in Model/Memo.v when present; key adequacy per operation is by correspondence.")

PROPS["C08"] = dict(
    gens=[("reach", gen.gen_C08, 1.0), ("dist-nested", gen.gen_C08_dist, 1.4), ("recycled-relations", gen.gen_C08_recycle, 0.5)], quick=50, thorough=500,
    level_text="Proved: both breadth-first iterations and the level-wise saturation (nested fixed point) return "
               "exactly the reachable states and terminate; any sequence of single-event firings that ends closed "
               "under every event returns the same set; the distance iterations (forward/backward) return "
               "shortest-path lengths; on diagrams, saturation, frontier and frontier-less iteration build the "
               "identical diagram; the tabulated executable variants equal the specified ones. Tie: "
               "REACHABLE_TRAD_FS / _NOFS / REACHABLE_SATUR, forward and backward, boolean / EV+ / MT-integer "
               "distances, against the model's own frontier iteration / saturation (table + canonical dump) and == "
               "among them.",
    level_note=_MODELLED + "Saturation itself is not mirrored: its result is compared with the proved BFS "
               "result (partial); distance-valued variants not covered yet.")
PROPS["C09"] = dict(
    gens=[("image", gen.gen_C09, 0.8), ("reuse-image", lambda r: gen.gen_reuse(r, "image"), 0.4), ("small-top-skipped", gen.gen_C09_skiptop, 0.4), ("distance-images", gen.gen_C09_dist, 0.5)],
    quick=50, thorough=500,
    level_text="Model = the relational definition (exists x. S(x) and R(x,y); sum_x v(x)M(x,y)) realised as the "
               "canonical diagram of that function (of_fun, proved to evaluate to it and to be reduced). Tie: "
               "POST_IMAGE / PRE_IMAGE / VM_MULTIPLY / MV_MULTIPLY over all relation-forest rules.",
    level_note=_MODELLED + "The image algorithm (prepost_set_mtrel) is not mirrored; distance-valued and EV+ "
               "operands are not covered yet.")
PROPS["C11"] = dict(
    gens=[("enum", gen.gen_C11, 1.0), ("evplus-enum", gen.gen_C11_ev, 0.3)], quick=50, thorough=500,
    level_text="Model = the specification: the non-default entries of the evaluation table that match the mask, "
               "in lexicographic order; cardinality = their number; node/edge counts = distinct sub-diagrams of "
               "the canonical diagram; cardinality obeys inclusion-exclusion, difference and complement laws "
               "of the set algebra (proved). Tie: full visited sequences of dd_edge::iterator with and without masks "
               "(fixed / free / unchanged), CARDINALITY in long/double/mpz, getNodeCount/getEdgeCount.",
    level_note=_MODELLED + "The iterator's cursor state machine is not mirrored (sequence disagreements expose "
               "resumption bugs); long/double overflow of cardinalities not modelled.")
PROPS["C15"] = dict(
    gens=[("index", gen.gen_C15, 1.0), ("huge-product-sets", gen.gen_C15_big, 0.3)], quick=50, thorough=500,
    level_text="Proved: entry i of the index table is None when the set's value there is 0 and otherwise the "
               "number of preceding members; indices are below the member count; looking an index up returns the "
               "member whose table entry is that index, succeeds exactly for 0 <= i < n, and n is the number of "
               "non-zero entries; for product sets of ANY size (P_C15_product.v) the members in lexicographic "
               "order are the mixed-radix numerals, lookup = unrankN, count = prod_countN, rankN inverts "
               "unrankN -- all with binary numbers. Tie: CONVERT_TO_INDEX_SET tables, getElement(-2..n+1), empty "
               "and full sets, non-uniform domains; product sets of up to 2^40 members: stored cardinality of "
               "the root, getElement around 2^31, 2^32, 2^33 and the ends, value at the member found.",
    level_note=_MODELLED + "Huge sets other than "
               "products are out of reach of the tabulating model (their lookups are not checked).")

PROPS["C12"] = dict(
    gens=[("hist", lambda r: gen.gen_hist(r, fanin=False), 0.6), ("reuse", gen.gen_reuse, 0.4),
          ("recycle-cached", gen.gen_recycle_cached, 0.5), ("top-handles", gen.gen_C06_tail_handles, 0.3)],
    quick=30, thorough=300, rule=_AUDIT_RULE +
    "; every script is re-run under 6 other (storage flag, memory manager, deletion policy) combinations: all "
    "observations (tables, canonical dumps, node and edge counts, cardinalities) must coincide",
    level_text="Proved: the packed-node codec returns the written children for every storage flag (so content, "
               "hash and duplicate test are flag-independent); allocator safety for every manager history is "
               "C18; the model itself has no policies, and the library must agree with it under every policy "
               "combination. Tie: each history under 6 sampled policy combinations (of 36) + the model.",
    level_note=_MODELLED + "Independence from the deletion policy is established by correspondence (audit "
               "clauses 10-12 under each policy), not by a theorem.")

PROPS["C20"] = dict(
    gens=[("pregen", gen.gen_C20, 0.7), ("pregen-skipped-levels", gen.gen_C20_skip, 0.5), ("pregen-dense", gen.gen_C20_dense, 0.6), ("pregen-gap", gen.gen_C20_gap, 0.3)], quick=50, thorough=500,
    level_text="Proved: saturation over separately supplied events returns the states reachable under the UNION "
               "of the events, whatever the grouping; it builds the identical diagram as breadth-first "
               "reachability over any diagram of the union. Tie: SATURATION_FORWARD over pregen_relation with "
               "every grouping and splitting option vs the model's saturation over the separate events and == "
               "with the monolithic algorithms on the union relation; initial sets that skip adjacent levels, "
               "levels without events.",
    level_note=_MODELLED + "pregen_relation::finalize/splitMxd and the saturation recursion are not mirrored "
               "(partial): they are compared with the proved BFS result on every generated case.")

PROPS["C13"] = dict(
    gens=[("reorder", gen.gen_C13, 0.7), ("shared-order", gen.gen_C13_shared, 0.4)], quick=50, thorough=500,
    level_text="Proved: the reordered diagram (canonical diagram of the function of the renamed variables) "
               "evaluates to the original function at the permuted assignment and is reduced, for any permutation "
               "and rule; and the adjacent-level swap step (children[j][i] = old children[i][j]) denotes the same "
               "function of the renamed variables. Tie: reorderVariables with all 8 heuristics x 2 swap methods on "
               "forests with several live edges and warm caches; every held edge re-shown (table + canonical dump), "
               "the audit of the reordered forest, and the dumps and variable orders of the other forests of the "
               "domain (including forests that were brought to the same order and so share the order object).",
    level_note=_MODELLED + "The in-place swap algorithms (mtmdd/mtmxd swapAdjacent*) and the scheduling "
               "heuristics are not mirrored: the model recomputes the canonical diagram; EV+ not covered yet.")

PROPS["C14"] = dict(
    gens=[("xfile", gen.gen_C14, 1.0), ("evplus-xfile", gen.gen_C14_ev, 0.3), ("truncated-full-vs-sparse", gen.gen_C14_trunc, 0.4)], quick=50, thorough=500,
    level_text="Proved: writing a list of diagrams as numbered records (bottom-up, shared sub-diagrams written "
               "once, references only to earlier records) and reading the records back returns exactly the "
               "diagrams written, in order. Tie: mdd_writer/mdd_reader round trips into the same forest, a twin "
               "forest with other storage policies and a forest created from the file; every root re-shown "
               "(table + canonical dump), == in the same forest, audit (canonicity and exact counts) of the "
               "receiving forest.",
    level_note=_MODELLED + "Lexing/printing of the text format is glue covered by the round trip itself; real "
               "values are multiples of 1/2 (printed exactly); EV forests not covered yet.")

PROPS["C16"] = dict(
    gens=[("misuse", gen.gen_C16, 1.0), ("variable-order-mismatch", gen.gen_C16_order, 0.4)], quick=50, thorough=500,
    level_text="Proved (PrecheckP): the decision table of binary apply accepts a call iff the three forests are over "
               "one domain, their set/relation shapes fit the operation and they are in the same variable order, "
               "and otherwise names the first violated precondition (DOMAIN_MISMATCH, TYPE_MISMATCH, "
               "INVALID_OPERATION); the scalar cases (zero divisor, terminal window) are proved with C05/C19. "
               "The documented precondition checks of apply (that table, run by the extracted model on every call), the "
               "terminal window (generated codec), division by zero reached by the recursion, exhausted iterators "
               "and detached edges are predicted by the model and must be raised by the library as the documented "
               "error code -- never a crash; after every error all previously obtained edges are re-shown "
               "(unchanged tables and canonical dumps), every forest is audited and new operations are compared "
               "with the model. Theorems: the model's operations are total on well-shaped operands "
               "(C04/C05) and the registry machine detaches exactly (C17).",
    level_note=_MODELLED + "C++ exception unwinding is not modelled (partial): leaked temporary nodes after a "
               "throw are visible only through the audit's count clauses. Known finding: the division shortcuts "
               "(0/g, g/g) skip the zero-divisor check (corpus/C16).")
PROPS["C17"] = dict(
    gens=[("lifecycle", gen.gen_C17, 1.0)], quick=50, thorough=500,
    level_text="Proved about the registry state machine: forest identifiers never decrease and are never reused "
               "within one initialisation; destroying a forest detaches exactly the edges attached to it and "
               "leaves every other forest, edge and domain unchanged. Tie: random create/destroy orders over "
               "several domains and forests with operations spanning them, repeated initialize/cleanup; forest "
               "ids, attached/detached status of every edge, error codes for detached edges, survivors' tables, "
               "dumps and audits.",
    level_note=_MODELLED + "'Never touches freed memory' is a property of the C++ runtime that a Gallina model "
               "cannot exhibit (partial); the thorough tier runs the same scripts under AddressSanitizer.")

NOT_APPLICABLE = {}
for _p in []:
    NOT_APPLICABLE[_p] = "check under construction in this session (model and correspondence stream not registered yet)"
