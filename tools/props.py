"""Per-property registry: generators, case counts, predicates evaluated on the
implementation's own observations, signatures for known findings."""
import hashlib, re
import gen


def _tab(text):
    m = re.search(r"tab=(\S+)", text)
    return m.group(1).split(",") if m else None


def impl_predicates(pid, lines, iobs):
    """Property predicates on the implementation's own output (independent of
    the model's algorithms).  Returns a list of disagreement dicts."""
    out = []
    names = {}     # edge name -> (table at definition, line)
    for i, ln in enumerate(lines, 1):
        t = ln.split()
        if not t:
            continue
        ob = iobs.get(i)
        if t[0] in ("coll", "minterm", "const", "var", "apply", "unary") and ob and not ob.startswith("ERR"):
            tb = _tab(ob)
            if tb is not None:
                names[t[1]] = (tb, i)
        elif t[0] == "show" and ob and not ob.startswith("ERR"):
            # operands never change (C04) / held edges keep their function (C06)
            tb = _tab(ob)
            if t[1] in names and tb is not None and names[t[1]][0] != tb:
                out.append(dict(kind="pred-edge-changed", line=i, edge=t[1],
                                defined_at=names[t[1]][1], before=",".join(names[t[1]][0]),
                                after=",".join(tb)))
        elif t[0] in ("release",):
            names.pop(t[1], None)
        elif t[0] in ("copyedge", "assign"):
            if t[2] in names:
                names[t[1]] = names[t[2]]
    return out


def signature(pid, script, ds):
    """stable key of a violation for known_findings.json"""
    d = ds[0] if ds else {}
    core = [ln for ln in script.splitlines() if ln.split() and ln.split()[0] not in ("init",)]
    return "%s:%s:%s" % (pid, d.get("kind", "?"), hashlib.md5("\n".join(core).encode()).hexdigest()[:12])


def extra_checks(pid, tier, seed, exe, workdir):
    fn = EXTRA.get(pid)
    if fn:
        return fn(tier, seed, exe, workdir)
    return {}


EXTRA = {}

HOOK_COMMITS = ["ec0e30b"]

_MODELLED = ("Modelled, not verified: the C++ itself; the theorems are about the Gallina model "
             "(coq/theories/Model), tied to the code only by the correspondence run. ")

PROPS = {
    "C01": dict(
        gens=[("multipath", gen.gen_C01, 0.6), ("build", gen.gen_C03, 0.2), ("setalg", gen.gen_C04, 0.2)],
        quick=60, thorough=600,
        level_text="Proved for every domain, rule (fully/quasi/identity) and pair of diagrams: reduced diagrams "
                   "denoting the same function are identical, and every function has a reduced diagram "
                   "(multi-terminal forests). Tie: the same function built along several API paths must be == "
                   "in the library and have the model's canonical dump.",
        level_note=_MODELLED + "EV+/EV* canonicity and the unique-table/hash mechanism are tied by "
                   "correspondence only (partial)."),
    "C03": dict(
        gens=[("build", gen.gen_C03, 1.0)], quick=60, thorough=600,
        level_text="Proved: the recursive minterm builder evaluates to the max/min-of-matching-minterms "
                   "specification at every assignment, for every collection, rule and domain, and returns a "
                   "reduced diagram. Tie: tables and canonical dumps of the library's builders vs the model.",
        level_note=_MODELLED + "Builder shortcuts of minterms.cc are not mirrored; EV+/EV* collections are "
                   "compared at table level only."),
    "C04": dict(
        gens=[("setalg", gen.gen_C04, 1.0)], quick=60, thorough=600,
        level_text="Proved: the generic apply recursion is pointwise for any scalar function under any mix of "
                   "operand/result reduction rules, and its result is reduced. Tie: tables+dumps of "
                   "UNION/INTERSECTION/DIFFERENCE/COMPLEMENT across forests; operands re-shown unchanged.",
        level_note=_MODELLED + "The library's terminal shortcuts and compute table are not mirrored (C07)."),
    "C05": dict(
        gens=[("arith", gen.gen_C05, 1.0)], quick=60, thorough=600,
        level_text="Proved: element-wise binary/unary operations are pointwise for an arbitrary scalar function "
                   "(instantiated with the catalogue in Model/Scalar.v). Tie: tables+dumps for "
                   "plus/minus/mult/max/min/distmin/comparisons on integer and real MT forests.",
        level_note=_MODELLED + "IEEE rounding not modelled: real values are exact multiples of 1/2. EV+/EV* "
                   "arithmetic compared at table level."),
    "C10": dict(
        gens=[("copy", gen.gen_C10, 1.0)], quick=60, thorough=600,
        level_text="Proved: copy is the pointwise scalar conversion and copy-there-and-back is the identity "
                   "when the conversion is invertible on the values taken (via canonicity). Tie: every ordered "
                   "pair of MT forest kinds over the same domain.",
        level_note=_MODELLED + "EV targets/sources tied at table level only."),
}

NOT_APPLICABLE = {}
for _p in ["C02", "C06", "C07", "C08", "C09", "C11", "C12", "C13", "C14", "C15", "C16", "C17", "C18", "C19", "C20"]:
    NOT_APPLICABLE[_p] = "check under construction in this session (model and correspondence stream not registered yet)"
