"""Per-property registry: generators, case counts, predicates evaluated on the
implementation's own observations, signatures for known findings."""
import hashlib, re
import gen


def _tab(text):
    m = re.search(r"tab=(\S+)", text)
    return m.group(1).split(",") if m else None


def impl_predicates(pid, lines, iobs):
    """Property predicates on the implementation's own output (independent of
    the model's algorithms).  Returns a list of disagreement dicts."""
    out = []
    if pid == "C19":
        out += term_predicates(lines, iobs)
    names = {}     # edge name -> (table at definition, line)
    for i, ln in enumerate(lines, 1):
        t = ln.split()
        if not t:
            continue
        ob = iobs.get(i)
        if t[0] in ("coll", "minterm", "const", "var", "apply", "unary") and ob and not ob.startswith("ERR"):
            tb = _tab(ob)
            if tb is not None:
                names[t[1]] = (tb, i)
        elif t[0] == "show" and ob and not ob.startswith("ERR"):
            # operands never change (C04) / held edges keep their function (C06)
            tb = _tab(ob)
            if t[1] in names and tb is not None and names[t[1]][0] != tb:
                out.append(dict(kind="pred-edge-changed", line=i, edge=t[1],
                                defined_at=names[t[1]][1], before=",".join(names[t[1]][0]),
                                after=",".join(tb)))
        elif t[0] in ("release",):
            names.pop(t[1], None)
        elif t[0] in ("copyedge", "assign"):
            if t[2] in names:
                names[t[1]] = names[t[2]]
    return out


def term_predicates(lines, iobs):
    """C19 predicates on the implementation's own codec output"""
    out = []
    W = 1 << 30
    seen = {}    # handle -> rounded pattern (reals)
    for i, ln in enumerate(lines, 1):
        t = ln.split()
        if len(t) < 3 or t[0] != "term":
            continue
        ob = iobs.get(i)
        if ob is None:
            continue
        if t[1] == "int":
            v = int(t[2])
            if -W <= v <= W - 1:
                m = re.match(r"term int h=(-?\d+) back=(-?\d+)", ob)
                ok = bool(m) and int(m.group(2)) == v and int(m.group(1)) <= 0 and \
                    ((int(m.group(1)) == 0) == (v == 0))
                if not ok:
                    out.append(dict(kind="pred-int-codec", line=i, input=v, impl=ob))
            elif ob != "ERR VALUE_OVERFLOW":
                out.append(dict(kind="pred-int-overflow", line=i, input=v, impl=ob))
        elif t[1] == "real":
            b = int(t[2], 16)
            m = re.match(r"term real h=(-?\d+) back=([0-9a-f]+)", ob)
            if not m:
                out.append(dict(kind="pred-real-codec", line=i, input=t[2], impl=ob))
                continue
            h, back = int(m.group(1)), int(m.group(2), 16)
            iszero = (b & 0x7ffffffe) == 0     # +-0.0 after dropping the last mantissa bit
            want = 0 if iszero else (b & 0xfffffffe)
            if back != want or h > 0:
                out.append(dict(kind="pred-real-roundtrip", line=i, input=t[2], impl=ob,
                                expected="%08x" % want))
            # zero is the unique transparent handle: h == 0 iff the decoded value is +-0
            if (h == 0) != ((back & 0x7fffffff) == 0):
                out.append(dict(kind="pred-real-zero-unique", line=i, input=t[2], impl=ob,
                                note="non-zero handle decodes to +-0.0 (or zero handle to non-zero)"))
            if h != 0:
                if h in seen and seen[h] != want:
                    out.append(dict(kind="pred-real-injective", line=i, input=t[2], impl=ob))
                seen[h] = want
    return out


def nontrivial(pid, script, iobs):
    """keys of the distinct non-trivial cases of one script (see 'rule')"""
    keys = set()
    lines = script.splitlines()
    for ln, tx in iobs.items():
        m = re.search(r"dump=(.*)$", tx)
        if m and " n1=" in m.group(1):
            keys.add(hashlib.md5(m.group(1).encode()).hexdigest())
            continue
        if tx.startswith("mm req"):
            m = re.search(r"addr=(\d+) got=(\d+)", tx)
            if m and m.group(1) != "0":
                keys.add("mm:%s:%s:%s" % (lines[1] if len(lines) > 1 else "", m.group(1), m.group(2)))
        elif tx.startswith("term ") and " h=0 " not in tx + " ":
            if 0 < ln <= len(lines):
                keys.add(lines[ln - 1])
        elif tx.startswith(("iter", "getelem", "card", "range", "audit")):
            keys.add(hashlib.md5(tx.encode()).hexdigest())
    return keys


def signature(pid, script, ds):
    """stable key of a violation for known_findings.json"""
    d = ds[0] if ds else {}
    core = [ln for ln in script.splitlines() if ln.split() and ln.split()[0] not in ("init",)]
    return "%s:%s:%s" % (pid, d.get("kind", "?"), hashlib.md5("\n".join(core).encode()).hexdigest()[:12])


def extra_checks(pid, tier, seed, exe, workdir):
    fn = EXTRA.get(pid)
    if fn:
        return fn(tier, seed, exe, workdir)
    return {}


EXTRA = {}

HOOK_COMMITS = ["ec0e30b"]
FIX_COMMITS = ["f38d614", "53a1696", "ab48bfa"]

_MODELLED = ("Modelled, not verified: the C++ itself; the theorems are about the Gallina model "
             "(coq/theories/Model), tied to the code only by the correspondence run. ")

PROPS = {
    "C01": dict(
        gens=[("multipath", gen.gen_C01, 0.6), ("build", gen.gen_C03, 0.2), ("setalg", gen.gen_C04, 0.2)],
        quick=60, thorough=600,
        level_text="Proved for every domain, rule (fully/quasi/identity) and pair of diagrams: reduced diagrams "
                   "denoting the same function are identical, and every function has a reduced diagram "
                   "(multi-terminal forests). Tie: the same function built along several API paths must be == "
                   "in the library and have the model's canonical dump.",
        level_note=_MODELLED + "EV+/EV* canonicity and the unique-table/hash mechanism are tied by "
                   "correspondence only (partial)."),
    "C03": dict(
        gens=[("build", gen.gen_C03, 1.0)], quick=60, thorough=600,
        level_text="Proved: the recursive minterm builder evaluates to the max/min-of-matching-minterms "
                   "specification at every assignment, for every collection, rule and domain, and returns a "
                   "reduced diagram. Tie: tables and canonical dumps of the library's builders vs the model.",
        level_note=_MODELLED + "Builder shortcuts of minterms.cc are not mirrored; EV+/EV* collections are "
                   "compared at table level only."),
    "C04": dict(
        gens=[("setalg", gen.gen_C04, 1.0)], quick=60, thorough=600,
        level_text="Proved: the generic apply recursion is pointwise for any scalar function under any mix of "
                   "operand/result reduction rules, and its result is reduced. Tie: tables+dumps of "
                   "UNION/INTERSECTION/DIFFERENCE/COMPLEMENT across forests; operands re-shown unchanged.",
        level_note=_MODELLED + "The library's terminal shortcuts and compute table are not mirrored (C07)."),
    "C05": dict(
        gens=[("arith", gen.gen_C05, 1.0)], quick=60, thorough=600,
        level_text="Proved: element-wise binary/unary operations are pointwise for an arbitrary scalar function "
                   "(instantiated with the catalogue in Model/Scalar.v). Tie: tables+dumps for "
                   "plus/minus/mult/max/min/distmin/comparisons on integer and real MT forests.",
        level_note=_MODELLED + "IEEE rounding not modelled: real values are exact multiples of 1/2. EV+/EV* "
                   "arithmetic compared at table level."),
    "C10": dict(
        gens=[("copy", gen.gen_C10, 1.0)], quick=60, thorough=600,
        level_text="Proved: copy is the pointwise scalar conversion and copy-there-and-back is the identity "
                   "when the conversion is invertible on the values taken (via canonicity). Tie: every ordered "
                   "pair of MT forest kinds over the same domain.",
        level_note=_MODELLED + "EV targets/sources tied at table level only."),
}

PROPS["C19"] = dict(
    gens=[("codec", gen.gen_C19, 1.0)], quick=6, thorough=120, uses_gen=True,
    rule="one script = ~2500 codec queries: boundary integers, all 512 sign/exponent classes with mantissa "
         "corner patterns, denormals, infinities, NaNs, random 32-bit patterns; distinct_nontrivial counts "
         "distinct (kind,input) queries whose handle is not 0",
    level_text="Proved over the definitions REGENERATED from src/terminal.h on every run (clang AST -> Gallina): "
               "round trip, injectivity, zero handle, non-positive handles and overflow rejection for all "
               "integers, all 2^32 float patterns and both booleans. Tie: translator + the extracted generated "
               "functions run against terminal::getHandle/setFromHandle on boundary and random values.",
    level_note="Trusted: tools/cxx2v.py and clang's AST dump (cross-checked by the correspondence run); "
               "double->float conversion of rangeval and forest::termprec rounding are outside the codec model; "
               "EV+/EV* edge values are covered through C03-style scripts only.")

PROPS["C18"] = dict(
    gens=[("mmhist", gen.gen_C18, 1.0)], quick=40, thorough=600,
    rule="random request/recycle histories (5 styles x 2 granularities x 5 recycle orders); every live chunk is "
         "filled with a per-chunk sentinel re-checked after every few calls; distinct_nontrivial = distinct "
         "(style, address, size) responses with a non-null address",
    level_text="Proved: every history accepted by the monitor [accept] keeps live chunks pairwise disjoint, "
               "inside the arena and at least as large as requested, and hands memory out again only after a "
               "covering recycle (for any number of events). Tie: the extracted monitor validates every "
               "response of all five manager styles; the free-list style is additionally replayed by a "
               "deterministic replica whose addresses must match; sentinel integrity is checked in the driver.",
    level_note="Modelled, not verified: hole bookkeeping (grid, heap, boundary tags) of array_grid/orig_grid/"
               "heap_manager -- they are validated response by response by the proven-sound monitor, not "
               "replicated; malloc_style relies on libc. 'Contents never altered' is the driver's sentinel check.")

NOT_APPLICABLE = {}
for _p in ["C02", "C06", "C07", "C08", "C09", "C11", "C12", "C13", "C14", "C15", "C16", "C17", "C20"]:
    NOT_APPLICABLE[_p] = "check under construction in this session (model and correspondence stream not registered yet)"
