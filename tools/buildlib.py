#!/usr/bin/env python3
"""Build libmeddly objects + the C++ driver from /repo's *current working tree*.

The source list is parsed from /repo/src/Makefile.am (libmeddly_la_SOURCES).
Objects are cached per translation unit, keyed by the sha256 of the compiler
flags, the .cc file and *all* headers under /repo/src (a header edit rebuilds
everything, a .cc edit rebuilds that file only).  The cache lives outside /repo
and /verif (default /var/tmp/meddly-verif-cache); it is only a cache: when it
is missing everything is rebuilt (about 30 s on 16 cores).

Usage:  buildlib.py [--san] [--repo /repo]  -> prints the path of the driver
"""
import hashlib, os, re, subprocess, sys, shutil, time
from concurrent.futures import ThreadPoolExecutor

VERIF = os.path.dirname(os.path.dirname(os.path.abspath(__file__)))
CACHE = os.environ.get("VERIF_CACHE", "/var/tmp/meddly-verif-cache")
GUARD = "MEDDLY_VERIF_HOOKS"


def sources(repo):
    txt = open(os.path.join(repo, "src", "Makefile.am")).read()
    txt = txt.replace("\\\n", " ")
    m = re.search(r"libmeddly_la_SOURCES\s*=\s*(.*)", txt)
    if not m:
        raise SystemExit("cannot find libmeddly_la_SOURCES")
    return [t for t in m.group(1).split() if t.endswith(".cc")]


def sha(*chunks):
    h = hashlib.sha256()
    for c in chunks:
        h.update(c if isinstance(c, bytes) else c.encode())
        h.update(b"\0")
    return h.hexdigest()


def headers_digest(repo):
    hs = []
    for root, _, files in os.walk(os.path.join(repo, "src")):
        for f in files:
            if f.endswith(".h") or f.endswith(".hh"):
                hs.append(os.path.join(root, f))
    hs.append(os.path.join(repo, "config.h"))
    h = hashlib.sha256()
    for p in sorted(hs):
        if os.path.exists(p):
            h.update(p.encode())
            h.update(open(p, "rb").read())
    return h.hexdigest()


def ensure_config_h(repo):
    p = os.path.join(repo, "config.h")
    if not os.path.exists(p):
        # fresh checkout without ./configure: the library only needs these
        with open(p, "w") as f:
            f.write('#define HAVE_LIBGMP 1\n#define PACKAGE_VERSION "0.18"\n'
                    '#define VERSION "0.18"\n#define PACKAGE_STRING "meddly"\n')


def build(repo="/repo", san=False, quiet=True):
    ensure_config_h(repo)
    flags = ["-std=c++11", "-O1", "-g0", "-DHAVE_CONFIG_H", "-D" + GUARD,
             "-I" + repo, "-I" + os.path.join(repo, "src")]
    if os.environ.get("VERIF_DEBUG_BUILD"):
        flags[1:3] = ["-O0", "-g"]
    if os.environ.get("VERIF_DEVCODE"):
        flags.append("-DDEVELOPMENT_CODE")
    if san:
        # AddressSanitizer plus the UBSan checks that are not pervasive, benign idioms of
        # this code base (left shifts of negative handles in terminal.h, unaligned long
        # loads of edge values in packed node storage)
        flags += ["-g", "-fsanitize=address,undefined", "-fno-sanitize=shift,alignment",
                  "-fno-sanitize-recover=undefined", "-fno-omit-frame-pointer"]
    hd = headers_digest(repo)
    fl = " ".join(flags)
    os.makedirs(os.path.join(CACHE, "obj"), exist_ok=True)
    srcs = sources(repo)
    jobs = []
    objs = []
    for s in srcs:
        p = os.path.join(repo, "src", s)
        key = sha(fl, hd, s, open(p, "rb").read())
        o = os.path.join(CACHE, "obj", key + ".o")
        objs.append(o)
        if not os.path.exists(o):
            jobs.append((p, o))

    def cc(job):
        p, o = job
        tmp = o + ".tmp%d" % os.getpid()
        r = subprocess.run(["g++"] + flags + ["-c", p, "-o", tmp],
                           capture_output=True, text=True)
        if r.returncode != 0:
            return p + "\n" + r.stderr
        os.replace(tmp, o)
        return None

    t0 = time.time()
    with ThreadPoolExecutor(max_workers=16) as ex:
        errs = [e for e in ex.map(cc, jobs) if e]
    if errs:
        sys.stderr.write("BUILD FAILED\n" + "\n".join(errs)[:8000] + "\n")
        raise SystemExit(3)
    # driver
    # (VERIF_HARNESS_SRC: try out an edited driver without touching the one the checks use)
    drv_src = os.environ.get("VERIF_HARNESS_SRC") or os.path.join(VERIF, "harness", "mdriver.cc")
    dkey = sha(fl, hd, open(drv_src, "rb").read(), *sorted(objs))
    os.makedirs(os.path.join(CACHE, "bin"), exist_ok=True)
    exe = os.path.join(CACHE, "bin", "mdriver-" + dkey[:24])
    if not os.path.exists(exe):
        tmp = exe + ".tmp%d" % os.getpid()
        r = subprocess.run(["g++"] + flags + [drv_src] + objs +
                           ["-lgmp", "-o", tmp], capture_output=True, text=True)
        if r.returncode != 0:
            sys.stderr.write("DRIVER BUILD FAILED\n" + r.stderr[:8000] + "\n")
            raise SystemExit(3)
        os.replace(tmp, exe)
    prune()
    if not quiet:
        sys.stderr.write("built %d objects in %.1fs\n" % (len(jobs), time.time() - t0))
    return exe


def prune(max_bytes=3 << 30):
    """Keep the cache below max_bytes (oldest first)."""
    ents = []
    for sub in ("obj", "bin"):
        d = os.path.join(CACHE, sub)
        if not os.path.isdir(d):
            continue
        for f in os.listdir(d):
            p = os.path.join(d, f)
            try:
                st = os.stat(p)
                ents.append((st.st_atime, st.st_size, p))
            except OSError:
                pass
    tot = sum(e[1] for e in ents)
    for _, sz, p in sorted(ents):
        if tot <= max_bytes:
            break
        try:
            os.remove(p)
            tot -= sz
        except OSError:
            pass


if __name__ == "__main__":
    san = "--san" in sys.argv
    repo = "/repo"
    if "--repo" in sys.argv:
        repo = sys.argv[sys.argv.index("--repo") + 1]
    print(build(repo, san, quiet=False))
