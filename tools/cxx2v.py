#!/usr/bin/env python3
"""cxx2v: translate small, pure, integer leaf functions of /repo's headers to
Gallina (coq/theories/Gen/*.v), from clang's JSON AST.

Covered subset: integer/bool expressions (literals, casts, + - * | & ^ << >>,
comparisons, && || !), sizeof, calls of other translated static functions,
members of the enclosing class (become parameters), if/else, return, throw
error(CODE), one local union used for int<->float punning, and a
switch(mytype=t) whose cases become separate definitions.
Anything outside the subset raises Unsupported and the tool exits 4 with
"translation-unavailable <fn>".

Every C++ operation whose result type has a fixed width is followed by an
explicit wrap (cast_int / cast_long / ...) from Model/Bits.v.
"""
import json
import re, os, subprocess, sys, hashlib

VERIF = os.path.dirname(os.path.dirname(os.path.abspath(__file__)))
REPO = os.environ.get("VERIF_REPO", "/repo")
OUTDIR = os.path.join(VERIF, "coq", "theories", "Gen")

SIZEOF = {"MEDDLY::node_handle": 4, "node_handle": 4, "int": 4, "float": 4, "double": 8,
          "long": 8, "unsigned int": 4, "unsigned long": 8}


class Unsupported(Exception):
    pass


def clang_ast(header, name):
    src = "/var/tmp/cxx2v-%d.cc" % os.getpid()
    with open(src, "w") as f:
        f.write('#include "%s"\n' % header)
    try:
        r = subprocess.run(
            ["clang++", "-std=c++11", "-DHAVE_CONFIG_H", "-I" + REPO, "-I" + os.path.join(REPO, "src"),
             "-fsyntax-only", "-Xclang", "-ast-dump=json", "-Xclang", "-ast-dump-filter=" + name, src],
            capture_output=True, text=True)
    finally:
        os.remove(src)
    txt = r.stdout
    dec = json.JSONDecoder()
    i, objs = 0, []
    while i < len(txt):
        while i < len(txt) and txt[i].isspace():
            i += 1
        if i >= len(txt):
            break
        o, i = dec.raw_decode(txt, i)
        objs.append(o)
    return objs


def qt(n):
    t = n.get("type", {}).get("qualType", "")
    return t.replace("const ", "").strip()


def cast_for(t):
    t = t.replace("MEDDLY::", "")
    if t in ("int", "node_handle"):
        return "cast_int"
    if t == "long":
        return "cast_long"
    if t == "unsigned int":
        return "cast_uint"
    if t in ("unsigned long", "size_t"):
        return "cast_ulong"
    raise Unsupported("cast to " + t)


def is_float(t):
    return t.replace("MEDDLY::", "") in ("float", "double")


class Fn:
    """translation context of one function"""

    def __init__(self, name):
        self.name = name
        self.params = []      # member / parameter names used
        self.locals = {}      # union variable -> current Gallina name
        self.scalars = {}     # local scalar variable -> (Gallina name, kind)

    def use(self, nm):
        if nm not in self.params:
            self.params.append(nm)
        return nm

    # ---- expressions: return (gallina, kind) with kind in {"Z","bool","bits"}
    def expr(self, n):
        k = n["kind"]
        if k in ("ParenExpr", "ExprWithCleanups", "ConstantExpr", "MaterializeTemporaryExpr"):
            return self.expr(n["inner"][0])
        if k == "IntegerLiteral":
            return ("(%s)" % n["value"], "Z")
        if k == "CXXBoolLiteralExpr":
            return ("true" if n["value"] else "false", "bool")
        if k == "UnaryExprOrTypeTraitExpr":
            if n.get("name") != "sizeof":
                raise Unsupported("trait " + str(n.get("name")))
            t = n.get("argType", {}).get("qualType")
            if t is None and n.get("inner"):
                t = qt(n["inner"][0])
            t = (t or "").replace("const ", "")
            if t not in SIZEOF:
                raise Unsupported("sizeof " + str(t))
            return ("(%d)" % SIZEOF[t], "Z")
        if k == "ImplicitCastExpr" or k == "CStyleCastExpr" or k == "CXXFunctionalCastExpr" \
                or k == "CXXStaticCastExpr":
            ck = n.get("castKind")
            e, ek = self.expr(n["inner"][0])
            if ck in ("LValueToRValue", "NoOp", "FunctionToPointerDecay"):
                return (e, ek)
            if ck == "IntegralCast":
                if ek == "bool":
                    e = "(if %s then 1 else 0)" % e
                return ("(%s %s)" % (cast_for(qt(n)), e), "Z")
            if ck == "IntegralToBoolean":
                return ("(int_nonzero %s)" % e, "bool")
            if ck == "FloatingToBoolean":
                return ("(float_nonzero %s)" % e, "bool")
            if ck == "FloatingCast":
                # float <-> double of the same stored value: pattern kept
                return (e, ek)
            raise Unsupported("castKind " + str(ck))
        if k == "CXXThisExpr":
            return ("this", "this")
        if k == "MemberExpr":
            base = n["inner"][0]
            nm = n.get("name", "")
            # member of local union variable?
            if base["kind"] == "DeclRefExpr" and base["referencedDecl"]["name"] in self.locals:
                v = self.locals[base["referencedDecl"]["name"]]
                if v is None:
                    raise Unsupported("union read before write")
                if is_float(qt(n)):
                    return (v, "bits")
                return ("(int_of_bits %s)" % v, "Z")
            # (possibly anonymous-union) member of *this
            b = base
            while b["kind"] == "MemberExpr":
                b = b["inner"][0]
            if b["kind"] == "CXXThisExpr":
                return (self.use(nm), "bits" if is_float(qt(n)) else "Z")
            raise Unsupported("member of non-this")
        if k == "DeclRefExpr":
            nm = n["referencedDecl"]["name"]
            if n["referencedDecl"]["kind"] == "ParmVarDecl":
                return (self.use(nm), "bits" if is_float(qt(n)) else "Z")
            if n["referencedDecl"]["kind"] == "EnumConstantDecl":
                return ("\"%s\"" % nm, "enum")
            if n["referencedDecl"]["kind"] == "VarDecl" and nm in self.scalars:
                return self.scalars[nm]
            return (nm, "fun")
        if k == "CallExpr" or k == "CXXMemberCallExpr":
            callee = n["inner"][0]
            while callee["kind"] in ("ImplicitCastExpr",):
                callee = callee["inner"][0]
            if callee["kind"] == "DeclRefExpr":
                nm = callee["referencedDecl"]["name"]
            elif callee["kind"] == "MemberExpr":
                nm = callee["name"]
            else:
                raise Unsupported("callee " + callee["kind"])
            if len(n["inner"]) != 1:
                if not self.allow_calls:
                    raise Unsupported("call with arguments: " + nm)
                args = []
                for a in n["inner"][1:]:
                    e, ek = self.expr(a)
                    if ek == "bool":
                        e = "(if %s then 1 else 0)" % e
                    args.append(e)
                CALLS.add(nm)
                return ("(val (%s%s %s))" % (self.prefix_for(nm), nm, " ".join(args)), "Z")
            DEPS.add(nm)
            return (nm, "Z")
        if k == "UnaryOperator":
            e, ek = self.expr(n["inner"][0])
            op = n["opcode"]
            if op == "!":
                return ("(negb %s)" % self.as_bool(e, ek), "bool")
            if op == "-":
                return ("(%s (- %s))" % (cast_for(qt(n)), e), "Z")
            if op == "~":
                return ("(%s (Z.lnot %s))" % (cast_for(qt(n)), e), "Z")
            raise Unsupported("unary " + op)
        if k == "BinaryOperator":
            op = n["opcode"]
            a, ak = self.expr(n["inner"][0])
            b, bk = self.expr(n["inner"][1])
            if op in ("||", "&&"):
                f = "orb" if op == "||" else "andb"
                return ("(%s %s %s)" % (f, self.as_bool(a, ak), self.as_bool(b, bk)), "bool")
            if op in ("<", ">", "<=", ">=", "==", "!="):
                m = {"<": "Z.ltb", ">": "Z.gtb", "<=": "Z.leb", ">=": "Z.geb", "==": "Z.eqb"}
                if op == "!=":
                    return ("(negb (Z.eqb %s %s))" % (a, b), "bool")
                return ("(%s %s %s)" % (m[op], a, b), "bool")
            m = {"+": "Z.add", "-": "Z.sub", "*": "Z.mul", "|": "Z.lor", "&": "Z.land", "^": "Z.lxor",
                 "<<": "Z.shiftl", ">>": "Z.shiftr"}
            if op in m:
                if ak == "bool":
                    a = "(if %s then 1 else 0)" % a
                if bk == "bool":
                    b = "(if %s then 1 else 0)" % b
                return ("(%s (%s %s %s))" % (cast_for(qt(n)), m[op], a, b), "Z")
            raise Unsupported("binary " + op)
        if k == "ConditionalOperator":
            c, ck = self.expr(n["inner"][0])
            a, ak = self.expr(n["inner"][1])
            b, bk = self.expr(n["inner"][2])
            return ("(if %s then %s else %s)" % (self.as_bool(c, ck), a, b), ak)
        raise Unsupported("expr kind " + k)

    def as_bool(self, e, k):
        if k == "bool":
            return e
        if k == "bits":
            return "(float_nonzero %s)" % e
        return "(int_nonzero %s)" % e

    # ---- statements: translate a list; returns Gallina of type res
    def stmts(self, ss, out_member=None):
        if not ss:
            if out_member and self.assigned.get(out_member) is not None:
                return "(Ok %s)" % self.assigned[out_member]
            raise Unsupported("fell off the end of " + self.name)
        s, rest = ss[0], ss[1:]
        k = s["kind"]
        if k == "NullStmt":
            return self.stmts(rest, out_member)
        if k == "CompoundStmt":
            return self.stmts(s.get("inner", []) + rest, out_member)
        if k == "IfStmt":
            inner = s["inner"]
            c, ck = self.expr(inner[0])
            c = self.as_bool(c, ck)
            saved = (dict(self.locals), dict(self.assigned), dict(self.scalars))
            th = self.stmts([inner[1]] + rest, out_member)
            self.locals, self.assigned, self.scalars = dict(saved[0]), dict(saved[1]), dict(saved[2])
            el = self.stmts(([inner[2]] if len(inner) > 2 else []) + rest, out_member)
            self.locals, self.assigned, self.scalars = saved
            return "(if %s\n   then %s\n   else %s)" % (c, th, el)
        if k == "ReturnStmt":
            if not s.get("inner"):
                if out_member and self.assigned.get(out_member) is not None:
                    return "(Ok %s)" % self.assigned[out_member]
                raise Unsupported("void return without assignment")
            e, ek = self.expr(s["inner"][0])
            if ek == "bool":
                e = "(if %s then 1 else 0)" % e
            return "(Ok %s)" % e
        if k == "ExprWithCleanups" or k == "CXXThrowExpr":
            t = s
            while t["kind"] != "CXXThrowExpr":
                if not t.get("inner"):
                    raise Unsupported("cleanup without throw")
                t = t["inner"][0]
            code = find_enum(t)
            return "(Err \"%s\")" % code
        if k == "DeclStmt":
            for d in s["inner"]:
                if d["kind"] == "VarDecl" and d.get("init") and d.get("inner") \
                        and d["inner"][-1]["kind"] != "CXXConstructExpr":
                    # local with initialiser: let-binding
                    e, ek = self.expr(d["inner"][-1])
                    if ek == "bool":
                        e = "(if %s then 1 else 0)" % e
                    fresh = "%s%d" % (d["name"], self.counter())
                    self.scalars[d["name"]] = (fresh, ek if ek != "bool" else "Z")
                    return "(let %s := %s in\n   %s)" % (fresh, e, self.stmts(rest, out_member))
                elif d["kind"] == "VarDecl":
                    self.locals[d["name"]] = None
                elif d["kind"] in ("CXXRecordDecl",):
                    pass
                else:
                    raise Unsupported("decl " + d["kind"])
            return self.stmts(rest, out_member)
        if k == "BinaryOperator" and s["opcode"] == "=":
            lhs, rhs = s["inner"]
            e, ek = self.expr(rhs)
            if lhs["kind"] == "MemberExpr":
                base = lhs["inner"][0]
                if base["kind"] == "DeclRefExpr" and base["referencedDecl"]["name"] in self.locals:
                    var = base["referencedDecl"]["name"]
                    fresh = "%s%d" % (var, self.counter())
                    self.locals[var] = fresh
                    val = e if (is_float(qt(lhs)) and ek == "bits") else "(bits_of_int %s)" % e
                    return "(let %s := %s in\n   %s)" % (fresh, val, self.stmts(rest, out_member))
                b = base
                while b["kind"] == "MemberExpr":
                    b = b["inner"][0]
                if b["kind"] == "CXXThisExpr":
                    if ek == "bool":
                        e = "(if %s then 1 else 0)" % e
                    self.assigned[lhs["name"]] = e
                    return self.stmts(rest, out_member)
            raise Unsupported("assignment target")
        if k == "CallExpr":
            # FAIL(...) etc.: not reachable in the translated cases
            raise Unsupported("call statement")
        raise Unsupported("stmt kind " + k)

    _n = 0

    def counter(self):
        Fn._n += 1
        return Fn._n

    assigned = {}
    allow_calls = False
    prefixes = {}

    def prefix_for(self, nm):
        return self.prefixes.get(nm, "")


def find_enum(n):
    if n.get("kind") == "DeclRefExpr" and n.get("referencedDecl", {}).get("kind") == "EnumConstantDecl":
        return n["referencedDecl"]["name"]
    for c in n.get("inner", []):
        r = find_enum(c)
        if r:
            return r
    return None


DEPS = set()
CALLS = set()


def body_of(decl):
    for c in decl.get("inner", []):
        if c["kind"] == "CompoundStmt":
            return c
    raise Unsupported("no body")


def translate_fn(header, cls, name, out_member=None):
    objs = [o for o in clang_ast(header, name) if o.get("name") == name and o["kind"] in
            ("CXXMethodDecl", "FunctionDecl")]
    objs = [o for o in objs if any(c["kind"] == "CompoundStmt" for c in o.get("inner", []))]
    if not objs:
        raise Unsupported("not found: " + name)
    d = objs[0]
    f = Fn(name)
    f.assigned = {}
    g = f.stmts([body_of(d)], out_member)
    return f, g


def find_decls(o, name, out):
    if o.get("name") == name and o.get("kind") in ("CXXMethodDecl", "FunctionDecl") \
            and any(c["kind"] == "CompoundStmt" for c in o.get("inner", [])):
        out.append(o)
    for c in o.get("inner", []):
        if isinstance(c, dict):
            find_decls(c, name, out)


def translate_fn_ordered(header, qualified, prefixes):
    """a free or static function over ints: parameters in declaration order; calls of
    other translated functions allowed.  For a template, the int instantiation is taken."""
    name = qualified.split("::")[-1]
    cands = []
    for o in clang_ast(header, qualified):
        find_decls(o, name, cands)
    cands = [o for o in cands if re.match(r"^(int|bool|_Bool) \((int(, int)*)?\)$", qt(o))]
    if len(cands) != 1:
        raise Unsupported("%d candidates for %s" % (len(cands), qualified))
    d = cands[0]
    f = Fn(name)
    f.assigned = {}
    f.allow_calls = True
    f.prefixes = prefixes
    f.params = [c["name"] for c in d["inner"] if c["kind"] == "ParmVarDecl"]
    declared = list(f.params)
    g = f.stmts([body_of(d)], None)
    if f.params != declared:
        raise Unsupported("free name in " + qualified)
    return f, g


def translate_switch_cases(header, name, wanted):
    """setFromHandle: one definition per case label in `wanted`
    (label -> member assigned)"""
    objs = [o for o in clang_ast(header, name) if o.get("name") == name]
    d = [o for o in objs if any(c["kind"] == "CompoundStmt" for c in o.get("inner", []))][0]
    body = body_of(d)
    sw = [c for c in body["inner"] if c["kind"] == "SwitchStmt"]
    if not sw:
        raise Unsupported("no switch in " + name)
    comp = [c for c in sw[0]["inner"] if c["kind"] == "CompoundStmt"][0]
    # flatten: CaseStmt nodes contain their first statement
    out = {}
    items = comp["inner"]
    i = 0
    cur = None
    acc = {}
    for it in items:
        if it["kind"] in ("CaseStmt", "DefaultStmt"):
            lab = find_enum(it["inner"][0]) if it["kind"] == "CaseStmt" else "default"
            cur = lab
            acc[cur] = []
            sub = it["inner"][-1]
            acc[cur].append(sub)
        elif cur is not None:
            acc[cur].append(it)
    for lab, member in wanted.items():
        if lab not in acc:
            raise Unsupported("case " + lab)
        f = Fn(name + "_" + lab)
        f.assigned = {}
        g = f.stmts(acc[lab], member)
        out[lab] = (f, g)
    return out


def emit_def(name, params, body, const=False):
    if const:
        return "Definition %s : res :=\n  %s.\n" % (name, body)
    ps = " ".join("(%s : Z)" % p for p in params)
    return "Definition %s %s : res :=\n  %s.\n" % (name, ps, body)


def gen_terminal():
    hdr = "terminal.h"
    parts = ["(* GENERATED by tools/cxx2v.py from %s/src/terminal.h -- do not edit. *)" % REPO,
             "From Coq Require Import ZArith Bool String.",
             "From Meddly Require Import Model.Bits.",
             "Local Open Scope Z_scope.", "Local Open Scope string_scope.", ""]
    # constants (static, no parameters): defined as Z by forcing the result
    for nm in ("intMin", "intMax", "msb"):
        f, g = translate_fn(hdr, "terminal", nm)
        if f.params:
            raise Unsupported(nm + " has parameters")
        parts.append("Definition %s_res : res :=\n  %s.\n" % (nm, g))
        parts.append("Definition %s : Z := match %s_res with Ok v => v | Err _ => 0 end.\n" % (nm, nm))
    for nm in ("getIntegerHandle", "getRealHandle"):
        f, g = translate_fn(hdr, "terminal", nm)
        parts.append(emit_def(nm, f.params, g))
    cases = translate_switch_cases(hdr, "setFromHandle",
                                   {"BOOLEAN": "t_boolean", "INTEGER": "t_integer", "REAL": "t_real"})
    for lab, (f, g) in cases.items():
        params = [p for p in f.params if p != "t"]
        parts.append(emit_def("setFromHandle_" + lab, params, g))
    # boolean handle: the BOOLEAN case of getHandle is "t_boolean ? -1 : 0"
    return "\n".join(parts)


LEVEL_FNS = [
    # (qualified C++ name, Gallina name); callees first
    ("MEDDLY::ABS", "ABS"),
    ("MEDDLY::MAX", "MAX"),
    ("MEDDLY::isLevelAbove", "isLevelAbove"),
    ("MEDDLY::MDD_levels::downLevel", "MDD_downLevel"),
    ("MEDDLY::MDD_levels::upLevel", "MDD_upLevel"),
    ("MEDDLY::MDD_levels::topLevel", "MDD_topLevel"),
    ("MEDDLY::MXD_levels::downLevel", "MXD_downLevel"),
    ("MEDDLY::MXD_levels::upLevel", "MXD_upLevel"),
    ("MEDDLY::MXD_levels::topLevel", "MXD_topLevel"),
    ("MEDDLY::MXD_levels::topUnprimed", "MXD_topUnprimed"),
    ("MEDDLY::MXD_levels::unprimedOfLevel", "MXD_unprimedOfLevel"),
    ("MEDDLY::MXD_levels::primedOfLevel", "MXD_primedOfLevel"),
]


def gen_levels():
    parts = ["(* GENERATED by tools/cxx2v.py from %s/src/forest_levels.h and src/defines.h"
             " -- do not edit. *)" % REPO,
             "From Coq Require Import ZArith Bool String.",
             "From Meddly Require Import Model.Bits.",
             "Local Open Scope Z_scope.", "Local Open Scope string_scope.", "",
             "Definition val (r : res) : Z := match r with Ok v => v | Err _ => 0 end.", ""]
    done = set()
    for q, gname in LEVEL_FNS:
        CALLS.clear()
        f, g = translate_fn_ordered("forest_levels.h", q, {})
        for c in CALLS:
            if c not in done:
                raise Unsupported("%s calls %s, which is not translated" % (q, c))
        if "(Err" in g:
            # callers read results through [val]: only sound for functions that cannot throw
            raise Unsupported(q + " can throw")
        parts.append(emit_def(gname, f.params, g))
        if "::" not in q.replace("MEDDLY::", "", 1):
            done.add(gname)
    return "\n".join(parts)


def write_if_changed(fname, txt):
    p = os.path.join(OUTDIR, fname)
    old = open(p).read() if os.path.exists(p) else None
    if old != txt:
        with open(p, "w") as f:
            f.write(txt)
    print("Gen/%s sha256" % fname, hashlib.sha256(txt.encode()).hexdigest()[:16],
          "(changed)" if old != txt else "(unchanged)")


def main():
    os.makedirs(OUTDIR, exist_ok=True)
    try:
        txt = gen_terminal()
        lev = gen_levels()
    except Unsupported as e:
        print("translation-unavailable", e)
        return 4
    write_if_changed("Terminal.v", txt)
    write_if_changed("Levels.v", lev)
    return 0


if __name__ == "__main__":
    sys.exit(main())
