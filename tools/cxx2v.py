#!/usr/bin/env python3
"""Translator from /repo's leaf C++ to Gallina (Gen/*.v).  (filled in with the
C19 work; until then a no-op that succeeds)"""
import sys
sys.exit(0)
