#!/usr/bin/env python3
"""Regenerates MANIFEST.json from the property registry (tools/props.py)."""
import json, os, sys
sys.path.insert(0, os.path.dirname(os.path.abspath(__file__)))
import props

VERIF = os.path.dirname(os.path.dirname(os.path.abspath(__file__)))
checks = []
for pid in sorted(props.PROPS):
    sp = props.PROPS[pid]
    checks.append(dict(
        property_id=pid,
        quick_cmd="python3 tools/check.py %s --tier quick" % pid,
        thorough_cmd="python3 tools/check.py %s --tier thorough" % pid,
        evidence_file="evidence/%s.json" % pid,
        replay_cmd_template="python3 tools/check.py %s --replay {path}" % pid,
        engine="coq-model+correspondence",
        level_claimed=dict(category="proof", text=sp["level_text"], design_ref=sp.get("design_ref", "DESIGN.md section 4, " + pid)),
        level_note=sp["level_note"],
        technique=sp.get("technique", "Coq theorems over an executable Gallina model + differential correspondence of the extracted model against the library"),
    ))
na = [dict(property_id=p, reason=r) for p, r in sorted(props.NOT_APPLICABLE.items())]
m = dict(
    version=1,
    setup_cmd="python3 tools/cxx2v.py && cd coq && coq_makefile -f _CoqProject -o Makefile && make -j16 && cd .. && ./ocaml/build.sh && python3 tools/buildlib.py",
    hooks=dict(guard="MEDDLY_VERIF_HOOKS",
               enable="tools/buildlib.py compiles the sources listed in /repo/src/Makefile.am with -DMEDDLY_VERIF_HOOKS into a cache outside /repo",
               baseline_off_cmd="make -C /repo -k check",
               source_commits=props.HOOK_COMMITS, add_only=True),
    engines=[dict(name="coq-model+correspondence", path="tools/check.py",
                  serves_properties=sorted(props.PROPS),
                  kind_free_text="Coq 8.16 development (coq/), extracted OCaml model (ocaml/), C++ script driver (harness/), generators and orchestrator (tools/)")],
    checks=checks,
    not_applicable=na,
    notes="Every check rebuilds the library from /repo's working tree (object cache keyed by content hashes), re-checks the Coq development, re-extracts the model and runs the correspondence. See DESIGN.md.",
)
json.dump(m, open(os.path.join(VERIF, "MANIFEST.json"), "w"), indent=1)
print("wrote MANIFEST.json with", len(checks), "checks;", len(na), "not applicable")
