#!/bin/bash
# usage: confirm_seed.sh <worktree> <seed-name>
# Independently confirms a seeded change delivered in <worktree>/deliver:
#  with the change: library builds, demo fails, `make -k check` = 121 PASS;
#  without it: demo passes.  Then stores it under /verif/seeded/<seed-name>/.
set -u
wt=$1; name=$2
cd "$wt" || exit 2
out=/verif/seeded/$name
mkdir -p "$out"
log=$out/confirm.log
: > "$log"
git diff -- src > deliver/patch.confirmed.diff
if ! cmp -s deliver/patch.confirmed.diff deliver/patch.diff; then echo "note: patch.diff differs from the worktree's diff; using the worktree's" >> "$log"; fi
cp deliver/patch.confirmed.diff "$out/patch.diff"
cp deliver/demo.cc "$out/demo.cc"
cp deliver/meta.json "$out/agent_meta.json" 2>/dev/null
CXX="g++ -std=c++11 -O1 -DHAVE_CONFIG_H -I$wt -I$wt/src deliver/demo.cc $wt/src/.libs/libmeddly.a -lgmp -o deliver/demo"
echo "== with change: build" >> "$log"
make -j12 > build.log 2>&1; echo "make rc=$?" >> "$log"
$CXX >> "$log" 2>&1; echo "demo compile rc=$?" >> "$log"
timeout 300 ./deliver/demo > deliver/demo.with.out 2>&1; with_rc=$?
echo "demo WITH change rc=$with_rc" >> "$log"
echo "== with change: test suite" >> "$log"
make -k -j14 check > check.log 2>&1
grep '^# \(TOTAL\|PASS\|FAIL\|ERROR\)' check.log >> "$log"
pass=$(grep '^# PASS' check.log | awk '{print $3}')
echo "== without change" >> "$log"
# (no `git stash`: the stash is shared by all worktrees of a repository)
git checkout -- src
make -j12 > build.log 2>&1; echo "make rc=$?" >> "$log"
$CXX >> "$log" 2>&1
timeout 300 ./deliver/demo > deliver/demo.without.out 2>&1; without_rc=$?
echo "demo WITHOUT change rc=$without_rc" >> "$log"
git apply deliver/patch.confirmed.diff
make -j12 > build.log 2>&1
echo "RESULT with_rc=$with_rc without_rc=$without_rc pass=$pass" | tee -a "$log"
