#!/bin/bash
# applies every seeded change in turn and runs the quick check of its property;
# prints caught/MISSED per change.  /repo/src must be clean.
cd /verif
for d in seeded/*/; do
  n=$(basename $d); p=${n%%-*}
  out=$(tools/try_seed.sh $n $p 2>&1 | tail -1)
  case "$out" in
    *"exit=1"*) echo "caught  $n" ;;
    *) echo "MISSED  $n ($out)" ;;
  esac
done
