#!/bin/bash
# applies every seeded change in turn and runs the quick check of its property
# under several VERIF_SEED values; prints how often each change is reported.
# /repo/src must be clean.  usage: sweep_seeds.sh [seed values...]
cd /verif
seeds=${@:-1 2}
for d in seeded/*/; do
  n=$(basename $d); p=${n%%-*}
  hit=0; tot=0
  for s in $seeds; do
    out=$(VERIF_SEED=$s tools/try_seed.sh $n $p 2>&1 | tail -1)
    tot=$((tot+1))
    case "$out" in *"exit=1"*) hit=$((hit+1)) ;; esac
  done
  if [ $hit -eq $tot ]; then echo "caught $hit/$tot  $n"; else echo "WEAK   $hit/$tot  $n"; fi
done
