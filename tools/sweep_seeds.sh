#!/bin/bash
# applies every seeded change in turn and runs the quick check of the property that
# is recorded as catching it (first entry of caught_by in its meta.json) under several
# VERIF_SEED values; prints how often each change is reported.  /repo/src must be clean.
# usage: sweep_seeds.sh [seed values...]
cd /verif
seeds=${@:-1 2}
for d in seeded/*/; do
  n=$(basename $d)
  p=$(python3 -c "import json,sys; m=json.load(open('$d/meta.json')); print(m['caught_by'][0].split()[0])" 2>/dev/null)
  [ -z "$p" ] && p=${n:0:3}
  hit=0; tot=0
  for s in $seeds; do
    out=$(VERIF_SEED=$s tools/try_seed.sh $n $p 2>&1 | tail -1)
    tot=$((tot+1))
    case "$out" in *"$p exit=1"*) hit=$((hit+1)) ;; esac
  done
  if [ $hit -eq $tot ]; then echo "caught $hit/$tot  $n  [$p]"; else echo "WEAK   $hit/$tot  $n  [$p]"; fi
done
