#!/usr/bin/env python3
"""Orchestrator of one property check.

  check.py <Cxx> [--tier quick|thorough] [--replay <file>]

1. builds libmeddly + mdriver from /repo's current working tree (hooks on);
2. re-checks the Coq development (make of the dependency cone, then coqc on
   each property file, collecting Print Assumptions); scans for forbidden
   commands; re-extracts the model and rebuilds mmodel;
3. generates scripts (VERIF_SEED), runs implementation and model, diffs;
4. writes evidence/<id>.json, prints VIOLATION / KNOWN-FINDING lines.
"""
import fcntl, glob, hashlib, json, os, random, re, shutil, subprocess, sys, time
from concurrent.futures import ThreadPoolExecutor

VERIF = os.path.dirname(os.path.dirname(os.path.abspath(__file__)))
sys.path.insert(0, os.path.join(VERIF, "tools"))
import buildlib  # noqa: E402
import gen  # noqa: E402
import props  # noqa: E402

COQ = os.path.join(VERIF, "coq")
FORBIDDEN = re.compile(
    r"\b(Admitted|admit|Axiom|Axioms|Parameter|Parameters|Conjecture|Conjectures|"
    r"Admit Obligations|bypass_check|native_compute)\b|Unset Guard|Unset Positivity|"
    r"Unset Universe|-type-in-type|-impredicative-set")


def log(*a):
    print(*a, file=sys.stderr, flush=True)


class Lock:
    def __init__(self, name):
        self.path = os.path.join("/var/tmp", name)

    def __enter__(self):
        self.f = open(self.path, "w")
        fcntl.flock(self.f, fcntl.LOCK_EX)

    def __exit__(self, *a):
        fcntl.flock(self.f, fcntl.LOCK_UN)
        self.f.close()


def strip_comments(txt):
    out, depth, i = [], 0, 0
    while i < len(txt):
        if txt.startswith("(*", i):
            depth += 1
            i += 2
        elif txt.startswith("*)", i) and depth:
            depth -= 1
            i += 2
        else:
            if not depth:
                out.append(txt[i])
            i += 1
    return "".join(out)


def forbidden_scan():
    bad = []
    for root, _, files in os.walk(os.path.join(COQ, "theories")):
        for f in files:
            if f.endswith(".v"):
                p = os.path.join(root, f)
                body = strip_comments(open(p).read())
                # "Variable"/"Hypothesis" are allowed only inside sections
                depth = 0
                for ln in body.splitlines():
                    s = ln.strip()
                    if re.match(r"^Section\b", s):
                        depth += 1
                    elif re.match(r"^End\b", s) and depth:
                        depth -= 1
                    elif re.match(r"^(Variable|Variables|Hypothesis|Hypotheses|Context)\b", s) and depth == 0:
                        bad.append("%s: %s" % (p, s))
                    m = FORBIDDEN.search(ln)
                    if m:
                        bad.append("%s: %s" % (p, s))
    return bad


TRANSLATOR_OUT = ""


def coq_build(pid, tier="quick"):
    """returns (base_ok, [(file, ok, assumptions, output)])"""
    with Lock("meddly-verif-coq.lock"):
        # regenerate the translated leaf definitions from /repo
        tr = subprocess.run([sys.executable, os.path.join(VERIF, "tools", "cxx2v.py")],
                            capture_output=True, text=True)
        global TRANSLATOR_OUT
        TRANSLATOR_OUT = (tr.stdout + tr.stderr)[-2000:]
        if tr.returncode != 0:
            log("translator:", tr.stdout[-2000:], tr.stderr[-2000:])
        if not os.path.exists(os.path.join(COQ, "Makefile")):
            subprocess.run(["coq_makefile", "-f", "_CoqProject", "-o", "Makefile"], cwd=COQ,
                           capture_output=True)
        r = subprocess.run(["timeout", "1500", "make", "-k", "-j16"], cwd=COQ,
                           capture_output=True, text=True)
        # A failure somewhere in the development matters to this property exactly when one of
        # its own Properties files (compiled below, against the .vo files that did build) or
        # the extraction of the executable model no longer compiles.
        base_ok = True
        if r.returncode != 0:
            log("coq make failed:\n" + (r.stdout + r.stderr)[-3000:])
        res = []
        files = sorted(glob.glob(os.path.join(COQ, "theories", "Properties", "P_%s_*.v" % pid)))

        def one(f):
            rr = subprocess.run(["timeout", "600", "coqc", "-Q", "theories", "Meddly", f], cwd=COQ,
                                capture_output=True, text=True)
            out = rr.stdout + rr.stderr
            ok = rr.returncode == 0
            if ok and tier == "thorough":
                # independent re-check of the compiled file and everything it depends on
                mod = "Meddly.Properties." + os.path.basename(f)[:-2]
                ck = subprocess.run(["timeout", "900", "coqchk", "-silent", "-o", "-Q", "theories", "Meddly", mod],
                                    cwd=COQ, capture_output=True, text=True)
                cko = ck.stdout + ck.stderr
                m = re.search(r"\* Axioms:(.*?)\n\s*\n\* Constants/Inductives relying on type-in-type:(.*?)\n", cko, re.S)
                axs = m.group(1).strip() if m else "?"
                if ck.returncode != 0 or not m:
                    ok = False
                    out += "\nCOQCHK-FAILED rc=%d\n%s" % (ck.returncode, cko[-1500:])
                else:
                    out += "\nCOQCHK axioms=%s type-in-type=%s\n" % (" ".join(axs.split()), " ".join(m.group(2).split()))
                    if axs != "<none>":
                        # axioms of loaded libraries are listed by name; they are judged like
                        # the ones Print Assumptions reports
                        out += "Axioms:\n" + "\n".join("  %s : _" % a.strip() for a in axs.splitlines() if a.strip()) + "\n"
            return (os.path.basename(f), ok, out)

        with ThreadPoolExecutor(max_workers=8) as ex:
            for name, ok, out in ex.map(one, files):
                res.append((name, ok, out))
        # model extraction + driver
        rb = subprocess.run([os.path.join(VERIF, "ocaml", "build.sh")], capture_output=True, text=True)
        if rb.returncode != 0:
            log("model build failed:\n" + (rb.stdout + rb.stderr)[-3000:])
            base_ok = False
    return base_ok, res, tr.returncode == 0


def parse_assumptions(out):
    """list of (theorem-ish, axioms) from Print Assumptions output"""
    axioms = []
    closed = 0
    lines = out.splitlines()
    i = 0
    while i < len(lines):
        if lines[i].startswith("Closed under the global context"):
            closed += 1
        elif lines[i].startswith("Axioms:"):
            i += 1
            while i < len(lines) and (lines[i].startswith(" ") or ":" in lines[i]):
                m = re.match(r"^(\S+)\s*:", lines[i])
                if m:
                    axioms.append(m.group(1))
                i += 1
            continue
        i += 1
    return closed, axioms


ALLOWED_AXIOMS = {
    "functional_extensionality_dep", "FunctionalExtensionality.functional_extensionality_dep",
    "proof_irrelevance", "ProofIrrelevance.proof_irrelevance", "classic", "Classical_Prop.classic",
    "JMeq_eq", "JMeq.JMeq_eq", "Eqdep.Eq_rect_eq.eq_rect_eq", "eq_rect_eq",
    "propositional_extensionality",
}


def statements_hash(pid):
    h = hashlib.sha256()
    for f in sorted(glob.glob(os.path.join(COQ, "theories", "Properties", "P_%s_*.v" % pid))):
        h.update(open(f, "rb").read())
    return h.hexdigest()[:16]


# ---------------------------------------------------------------------

def parse_obs(txt):
    d = {}
    for ln in txt.splitlines():
        if ln.startswith("@"):
            sp = ln.find(" ")
            try:
                d[int(ln[1:sp])] = ln[sp + 1:]
            except ValueError:
                pass
    return d


def run_one(exe, mmodel, script_text, workdir, idx, timeout=120):
    p = os.path.join(workdir, "s%d.script" % idx)
    for old in glob.glob(p + ".x*"):
        os.remove(old)                       # exchange files of an earlier run
    with open(p, "w") as f:
        f.write(script_text)
    ri = subprocess.run(["timeout", str(timeout), exe, p], capture_output=True, text=True, errors="replace")
    po = p + ".impl"
    with open(po, "w") as f:
        f.write(ri.stdout)
    if script_text.startswith("init\nquiet 1"):
        # heavy script: too large for the tree model; observations are digests that
        # are compared across configurations (variant_compare)
        rm = subprocess.CompletedProcess([], 0, "", "")
    else:
        rm = subprocess.run(["timeout", str(timeout), mmodel, p, po], capture_output=True, text=True,
                            errors="replace")
    return ri, rm


def variant_compare(exe, script_text, workdir, idx, pid):
    """C07 / C12: the same script under other compute-table / policy settings
    must produce the same observations (audit lines excepted)"""
    out = []
    vs = props.variants(pid, script_text, idx)
    if not vs:
        return out, 0
    def norm(txt):
        # node-level observations (handles, number of active nodes, cache status) legitimately
        # depend on the deletion policy and the storage: they are not compared across
        # configurations but with the model run under the same configuration (below)
        d = parse_obs(txt)
        return {k: v for k, v in d.items() if not v.startswith("audit") and not v.startswith("nobs")}
    p0 = os.path.join(workdir, "s%d.script.impl" % idx)
    base = norm(open(p0).read()) if os.path.exists(p0) else {}
    n = 0
    for label, vtxt in vs:
        pv = os.path.join(workdir, "s%d.v%d.script" % (idx, n))
        n += 1
        with open(pv, "w") as f:
            f.write(vtxt)
        rv = subprocess.run(["timeout", "120", exe, pv], capture_output=True, text=True, errors="replace")
        if rv.returncode != 0:
            out.append(dict(kind="variant-crash", variant=label, rc=rv.returncode, line=0,
                            detail=(rv.stderr or "")[-300:], script_variant=vtxt))
            continue
        ov = norm(rv.stdout)
        for ln in sorted(set(base) | set(ov)):
            if base.get(ln) != ov.get(ln):
                out.append(dict(kind="variant-diff", variant=label, line=ln, base=base.get(ln),
                                other=ov.get(ln), script_variant=vtxt))
                break
        # audits of the variant run must pass as well
        pvo = pv + ".impl"
        with open(pvo, "w") as f:
            f.write(rv.stdout)
        mm = subprocess.run(["timeout", "120", os.path.join(VERIF, "ocaml", "mmodel"), pv, pvo],
                            capture_output=True, text=True, errors="replace")
        vobs = parse_obs(rv.stdout)
        for ln, tx in parse_obs(mm.stdout).items():
            if tx.startswith("audit FAILED") or tx.startswith("audit UNPARSABLE"):
                out.append(dict(kind="variant-audit", variant=label, line=ln, model=tx, script_variant=vtxt))
                break
            if tx.startswith("nobs") and vobs.get(ln) != tx:
                out.append(dict(kind="variant-diff", variant=label, line=ln, model=tx, other=vobs.get(ln),
                                script_variant=vtxt))
                break
    return out, n


def compare(script_text, ri, rm, pid):
    """returns list of disagreement dicts"""
    out = []
    if rm.returncode != 0:
        out.append(dict(kind="model-crash", detail=(rm.stderr or "")[-500:], line=0))
        return out
    iobs, mobs = parse_obs(ri.stdout), parse_obs(rm.stdout)
    if ri.returncode == 2:
        out.append(dict(kind="script-error", line=0, detail=(ri.stderr or "")[-300:]))
        return out
    if ri.returncode != 0:
        last = max(iobs) if iobs else 0
        out.append(dict(kind="impl-crash", rc=ri.returncode, line=last,
                        detail=(ri.stderr or "")[-800:]))
    for ln in sorted(mobs):
        if ln not in iobs:
            if ri.returncode == 0:
                out.append(dict(kind="missing-impl-line", line=ln, model=mobs[ln]))
            continue
        iv = iobs[ln]
        if " dump=" not in mobs[ln] and " dump=" in iv and " tab=" in mobs[ln]:
            iv = iv[:iv.index(" dump=")]          # model predicts the table only
        if iv != mobs[ln]:
            out.append(dict(kind="diff", line=ln, model=mobs[ln], impl=iobs[ln]))
    # property predicates evaluated on the implementation's own output
    lines = script_text.splitlines()
    for d in props.impl_predicates(pid, lines, iobs):
        out.append(d)
    return out


def shrink(exe, mmodel, script_text, workdir, pid, kind, budget=160):
    """ddmin over script lines (init/domain/forest lines are kept); a candidate
    counts only if it still shows a disagreement of the same kind"""
    lines = script_text.splitlines()
    runs = [0]
    started = time.time()
    # a changed library may hang: shrinking is bounded in time as well as in runs
    budget_s = 90

    def fails(ls):
        runs[0] += 1
        if time.time() - started > budget_s:
            runs[0] = budget
            return False
        txt = "\n".join(ls) + "\n"
        ri, rm = run_one(exe, mmodel, txt, workdir, 9999, timeout=20)
        ds = compare(txt, ri, rm, pid)
        return any(d.get("kind") == kind for d in ds)

    def removable(i):
        t = lines[i].split()
        return bool(t) and t[0] not in ("init", "domain", "forest")

    chunk = max(1, len(lines) // 2)
    while chunk >= 1 and runs[0] < budget:
        i = 0
        progressed = False
        while i < len(lines) and runs[0] < budget:
            idx = [k for k in range(i, min(len(lines), i + chunk)) if removable(k)]
            if idx:
                cand = [l for k, l in enumerate(lines) if k not in set(idx)]
                if fails(cand):
                    lines = cand
                    progressed = True
                    continue
            i += chunk
        if chunk == 1 and not progressed:
            break
        chunk = chunk // 2 if chunk > 1 else (1 if progressed else 0)
    return "\n".join(lines) + "\n"


def known_findings():
    p = os.path.join(VERIF, "known_findings.json")
    if not os.path.exists(p):
        return []
    return json.load(open(p)).get("findings", [])


def main():
    args = sys.argv[1:]
    if not args:
        raise SystemExit("usage: check.py Cxx [--tier quick|thorough] [--replay file]")
    pid = args[0]
    tier = os.environ.get("VERIF_TIER", "quick")
    if "--tier" in args:
        tier = args[args.index("--tier") + 1]
    replay = args[args.index("--replay") + 1] if "--replay" in args else None
    seed = int(os.environ.get("VERIF_SEED", "1"))
    t0 = time.time()
    spec = props.PROPS[pid]
    os.makedirs(os.path.join(VERIF, "evidence"), exist_ok=True)
    os.makedirs(os.path.join(VERIF, "replay"), exist_ok=True)
    workdir = "/var/tmp/verif-run-%d" % os.getpid()
    os.makedirs(workdir, exist_ok=True)
    violations = []      # (sig, replaypath, nofail)
    try:
        exe = buildlib.build("/repo", san=False)
        # thorough tier: every script is also run on an AddressSanitizer / UBSan build of the
        # library (memory errors that do not show in the observations: C06 "nothing dangles",
        # C17 "never touches freed memory", C18 "contents never altered")
        exe_san = None
        if tier == "thorough" and os.environ.get("VERIF_SAN", "1") != "0":
            try:
                exe_san = buildlib.build("/repo", san=True)
            except SystemExit:
                exe_san = None
        base_ok, proofs, tr_ok = coq_build(pid, tier)
        mmodel = os.path.join(VERIF, "ocaml", "mmodel")
        bad = forbidden_scan()
        obligations = len(proofs)
        discharged = 0
        trusted = ["Coq 8.16.1 kernel (coqc); vm_compute used in finite sweeps; no native_compute"]
        failed_thms = []
        for name, ok, out in proofs:
            closed, axioms = parse_assumptions(out)
            unknown = [a for a in axioms if a.split(".")[-1] not in {x.split(".")[-1] for x in ALLOWED_AXIOMS}]
            if ok and not unknown:
                discharged += 1
                trusted.append("%s: %s%s" % (name, "closed under the global context" if not axioms
                                             else "axioms: " + ", ".join(axioms),
                                             "; coqchk re-checked it and its dependencies (axioms <none>)"
                                             if "COQCHK axioms=<none>" in out else ""))
            else:
                failed_thms.append((name, out[-1500:], unknown))
        if bad:
            failed_thms.append(("forbidden-command-scan", "\n".join(bad), []))
        if spec.get("uses_gen") and not tr_ok:
            # the generated definitions could not be regenerated from the current source: the
            # theorems about them say nothing about the code as it is now
            failed_thms.append(("translator tools/cxx2v.py (Gen/*.v not regenerated from /repo)",
                                TRANSLATOR_OUT, []))

        if replay:
            rp = json.load(open(replay))
            ri, rm = run_one(exe, mmodel, rp["script"], workdir, 0)
            print("--- implementation ---")
            print(ri.stdout)
            print("--- model ---")
            print(rm.stdout)
            ds = compare(rp["script"], ri, rm, pid)
            for d in ds:
                print("DISAGREE", json.dumps(d))
            return 1 if ds else 0

        # ---------------- correspondence ----------------
        rng = random.Random(seed * 1000003 + int(pid[1:]))
        scripts = []
        corp = sorted(glob.glob(os.path.join(VERIF, "corpus", pid, "*.script")))
        for c in corp:
            scripts.append(("corpus:" + os.path.basename(c), open(c).read()))
        ncases = spec["quick"] if tier == "quick" else spec["thorough"]
        for gname, gfun, weight in spec["gens"]:
            for i in range(max(1, int(ncases * weight))):
                sub = random.Random(rng.getrandbits(64))
                scripts.append(("%s#%d" % (gname, i), gfun(sub)))
        extra = props.extra_checks(pid, tier, seed, exe, workdir)   # non-script engines (C18/C19 ...)

        nvariants = [0]

        san_runs = [0]

        def job(t):
            i, (nm, txt) = t
            ri, rm = run_one(exe, mmodel, txt, workdir, i)
            vd, nv = variant_compare(exe, txt, workdir, i, pid)
            nvariants[0] += nv
            if exe_san:
                ps = os.path.join(workdir, "s%d.script" % i)
                rs = subprocess.run(["timeout", "600", exe_san, ps], capture_output=True, text=True,
                                    errors="replace",
                                    env=dict(os.environ, ASAN_OPTIONS="detect_leaks=0:alloc_dealloc_mismatch=0"))
                san_runs[0] += 1
                err = rs.stderr or ""
                hit = [ln.strip() for ln in err.splitlines()
                       if "ERROR: AddressSanitizer" in ln or "runtime error:" in ln or ln.startswith("SUMMARY:")]
                if hit:
                    vd = vd + [dict(kind="sanitizer", line=0, detail=" | ".join(hit[:3])[:600])]
            return nm, txt, ri, rm, vd

        evaluations = 0
        model_lines = 0
        thm_inst = {}
        distinct = set()
        samples = []
        dist = {}
        disagreements = []
        with ThreadPoolExecutor(max_workers=16) as ex:
            for nm, txt, ri, rm, vd in ex.map(job, list(enumerate(scripts))):
                evaluations += 1
                ds = compare(txt, ri, rm, pid) + vd
                mobs = parse_obs(rm.stdout)
                iobs = parse_obs(ri.stdout)
                model_lines += len(mobs)
                for tl in rm.stdout.splitlines():
                    if tl.startswith("#thm "):
                        thm_inst[tl[5:]] = thm_inst.get(tl[5:], 0) + 1
                distinct |= props.nontrivial(pid, txt, iobs)
                for ln in txt.splitlines():
                    t = ln.split()
                    if t:
                        key = t[0] + (":" + t[3] if t[0] in ("apply", "unary") and len(t) > 3 else "")
                        dist[key] = dist.get(key, 0) + 1
                if len(samples) < 3:
                    samples.append(dict(name=nm, script=txt.splitlines()[:12],
                                        compared_lines=len(mobs)))
                if ds:
                    disagreements.append((nm, txt, ds))

        disagreements.sort(key=lambda t: (not t[0].startswith("corpus:"),))
        ncorp = sum(1 for t in disagreements if t[0].startswith("corpus:"))
        for nm, txt, ds in disagreements[:5 + ncorp]:
            if nm.startswith("corpus:"):
                # corpus scripts are already minimal: stable signature by file name
                sig = "%s:%s:%s" % (pid, nm, ds[0].get("kind", "?"))
                rp = os.path.join(VERIF, "replay", "%s-%s.json" % (pid, nm.replace("corpus:", "").replace(".script", "")))
                json.dump(dict(property=pid, seed=seed, case=nm, script=txt, disagreements=ds, signature=sig),
                          open(rp, "w"), indent=1)
                violations.append((sig, rp, False))
                continue
            small = shrink(exe, mmodel, txt, workdir, pid, ds[0].get("kind"))
            ri, rm = run_one(exe, mmodel, small, workdir, 9998)
            ds2 = compare(small, ri, rm, pid) or ds
            sig = props.signature(pid, small, ds2)
            rp = os.path.join(VERIF, "replay", "%s-%s.json" % (pid, hashlib.md5(small.encode()).hexdigest()[:10]))
            json.dump(dict(property=pid, seed=seed, case=nm, script=small, disagreements=ds2,
                           signature=sig, original_script=txt, original_disagreements=ds[:3],
                           explanation="implementation and extracted Coq model (or a property predicate "
                                       "evaluated on the implementation's own output) disagree on this script"),
                      open(rp, "w"), indent=1)
            violations.append((sig, rp, False))
        for v in extra.get("violations", []):
            violations.append(v)

        # broken proof obligations with no failing input found
        if failed_thms and not violations:
            rp = os.path.join(VERIF, "replay", "%s-obligation.json" % pid)
            json.dump(dict(property=pid, broken=[dict(theorem=n, output=o, unknown_axioms=u)
                                                  for n, o, u in failed_thms],
                           explanation="proof obligation no longer checks; the search over %d generated "
                                       "cases found no failing input" % evaluations), open(rp, "w"), indent=1)
            violations.append(("obligation:" + ",".join(n for n, _, _ in failed_thms), rp, True))
        elif failed_thms:
            log("note: broken obligations:", [n for n, _, _ in failed_thms])
        if not base_ok and not violations:
            rp = os.path.join(VERIF, "replay", "%s-build.json" % pid)
            json.dump(dict(property=pid, explanation="Coq development or model driver failed to build"),
                      open(rp, "w"))
            violations.append(("coq-build", rp, True))

        # known findings
        kf = [k for k in known_findings() if k.get("property") == pid and k.get("kind") == "known"]
        final = []
        seen_sig = set()
        for sig, rp, nofail in violations:
            if sig in seen_sig:
                continue
            seen_sig.add(sig)
            hit = [k for k in kf if k.get("key") == sig]
            if hit:
                print("KNOWN-FINDING: property=%s %s" % (pid, hit[0].get("what", sig)))
            else:
                final.append((sig, rp, nofail))
        for k in extra.get("known_lines", []):
            print(k)

        ev = dict(
            property_id=pid, tier=tier, seed=seed, level="proof",
            coverage=dict(
                obligations=max(obligations, 1), discharged=discharged,
                checker_cmd="make -C coq -k -j16 && coqc -Q theories Meddly theories/Properties/P_%s_*.v "
                            "(Print Assumptions under each theorem)" % pid,
                trusted_base=trusted + spec.get("trusted", []) + [
                    "extraction: ExtrOcamlBasic only, no Extract Constant; OCaml 4.13.1; ocaml/driver.ml (glue)",
                    "correspondence harness: harness/mdriver.cc, tools/gen.py, tools/check.py, g++ 12",
                    "translator tools/cxx2v.py (+ clang AST dump) for Gen/*.v" if spec.get("uses_gen") else
                    "hand-written model tied by correspondence (differential) runs",
                ],
                statements_sha256_16=statements_hash(pid),
                evaluations=evaluations + extra.get("evaluations", 0),
                distinct_nontrivial=len(distinct) + extra.get("distinct_nontrivial", 0),
                rule=spec.get("rule", "scripts generated from one PRNG state (VERIF_SEED); a case counts as "
                              "non-trivial and distinct by the md5 of each canonical dump printed by the "
                              "implementation that contains at least one non-terminal node"),
                samples=samples + extra.get("samples", []),
                model_lines_compared=model_lines,
                command_distribution=dist,
                disagreements=len(disagreements),
                variant_runs=nvariants[0],
                sanitizer_runs=san_runs[0],
                translator_ok=tr_ok,
                extra=dict(extra.get("coverage", {}), theorem_hypothesis_instances=thm_inst),
            ),
            assumptions=spec.get("assumptions", []),
            wall_s=round(time.time() - t0, 2),
            violations=len(final),
        )
        json.dump(ev, open(os.path.join(VERIF, "evidence", "%s.json" % pid), "w"), indent=1)
        for sig, rp, nofail in final:
            print("VIOLATION property=%s replay=%s%s" % (pid, rp, " no-failing-input-found" if nofail else ""))
        return 1 if final else 0
    finally:
        shutil.rmtree(workdir, ignore_errors=True)


if __name__ == "__main__":
    sys.exit(main())
