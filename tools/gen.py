#!/usr/bin/env python3
"""Script generators for the correspondence runs.  Every random choice is
derived from one random.Random(seed) so a disagreement replays exactly."""
import random

# the library defaults (fully-reduced sets, identity-reduced relations) are the
# main code paths: weighted accordingly
RULES_SET = ["fr", "fr", "qr"]
RULES_REL = ["ir", "ir", "fr", "qr"]
STOR = ["full", "sparse", "both"]
MMS = ["orig", "array", "malloc", "heap"]
DELS = ["opt", "pess", "never"]


class Forest:
    def __init__(self, name, dom, rel, rng, lab, rule, opts=""):
        self.name, self.dom, self.rel, self.range, self.lab, self.rule = name, dom, rel, rng, lab, rule
        self.opts = opts

    def decl(self):
        return "forest %s %s %s %s %s %s %s" % (
            self.name, self.dom.name, "rel" if self.rel else "set",
            self.range, self.lab, self.rule, self.opts)


class Domain:
    def __init__(self, name, sizes):
        self.name, self.sizes = name, sizes

    def decl(self):
        return "domain %s %s" % (self.name, " ".join(map(str, self.sizes)))

    def npoints(self, rel):
        n = 1
        for s in self.sizes:
            n *= s * s if rel else s
        return n


class Ctx:
    """script under construction"""

    def __init__(self, rng):
        self.rng = rng
        self.lines = []
        self.edges = {}        # name -> Forest
        self.n = 0
        self.forests = []
        self.doms = []

    def emit(self, s):
        self.lines.append(s)

    def fresh(self, prefix="e"):
        self.n += 1
        return "%s%d" % (prefix, self.n)

    def text(self):
        return "\n".join(self.lines) + "\n"


def rand_domain(rng, name, rel, maxpts=600, maxvars=4):
    while True:
        k = rng.randint(1, 3 if rel else maxvars)
        sizes = [rng.choice([2, 2, 3, 3, 4]) for _ in range(k)]
        d = Domain(name, sizes)
        if d.npoints(rel) <= maxpts:
            return d


def rand_opts(rng, vary=True):
    if not vary:
        return ""
    o = []
    if rng.random() < 0.6:
        o.append("storage=" + rng.choice(STOR))
    if rng.random() < 0.5:
        o.append("mm=" + rng.choice(MMS))
    if rng.random() < 0.6:
        o.append("del=" + rng.choice(DELS))
    return " ".join(o)


def value_pool(rng, f, wide=False):
    """interesting values for forest f (as script tokens)"""
    if f.range == "bool":
        return ["1"]
    if f.range == "int":
        base = [1, 1, 1, 2, 3, 5, 7, -1, -2, -4, 10]
        if wide:
            base += [1073741822, -1073741823, 100000, -99999]
        return [str(v) for v in base]
    # reals are scaled by 64.  Real MT forests round terminals to multiples of
    # 1e-5 (forest::setTerminalPrecision) and drop the last mantissa bit, so
    # only multiples of 1/2 (scaled: multiples of 32) are used: they and their
    # sums/products survive exactly.
    base = [64, 64, 64, 128, 192, 32, 96, -64, -128, 320, 160, -32]
    return [str(v) for v in base]


def rand_pos_set(rng, dom, p_dc):
    out = []
    for s in dom.sizes:
        out.append("x" if rng.random() < p_dc else str(rng.randrange(s)))
    return out


def rand_pos_rel(rng, dom, p_dc, p_same):
    out = []
    for s in dom.sizes:
        fr = "x" if rng.random() < p_dc else str(rng.randrange(s))
        r = rng.random()
        if r < p_same:
            to = "="
        elif r < p_same + p_dc:
            to = "x"
        else:
            to = str(rng.randrange(s))
        out += [fr, to]
    return out


def gen_coll(ctx, f, name=None, nmax=8, mode=None, deflt=None, wide=False):
    rng = ctx.rng
    name = name or ctx.fresh()
    n = rng.choice([0, 1, 1, 2, 3, 4, 6, nmax])
    p_dc = rng.choice([0.0, 0.2, 0.5, 0.8])
    p_same = rng.choice([0.0, 0.2, 0.5])
    vals = value_pool(rng, f, wide)
    mode = mode or rng.choice(["max", "min"])
    if f.range == "bool":
        mode, deflt = "max", "0"
        mvals = ["1"]
    else:
        ivals = sorted(set(int(v) for v in vals))
        if deflt is None:
            # library contract: default <= all values (max) / >= all values (min)
            step = 32 if f.range == "real" else 1
            if mode == "max":
                deflt = str(rng.choice([0, min(ivals) - step, min(0, min(ivals))]))
                ivals = [v for v in ivals if v >= int(deflt)]
            else:
                deflt = str(rng.choice([0, max(ivals) + step, max(0, max(ivals))]))
                ivals = [v for v in ivals if v <= int(deflt)]
        # library contract: default <= all values (max) / >= all values (min)
        if mode == "max":
            ivals = [v for v in ivals if v >= int(deflt)]
        else:
            ivals = [v for v in ivals if v <= int(deflt)]
        mvals = [str(v) for v in ivals] or [deflt]
    parts = ["coll", name, f.name, mode, deflt]
    for _ in range(n):
        pos = rand_pos_rel(rng, f.dom, p_dc, p_same) if f.rel else rand_pos_set(rng, f.dom, p_dc)
        parts += [";"] + pos + ["=>", rng.choice(mvals)]
    ctx.emit(" ".join(parts))
    ctx.edges[name] = f
    return name


def gen_minterm(ctx, f, name=None):
    rng = ctx.rng
    name = name or ctx.fresh()
    vals = value_pool(rng, f)
    v = rng.choice(vals)
    d = "0" if f.range == "bool" else rng.choice(["0", "0", rng.choice(vals)])
    pos = rand_pos_rel(rng, f.dom, rng.choice([0, .3, .7]), rng.choice([0, .3])) if f.rel \
        else rand_pos_set(rng, f.dom, rng.choice([0, .3, .7]))
    ctx.emit(" ".join(["minterm", name, f.name, d, v, ":"] + pos))
    ctx.edges[name] = f
    return name


def gen_const(ctx, f, name=None):
    rng = ctx.rng
    name = name or ctx.fresh()
    v = rng.choice(["0"] + value_pool(rng, f))
    ctx.emit("const %s %s %s" % (name, f.name, v))
    ctx.edges[name] = f
    return name


def gen_var(ctx, f, name=None):
    rng = ctx.rng
    name = name or ctx.fresh()
    k = rng.randint(1, len(f.dom.sizes))
    up = rng.choice(["u", "p"]) if f.rel else "u"
    line = "var %s %s %d %s" % (name, f.name, k, up)
    if rng.random() < 0.5 or f.range == "bool":
        vals = ["0"] + value_pool(rng, f)
        line += " " + " ".join(rng.choice(vals) for _ in range(f.dom.sizes[k - 1]))
    ctx.emit(line)
    ctx.edges[name] = f
    return name


def gen_identityish(ctx, f, name=None):
    """relation leaf made of identity blocks (from free, to unchanged) with the
    neutral values 1 / small values: exercises skipped primed levels of
    identity-reduced forests and the neutral-element shortcuts"""
    rng = ctx.rng
    name = name or ctx.fresh()
    one = "64" if f.range == "real" else "1"
    vals = [one, one, one] + ([] if f.range == "bool" else
                              ["128", "192"] if f.range == "real" else ["2", "3", "7"])
    parts = ["coll", name, f.name, "max", "0"]
    for _ in range(rng.choice([1, 1, 2, 3])):
        pos = []
        for s in f.dom.sizes:
            r = rng.random()
            if r < 0.6:
                pos += ["x", "="]
            elif r < 0.75:
                pos += [str(rng.randrange(s)), "="]
            elif r < 0.9:
                pos += ["x", "x"]
            else:
                pos += [str(rng.randrange(s)), str(rng.randrange(s))]
        parts += [";"] + pos + ["=>", rng.choice(vals)]
    ctx.emit(" ".join(parts))
    ctx.edges[name] = f
    return name


def gen_leaf(ctx, f, name=None):
    if f.rel and ctx.rng.random() < 0.3:
        return gen_identityish(ctx, f, name)
    r = ctx.rng.random()
    if r < 0.6:
        return gen_coll(ctx, f, name)
    if r < 0.75:
        return gen_minterm(ctx, f, name)
    if r < 0.85:
        return gen_const(ctx, f, name)
    return gen_var(ctx, f, name)


def preamble(ctx, rel, ranges=("bool",), labs=("mt",), nforests=3, vary=True, ctopts="", maxpts=600,
             rules=None):
    rng = ctx.rng
    ctx.emit("init " + ctopts)
    d = rand_domain(rng, "D", rel, maxpts)
    ctx.emit(d.decl())
    ctx.doms.append(d)
    rules = rules or (RULES_REL if rel else RULES_SET)
    for i in range(nforests):
        f = Forest("F%d" % i, d, rel, rng.choice(ranges), rng.choice(labs), rng.choice(rules), rand_opts(rng, vary))
        ctx.emit(f.decl())
        ctx.forests.append(f)
    return d


def edges_in(ctx, pred):
    return [e for e, f in ctx.edges.items() if pred(f)]


# ---------------------------------------------------------------------
# property-specific generators: each returns the script text
# ---------------------------------------------------------------------

def gen_coll_evp(ctx, f, name=None):
    """EV+ collection: values incl. +infinity, exact duplicates of minterms,
    overlapping minterms, both combiners"""
    rng = ctx.rng
    name = name or ctx.fresh()
    mode = rng.choice(["max", "min"])
    vals = ["0", "1", "2", "3", "5", "8", "inf", "inf"]
    # library contract: default <= all values (max) / >= all values (min)
    deflt = "0" if mode == "max" else "inf"
    if mode == "max" and rng.random() < 0.3:
        deflt = "1"
        vals = [v for v in vals if v != "0"]
    n = rng.choice([1, 2, 3, 4, 6])
    mts = []
    for _ in range(n):
        pos = rand_pos_rel(rng, f.dom, rng.choice([0, .3, .6]), rng.choice([0, .3])) if f.rel \
            else rand_pos_set(rng, f.dom, rng.choice([0, .3, .6]))
        mts.append((pos, rng.choice(vals)))
    # exact duplicates with other values, in both orders
    for _ in range(rng.choice([0, 1, 2, 3])):
        pos, _v = rng.choice(mts)
        mts.insert(rng.randrange(len(mts) + 1), (pos, rng.choice(vals)))
    parts = ["coll", name, f.name, mode, deflt]
    for pos, v in mts:
        parts += [";"] + pos + ["=>", v]
    ctx.emit(" ".join(parts))
    ctx.edges[name] = f
    used = set(v for _, v in mts) | {deflt}
    if not hasattr(ctx, "flags"):
        ctx.flags = {}
    ctx.flags[name] = ("0" in used, "inf" in used)     # (may hold a finite 0, may hold +infinity)
    if not hasattr(ctx, "finite_somewhere"):
        ctx.finite_somewhere = set()
    if mode == "min" and any(v != "inf" for _, v in mts):
        ctx.finite_somewhere.add(name)
    return name


def gen_C03_relmix(rng):
    """relation collections whose minterms agree on the upper variables and, at one
    variable, all leave the unprimed side free while some say "unchanged" and others
    "any value" on the primed side (plus minterms fixing it): the group is neither all
    don't-care nor all don't-change at that level"""
    ctx = Ctx(rng)
    preamble(ctx, True, ranges=("bool", "int", "int", "real"), nforests=2)
    forests = list(ctx.forests)
    if rng.random() < 0.4:
        fe = Forest("FE", ctx.doms[0], True, "int", "evp", rng.choice(RULES_REL), rand_opts(rng))
        ctx.emit(fe.decl())
        forests.append(fe)
    d = ctx.doms[0]
    k = len(d.sizes)
    for _ in range(rng.randint(2, 5)):
        f = rng.choice(forests)
        v = rng.randrange(k)                       # the mixed variable (0-based, bottom up)
        upper = []
        for j in range(v + 1, k):
            upper.append(rng.choice([["x", "x"], ["x", "="], [str(rng.randrange(d.sizes[j])), str(rng.randrange(d.sizes[j]))],
                                     [str(rng.randrange(d.sizes[j])), "x"]]))
        n = rng.randint(2, 4)
        kinds = [["x", "="], ["x", "x"]] + [rng.choice([["x", "="], ["x", "x"], ["x", str(rng.randrange(d.sizes[v]))]])
                                             for _ in range(n - 2)]
        rng.shuffle(kinds)
        evp = (f.lab == "evp")
        mode = rng.choice(["max", "min"])
        if evp:
            deflt = "0" if mode == "max" else "inf"
            vals = ["1", "2", "3", "5", "8"]
        elif f.range == "bool":
            mode, deflt, vals = "max", "0", ["1"]
        else:
            if mode == "max":
                deflt = "0"
                vals = ["1", "2", "3", "5", "7"] if f.range == "int" else ["32", "64", "96", "128"]
            else:
                deflt = "9" if f.range == "int" else "160"
                vals = ["1", "2", "3", "5", "7"] if f.range == "int" else ["32", "64", "96", "128"]
        name = ctx.fresh()
        parts = ["coll", name, f.name, mode, deflt]
        for kd in kinds:
            pos = []
            for j in range(v):
                pos += rng.choice([["x", "x"], ["x", "="], [str(rng.randrange(d.sizes[j])), str(rng.randrange(d.sizes[j]))],
                                   [str(rng.randrange(d.sizes[j])), "="]])
            pos += kd
            for u in upper:
                pos += u
            parts += [";"] + pos + ["=>", rng.choice(vals)]
        ctx.emit(" ".join(parts))
        ctx.edges[name] = f
    return ctx.text()


def gen_C03(rng):
    ctx = Ctx(rng)
    rel = rng.random() < 0.5
    preamble(ctx, rel, ranges=("bool", "int", "int", "real"), nforests=3)
    if rng.random() < 0.6:
        fe = Forest("FE", ctx.doms[0], rel, "int", "evp", rng.choice(RULES_REL if rel else RULES_SET), rand_opts(rng))
        ctx.emit(fe.decl())
        for _ in range(rng.randint(1, 5)):
            r = rng.random()
            if r < 0.8:
                gen_coll_evp(ctx, fe)
            elif r < 0.9:
                n = ctx.fresh()
                ctx.emit("const %s FE %s" % (n, rng.choice(["0", "3", "inf"])))
            else:
                n = ctx.fresh()
                pos = rand_pos_rel(rng, fe.dom, .3, .3) if rel else rand_pos_set(rng, fe.dom, .3)
                ctx.emit(" ".join(["minterm", n, "FE", "inf", rng.choice(["0", "2", "7"]), ":"] + pos))
    for _ in range(rng.randint(4, 10)):
        f = rng.choice(ctx.forests)
        r = rng.random()
        if r < 0.55:
            gen_coll(ctx, f, nmax=rng.choice([8, 16, 30]), wide=rng.random() < 0.2)
        elif r < 0.75:
            gen_minterm(ctx, f)
        elif r < 0.87:
            gen_const(ctx, f)
        else:
            gen_var(ctx, f)
    return ctx.text()


SETOPS = ["union", "inter", "diff"]


def gen_C04(rng):
    ctx = Ctx(rng)
    rel = rng.random() < 0.5
    preamble(ctx, rel, ranges=("bool",), nforests=rng.choice([1, 2, 3, 4]))
    for _ in range(rng.randint(2, 5)):
        gen_leaf(ctx, rng.choice(ctx.forests))
    for _ in range(rng.randint(4, 14)):
        names = list(ctx.edges)
        r = rng.random()
        fr = rng.choice(ctx.forests)
        if r < 0.7:
            a, b = rng.choice(names), rng.choice(names)
            if rng.random() < 0.1:
                b = a
            n = ctx.fresh()
            ctx.emit("apply %s %s %s %s %s" % (n, fr.name, rng.choice(SETOPS), a, b))
            ctx.edges[n] = fr
            if rng.random() < 0.3:
                ctx.emit("show %s" % a)
                ctx.emit("show %s" % b)
        elif r < 0.85:
            a = rng.choice(names)
            n = ctx.fresh()
            ctx.emit("unary %s %s compl %s" % (n, fr.name, a))
            ctx.edges[n] = fr
        elif r < 0.92:
            gen_leaf(ctx, fr)
        elif r < 0.96:
            ctx.emit("clearct")
        else:
            v = rng.choice(names)
            if len(names) > 2:
                ctx.emit("release %s" % v)
                del ctx.edges[v]
    return ctx.text()


def gen_C04_cross(rng):
    """cross products of sets held in (possibly distinct) set forests, with
    operands being replaced and released between calls (handle reuse)"""
    ctx = Ctx(rng)
    ctx.emit("init " + rand_ctopts(rng))
    d = rand_domain(rng, "D", False, 24, 3)
    ctx.emit(d.decl())
    sets = [Forest("S%d" % i, d, False, "bool", "mt", rng.choice(RULES_SET), rand_opts(rng))
            for i in range(rng.choice([1, 2, 2, 3]))]
    rels = [Forest("R%d" % i, d, True, "bool", "mt", rng.choice(RULES_REL), rand_opts(rng))
            for i in range(rng.choice([1, 2]))]
    for f in sets + rels:
        ctx.emit(f.decl())
    held = {}
    for i in range(rng.randint(1, 3)):
        f = rng.choice(sets)
        n = "a%d" % i
        gen_coll(ctx, f, n, nmax=6)
        held[n] = f
    for rnd in range(rng.randint(3, 9)):
        r = rng.random()
        setnames = [e for e in held if not held[e].rel]
        if r < 0.55 and setnames:
            a, b = rng.choice(setnames), rng.choice(setnames)
            out = rng.choice(rels)
            n = "x%d" % rnd
            ctx.emit("apply %s %s cross %s %s" % (n, out.name, a, b))
            held[n] = out
            if rng.random() < 0.3:
                ctx.emit("show %s" % a)
                ctx.emit("show %s" % b)
        elif r < 0.8:
            # replace an operand: release it, build another set under the same name
            f = rng.choice(sets)
            n = rng.choice(setnames) if setnames and rng.random() < 0.7 else "b%d" % rnd
            if n in held:
                ctx.emit("release %s" % n)
                f = held[n] if rng.random() < 0.7 else f
            gen_coll(ctx, f, n, nmax=6)
            held[n] = f
        elif r < 0.9 and len(held) > 1:
            v = rng.choice(list(held))
            ctx.emit("release %s" % v)
            del held[v]
        else:
            rn = [e for e in held if held[e].rel]
            if len(rn) >= 2:
                a, b = rng.choice(rn), rng.choice(rn)
                out = rng.choice(rels)
                n = "y%d" % rnd
                ctx.emit("apply %s %s %s %s %s" % (n, out.name, rng.choice(SETOPS), a, b))
                held[n] = out
    return ctx.text()


def gen_reuse(rng, family=None):
    """One operand stays, the other is rebuilt with different contents and
    released after every call (so its nodes die and their handles are
    recycled while compute-table entries that mention them still exist).
    Operands live in distinct forests where the operation allows it."""
    ctx = Ctx(rng)
    family = family or rng.choice(["set", "cross", "arith", "image"])
    # "set-ir": set operations with both operands in DISTINCT identity-reduced relation
    # forests (the operations keep a second compute table for primed-level pairs there),
    # the volatile operand's forest reclaiming at once
    both_ir = (family == "set-ir")
    if both_ir:
        family = "set"
    ctx.emit("init " + (rand_ctopts(rng) if rng.random() < 0.5 else ""))
    if family in ("cross", "image"):
        d = rand_domain(rng, "D", False, 27, 3)
    else:
        d = rand_domain(rng, "D", both_ir or rng.random() < 0.5, 200, 3)
    ctx.emit(d.decl())
    rel = both_ir or (family not in ("cross", "image") and (len(d.sizes) <= 3 and rng.random() < 0.5))
    if family == "set":
        rg = "bool"
    elif family == "arith":
        rg = rng.choice(["int", "real"])
    else:
        rg = "bool"
    rules = RULES_REL if rel else RULES_SET
    # policies of the volatile operand's forest: default deletion most of the time
    def mkf(name, isrel, rgx, opts=None):
        f = Forest(name, d, isrel, rgx, "mt", rng.choice(RULES_REL if isrel else RULES_SET),
                   rand_opts(rng) if opts is None else opts)
        ctx.emit(f.decl())
        return f
    if family == "cross":
        fa, fb = mkf("FA", False, "bool"), mkf("FB", False, "bool", rng.choice(["", "", "del=pess", "del=opt"]))
        fr = mkf("FR", True, "bool")
        ops = ["cross"]
    elif family == "image":
        fa = mkf("FA", False, "bool")
        fb = mkf("FB", True, "bool", rng.choice(["", "", "del=pess"]))
        fr = mkf("FR", False, "bool")
        ops = ["post", "pre"]
    elif both_ir:
        fa = Forest("FA", d, True, rg, "mt", "ir", rand_opts(rng))
        fb = Forest("FB", d, True, rg, "mt", "ir", rng.choice(["del=pess", "del=pess", "del=opt", ""]))
        ctx.emit(fa.decl())
        ctx.emit(fb.decl())
        fr = rng.choice([fa, fb, mkf("FR", True, rg)])
        ops = SETOPS
    else:
        fa, fb = mkf("FA", rel, rg), mkf("FB", rel, rg, rng.choice(["", "", "del=pess", "del=opt"]))
        fr = rng.choice([fa, fb, mkf("FR", rel, rg)])
        ops = SETOPS if family == "set" else ["plus", "minus", "max", "min", "mult"] if rg == "int" \
            else ["plus", "minus", "max", "min"]
    # the persistent operand
    gen_coll(ctx, fa, "A", nmax=8)
    if both_ir:
        # the persistent operand's forest holds many more live nodes than the volatile one's
        # (a handle number of the volatile forest then names some live node here)
        for i in range(rng.randint(3, 8)):
            gen_rel_minterms(ctx, fa, "X%d" % i, nmax=2, p_dc=rng.choice([0, 0.3]), p_same=rng.choice([0, 0.3]))
    swap = rng.random() < 0.3 and family in ("set", "arith")
    keep = rng.random() < 0.5
    for rnd in range(rng.randint(3, 8)):
        # volatile operand: few minterms, same shape every round => same handles
        if fb.rel:
            gen_rel_minterms(ctx, fb, "B", nmax=2, p_dc=rng.choice([0, 0.3]), p_same=rng.choice([0, 0.3]))
        else:
            parts = ["coll", "B", fb.name, "max", "0"]
            vals = ["1"] if fb.range == "bool" else [v for v in value_pool(rng, fb) if int(v) > 0]
            for _ in range(rng.choice([1, 1, 2])):
                parts += [";"] + rand_pos_set(rng, d, rng.choice([0, 0, 0.3])) + ["=>", rng.choice(vals)]
            ctx.emit(" ".join(parts))
            ctx.edges["B"] = fb
        op = rng.choice(ops)
        x, y = ("B", "A") if swap else ("A", "B")
        ctx.emit("apply C%d %s %s %s %s" % (rnd, fr.name, op, x, y))
        ctx.emit("release B")
        if not keep:
            ctx.emit("release C%d" % rnd)
        if rng.random() < 0.15:
            ctx.emit("show A")
    return ctx.text()


ARITH = ["plus", "minus", "mult", "mult", "max", "min", "distmin"]
CMP = ["eq", "ne", "lt", "le", "gt", "ge"]


def gen_C05(rng):
    ctx = Ctx(rng)
    rel = rng.random() < 0.4
    rngtype = rng.choice(["int", "int", "real"])
    preamble(ctx, rel, ranges=(rngtype,), nforests=rng.choice([1, 2, 3]))
    # a boolean forest for comparison results
    fb = Forest("FB", ctx.doms[0], rel, "bool", "mt", rng.choice(RULES_REL if rel else RULES_SET), rand_opts(rng))
    ctx.emit(fb.decl())
    leaves = set()
    for _ in range(rng.randint(2, 4)):
        leaves.add(gen_leaf(ctx, rng.choice(ctx.forests)))
    for _ in range(rng.randint(4, 12)):
        names = edges_in(ctx, lambda f: f.range == rngtype)
        fr = rng.choice(ctx.forests)
        r = rng.random()
        a, b = rng.choice(names), rng.choice(names)
        if rng.random() < 0.1:
            b = a
        n = ctx.fresh()
        if r < 0.55:
            op = rng.choice(ARITH)
            if op == "mult" and rngtype == "real" and not (a in leaves and b in leaves):
                op = "plus"
            ctx.emit("apply %s %s %s %s %s" % (n, fr.name, op, a, b))
            ctx.edges[n] = fr
        elif r < 0.62 and rngtype == "int":
            # division / modulo by a divisor that is nowhere zero
            dv = ctx.fresh("d")
            parts = ["coll", dv, fr.name, "min", "3"]
            for _ in range(rng.choice([0, 1, 2, 3])):
                pos = rand_pos_rel(rng, fr.dom, .3, .2) if rel else rand_pos_set(rng, fr.dom, .3)
                parts += [";"] + pos + ["=>", str(rng.choice([1, 2, -1, -2, -3]))]
            ctx.emit(" ".join(parts))
            ctx.edges[dv] = fr
            ctx.emit("apply %s %s %s %s %s" % (n, fr.name, rng.choice(["div", "mod"]), a, dv))
            ctx.edges[n] = fr
        elif r < 0.8:
            tgt = rng.choice([fb, fr])
            ctx.emit("apply %s %s %s %s %s" % (n, tgt.name, rng.choice(CMP), a, b))
            ctx.edges[n] = tgt
        elif r < 0.9:
            leaves.add(gen_leaf(ctx, fr))
        else:
            ctx.emit("range %s" % a)
    return ctx.text()


def gen_C05_neutral(rng):
    """neutral and absorbing elements met through the shortcuts of the arithmetic
    templates, with the operands in relation forests of DIFFERENT reduction rules:
    an identity-reduced operand made of identity blocks / constants with the
    values 0 and 1, a fully- or quasi-reduced operand that is non-zero off the
    diagonal, both operand orders, every result rule"""
    ctx = Ctx(rng)
    ctx.emit("init " + rand_ctopts(rng))
    d = rand_domain(rng, "D", True, 200, 3)
    ctx.emit(d.decl())
    ctx.doms.append(d)
    rg = rng.choice(["int", "int", "real"])
    one = "64" if rg == "real" else "1"
    fi = Forest("FI", d, True, rg, "mt", "ir", rand_opts(rng))
    fo = Forest("FO", d, True, rg, "mt", rng.choice(["fr", "qr"]), rand_opts(rng))
    fr = Forest("FR", d, True, rg, "mt", rng.choice(RULES_REL), rand_opts(rng))
    for f in (fi, fo, fr):
        ctx.emit(f.decl())
        ctx.forests.append(f)
    # neutral-ish operands in the identity-reduced forest
    neutral = []
    for i in range(rng.randint(1, 3)):
        nm = "I%d" % i
        r = rng.random()
        if r < 0.4:
            # identity blocks with value exactly 1 (or 0/1 mixed)
            parts = ["coll", nm, "FI", "max", "0"]
            for _ in range(rng.choice([1, 1, 2])):
                pos = []
                for sz in d.sizes:
                    pos += rng.choice([["x", "="], ["x", "="], [str(rng.randrange(sz)), "="], ["x", "x"]])
                parts += [";"] + pos + ["=>", one]
            ctx.emit(" ".join(parts))
        elif r < 0.7:
            ctx.emit("const %s FI %s" % (nm, rng.choice([one, one, "0"])))
        else:
            gen_identityish(ctx, fi, nm)
        ctx.edges[nm] = fi
        neutral.append(nm)
    others = []
    for i in range(rng.randint(1, 3)):
        nm = "O%d" % i
        gen_coll(ctx, fo, nm, nmax=4)
        others.append(nm)
    ops = ["mult", "mult", "plus", "max", "min", "minus"] if rg == "int" else ["plus", "max", "min", "minus"]
    for _ in range(rng.randint(4, 10)):
        a, b = rng.choice(neutral), rng.choice(others)
        if rng.random() < 0.5:
            a, b = b, a
        n = ctx.fresh()
        tgt = rng.choice([fi, fo, fr])
        ctx.emit("apply %s %s %s %s %s" % (n, tgt.name, rng.choice(ops), a, b))
        ctx.edges[n] = tgt
        if rng.random() < 0.3:
            (others if tgt is not fi else neutral).append(n)
    return ctx.text()


def gen_C10(rng):
    ctx = Ctx(rng)
    rel = rng.random() < 0.5
    preamble(ctx, rel, ranges=("bool", "int", "real"), nforests=rng.choice([3, 4, 5]))
    for _ in range(rng.randint(2, 4)):
        gen_leaf(ctx, rng.choice(ctx.forests))
    for _ in range(rng.randint(4, 10)):
        names = list(ctx.edges)
        a = rng.choice(names)
        fr = rng.choice(ctx.forests)
        n = ctx.fresh()
        ctx.emit("unary %s %s copy %s" % (n, fr.name, a))
        ctx.edges[n] = fr
        if rng.random() < 0.5:
            # copy back and compare
            fa = ctx.edges[a]
            m = ctx.fresh()
            ctx.emit("unary %s %s copy %s" % (m, fa.name, n))
            ctx.edges[m] = fa
            ctx.emit("eq %s %s" % (m, a))
    return ctx.text()


def gen_C10_ev(rng):
    """COPY with EV+ sources and targets (sets and relations), mixed with
    multi-terminal forests of every range; there-and-back copies"""
    ctx = Ctx(rng)
    rel = rng.random() < 0.5
    d = preamble(ctx, rel, ranges=("bool", "int", "int", "real"), nforests=rng.choice([2, 3]))
    rules = RULES_REL if rel else RULES_SET
    evs = []
    for i in range(rng.choice([1, 2])):
        fe = Forest("E%d" % i, d, rel, "int", "evp", rng.choice(rules), rand_opts(rng))
        ctx.emit(fe.decl())
        evs.append(fe)
    allf = ctx.forests + evs
    for _ in range(rng.randint(1, 3)):
        gen_coll_evp(ctx, rng.choice(evs))
    for _ in range(rng.randint(1, 3)):
        gen_leaf(ctx, rng.choice(ctx.forests))
    flags = getattr(ctx, "flags", {})

    def allowed(a, fr):
        fa = ctx.edges[a]
        # recorded findings (corpus/C10): identity-reduced MT source into EV+,
        # and +infinity copied into a multi-terminal forest
        if fa.lab == "mt" and fr.lab == "evp" and fa.rule == "ir":
            return False
        if fa.lab == "evp" and fr.lab == "mt" and flags.get(a, (True, True))[1]:
            return False
        return True

    def copy(a, fr):
        n = ctx.fresh()
        ctx.emit("unary %s %s copy %s" % (n, fr.name, a))
        ctx.edges[n] = fr
        if fr.lab == "evp":
            flags[n] = flags[a] if ctx.edges[a].lab == "evp" else (True, False)
        return n

    for _ in range(rng.randint(4, 10)):
        names = list(ctx.edges)
        a = rng.choice(names)
        fa = ctx.edges[a]
        fr = rng.choice(evs) if (fa.lab == "mt" and rng.random() < 0.7) else rng.choice(allf)
        if not allowed(a, fr):
            continue
        n = copy(a, fr)
        if rng.random() < 0.5 and allowed(n, fa):
            m = copy(n, fa)
            ctx.emit("eq %s %s" % (m, a))
    ctx.flags = flags
    return ctx.text()


def gen_evstar(rng):
    """EV* forests (real-valued relations): collections, element-wise arithmetic
    (divisors nowhere zero, operands distinct), copies to and from multi-terminal
    forests of every range and between EV* forests of different rules"""
    ctx = Ctx(rng)
    ctx.emit("init " + rand_ctopts(rng))
    d = rand_domain(rng, "D", True, 200, 3)
    ctx.emit(d.decl())
    ctx.doms.append(d)
    evs = []
    for i in range(rng.choice([1, 2, 2])):
        f = Forest("T%d" % i, d, True, "real", "evt", rng.choice(RULES_REL), rand_opts(rng))
        ctx.emit(f.decl())
        evs.append(f)
    mts = []
    for i, rg in enumerate(rng.sample(["real", "int", "bool"], rng.choice([1, 2]))):
        f = Forest("M%d" % i, d, True, rg, "mt", rng.choice(RULES_REL), rand_opts(rng))
        ctx.emit(f.decl())
        mts.append(f)
    ctx.forests = evs + mts
    # EV* normalises by division: only powers of two (0.5, 1, 2, 4 as 32, 64, 128, 256) keep
    # every intermediate value exact in single precision, and only products, quotients,
    # maxima and minima stay within that set
    vals = ["64", "64", "128", "32", "256"]

    def coll(f, nonzero=False):
        nm = ctx.fresh()
        if nonzero:
            parts = ["coll", nm, f.name, "max", "32"]      # builder contract: default <= all values
        else:
            parts = ["coll", nm, f.name, "max", "0"]
        for _ in range(rng.choice([1, 2, 3])):
            parts += [";"] + rand_pos_rel(rng, d, rng.choice([0, .3, .6]), rng.choice([0, .3])) + ["=>", rng.choice(vals)]
        ctx.emit(" ".join(parts))
        ctx.edges[nm] = f
        return nm

    names = [coll(rng.choice(evs)) for _ in range(rng.randint(2, 4))]
    for _ in range(rng.randint(4, 10)):
        r = rng.random()
        if r < 0.5:
            a, b = rng.choice(names), rng.choice(names)
            op = rng.choice(["mult", "mult", "max", "min", "div"])
            if op == "div":
                b = coll(rng.choice(evs), nonzero=True)
            fr = rng.choice(evs)
            n = ctx.fresh()
            ctx.emit("apply %s %s %s %s %s" % (n, fr.name, op, a, b))
            ctx.edges[n] = fr
            if op in ("max", "min", "mult"):
                names.append(n)
        elif r < 0.85:
            a = rng.choice(list(ctx.edges))
            fa = ctx.edges[a]
            fr = rng.choice(evs) if fa.lab == "mt" else rng.choice(ctx.forests)
            n = ctx.fresh()
            ctx.emit("unary %s %s copy %s" % (n, fr.name, a))
            ctx.edges[n] = fr
            if fr.lab == "evt" and fa.range == "real":
                names.append(n)
            if rng.random() < 0.5 and fa.range == "real" and fr.range == "real":
                m = ctx.fresh()
                ctx.emit("unary %s %s copy %s" % (m, fa.name, n))
                ctx.edges[m] = fa
                ctx.emit("eq %s %s" % (m, a))
        else:
            f = rng.choice(mts)
            gen_leaf(ctx, f)
    return ctx.text()


def gen_C05_diag(rng):
    """element-wise operations whose result, in an identity-reduced relation forest that
    reclaims eagerly, has rows i with i -> i as the only non-transparent primed entry and a
    real (non-identity) sub-matrix below: the freshly built primed singleton node is
    bypassed (redirected) and released right away"""
    ctx = Ctx(rng)
    ctx.emit("init " + rand_ctopts(rng))
    k = rng.choice([2, 2, 3])
    d = Domain("D", [rng.choice([2, 3]) for _ in range(k)])
    ctx.emit(d.decl())
    ctx.doms.append(d)
    rg = rng.choice(["int", "int", "real"])
    fa = Forest("A", d, True, rg, "mt", rng.choice(RULES_REL), rand_opts(rng))
    fr = Forest("F", d, True, rg, "mt", "ir", "del=pess " + rng.choice(["", "storage=full", "storage=sparse", "mm=heap"]))
    ctx.emit(fa.decl())
    ctx.emit(fr.decl())
    ctx.forests = [fa, fr]
    vals = ["1", "2", "3", "5"] if rg == "int" else ["32", "64", "96", "128"]
    names = []
    for i in range(rng.randint(2, 4)):
        nm = "m%d" % i
        f = rng.choice([fa, fr])
        parts = ["coll", nm, f.name, "max", "0"]
        for _ in range(rng.choice([1, 2, 3])):
            pos = []
            for v in range(k - 1):
                a = rng.randrange(d.sizes[v])
                pos += rng.choice([[str(a), str(rng.randrange(d.sizes[v]))], ["x", str(rng.randrange(d.sizes[v]))],
                                   [str(a), "x"]])
            t = rng.randrange(d.sizes[k - 1])
            pos += [str(t), str(t)]                      # top variable: i -> i
            parts += [";"] + pos + ["=>", rng.choice(vals)]
        ctx.emit(" ".join(parts))
        ctx.edges[nm] = f
        names.append(nm)
    ops = ["plus", "max", "min", "mult", "minus"] if rg == "int" else ["plus", "max", "min"]
    for _ in range(rng.randint(3, 7)):
        a, b = rng.choice(names), rng.choice(names)
        n = ctx.fresh()
        ctx.emit("apply %s F %s %s %s" % (n, rng.choice(ops), a, b))
        ctx.edges[n] = fr
        if rng.random() < 0.4:
            ctx.emit("audit F")
        if rng.random() < 0.3:
            ctx.emit("release %s" % n)
            ctx.edges.pop(n)
        elif rng.random() < 0.3:
            names.append(n)
    ctx.emit("audit F")
    for e in list(ctx.edges):
        if ctx.edges[e] is fr:
            ctx.emit("show %s" % e)
    return ctx.text()


def gen_C05_ev(rng):
    """element-wise arithmetic and comparisons on EV+ forests (with +infinity);
    the undefined scalar cases must raise the documented errors"""
    ctx = Ctx(rng)
    rel = rng.random() < 0.35
    d = preamble(ctx, rel, ranges=("bool", "int"), nforests=2)
    rules = RULES_REL if rel else RULES_SET
    evs = []
    for i in range(rng.choice([1, 2, 2])):
        fe = Forest("E%d" % i, d, rel, "int", "evp", rng.choice(rules), rand_opts(rng))
        ctx.emit(fe.decl())
        evs.append(fe)
    for _ in range(rng.randint(2, 4)):
        gen_coll_evp(ctx, rng.choice(evs))
    flags = ctx.flags
    total = False
    if rng.random() < 0.5:
        # a nowhere-infinite, nowhere-zero operand: makes minus/div/mod defined
        f = rng.choice(evs)
        n = ctx.fresh()
        ctx.emit("const %s %s %d" % (n, f.name, rng.choice([1, 2, 3])))
        ctx.edges[n] = f
        flags[n] = (False, False)
        total = n
    arith = ["plus", "plus", "minus", "mult", "max", "min", "min", "div", "mod"]
    comps = ["eq", "ne", "lt", "le", "gt", "ge"]
    for _ in range(rng.randint(4, 10)):
        names = [e for e in ctx.edges if ctx.edges[e].lab == "evp"]
        a, b = rng.choice(names), rng.choice(names)
        if total and rng.random() < 0.4:
            b = total
        n = ctx.fresh()
        if rng.random() < 0.3:
            fr = rng.choice(ctx.forests)
            ctx.emit("apply %s %s %s %s %s" % (n, fr.name, rng.choice(comps), a, b))
            ctx.edges[n] = fr
        else:
            fr = rng.choice(evs)
            op = rng.choice(arith)
            (a0, ai), (b0, bi) = flags[a], flags[b]
            # recorded findings (corpus/C05): 0 x +infinity, and g/g, g mod g
            if op == "mult" and ((a0 and bi) or (b0 and ai)):
                op = "plus"
            # equal-node shortcuts (recorded findings, corpus/C05/evplus-*-equal-operands): g-g,
            # (g+c)-g, g/g, g mod g are answered from the edge values alone even where the
            # operation is undefined: only generate operand pairs whose nodes must differ
            if op == "minus" and bi and ai:
                op = "plus"
            if op in ("div", "mod") and not (flags[b] == (False, False) or flags[a] == (False, False)):
                op = "min"
            ctx.emit("apply %s %s %s %s %s" % (n, fr.name, op, a, b))
            ctx.edges[n] = fr
            flags[n] = {
                "plus": (a0 and b0, ai or bi), "max": (a0 and b0, ai or bi),
                "mult": (a0 or b0, ai or bi), "min": (a0 or b0, ai and bi),
            }.get(op, (True, ai))
            if rng.random() < 0.25 and ctx.edges[a] is fr and op not in ("div", "mod", "minus"):
                # the same operation computed into (a copy of) the first operand's edge
                c = ctx.fresh()
                ctx.emit("copyedge %s %s" % (c, a))
                ctx.edges[c] = fr
                flags[c] = flags[a]
                ctx.emit("applyinto %s %s %s %s" % (c, op, c, b))
                flags[c] = flags[n]
                ctx.emit("show %s" % c)
                ctx.emit("eq %s %s" % (c, n))
        # operands unchanged
        if rng.random() < 0.3:
            ctx.emit("show %s" % a)
    return ctx.text()


def gen_C01_ev(rng):
    """edge-valued forests: the same computation requested again (compute-table hit),
    commuted, and on a copy of an operand must return the identical edge -- including
    when the result is the transparent edge (+infinity everywhere / 0 everywhere) reached
    from operands with non-trivial root edge values (disjoint supports)"""
    ctx = Ctx(rng)
    evstar = rng.random() < 0.3
    rel = True if evstar else rng.random() < 0.4
    ctx.emit("init " + rand_ctopts(rng))
    d = rand_domain(rng, "D", rel, 150, 3)
    ctx.emit(d.decl())
    ctx.doms.append(d)
    rules = RULES_REL if rel else RULES_SET
    if evstar:
        f = Forest("E", d, rel, "real", "evt", rng.choice(rules), rand_opts(rng))
    else:
        f = Forest("E", d, rel, "int", "evp", rng.choice(rules), rand_opts(rng))
    ctx.emit(f.decl())
    ctx.forests = [f]
    top = len(d.sizes) - 1
    nt = d.sizes[top]

    def coll(topval):
        """minterms that fix the top variable to topval: supports with different
        topval are disjoint"""
        nm = ctx.fresh()
        if evstar:
            parts = ["coll", nm, f.name, "max", "0"]
            vals = ["64", "128", "32", "256"]
        else:
            parts = ["coll", nm, f.name, "min", "inf"]
            vals = ["1", "2", "3", "5", "8"]
        for _ in range(rng.choice([1, 1, 2, 3])):
            pos = rand_pos_rel(rng, d, rng.choice([0, .3, .6]), rng.choice([0, .3])) if rel \
                else rand_pos_set(rng, d, rng.choice([0, .3, .6]))
            # positions list the top variable last (sets) / its pair last (relations)
            if rel:
                pos[-2] = str(topval)
            else:
                pos[-1] = str(topval)
            parts += [";"] + pos + ["=>", rng.choice(vals)]
        ctx.emit(" ".join(parts))
        ctx.edges[nm] = f
        return nm

    for _ in range(rng.randint(1, 3)):
        tv = rng.sample(range(nt), 2) if rng.random() < 0.75 else [rng.randrange(nt)] * 2
        a, b = coll(tv[0]), coll(tv[1])
        ops = ["mult", "max", "min"] if evstar else ["max", "max", "min", "plus"]
        op = rng.choice(ops)
        r = []
        for (x, y) in [(a, b), (a, b), (b, a)]:
            n = ctx.fresh()
            ctx.emit("apply %s %s %s %s %s" % (n, f.name, op, x, y))
            ctx.edges[n] = f
            r.append(n)
        c = ctx.fresh()
        ctx.emit("copyedge %s %s" % (c, a))
        ctx.edges[c] = f
        n = ctx.fresh()
        ctx.emit("apply %s %s %s %s %s" % (n, f.name, op, c, b))
        ctx.edges[n] = f
        r.append(n)
        for x in r[1:]:
            ctx.emit("eq %s %s" % (r[0], x))
        if rng.random() < 0.5:
            ctx.emit("clearct")
            n = ctx.fresh()
            ctx.emit("apply %s %s %s %s %s" % (n, f.name, op, a, b))
            ctx.edges[n] = f
            ctx.emit("eq %s %s" % (r[0], n))
    ctx.emit("audit E")
    return ctx.text()


def gen_C01_irfull(rng):
    """identity-reduced relation forests with full-only storage and variables of size >= 3:
    transitions that keep a variable at a value >= 2 while another one changes (primed
    singleton nodes at index >= 2), built by a minterm collection, by accumulating single
    minterms, and by copying through another forest and back -- all must be the same edge"""
    ctx = Ctx(rng)
    ctx.emit("init " + rand_ctopts(rng))
    k = rng.choice([2, 2, 3])
    d = Domain("D", [rng.choice([3, 4, 5]) for _ in range(k)])
    ctx.emit(d.decl())
    ctx.doms.append(d)
    rg = rng.choice(["bool", "int"])
    f = Forest("F", d, True, rg, "mt", "ir", "storage=full " + rng.choice(["", "del=pess", "mm=heap"]))
    g = Forest("G", d, True, rg, "mt", rng.choice(["fr", "qr", "ir"]), rand_opts(rng))
    ctx.emit(f.decl())
    ctx.emit(g.decl())
    ctx.forests = [f, g]
    for rnd in range(rng.randint(1, 3)):
        mts = []
        for _ in range(rng.randint(1, 4)):
            pos = []
            moved = rng.randrange(k)
            for v in range(k):
                sz = d.sizes[v]
                if v == moved:
                    a = rng.randrange(sz)
                    pos += [str(a), str(rng.choice([x for x in range(sz) if x != a]))]
                else:
                    keep = rng.randrange(2, sz) if rng.random() < 0.8 else rng.randrange(sz)
                    pos += [str(keep), str(keep)]
            val = "1" if rg == "bool" else str(rng.choice([1, 2, 3, 5]))
            mts.append((pos, val))
        A = "A%d" % rnd
        parts = ["coll", A, "F", "max", "0"]
        for pos, v in mts:
            parts += [";"] + pos + ["=>", v]
        ctx.emit(" ".join(parts))
        ctx.edges[A] = f
        # accumulate single minterms
        acc = None
        for i, (pos, v) in enumerate(mts):
            m = "m%d_%d" % (rnd, i)
            ctx.emit("minterm %s F 0 %s : %s" % (m, v, " ".join(pos)))
            ctx.edges[m] = f
            if acc is None:
                acc = m
            else:
                n = "c%d_%d" % (rnd, i)
                ctx.emit("apply %s F %s %s %s" % (n, "union" if rg == "bool" else "max", acc, m))
                ctx.edges[n] = f
                acc = n
        ctx.emit("eq %s %s" % (A, acc))
        G = "g%d" % rnd
        H = "h%d" % rnd
        ctx.emit("unary %s G copy %s" % (G, A))
        ctx.edges[G] = g
        ctx.emit("unary %s F copy %s" % (H, G))
        ctx.edges[H] = f
        ctx.emit("eq %s %s" % (A, H))
        ctx.emit("audit F")
    return ctx.text()


def gen_C02_reorder(rng):
    """reduction rule after a reordering that exchanges variables of DIFFERENT sizes:
    functions with many unconstrained variables are built in the reordered fully-reduced
    forest (redundant nodes must still be eliminated, non-redundant ones kept: the size of
    a level is the size of the variable that sits there now)"""
    ctx = Ctx(rng)
    ctx.emit("init " + rand_ctopts(rng))
    k = rng.choice([3, 3, 4])
    while True:
        sizes = [rng.choice([2, 3, 4]) for _ in range(k)]
        if len(set(sizes)) > 1:
            break
    d = Domain("D", sizes)
    ctx.emit(d.decl())
    ctx.doms.append(d)
    rg = rng.choice(["bool", "int"])
    f = Forest("F", d, False, rg, "mt", rng.choice(["fr", "fr", "qr"]),
               rand_opts(rng) + " reorder=" + rng.choice(REORDERS) + " swap=" + rng.choice(["var", "level"]))
    ctx.emit(f.decl())
    ctx.forests = [f]
    for _ in range(rng.randint(1, 3)):
        gen_coll(ctx, f, nmax=4)
    for rnd in range(rng.randint(1, 3)):
        while True:
            p = list(range(1, k + 1))
            rng.shuffle(p)
            # positions whose variable changed size
            if any(sizes[p[i] - 1] != sizes[i] for i in range(k)):
                break
        ctx.emit("reorder F %s" % " ".join(map(str, p)))
        ctx.emit("order F")
        for e in list(ctx.edges):
            ctx.emit("show %s" % e)
        # new functions in the reordered forest: mostly don't-care positions.  Positions are
        # given by LEVEL, and level i now holds variable p[i-1]
        lsz = [sizes[v - 1] for v in p]
        for _ in range(rng.randint(2, 4)):
            nm = ctx.fresh()
            parts = ["coll", nm, "F", "max", "0"]
            for _ in range(rng.choice([1, 2, 3])):
                pdc = rng.choice([0.5, 0.7, 0.9])
                pos = [("x" if rng.random() < pdc else str(rng.randrange(z))) for z in lsz]
                parts += [";"] + pos + ["=>", "1" if rg == "bool" else str(rng.choice([1, 2, 3]))]
            ctx.emit(" ".join(parts))
            ctx.edges[nm] = f
        names = list(ctx.edges)
        for _ in range(rng.randint(1, 3)):
            a, b = rng.choice(names), rng.choice(names)
            n = ctx.fresh()
            ctx.emit("apply %s F %s %s %s" % (n, rng.choice(SETOPS) if rg == "bool" else rng.choice(["plus", "max", "min"]), a, b))
            ctx.edges[n] = f
        ctx.emit("audit F")
    return ctx.text()


def gen_C01(rng):
    """the same function along several construction paths; all must be =="""
    ctx = Ctx(rng)
    rel = rng.random() < 0.5
    preamble(ctx, rel, ranges=("bool", "int"), nforests=rng.choice([2, 3]))
    f = ctx.forests[0]
    g = ctx.forests[1]
    # a collection and a permutation of it
    n = rng.randint(2, 8)
    vals = value_pool(rng, f)
    mts = []
    for _ in range(n):
        pos = rand_pos_rel(rng, f.dom, rng.choice([0, .3, .6]), rng.choice([0, .3])) if rel \
            else rand_pos_set(rng, f.dom, rng.choice([0, .3, .6]))
        v = "1" if f.range == "bool" else str(abs(int(rng.choice(vals))) + 1)
        mts.append((pos, v))

    def coll(name, lst):
        parts = ["coll", name, f.name, "max", "0"]
        for pos, v in lst:
            parts += [";"] + pos + ["=>", v]
        ctx.emit(" ".join(parts))
        ctx.edges[name] = f

    coll("A", mts)
    perm = mts[:]
    rng.shuffle(perm)
    coll("B", perm)
    ctx.emit("eq A B")
    # union / max of pieces
    op = "union" if f.range == "bool" else "max"
    cut = rng.randint(1, n - 1)
    coll("P1", mts[:cut])
    coll("P2", mts[cut:])
    ctx.emit("apply C %s %s P1 P2" % (f.name, op))
    ctx.edges["C"] = f
    ctx.emit("eq A C")
    # through another forest and back
    if g.range == f.range or (f.range == "bool"):
        ctx.emit("unary G %s copy A" % g.name)
        ctx.edges["G"] = g
        ctx.emit("unary H %s copy G" % f.name)
        ctx.edges["H"] = f
        ctx.emit("eq A H")
    # rebuild after releasing everything and clearing caches (handle reuse)
    ctx.emit("copyedge K A")
    ctx.emit("show K")
    for e in ["A", "B", "C", "P1", "P2"]:
        ctx.emit("release %s" % e)
    ctx.emit("clearct")
    for _ in range(rng.randint(0, 3)):
        gen_leaf(ctx, f)
    coll("A2", perm)
    ctx.emit("eq A2 K")
    ctx.emit("release K")
    ctx.emit("clearct")
    coll("A3", mts)
    ctx.emit("eq A3 A2")
    return ctx.text()


def gen_C19(rng, n=2500):
    """terminal codec: boundary values first, then random ones"""
    L = []
    W = 1 << 30
    ints = [0, 1, -1, 2, -2, W - 1, W, W + 1, -W, -W - 1, -W + 1, W - 2, (1 << 31) - 1, -(1 << 31),
            (1 << 31), (1 << 32), -(1 << 32) - 1, (1 << 61), -(1 << 61), 255, 256, 65535, 65536]
    for v in ints:
        L.append("term int %d" % v)
    for _ in range(n // 3):
        r = rng.random()
        if r < 0.5:
            v = rng.randint(-W - 3, W + 3)
        elif r < 0.8:
            v = rng.choice([1, -1]) * (1 << rng.randint(0, 31)) + rng.randint(-2, 2)
        else:
            v = rng.randint(-(1 << 40), 1 << 40)
        L.append("term int %d" % v)
    # all 512 sign/exponent classes with mantissa corner patterns
    mant = [0, 1, 2, 3, 0x400000, 0x7fffff, 0x7ffffe, 0x000004]
    classes = list(range(512))
    rng.shuffle(classes)
    for se in classes[: max(64, n // 10)]:
        for m in (mant if rng.random() < 0.3 else [rng.choice(mant), rng.getrandbits(23)]):
            L.append("term real %08x" % ((se << 23) | m))
    for b in [0, 1, 2, 3, 0x80000000, 0x80000001, 0x80000002, 0x7f800000, 0xff800000, 0x7f7fffff,
              0x00800000, 0x007fffff, 0x3f800000, 0xbf800001]:
        L.append("term real %08x" % b)
    for _ in range(n // 3):
        L.append("term real %08x" % rng.getrandbits(32))
    L += ["term bool 0", "term bool 1"]
    for _ in range(n // 10):
        L.append("term hint %d" % -rng.getrandbits(31))
        L.append("term hreal %d" % -rng.getrandbits(31))
    return "\n".join(L) + "\n"


def gen_C19_edges(rng, n=600):
    """edge values: doubles handed to an EV* forest (rounded to single precision:
    underflow to zero, denormals, the float range, exact values), integers and
    +infinity handed to an EV+ forest"""
    import struct
    L = ["init", "domain D 2",
         "forest T D rel real evt %s" % rng.choice(["ir", "fr", "qr"]),
         "forest P D set int evp %s" % rng.choice(["fr", "qr"])]

    def dbl(d):
        try:
            f = struct.unpack("<I", struct.pack("<f", d))[0]
        except OverflowError:
            return
        L.append("edgeval T dbl %016x %08x" % (struct.unpack("<Q", struct.pack("<d", d))[0], f))

    corner = [0.0, -0.0, 1.0, -1.0, 2.0, 0.5, 1e-50, -1e-50, 1e-46, 7e-46, 8e-46, 1.4e-45, 1e-45, 2e-45,
              1.17549435e-38, 1.1754942e-38, 1e-39, 3.4028234e38, 1e-300, 5e-324, 1.0000001, 0.1, 1 / 3.0]
    for d in corner:
        dbl(d)
        dbl(-d)
    for _ in range(n):
        r = rng.random()
        if r < 0.35:
            # around the single-precision underflow threshold 2^-150 .. 2^-126
            dbl(rng.choice([1, -1]) * rng.uniform(0.5, 2.0) * 2.0 ** rng.randint(-160, -120))
        elif r < 0.5:
            dbl(rng.choice([1, -1]) * rng.uniform(0.5, 2.0) * 2.0 ** rng.randint(-1074, -161))
        elif r < 0.8:
            dbl(rng.choice([1, -1]) * rng.uniform(0.5, 2.0) * 2.0 ** rng.randint(-119, 120))
        else:
            dbl(struct.unpack("<f", struct.pack("<I", rng.getrandbits(31) % 0x7f800000))[0])
    for v in [0, 1, -1, 5, -7, (1 << 31) - 1, -(1 << 31), (1 << 40), -(1 << 40), (1 << 61)]:
        L.append("edgeval P int %d" % v)
    for _ in range(n // 6):
        L.append("edgeval P int %d" % rng.randint(-(1 << 50), 1 << 50))
    L.append("edgeval P inf")
    return "\n".join(L) + "\n"


def gen_C19_forest(rng, n=120):
    """integers handed to the forest entry point (createConstant on integer
    multi-terminal forests) instead of the terminal class directly: the value
    must come back unchanged in the table or be rejected with VALUE_OVERFLOW
    exactly when the generated getIntegerHandle rejects it (narrowing anywhere
    between the API and the codec shows as a wrong table)"""
    W = 1 << 30
    L = ["init", "domain D 2 3",
         "forest I D set int mt %s" % rng.choice(["fr", "qr"]),
         "forest J D rel int mt %s" % rng.choice(["fr", "qr", "ir"])]
    vals = [0, 1, -1, W - 1, W, -W, -W - 1, (1 << 31) - 1, 1 << 31, -(1 << 31), -(1 << 31) - 1,
            (1 << 32), (1 << 32) + 5, -(1 << 32) - 7, (1 << 40), (1 << 40) + 3, -(1 << 40) + 9,
            (1 << 33) - 1, (1 << 32) + W - 1, (1 << 32) - W, (1 << 61), -(1 << 61) + 1]
    for _ in range(n):
        r = rng.random()
        if r < 0.3:
            vals.append(rng.randint(-W - 3, W + 3))
        elif r < 0.6:
            vals.append(rng.choice([1, -1]) * ((1 << rng.randint(31, 60)) + rng.randint(-W, W)))
        else:
            vals.append(rng.choice([1, -1]) * (1 << rng.randint(28, 33)) + rng.randint(-3, 3))
    for i, v in enumerate(vals):
        L.append("const k%d %s %d" % (i, rng.choice(["I", "I", "J"]), v))
        if rng.random() < 0.7:
            L.append("release k%d" % i)
    return "\n".join(L) + "\n"


def gen_C18(rng, nops=400):
    """request/recycle histories against bare memory managers"""
    L = ["init"]
    style = rng.choice(["orig", "array", "heap", "malloc", "free", "array", "orig"])
    gran = rng.choice([4, 8])
    minsize = 1 if style == "free" else rng.choice([5, 5, 4, 6])
    L.append("mm new M %s %d %d" % (style, gran, minsize))
    live = []
    nid = 0
    mode = rng.choice(["mixed", "bursts", "fifo", "lifo", "sawtooth"])
    maxsz = 15 if style == "free" else rng.choice([12, 40, 200, 200, 1000])

    def size():
        r = rng.random()
        if r < 0.4:
            return rng.randint(minsize, min(maxsz, minsize + 6))
        if r < 0.8:
            return rng.randint(minsize, min(maxsz, 40))
        return rng.randint(minsize, maxsz)

    for step in range(nops):
        if mode == "bursts":
            want_req = (step // 25) % 2 == 0
        elif mode == "sawtooth":
            want_req = (step % 60) < 40
        else:
            want_req = rng.random() < 0.55
        if want_req or not live:
            L.append("mm req M %d" % size())
            live.append(nid)
            nid += 1
        else:
            if mode == "fifo":
                k = 0
            elif mode == "lifo":
                k = len(live) - 1
            else:
                # often recycle neighbours of the previous victim (coalescing)
                k = rng.randrange(len(live))
                if rng.random() < 0.4 and len(live) > 2:
                    k = min(len(live) - 1, max(0, k + rng.choice([-1, 1])))
            L.append("mm rec M %d" % live.pop(k))
        if step % 7 == 6:
            L.append("mm check M")
    L.append("mm check M")
    # drain in random order, then allocate again (reuse of coalesced space)
    rng.shuffle(live)
    for i in live[: len(live) * 2 // 3]:
        L.append("mm rec M %d" % i)
    L.append("mm check M")
    for _ in range(20):
        L.append("mm req M %d" % size())
    L.append("mm check M")
    L.append("mm del M")
    return "\n".join(L) + "\n"


def gen_recycle_cached(rng):
    """handle recycling against compute-table entries: a cached result whose nodes are the
    newest handles, a still newer uncached function, both dropped (the handle array is
    trimmed over deleted-but-cached handles), unrelated new functions (handle reuse), and
    the same operation again; pessimistic deletion most of the time"""
    ctx = Ctx(rng)
    ctx.emit("init " + rand_ctopts(rng))
    rel = rng.random() < 0.25
    d = rand_domain(rng, "D", rel, 150, 3)
    ctx.emit(d.decl())
    ctx.doms.append(d)
    rg = rng.choice(["bool", "int", "int"])
    opts = "del=" + rng.choice(["pess", "pess", "pess", "opt", "never"])
    if rng.random() < 0.5:
        opts += " storage=" + rng.choice(STOR)
    if rng.random() < 0.5:
        opts += " mm=" + rng.choice(MMS)
    f = Forest("F", d, rel, rg, "mt", rng.choice(RULES_REL if rel else RULES_SET), opts)
    ctx.emit(f.decl())
    ctx.forests.append(f)
    ops = SETOPS if rg == "bool" else ["plus", "max", "min"]
    a = gen_coll(ctx, f, "A", nmax=5)
    b = gen_coll(ctx, f, "B", nmax=5)
    for rnd in range(rng.randint(2, 5)):
        op = rng.choice(ops)
        ctx.emit("apply R%d F %s A B" % (rnd, op))
        ctx.edges["R%d" % rnd] = f
        # something newer than the result, not in any compute table (a variable edge is
        # built without operations)
        if rng.random() < 0.6:
            y = gen_var(ctx, f, "Y%d" % rnd)
        else:
            y = gen_leaf(ctx, f, "Y%d" % rnd)
        order = ["R%d" % rnd, "Y%d" % rnd]
        if rng.random() < 0.3:
            order.reverse()
        for e in order:
            ctx.emit("release %s" % e)
            ctx.edges.pop(e, None)
        # unrelated new functions take the freed handles (enough of them to use up the
        # free lists, so that handles beyond the last used one are handed out)
        for i in range(rng.choice([rng.randint(1, 6), rng.randint(6, 12)])):
            if rng.random() < 0.5:
                gen_var(ctx, f, "N%d_%d" % (rnd, i))
            else:
                gen_leaf(ctx, f, "N%d_%d" % (rnd, i))
        ctx.emit("apply S%d F %s A B" % (rnd, op))
        ctx.edges["S%d" % rnd] = f
        ctx.emit("show A")
        ctx.emit("show B")
        ctx.emit("audit F")
        if rng.random() < 0.5:
            for i in range(12):
                nm = "N%d_%d" % (rnd, i)
                if nm in ctx.edges and rng.random() < 0.7:
                    ctx.emit("release %s" % nm)
                    ctx.edges.pop(nm)
        if rng.random() < 0.3:
            # replace an operand: entries for the old one go stale
            gen_coll(ctx, f, "B", nmax=5)
    return ctx.text()


def gen_counter(rng):
    """the counter array driven directly: counts pushed across 255/256 and
    65535/65536 (widening), brought back (the counts_09bit / counts_17bit
    bookkeeping), resizes in between (narrowing happens in expand and in
    shrink), several large counters at once"""
    L = ["ctr new C"]
    size = rng.randint(2, 6)
    L.append("ctr exp C %d" % size)
    val = [0] * size

    def inc(i, k):
        L.append("ctr inc C %d %d" % (i, k)); val[i] += k

    def dec(i, k):
        k = min(k, val[i])
        if k > 0:
            L.append("ctr dec C %d %d" % (i, k)); val[i] -= k

    marks = [255, 256, 257, 65535, 65536, 65537, 300, 70000, 1, 10]

    def resize():
        n = size_ref[0] + rng.randint(1, 3)
        L.append("ctr exp C %d" % n)
        val.extend([0] * (n - size_ref[0]))
        size_ref[0] = n

    size_ref = [size]
    for step in range(rng.randint(10, 40)):
        size = size_ref[0]
        r = rng.random()
        if r < 0.12 and size >= 2:
            # one counter stays large while another one crosses a widening threshold and
            # comes back; then a resize re-decides the element width
            a, b = rng.sample(range(size), 2)
            lo, hi = rng.choice([(256, 65536), (256, 65536), (300, 70000), (256, 300), (65536, 65537)])
            if val[a] < lo:
                inc(a, lo - val[a])
            if val[b] < hi:
                inc(b, hi - val[b])
            dec(b, val[b] - rng.choice([0, 1, 200, 255]))
            resize()
            if rng.random() < 0.5:
                dec(a, val[a] - rng.choice([0, 255, 256]))
                resize()
            continue
        if r < 0.45:
            i = rng.randrange(size)
            tgt = rng.choice(marks)
            if tgt > val[i]:
                inc(i, tgt - val[i])
            else:
                inc(i, rng.choice([1, 2, 3]))
        elif r < 0.8:
            i = rng.randrange(size)
            tgt = rng.choice([0, 1, 254, 255, 256, 65535, 65536, 200])
            if tgt < val[i]:
                dec(i, val[i] - tgt)
            else:
                dec(i, rng.choice([1, 2]))
        elif r < 0.92:
            resize()
        else:
            # drop the unused tail
            keep = size
            while keep > 1 and val[keep - 1] == 0:
                keep -= 1
            keep = rng.randint(keep, size)
            if keep < size:
                L.append("ctr shr C %d" % keep)
                del val[keep:]
                size_ref[0] = keep
    L.append("ctr del C")
    return "\n".join(L) + "\n"


def gen_setops_two_ir(rng):
    """set operations whose operands live in two DISTINCT identity-reduced relation
    forests and meet at a primed level (same 'from' values, different 'to' values): the
    operations cache primed-level pairs in a second table.  The second operand is rebuilt
    with another 'to' value every round (its primed node's handle is recycled at once
    under pessimistic deletion, or after the table is cleared), the first operand's forest
    holds many more live nodes"""
    ctx = Ctx(rng)
    ctx.emit("init " + (rand_ctopts(rng) if rng.random() < 0.5 else ""))
    k = rng.choice([1, 1, 2])
    sizes = [rng.choice([3, 3, 4]) for _ in range(k)]
    d = Domain("D", sizes)
    ctx.emit(d.decl())
    fa = Forest("FA", d, True, "bool", "mt", "ir", rand_opts(rng))
    pess = rng.random() < 0.6
    fb = Forest("FB", d, True, "bool", "mt", "ir", "del=pess" if pess else rng.choice(["", "del=opt"]))
    fr = Forest("FR", d, True, "bool", "mt", "ir", rand_opts(rng))
    for f in (fa, fb, fr):
        ctx.emit(f.decl())
    # many live nodes in FA: every off-diagonal pair pattern
    n = 0
    for i in range(sizes[0]):
        for j in range(sizes[0]):
            if i != j and rng.random() < 0.8:
                pos = []
                for sz in sizes:
                    pos += [str(i % sz), str(j % sz)]
                ctx.emit("coll X%d FA max 0 ; %s => 1" % (n, " ".join(pos)))
                n += 1
    frm = [rng.randrange(sz) for sz in sizes]

    def pat(to):
        pos = []
        for v, sz in enumerate(sizes):
            pos += [str(frm[v]), str(to[v])]
        return " ".join(pos)

    def other_to():
        return [rng.choice([x for x in range(sz) if x != frm[v]] or [0]) for v, sz in enumerate(sizes)]

    ctx.emit("coll A FA max 0 ; %s => 1" % pat(other_to()))
    ops = ["union", "union", "inter", "diff"]
    result_f = rng.choice([fr, fr, fa, fb])
    for rnd in range(rng.randint(3, 7)):
        ctx.emit("coll B FB max 0 ; %s => 1" % pat(other_to()))
        a, b = ("A", "B") if rng.random() < 0.8 else ("B", "A")
        ctx.emit("apply C%d %s %s %s %s" % (rnd, result_f.name, rng.choice(ops), a, b))
        ctx.emit("release B")
        if not pess and rng.random() < 0.7:
            ctx.emit("clearct FB")
        if rng.random() < 0.5:
            ctx.emit("release C%d" % rnd)
        if rng.random() < 0.2:
            ctx.emit("show A")
    return ctx.text()


def gen_C06_nodes(rng, nops=None, pool=None, mm=None):
    """node-level histories on a quasi-reduced forest with pessimistic or optimistic
    deletion: nodes created through unpacked nodes (duplicates found in the unique
    table, all-transparent nodes, under the optimistic policy unreferenced nodes kept
    by a cache entry and revived), references duplicated and dropped in random order
    (chains of reclamation), cache entries added and removed (forest::cacheNode /
    uncacheNode), everything released at the end in random order"""
    k = rng.choice([2, 3, 3, 4])
    sizes = [rng.choice(pool or [2, 2, 3]) for _ in range(k)]
    pol = rng.choice(["pess", "opt"])
    # held node references are not registered root edges: the audit's two count clauses
    # are replaced here by the node-level count observations themselves
    L = ["init " + rand_ctopts(rng), "auditmode lenient", "domain D " + " ".join(map(str, sizes)),
         "forest F D set int mt qr del=" + pol + " " + rand_opts(rng).replace("del=opt", "").replace("del=never", "").replace("del=pess", "")]
    if mm:
        import re as _re
        L[-1] = _re.sub(r"mm=\w+", "", L[-1]) + " mm=" + mm
    held = {}     # name -> level of its node (0: the transparent edge)
    toks = []
    n = 0
    made = []     # (level, children) of earlier requests: re-requested to hit the unique table
    for step in range(nops or rng.randint(15, 60)):
        r = rng.random()
        if r < 0.42 or not held:
            lv = rng.randint(1, k)
            if made and rng.random() < 0.3:
                lv, cs = rng.choice(made)
                if not all(c[0] == "t" or c in held for c in cs):
                    continue
            elif lv == 1:
                cs = ["t%d" % rng.choice([0, 0, 1, 2, 3]) for _ in range(sizes[0])]
            else:
                pool = [x for x, l in held.items() if l == lv - 1 or l == 0]
                if not pool:
                    continue
                cs = [rng.choice(pool) if rng.random() < 0.7 else "t0" for _ in range(sizes[lv - 1])]
            n += 1
            nm = "n%d" % n
            L.append("nnew %s F %d %s" % (nm, lv, " ".join(cs)))
            transparent = all(c == "t0" or held.get(c) == 0 for c in cs)
            held[nm] = 0 if transparent else lv
            made.append((lv, cs))
        elif r < 0.54:
            x = rng.choice(list(held))
            n += 1
            nm = "n%d" % n
            L.append("ndup %s %s" % (nm, x))
            held[nm] = held[x]
        elif r < 0.68:
            cand = [x for x, l in held.items() if l > 0]
            if not cand:
                continue
            n += 1
            t = "T%d" % n
            L.append("ncache %s %s" % (t, rng.choice(cand)))
            toks.append(t)
        elif r < 0.78 and toks:
            t = toks.pop(rng.randrange(len(toks)))
            L.append("nuncache %s" % t)
        else:
            x = rng.choice(list(held))
            L.append("ndrop %s" % x)
            del held[x]
        if step % 9 == 8 and not toks:
            L.append("audit F")
    rest = [("ndrop", x) for x in held] + [("nuncache", t) for t in toks]
    rng.shuffle(rest)
    for c, x in rest:
        L.append("%s %s" % (c, x))
    L.append("audit F")
    return "\n".join(L) + "\n"


def gen_levels(rng):
    """the level arithmetic on arbitrary ints (short of the values whose negation or
    successor overflows): isLevelAbove, MXD_levels, MDD_levels on the C++ side, the
    definitions generated from them on the model side"""
    L = ["init"]
    M = (1 << 31) - 2
    pool = [0, 1, -1, 2, -2, 3, -3, M, -M, M - 1, -(M - 1), 1 << 30, -(1 << 30)]
    for _ in range(40):
        def pick():
            r = rng.random()
            if r < 0.4:
                return rng.choice(pool)
            if r < 0.8:
                return rng.randint(-12, 12)
            return rng.randint(-M, M)
        a = pick()
        b = rng.choice([a, -a, pick(), pick()])
        L.append("lvl %d %d" % (a, b))
    return "\n".join(L) + "\n"


def gen_C06_tail_handles(rng):
    """node-level histories around the top of the handle range: the nodes with the largest
    handles are mentioned by cache entries, a newer node above them is not; the cached
    nodes lose their last reference (pessimistic: deleted, handle reserved), then the top
    node goes (the handle range shrinks), then new nodes are created -- none of them may
    get a reserved handle; finally the entries are removed and the handles may be reused"""
    w = rng.choice([3, 4, 5])
    pol = rng.choice(["pess", "pess", "pess", "opt"])
    L = ["init " + rand_ctopts(rng), "auditmode lenient", "domain D %d 2" % w,
         "forest F D set int mt qr del=%s %s" % (pol, rand_opts(rng).replace("del=opt", "").replace("del=never", "").replace("del=pess", ""))]
    n = [0]
    seen = set()

    def node():
        while True:
            cs = ["t%d" % rng.choice([0, 1, 2, 3, 4, 5, 6]) for _ in range(w)]
            if tuple(cs) not in seen and any(c != "t0" for c in cs):
                seen.add(tuple(cs))
                break
        n[0] += 1
        nm = "n%d" % n[0]
        L.append("nnew %s F 1 %s" % (nm, " ".join(cs)))
        return nm

    held = [node() for _ in range(rng.randint(0, 3))]
    for rnd in range(rng.randint(2, 4)):
        cached = [node() for _ in range(rng.randint(1, 3))]
        toks = []
        for c in cached:
            for _ in range(rng.choice([1, 1, 2])):
                n[0] += 1
                t = "T%d" % n[0]
                L.append("ncache %s %s" % (t, c))
                toks.append(t)
        tops = [node() for _ in range(rng.randint(1, 2))]
        order = cached[:]
        rng.shuffle(order)
        for c in order:
            L.append("ndrop %s" % c)
        for t_ in reversed(tops):
            L.append("ndrop %s" % t_)
        fresh = [node() for _ in range(rng.randint(2, 5))]
        if rng.random() < 0.7:
            rng.shuffle(toks)
            for t in toks:
                L.append("nuncache %s" % t)
            toks = []
            fresh += [node() for _ in range(rng.randint(1, 3))]
        held += fresh
        for t in toks:
            L.append("nuncache %s" % t)
        if rng.random() < 0.5 and held:
            x = held.pop(rng.randrange(len(held)))
            L.append("ndrop %s" % x)
        L.append("audit F")
    rng.shuffle(held)
    for x in held:
        L.append("ndrop %s" % x)
    L.append("audit F")
    return "\n".join(L) + "\n"


def gen_C02_nodes_mm(rng):
    """node-level churn with nodes of many different sizes (levels of 2..7 values, so that
    the chunks of the node storage differ in length) on the hole-keeping memory managers:
    nodes are created and reclaimed in changing order, so holes are split, merged and
    returned to the end of the storage while other nodes stay live; every live node must
    keep its content (the node-level observations and the audit see an overwritten node
    as a changed count, a duplicate or a dangling child)"""
    return gen_C06_nodes(rng, nops=rng.randint(60, 140), pool=[2, 3, 4, 5, 6, 7],
                         mm=rng.choice(["heap", "heap", "orig", "array"]))


def gen_C02_tail(rng):
    """node-level version of the array-tail histories: level-1 nodes of a wide level are
    stored in chunks of very different length (one non-zero child: short sparse chunk; all
    children non-zero: long full chunk).  A long node next to the last node is reclaimed,
    a short one takes part of its chunk, the last node is reclaimed, then a short and a
    long node are created -- every live node must keep its content"""
    w = rng.choice([6, 7, 8])
    pol = "pess"
    L = ["init " + rand_ctopts(rng), "auditmode lenient", "domain D %d 2" % w,
         "forest F D set int mt qr del=%s mm=%s" % (pol, rng.choice(["heap", "heap", "heap", "orig", "array"]))]
    n = [0]
    seen = set()

    def node(nz):
        """a new level-1 node with nz non-zero children (content not used before)"""
        while True:
            pos = rng.sample(range(w), nz)
            cs = ["t0"] * w
            for p in pos:
                cs[p] = "t%d" % rng.randint(1, 9)
            if tuple(cs) not in seen:
                seen.add(tuple(cs))
                break
        n[0] += 1
        nm = "n%d" % n[0]
        L.append("nnew %s F 1 %s" % (nm, " ".join(cs)))
        return nm

    held = [node(rng.randint(1, w)) for _ in range(rng.randint(1, 4))]
    for rnd in range(rng.randint(2, 5)):
        a = node(w)
        b = node(rng.randint(1, w))
        L.append("ndrop %s" % a)
        c = node(rng.choice([1, 1, 2]))
        if rng.random() < 0.85:
            L.append("ndrop %s" % b)
        else:
            held.append(b)
        d = node(rng.choice([1, 1, 2]))
        e = node(rng.choice([w, w, w - 1]))
        held += [c, d, e]
        if rng.random() < 0.5:
            x = held.pop(rng.randrange(len(held)))
            L.append("ndrop %s" % x)
        L.append("audit F")
    rng.shuffle(held)
    for x in held:
        L.append("ndrop %s" % x)
    L.append("audit F")
    return "\n".join(L) + "\n"


def gen_C18_tail(rng):
    """histories around the end of the managers' array: a hole next to the last chunk is
    partly reused (the remainder stays the manager's current hole), then the last chunk
    is recycled so that hole and chunk merge and go back to the unused tail, then
    requests arrive that fit / do not fit into what the manager may still believe is a
    hole"""
    L = ["init"]
    style = rng.choice(["heap", "heap", "heap", "orig", "array", "malloc"])
    gran = rng.choice([4, 8])
    minsize = rng.choice([5, 5, 4, 6])
    L.append("mm new M %s %d %d" % (style, gran, minsize))
    live = []          # (id, size) in address order while nothing is reused
    nid = [0]

    def req(sz):
        L.append("mm req M %d" % sz)
        live.append((nid[0], sz))
        nid[0] += 1
        return nid[0] - 1

    def rec(i):
        L.append("mm rec M %d" % i)
        for k, (j, _) in enumerate(live):
            if j == i:
                del live[k]
                break

    for _ in range(rng.randint(2, 6)):
        req(rng.randint(minsize, 20))
    for rnd in range(rng.randint(2, 5)):
        h = rng.randint(minsize + 5, 30)
        a = req(h)                       # will become the hole
        b = req(rng.randint(minsize, 20))  # the last chunk
        L.append("mm check M")
        rec(a)
        # a smaller chunk out of the hole: the remainder is the current hole, left of b
        c = req(rng.randint(minsize, max(minsize, h - minsize - rng.choice([0, 1, 2, 3]))))
        if rng.random() < 0.8:
            rec(b)                       # merges with the remainder, back to the tail
        L.append("mm check M")
        d = req(rng.randint(minsize, max(minsize, h // 2)))     # fits the stale hole
        e = req(rng.randint(h, h + 25))                         # does not fit
        L.append("mm check M")
        if rng.random() < 0.5:
            rec(rng.choice([c, d, e]))
        for _ in range(rng.randint(0, 2)):
            req(rng.randint(minsize, 25))
        L.append("mm check M")
    ids = [i for i, _ in live]
    rng.shuffle(ids)
    for i in ids[: len(ids) // 2]:
        rec(i)
    L.append("mm check M")
    L.append("mm del M")
    return "\n".join(L) + "\n"


def gen_C18_big(rng):
    """histories with requests of the order of the managers' current array capacity
    (1024 slots initially, growing by halves): the array is filled with medium chunks
    and then asked for one chunk between half and the whole of what it holds -- the
    request that makes the array grow by more than its growth factor"""
    L = ["init"]
    style = rng.choice(["orig", "array", "heap", "orig", "array", "heap", "malloc", "free"])
    gran = rng.choice([4, 8])
    minsize = 1 if style == "free" else rng.choice([5, 5, 4, 6])
    L.append("mm new M %s %d %d" % (style, gran, minsize))
    live = []
    nid = 0
    used = 0
    cap = 1024
    for phase in range(rng.randint(2, 5)):
        # fill up to somewhere below the capacity
        target = int(cap * rng.choice([0.5, 0.7, 0.85, 0.95]))
        while used < target:
            sz = rng.choice([rng.randint(50, 150), rng.randint(80, 120), rng.randint(minsize, 30)])
            if style == "free":
                sz = min(sz, 15)
            L.append("mm req M %d" % sz)
            live.append((nid, sz))
            nid += 1
            used += sz
            if style == "free" and nid > 300:
                break
        L.append("mm check M")
        if rng.random() < 0.4 and len(live) > 3:
            for _ in range(rng.randint(1, 3)):
                i, sz = live.pop(rng.randrange(len(live)))
                L.append("mm rec M %d" % i)
                used -= sz
        # the big one
        big = int(cap * rng.choice([0.5, 0.6, 0.7, 0.8, 0.9, 1.0, 1.3]))
        if style == "free":
            big = 15
        L.append("mm req M %d" % big)
        live.append((nid, big))
        nid += 1
        used += big
        L.append("mm check M")
        # a few more requests so that the array has to move again
        for _ in range(rng.randint(1, 4)):
            sz = rng.randint(minsize, 60) if style != "free" else rng.randint(1, 15)
            L.append("mm req M %d" % sz)
            live.append((nid, sz))
            nid += 1
            used += sz
        L.append("mm check M")
        while cap < used * 1.2:
            cap += cap // 2
    rng.shuffle(live)
    for i, _ in live[: len(live) // 2]:
        L.append("mm rec M %d" % i)
    L.append("mm check M")
    L.append("mm del M")
    return "\n".join(L) + "\n"


def gen_C18_growing(rng):
    """histories whose maximum request grows over time: equal-sized chunks are
    recycled in adjacent runs (which merge into one hole larger than anything
    requested so far), then a request arrives that is a new maximum of about the
    size of that hole -- the point where the grid managers re-file their holes"""
    L = ["init"]
    style = rng.choice(["orig", "orig", "array", "array", "heap", "malloc"])
    gran = rng.choice([4, 8])
    minsize = rng.choice([5, 5, 4, 6])
    L.append("mm new M %s %d %d" % (style, gran, minsize))
    live = []
    nid = 0
    base = rng.randint(minsize, 9)
    for phase in range(rng.randint(2, 5)):
        n = rng.randint(4, 9)
        for _ in range(n):
            sz = base if rng.random() < 0.8 else rng.randint(minsize, base)
            L.append("mm req M %d" % sz)
            live.append((nid, sz))
            nid += 1
        L.append("mm check M")
        # recycle a run of neighbours (ids are handed out in address order while nothing is reused)
        if len(live) >= 3:
            run = rng.randint(2, min(4, len(live) - 1))
            st = rng.randint(1, len(live) - run)
            victims = live[st:st + run]
            del live[st:st + run]
            if rng.random() < 0.5:
                victims.reverse()
            hole = 0
            for i, sz in victims:
                L.append("mm rec M %d" % i)
                hole += sz
            L.append("mm check M")
            # a new maximum around the size of the merged hole (headers make it a little larger)
            for _ in range(rng.randint(1, 3)):
                sz = max(minsize, hole + rng.choice([-2, -1, 0, 0, 1, 2, 3]))
                L.append("mm req M %d" % sz)
                live.append((nid, sz))
                nid += 1
                L.append("mm check M")
            base = max(base, hole + 3)
            base = min(base, 200)
    rng.shuffle(live)
    for i, _ in live[: len(live) // 2]:
        L.append("mm rec M %d" % i)
    L.append("mm check M")
    for _ in range(6):
        L.append("mm req M %d" % rng.randint(minsize, base))
    L.append("mm check M")
    L.append("mm del M")
    return "\n".join(L) + "\n"


def rand_mask(rng, f):
    out = []
    for sz in f.dom.sizes:
        if f.rel:
            fr = "x" if rng.random() < 0.6 else str(rng.randrange(sz))
            r = rng.random()
            to = "x" if r < 0.5 else ("=" if r < 0.7 else str(rng.randrange(sz)))
            out += [fr, to]
        else:
            out.append("x" if rng.random() < 0.6 else str(rng.randrange(sz)))
    return " ".join(out)


def gen_C11(rng):
    ctx = Ctx(rng)
    rel = rng.random() < 0.5
    preamble(ctx, rel, ranges=("bool", "int", "int", "real"), nforests=rng.choice([2, 3]), maxpts=300)
    for _ in range(rng.randint(2, 5)):
        gen_leaf(ctx, rng.choice(ctx.forests))
    for _ in range(rng.randint(0, 4)):
        names = list(ctx.edges)
        a, b = rng.choice(names), rng.choice(names)
        if ctx.edges[a].range == ctx.edges[b].range:
            fr = rng.choice([f for f in ctx.forests if f.range == ctx.edges[a].range])
            n = ctx.fresh()
            op = rng.choice(SETOPS) if fr.range == "bool" else rng.choice(["plus", "max", "min", "minus"])
            ctx.emit("apply %s %s %s %s %s" % (n, fr.name, op, a, b))
            ctx.edges[n] = fr
    for e in list(ctx.edges):
        f = ctx.edges[e]
        ctx.emit("iter %s" % e)
        for _ in range(rng.randint(1, 3)):
            ctx.emit("iter %s %s" % (e, rand_mask(rng, f)))
        ctx.emit("card %s" % e)
    # re-used iterator objects: restart on other edges of the same forest with
    # other masks (positions that were free become fixed and vice versa), also
    # after stopping in the middle of an enumeration
    byforest = {}
    for e, f in ctx.edges.items():
        byforest.setdefault(f.name, []).append(e)
    for fname, es in byforest.items():
        f = ctx.edges[es[0]]
        for _ in range(rng.randint(2, 6)):
            e = rng.choice(es)
            limit = rng.choice([-1, -1, -1, 0, 1, 2, 5])
            r = rng.random()
            mask = "" if r < 0.3 else rand_mask(rng, f)
            ctx.emit(("iter2 I%s %s %d %s" % (fname, e, limit, mask)).rstrip())
    return ctx.text()


def gen_C11_ev(rng):
    """enumeration of EV+ functions: exactly the assignments whose value is not
    +infinity, in lexicographic order, with their values; masks"""
    ctx = Ctx(rng)
    rel = rng.random() < 0.35
    ctx.emit("init " + rand_ctopts(rng))
    d = rand_domain(rng, "D", rel, 200, 3)
    ctx.emit(d.decl())
    ctx.doms.append(d)
    f = Forest("E", d, rel, "int", "evp", rng.choice(RULES_REL if rel else RULES_SET), rand_opts(rng))
    ctx.emit(f.decl())
    ctx.forests = [f]
    for _ in range(rng.randint(2, 4)):
        gen_coll_evp(ctx, f)
    for _ in range(rng.randint(0, 3)):
        names = list(ctx.edges)
        a, b = rng.choice(names), rng.choice(names)
        n = ctx.fresh()
        ctx.emit("apply %s E %s %s %s" % (n, rng.choice(["plus", "max", "min", "min"]), a, b))
        ctx.edges[n] = f
    for e in list(ctx.edges):
        ctx.emit("iter %s" % e)
        for _ in range(rng.randint(1, 3)):
            ctx.emit("iter %s %s" % (e, rand_mask(rng, f)))
    return ctx.text()


def gen_C14_trunc(rng):
    """exchange files between forests of different storage policies: a full-only writer
    puts truncated full nodes into the file (trailing transparent entries dropped), the
    reader's forest stores sparsely.  Many pairs of nodes at one level where one is the
    other plus one more entry just past its end, written next to each other, so that
    the reader's duplicate test compares a stored sparse node with a shorter truncated
    full node"""
    ctx = Ctx(rng)
    ctx.emit("init " + rand_ctopts(rng))
    w = rng.choice([8, 10, 12])
    two = rng.random() < 0.4
    sizes = [w, 2] if two else [w]
    d = Domain("D", sizes)
    ctx.emit(d.decl())
    ctx.doms.append(d)
    rg = rng.choice(["int", "int", "bool"])
    rule = rng.choice(RULES_SET)
    fw = Forest("W", d, False, rg, "mt", rule, "storage=full")
    ft = Forest("T", d, False, rg, "mt", rule, rng.choice(["storage=sparse", "storage=sparse", "storage=both", ""]))
    ctx.emit(fw.decl())
    ctx.emit(ft.decl())
    ctx.forests += [fw, ft]
    roots = []
    seen = set()
    for i in range(rng.randint(8, 16)):
        j = rng.randint(1, w - 1)                       # length of the shorter node
        vals = [rng.choice(["0", "1"] if rg == "bool" else ["0", "1", "2", "3", "5", "7", "12", "14"]) for _ in range(j)]
        if rg == "bool":
            vals[j - 1] = "1"
        elif vals[j - 1] == "0":
            vals[j - 1] = "4"
        extra = "1" if rg == "bool" else rng.choice(["1", "2", "3", "5", "7", "12", "14"])
        key = (tuple(vals), extra)
        if key in seen:
            continue
        seen.add(key)
        for nm, vs in (("S%d" % i, vals + [extra]), ("n%d" % i, vals)):
            parts = ["coll", nm, "W", "max", "0"]
            for idx, v in enumerate(vs):
                if v != "0":
                    pos = [str(idx)] + (["x"] if two else [])
                    parts += [";"] + pos + ["=>", v]
            ctx.emit(" ".join(parts))
            ctx.edges[nm] = fw
            roots.append(nm)
    ctx.emit("write f W %s" % " ".join(roots))
    targets = [("read", "T"), ("read", "W"), ("readnew", "N D")]
    rng.shuffle(targets)
    for ti, (cmd, tgt) in enumerate([("read", "T")] + targets[: rng.randint(0, 2)]):
        rn = ["r%d_%d" % (ti, i) for i in range(len(roots))]
        ctx.emit("%s f %s %s" % (cmd, tgt, " ".join(rn)))
        for i, r in enumerate(rn):
            ctx.emit("show %s" % r)
        ctx.emit("audit %s" % tgt.split()[0])
    return ctx.text()


def gen_C14_ev(rng):
    """exchange files of EV+ forests: written roots read back into the same forest, a
    twin forest and a forest created from the file denote the same functions exactly
    (+infinity included)"""
    ctx = Ctx(rng)
    rel = rng.random() < 0.3
    ctx.emit("init " + rand_ctopts(rng))
    d = rand_domain(rng, "D", rel, 200, 3)
    ctx.emit(d.decl())
    ctx.doms.append(d)
    rule = rng.choice(["fr", "qr"])
    fw = Forest("W", d, rel, "int", "evp", rule, rand_opts(rng))
    ft = Forest("T", d, rel, "int", "evp", rule, rand_opts(rng))
    ctx.emit(fw.decl())
    ctx.emit(ft.decl())
    ctx.forests = [fw, ft]
    for _ in range(rng.randint(2, 4)):
        gen_coll_evp(ctx, fw)
    names = list(ctx.edges)
    for _ in range(rng.randint(0, 2)):
        a, b = rng.choice(names), rng.choice(names)
        n = ctx.fresh()
        ctx.emit("apply %s W %s %s %s" % (n, rng.choice(["plus", "max", "min"]), a, b))
        ctx.edges[n] = fw
        names.append(n)
    roots = [rng.choice(names) for _ in range(rng.randint(1, 4))]
    if rng.random() < 0.3:
        roots.append(roots[0])
    ctx.emit("write f W %s" % " ".join(roots))
    if rng.random() < 0.5:
        gen_coll_evp(ctx, ft)
    targets = [("read", "W"), ("read", "T")]
    if not rel:
        targets.append(("readnew", "N D"))
    rng.shuffle(targets)
    for ti, (cmd, tgt) in enumerate(targets[: rng.randint(1, 3)]):
        rn = ["r%d_%d" % (ti, i) for i in range(len(roots))]
        ctx.emit("%s f %s %s" % (cmd, tgt, " ".join(rn)))
        for i, r in enumerate(rn):
            ctx.emit("show %s" % r)
            if tgt == "W":
                ctx.emit("eq %s %s" % (r, roots[i]))
        ctx.emit("audit %s" % tgt.split()[0])
    return ctx.text()


def gen_C15(rng):
    ctx = Ctx(rng)
    preamble(ctx, False, ranges=("bool",), nforests=rng.choice([1, 2]), maxpts=200)
    fi = Forest("FI", ctx.doms[0], False, "int", "idx", "fr",
                rand_opts(rng) if rng.random() < 0.5 else "del=pess")
    ctx.emit(fi.decl())
    n = 0
    for _ in range(rng.randint(2, 5)):
        f = rng.choice(ctx.forests)
        r = rng.random()
        if r < 0.1:
            a = gen_const(ctx, f)       # empty or full set
        elif r < 0.2:
            a = ctx.fresh()
            ctx.emit("const %s %s 0" % (a, f.name))
            ctx.edges[a] = f
        else:
            a = gen_coll(ctx, f, nmax=rng.choice([4, 10, 30]))
        x = "X%d" % n
        n += 1
        ctx.emit("unary %s FI index %s" % (x, a))
        ctx.emit("card %s" % a)
        ctx.emit("getelem %s -2 %d" % (x, ctx.doms[0].npoints(False) + 1))
        ctx.emit("iter %s" % a)
        if rng.random() < 0.5:
            # the index set is released (its nodes may be reclaimed while the conversion's
            # compute-table entry still exists) and the same set is converted again
            ctx.emit("release %s" % x)
            if rng.random() < 0.3:
                gen_coll(ctx, rng.choice(ctx.forests), nmax=4)
            y = "Y%d" % n
            ctx.emit("unary %s FI index %s" % (y, a))
            ctx.emit("getelem %s -1 %d" % (y, ctx.doms[0].npoints(False)))
            ctx.emit("audit FI")
    return ctx.text()


def gen_C15_big(rng):
    """index sets of product sets far too large to tabulate (up to ~2^40 members, beyond
    2^31 and 2^32): stored cardinality, lookups at indexes around the powers of two and
    the ends, and the value of the index set at the member found.  The source forest is
    quasi-reduced (the conversion re-expands skipped levels one by one)."""
    L = ["init"]
    if rng.random() < 0.7:
        k = rng.randint(33, 40)
        sizes = [2] * k
    else:
        k = rng.randint(20, 26)
        sizes = [rng.choice([2, 3, 4]) for _ in range(k)]
    L.append("domain D " + " ".join(map(str, sizes)))
    L.append("forest S D set bool mt qr")
    L.append("forest FI D set int idx fr")
    for s in range(rng.randint(1, 3)):
        toks = []
        count = 1
        for sz in sizes:
            r = rng.random()
            if r < 0.9:
                vals = list(range(sz))
            else:
                vals = sorted(rng.sample(range(sz), rng.randint(1, sz)))
            count *= len(vals)
            toks.append(",".join(map(str, vals)))
        a, x = "A%d" % s, "X%d" % s
        L.append("prodset %s S %s" % (a, " ".join(toks)))
        L.append("idxbig %s FI %s" % (x, a))
        idx = {-1, 0, 1, count - 1, count, count + 1, count // 2, count // 3}
        for p in (31, 32, 33):
            for dlt in (-1, 0, 1):
                idx.add((1 << p) + dlt)
        for _ in range(6):
            idx.add(rng.randrange(0, max(1, count)))
        L.append("getelemat %s %s" % (x, " ".join(map(str, sorted(idx)))))
    return "\n".join(L) + "\n"


def gen_C10_evbool(rng):
    """copies of total EV+ functions (no +infinity) with shared sub-diagrams reached under
    different accumulated edge values -- linear functions a*x1 + b*x2 (+ c*x3), and the
    same function shifted by a constant (same nodes, other root value) -- into boolean and
    integer multi-terminal forests: non-zero to true depends on the WHOLE path sum"""
    ctx = Ctx(rng)
    ctx.emit("init " + rand_ctopts(rng))
    k = rng.choice([2, 2, 3])
    d = Domain("D", [rng.choice([2, 3]) for _ in range(k)])
    ctx.emit(d.decl())
    ctx.doms.append(d)
    E = Forest("E", d, False, "int", "evp", rng.choice(RULES_SET), rand_opts(rng))
    B = Forest("B", d, False, "bool", "mt", rng.choice(RULES_SET), rand_opts(rng))
    I = Forest("I", d, False, "int", "mt", rng.choice(RULES_SET), rand_opts(rng))
    for f in (E, B, I):
        ctx.emit(f.decl())
    ctx.forests = [E, B, I]
    import itertools
    for rnd in range(rng.randint(1, 3)):
        coef = [rng.choice([0, 1, 1, 2, 3]) for _ in range(k)]
        if not any(coef):
            coef[0] = 1
        nm = "f%d" % rnd
        parts = ["coll", nm, "E", "min", "inf"]
        for asg in itertools.product(*[range(z) for z in d.sizes]):
            v = sum(c * x for c, x in zip(coef, asg))
            parts += [";"] + [str(x) for x in asg] + ["=>", str(v)]
        ctx.emit(" ".join(parts))
        ctx.edges[nm] = E
        kc = "k%d" % rnd
        ctx.emit("const %s E %d" % (kc, rng.choice([1, 3, 5])))
        ctx.edges[kc] = E
        h = "h%d" % rnd
        ctx.emit("apply %s E plus %s %s" % (h, nm, kc))
        ctx.edges[h] = E
        order = [nm, h]
        if rng.random() < 0.5:
            order.reverse()
        for src in order:
            for tgt in ([B, I] if rng.random() < 0.7 else [B]):
                c = ctx.fresh()
                ctx.emit("unary %s %s copy %s" % (c, tgt.name, src))
                ctx.edges[c] = tgt
        ctx.emit("show %s" % nm)
    ctx.emit("audit B")
    return ctx.text()


def gen_C10_idx(rng):
    """copies out of an index-set forest: into EV+ forests of both rules (ranks kept,
    non-members stay +infinity) and from there on"""
    ctx = Ctx(rng)
    preamble(ctx, False, ranges=("bool",), nforests=rng.choice([1, 2]), maxpts=200)
    d = ctx.doms[0]
    fi = Forest("FI", d, False, "int", "idx", "fr", rand_opts(rng))
    ctx.emit(fi.decl())
    evs = []
    for i, rl in enumerate(rng.sample(RULES_SET, rng.choice([1, 2]))):
        fe = Forest("E%d" % i, d, False, "int", "evp", rl, rand_opts(rng))
        ctx.emit(fe.decl())
        evs.append(fe)
    for k in range(rng.randint(1, 3)):
        f = rng.choice(ctx.forests)
        a = gen_coll(ctx, f, nmax=rng.choice([2, 4, 10]))
        x = "X%d" % k
        ctx.emit("unary %s FI index %s" % (x, a))
        for fe in evs:
            c = ctx.fresh()
            ctx.emit("unary %s %s copy %s" % (c, fe.name, x))
            ctx.edges[c] = fe
            if len(evs) > 1 and rng.random() < 0.5:
                other = [g for g in evs if g is not fe][0]
                c2 = ctx.fresh()
                ctx.emit("unary %s %s copy %s" % (c2, other.name, c))
                ctx.edges[c2] = other
    for fe in evs:
        ctx.emit("audit %s" % fe.name)
    return ctx.text()


def gen_rel_minterms(ctx, f, name, nmax=6, p_dc=None, p_same=None):
    rng = ctx.rng
    n = rng.choice([1, 2, 3, 4, nmax])
    p_dc = rng.choice([0.0, 0.2, 0.5]) if p_dc is None else p_dc
    p_same = rng.choice([0.0, 0.3, 0.6]) if p_same is None else p_same
    parts = ["coll", name, f.name, "max", "0"]
    for _ in range(n):
        v = "1" if f.range == "bool" else str(rng.choice([1, 2, 3, 4, 5])) if f.range == "int" \
            else str(rng.choice([32, 64, 96, 128, 160]))
        parts += [";"] + rand_pos_rel(rng, f.dom, p_dc, p_same) + ["=>", v]
    ctx.emit(" ".join(parts))
    ctx.edges[name] = f


def gen_C09_dist(rng):
    """one-step images of distance-valued sets (EV+ with +infinity, or MT integers with -1
    for unreachable): one plus the minimum over predecessors / successors; the empty
    relation and the nowhere-reachable operand give THE unreachable edge; images computed
    into the operand edge itself (result aliases the operand) give the same answer"""
    ctx = Ctx(rng)
    ctx.emit("init " + rand_ctopts(rng))
    d = rand_domain(rng, "D", False, 40, 3)
    ctx.emit(d.decl())
    ctx.doms.append(d)
    evp = rng.random() < 0.7
    if evp:
        S = Forest("S", d, False, "int", "evp", rng.choice(RULES_SET), rand_opts(rng))
    else:
        S = Forest("S", d, False, "int", "mt", "fr", rand_opts(rng))
    R = Forest("R", d, True, "bool", "mt", rng.choice(RULES_REL), rand_opts(rng))
    ctx.emit(S.decl())
    ctx.emit(R.decl())
    ss, rr = [], []
    for i in range(rng.randint(1, 3)):
        nm = "s%d" % i
        parts = ["coll", nm, "S"] + (["min", "inf"] if evp else ["max", "-1"])
        for _ in range(rng.choice([1, 2, 3])):
            parts += [";"] + rand_pos_set(rng, d, rng.choice([0, 0, 0.3])) + ["=>", str(rng.choice([0, 1, 2, 4, 7]))]
        ctx.emit(" ".join(parts))
        ctx.edges[nm] = S
        ss.append(nm)
    # the nowhere-reachable function
    if evp:
        ctx.emit("coll u S min inf ; %s => inf" % " ".join("0" for _ in d.sizes))
    else:
        ctx.emit("const u S -1")
    ctx.edges["u"] = S
    for i in range(rng.randint(1, 3)):
        nm = "r%d" % i
        gen_rel_minterms(ctx, R, nm)
        rr.append(nm)
    if rng.random() < 0.6:
        ctx.emit("const r_empty R 0")
        ctx.edges["r_empty"] = R
        rr.append("r_empty")
    for _ in range(rng.randint(3, 8)):
        s, r = rng.choice(ss + ["u"]), rng.choice(rr)
        op = rng.choice(["post", "pre"])
        n = ctx.fresh()
        ctx.emit("apply %s S %s %s %s" % (n, op, s, r))
        ctx.edges[n] = S
        q = rng.random()
        if q < 0.4:
            # in place: the result edge is (a copy of) the operand edge
            c = ctx.fresh()
            ctx.emit("copyedge %s %s" % (c, s))
            ctx.edges[c] = S
            ctx.emit("applyinto %s %s %s %s" % (c, op, c, r))
            ctx.emit("show %s" % c)
            ctx.emit("eq %s %s" % (c, n))
        elif q < 0.6 and (r == "r_empty" or s == "u"):
            ctx.emit("eq %s u" % n)
        if rng.random() < 0.5:
            ss.append(n)
    ctx.emit("audit S")
    return ctx.text()


def gen_C09_skiptop(rng):
    """images and vector-matrix products where the set/vector depends only on variables
    BELOW the variable the relation acts on (fully-reduced: its node lies below the level
    being processed, or it is a constant) and the identity-reduced relation skips the
    small upper variables: the redundant expansion of the set has to take the size of the
    level the relation acts on, which is larger than the sizes above it"""
    ctx = Ctx(rng)
    ctx.emit("init")
    k = rng.choice([2, 3, 3])
    act = rng.randint(1, k - 1)                  # the variable the events act on
    sizes = []
    for v in range(1, k + 1):
        if v < act:
            sizes.append(rng.choice([2, 3]))
        elif v == act:
            sizes.append(rng.choice([4, 5]))
        else:
            sizes.append(2)
    d = Domain("D", sizes)
    ctx.emit(d.decl())
    ints = rng.random() < 0.35
    rg = "int" if ints else "bool"
    S = Forest("S", d, False, rg, "mt", rng.choice(["fr"] * 6 + ["qr"]), rand_opts(rng))
    R = Forest("R", d, True, ("bool" if (ints and rng.random() < 0.4) else rg), "mt",
               rng.choice(["ir"] * 5 + ["fr", "qr"]), rand_opts(rng))
    ctx.emit(S.decl())
    ctx.emit(R.decl())
    ss, rr = [], []
    for i in range(rng.randint(1, 3)):
        nm = "s%d" % i
        if act == 1 or rng.random() < 0.3:
            ctx.emit("const %s S %s" % (nm, "1" if rg == "bool" else str(rng.choice([1, 2]))))
        else:
            parts = ["coll", nm, "S", "max", "0"]
            for _ in range(rng.choice([1, 2])):
                pos = [(str(rng.randrange(sizes[v])) if (v + 1 < act and rng.random() < 0.8) else "x") for v in range(k)]
                parts += [";"] + pos + ["=>", "1" if rg == "bool" else str(rng.choice([1, 2, 3]))]
            ctx.emit(" ".join(parts))
        ctx.edges[nm] = S
        ss.append(nm)
    for i in range(rng.randint(1, 3)):
        nm = "r%d" % i
        parts = ["coll", nm, "R", "max", "0"]
        for _ in range(rng.choice([2, 3, 4])):
            pos = []
            for v in range(1, k + 1):
                if v == act:
                    pos += [str(rng.randrange(sizes[v - 1])), str(rng.randrange(sizes[v - 1]))]
                elif v > act:
                    pos += ["x", "="]
                else:
                    pos += rng.choice([["x", "="], ["x", "="], [str(rng.randrange(sizes[v - 1])), "="],
                                       [str(rng.randrange(sizes[v - 1])), str(rng.randrange(sizes[v - 1]))]])
            parts += [";"] + pos + ["=>", "1" if R.range == "bool" else str(rng.choice([1, 2, 3]))]
        ctx.emit(" ".join(parts))
        ctx.edges[nm] = R
        rr.append(nm)
    for _ in range(rng.randint(3, 7)):
        s, r = rng.choice(ss), rng.choice(rr)
        n = ctx.fresh()
        if ints:
            if rng.random() < 0.5:
                ctx.emit("apply %s S vm %s %s" % (n, s, r))
            else:
                ctx.emit("apply %s S mv %s %s" % (n, r, s))
        else:
            ctx.emit("apply %s S %s %s %s" % (n, rng.choice(["post", "pre"]), s, r))
            ctx.edges[n] = S
    return ctx.text()


def gen_C09(rng):
    ctx = Ctx(rng)
    ctx.emit("init")
    d = rand_domain(rng, "D", False, 60, 3)
    if rng.random() < 0.5:
        # markedly non-uniform sizes, small variable on top of a larger one and vice versa
        k = rng.choice([2, 3])
        sizes = [rng.choice([2, 5]) for _ in range(k)]
        if k == 3 and sizes[0] * sizes[1] * sizes[2] > 60:
            sizes[rng.randrange(3)] = 2
        d = Domain("D", sizes)
    ctx.emit(d.decl())
    ints = rng.random() < 0.35
    rg = "int" if ints else "bool"
    sets = [Forest("S%d" % i, d, False, rg, "mt", rng.choice(RULES_SET), rand_opts(rng)) for i in range(rng.choice([1, 2]))]
    # vector-matrix products: the matrix may be a boolean relation (a transition relation)
    # while the vector and the result are integer
    rels = [Forest("R%d" % i, d, True, ("bool" if (ints and rng.random() < 0.4) else rg), "mt",
                   rng.choice(RULES_REL), rand_opts(rng)) for i in range(rng.choice([1, 2, 3]))]
    for f in sets + rels:
        ctx.emit(f.decl())
    local = rng.random() < 0.5
    for i in range(rng.randint(1, 3)):
        f = rng.choice(sets)
        if local and not ints:
            # sets that do not depend on the upper variables (skipped levels)
            parts = ["coll", "s%d" % i, f.name, "max", "0"]
            top_free = rng.randint(1, len(d.sizes))
            for _ in range(rng.choice([1, 2, 3])):
                pos = [("x" if (k >= len(d.sizes) - top_free or rng.random() < 0.2) else str(rng.randrange(sz)))
                       for k, sz in enumerate(d.sizes)]
                parts += [";"] + pos + ["=>", "1"]
            ctx.emit(" ".join(parts))
            ctx.edges["s%d" % i] = f
        else:
            gen_coll(ctx, f, "s%d" % i)
    for i in range(rng.randint(1, 3)):
        fr_ = rng.choice(rels)
        if local:
            # "local events": most variables unchanged, one or two really move
            name = "r%d" % i
            parts = ["coll", name, fr_.name, "max", "0"]
            for _ in range(rng.choice([1, 2, 3])):
                pos = []
                for sz in d.sizes:
                    r = rng.random()
                    if r < 0.55:
                        pos += ["x", "="]
                    elif r < 0.65:
                        pos += [str(rng.randrange(sz)), "="]
                    else:
                        pos += [str(rng.randrange(sz)), str(rng.randrange(sz))]
                v = "1" if fr_.range == "bool" else str(rng.choice([1, 2, 3]))
                parts += [";"] + pos + ["=>", v]
            ctx.emit(" ".join(parts))
            ctx.edges[name] = fr_
        else:
            gen_rel_minterms(ctx, fr_, "r%d" % i)
    ss = [e for e in ctx.edges if not ctx.edges[e].rel]
    rr = [e for e in ctx.edges if ctx.edges[e].rel]
    for _ in range(rng.randint(3, 8)):
        s, r = rng.choice(ss), rng.choice(rr)
        out = rng.choice(sets)
        n = ctx.fresh()
        if ints:
            if rng.random() < 0.5:
                ctx.emit("apply %s %s vm %s %s" % (n, out.name, s, r))
            else:
                ctx.emit("apply %s %s mv %s %s" % (n, out.name, r, s))
        else:
            ctx.emit("apply %s %s %s %s %s" % (n, out.name, rng.choice(["post", "pre"]), s, r))
            ctx.edges[n] = out
            ss.append(n)
    return ctx.text()


def nested_model(rng, sizes):
    """list of event minterm positions for a model of nested counters: chains on
    lower variables, unconditional moves and 'carry' events on upper ones, and
    'diamonds': two routes of different length to the same value of an upper
    variable (a direct carry that needs lower-level steps first, and a detour
    through another value), followed by an onward move -- so that a saturated
    node is improved in its offset only (same sub-function, smaller distance)"""
    k = len(sizes)
    evs = []

    def ev(spec):
        pos = []
        for u in range(k):
            pos += spec.get(u, ["x", "="])
        evs.append(pos)

    for v in range(k):
        if v == 0 or rng.random() < 0.5:
            upto = rng.randint(2, sizes[v])
            for a in range(upto - 1):
                ev({v: [str(a), str(a + 1)]})
    for v in range(1, k):
        for _ in range(rng.randint(0, 2)):
            a, b = rng.randrange(sizes[v]), rng.randrange(sizes[v])
            if a != b:
                ev({v: [str(a), str(b)]})
        for _ in range(rng.randint(0, 2)):
            lo = rng.randrange(v)
            ev({v: [str(rng.randrange(sizes[v])), str(rng.randrange(sizes[v]))],
                lo: [str(rng.randrange(sizes[lo])), "0"]})
        if sizes[v] >= 3 and rng.random() < 0.6:
            vals = list(range(sizes[v]))
            a = 0 if rng.random() < 0.7 else rng.choice(vals)
            rest = [x for x in vals if x != a]
            rng.shuffle(rest)
            b, m = rest[0], rest[1]
            lo = rng.randrange(v)
            c = rng.randrange(1, sizes[lo])
            ev({v: [str(a), str(b)], lo: [str(c), "0"]})       # long route: carry
            ev({v: [str(a), str(m)]})                           # detour
            ev({v: [str(m), str(b)]})
            if len(rest) > 2:
                ev({v: [str(b), str(rest[2])]})                 # onward
    rng.shuffle(evs)
    return evs


def gen_C08_dist(rng):
    """distance-valued saturation vs breadth-first on nested-counter models"""
    L = ["init " + rand_ctopts(rng)]
    k = rng.choice([2, 2, 3])
    sizes = [rng.choice([3, 4]) for _ in range(k)]
    L.append("domain D " + " ".join(map(str, sizes)))
    evp = rng.random() < 0.7
    if evp:
        L.append("forest S D set int evp %s %s" % (rng.choice(RULES_SET), rand_opts(rng)))
    else:
        L.append("forest S D set int mt fr %s" % rand_opts(rng))
    L.append("forest M D rel bool mt ir %s" % rand_opts(rng))
    for m in range(rng.randint(2, 4)):
        parts = ["coll", "r%d" % m, "M", "max", "0"]
        for pos in nested_model(rng, sizes):
            parts += [";"] + pos + ["=>", "1"]
        L.append(" ".join(parts))
        init = " ".join("0" for _ in sizes) if rng.random() < 0.7 else " ".join(str(rng.randrange(z)) for z in sizes)
        if evp:
            L.append("coll s%d S min inf ; %s => %d" % (m, init, rng.choice([0, 0, 1])))
        else:
            L.append("coll s%d S max -1 ; %s => %d" % (m, init, rng.choice([0, 0, 1])))
        pre = "" if rng.random() < 0.8 else "r"
        L.append("apply a%d S %sreach_sat s%d r%d" % (m, pre, m, m))
        L.append("apply b%d S %sreach_nofs s%d r%d" % (m, pre, m, m))
        L.append("eq a%d b%d" % (m, m))
    return "\n".join(L) + "\n"


def gen_C08_recycle(rng):
    """saturation called again and again on ONE pair of forests with relations that are
    built, used, released and really reclaimed in between (pessimistic deletion, compute
    tables cleared): the next relation has the same shape, so its nodes get the handles of
    the previous one -- whatever the operation remembers about a relation by handle is
    stale by then.  Every result is compared with the breadth-first one."""
    ctx = Ctx(rng)
    ctx.emit("init " + rand_ctopts(rng))
    d = rand_domain(rng, "D", False, 40, 3)
    ctx.emit(d.decl())
    kind = rng.choice(["bool", "bool", "evp"])
    if kind == "bool":
        S = Forest("S", d, False, "bool", "mt", rng.choice(RULES_SET), rand_opts(rng))
    else:
        S = Forest("S", d, False, "int", "evp", rng.choice(RULES_SET), rand_opts(rng))
    R = Forest("R", d, True, "bool", "mt", "ir", "del=pess " + rng.choice(["", "storage=full", "storage=sparse"]))
    ctx.emit(S.decl())
    ctx.emit(R.decl())
    shape = []          # which variables move, kept over the rounds (same shape, other values)
    for sz in d.sizes:
        shape.append(rng.choice(["move", "move", "keep"]))
    if "move" not in shape:
        shape[0] = "move"
    for rnd in range(rng.randint(3, 6)):
        r, s = "r%d" % rnd, "s%d" % rnd
        parts = ["coll", r, "R", "max", "0"]
        for _ in range(rng.choice([1, 2])):
            pos = []
            for sz, sh in zip(d.sizes, shape):
                if sh == "move":
                    a = rng.randrange(sz)
                    pos += [str(a), str(rng.choice([x for x in range(sz) if x != a]))]
                else:
                    pos += ["x", "="]
            parts += [";"] + pos + ["=>", "1"]
        ctx.emit(" ".join(parts))
        if kind == "bool":
            ctx.emit("coll %s S max 0 ; %s => 1" % (s, " ".join(str(rng.randrange(z)) for z in d.sizes)))
        else:
            ctx.emit("coll %s S min inf ; %s => 0" % (s, " ".join(str(rng.randrange(z)) for z in d.sizes)))
        back = "r" if rng.random() < 0.25 else ""
        ctx.emit("apply a%d S %sreach_sat %s %s" % (rnd, back, s, r))
        ctx.emit("apply b%d S %sreach_nofs %s %s" % (rnd, back, s, r))
        ctx.emit("eq a%d b%d" % (rnd, rnd))
        for e in (r, "a%d" % rnd, "b%d" % rnd, s):
            if rng.random() < 0.9 or e == r:
                ctx.emit("release %s" % e)
        if rng.random() < 0.8:
            ctx.emit("clearct")
    ctx.emit("audit S")
    ctx.emit("audit R")
    return ctx.text()


def gen_C08(rng):
    ctx = Ctx(rng)
    ctx.emit("init " + rand_ctopts(rng))
    d = rand_domain(rng, "D", False, 40, 3)
    ctx.emit(d.decl())
    kind = rng.choice(["bool", "bool", "evp", "mtint"])
    if kind == "bool":
        sets = [Forest("S%d" % i, d, False, "bool", "mt", rng.choice(RULES_SET), rand_opts(rng)) for i in range(rng.choice([1, 2]))]
    elif kind == "evp":
        sets = [Forest("S0", d, False, "int", "evp", rng.choice(RULES_SET), rand_opts(rng))]
    else:
        # integer distances: the library offers saturation only for fully-reduced results
        sets = [Forest("S0", d, False, "int", "mt", "fr", rand_opts(rng))]
    rels = [Forest("R%d" % i, d, True, "bool", "mt", rng.choice(RULES_REL), rand_opts(rng)) for i in range(rng.choice([1, 2]))]
    for f in sets + rels:
        ctx.emit(f.decl())
    prev_rel = None
    shared_event = None
    for rnd in range(rng.randint(1, 4)):
        s = "s%d" % rnd
        r = "r%d" % rnd
        fs = rng.choice(sets)
        if kind == "bool":
            parts = ["coll", s, fs.name, "max", "0"]
            for _ in range(rng.choice([1, 1, 2, 3])):
                parts += [";"] + rand_pos_set(rng, d, rng.choice([0, 0, 0.3])) + ["=>", "1"]
        elif kind == "evp":
            parts = ["coll", s, fs.name, "min", "inf"]
            if rng.random() < 0.5:
                parts += [";"] + ["0"] * len(d.sizes) + ["=>", "0"]
            else:
                for _ in range(rng.choice([1, 1, 2, 3])):
                    parts += [";"] + rand_pos_set(rng, d, rng.choice([0, 0, 0.3])) + ["=>", str(rng.choice([0, 0, 0, 1, 2]))]
        else:
            parts = ["coll", s, fs.name, "max", "-1"]
            for _ in range(rng.choice([1, 1, 2, 3])):
                parts += [";"] + rand_pos_set(rng, d, rng.choice([0, 0, 0.3])) + ["=>", str(rng.choice([0, 0, 0, 1, 2]))]
        ctx.emit(" ".join(parts))
        ctx.edges[s] = fs
        if prev_rel is not None and rng.random() < 0.6:
            # a relation that shares nodes with the previous one (stale split / fire cache):
            # the same first event united with another local event
            fr = ctx.edges[prev_rel]
            x = ctx.fresh("x")
            parts = ["coll", x, fr.name, "max", "0"]
            for _ in range(rng.choice([1, 1, 2])):
                pos = []
                for sz in d.sizes:
                    q = rng.random()
                    if q < 0.4:
                        pos += ["x", "="]
                    elif q < 0.5:
                        pos += [str(rng.randrange(sz)), "="]
                    else:
                        pos += [str(rng.randrange(sz)), str(rng.randrange(sz))]
                parts += [";"] + pos + ["=>", "1"]
            ctx.emit(" ".join(parts))
            ctx.edges[x] = fr
            base = shared_event if (shared_event and ctx.edges.get(shared_event) is fr and rng.random() < 0.7) else prev_rel
            ctx.emit("apply %s %s %s %s %s" % (r, fr.name, rng.choice(["union", "union", "union", "diff"]), base, x))
            ctx.edges[r] = fr
        else:
            fr = rng.choice(rels)
            if rng.random() < 0.4:
                parts = ["coll", r, fr.name, "max", "0"]
                for pos in nested_model(rng, d.sizes):
                    parts += [";"] + pos + ["=>", "1"]
                ctx.emit(" ".join(parts))
                ctx.edges[r] = fr
            elif rng.random() < 0.5:
                # a model made of local events (counters): guards, moves, unchanged variables
                parts = ["coll", r, fr.name, "max", "0"]
                for _ in range(rng.randint(3, 7)):
                    pos = []
                    moved = False
                    for sz in d.sizes:
                        q = rng.random()
                        if q < 0.45:
                            pos += ["x", "="]
                        elif q < 0.55:
                            pos += [str(rng.randrange(sz)), "="]
                        else:
                            a_ = rng.randrange(sz)
                            b_ = (a_ + rng.choice([1, 1, 1, 2])) % sz if rng.random() < 0.7 else rng.randrange(sz)
                            pos += [str(a_), str(b_)]
                            moved = True
                    parts += [";"] + pos + ["=>", "1"]
                ctx.emit(" ".join(parts))
                ctx.edges[r] = fr
            else:
                gen_rel_minterms(ctx, fr, r, nmax=8, p_dc=rng.choice([0, 0.15, 0.3]), p_same=rng.choice([0.2, 0.5, 0.8]))
            if shared_event is None:
                shared_event = r
        prev_rel = r
        res = []
        fwd = rng.random() < 0.7
        pre = "" if fwd else "r"
        if kind == "bool":
            algos = [pre + "reach_fs", pre + "reach_nofs", pre + "reach_sat"]
        else:
            algos = [pre + "reach_nofs", pre + "reach_sat", pre + "reach_nofs"]
        if fr.rule != "ir":
            # known finding (see known_findings.json): saturation mis-handles relation
            # forests that are not identity-reduced; probed by corpus/C08/*.script
            algos = [a.replace("reach_sat", "reach_nofs") for a in algos]
        rng.shuffle(algos)
        for al in algos:
            n = ctx.fresh()
            # all algorithms into the same forest so that == is meaningful
            ctx.emit("apply %s %s %s %s %s" % (n, fs.name, al, s, r))
            res.append(n)
        ctx.emit("eq %s %s" % (res[0], res[1]))
        ctx.emit("eq %s %s" % (res[1], res[2]))
        if rng.random() < 0.3:
            ctx.emit("clearct")
    return ctx.text()


def gen_C20(rng):
    """saturation with a relation given as separate events"""
    ctx = Ctx(rng)
    ctx.emit("init " + rand_ctopts(rng))
    d = rand_domain(rng, "D", False, 48, 4)
    ctx.emit(d.decl())
    fs = Forest("S", d, False, "bool", "mt", rng.choice(RULES_SET), rand_opts(rng))
    # pregen relations live in an identity-reduced forest (library default for relations)
    fm = Forest("M", d, True, "bool", "mt", "ir", rand_opts(rng))
    ctx.emit(fs.decl())
    ctx.emit(fm.decl())
    for rnd in range(rng.randint(1, 3)):
        s = "s%d" % rnd
        parts = ["coll", s, "S", "max", "0"]
        # initial sets from single states to cubes that skip several adjacent levels
        for _ in range(rng.choice([1, 1, 2])):
            parts += [";"] + rand_pos_set(rng, d, rng.choice([0, 0, 0.3, 0.7, 1.0])) + ["=>", "1"]
        ctx.emit(" ".join(parts))
        nev = rng.randint(1, 5)
        evs = []
        # sometimes no event is rooted above a random level (levels without events)
        maxvar = rng.randint(1, len(d.sizes)) if rng.random() < 0.5 else len(d.sizes)
        for e in range(nev):
            name = "e%d_%d" % (rnd, e)
            # events touch few variables: the others unchanged (x, =); sometimes the
            # top variable is unchanged so that splitting moves the event down
            parts = ["coll", name, "M", "max", "0"]
            for _ in range(rng.choice([1, 1, 2])):
                pos = []
                touched = False
                for vi, sz in enumerate(d.sizes):
                    r = rng.random()
                    # positions are listed variable 1 (bottom) first
                    if r < 0.5 or (vi + 1) > maxvar:
                        pos += ["x", "="]
                    elif r < 0.6:
                        v = str(rng.randrange(sz))
                        pos += [v, "="]          # tested but unchanged
                    else:
                        pos += [str(rng.randrange(sz)), str(rng.randrange(sz))]
                        touched = True
                parts += [";"] + pos + ["=>", "1"]
            ctx.emit(" ".join(parts))
            evs.append(name)
        if rng.random() < 0.3 and len(evs) > 1:
            evs.append(rng.choice(evs))            # the same event twice
        # union relation for the monolithic algorithms
        u = evs[0]
        for i, e in enumerate(evs[1:]):
            n = "u%d_%d" % (rnd, i)
            ctx.emit("apply %s M union %s %s" % (n, u, e))
            u = n
        res = []
        for _ in range(rng.randint(1, 3)):
            mode = rng.choice(["events", "levels"])
            split = rng.choice(["only", "sub", "suball", "mono"])
            n = ctx.fresh("r")
            ctx.emit("satpre %s S %s %s %s %s" % (n, mode, split, s, " ".join(evs)))
            res.append(n)
        m = ctx.fresh("m")
        ctx.emit("apply %s S %s %s %s" % (m, rng.choice(["reach_nofs", "reach_fs", "reach_sat"]), s, u))
        for x in res:
            ctx.emit("eq %s %s" % (x, m))
    return ctx.text()


def gen_C20_skip(rng):
    """saturation by events when the initial set's diagram skips several
    adjacent levels and some levels have no event of their own: cubes whose top
    variables are unconstrained, events rooted at intermediate levels"""
    ctx = Ctx(rng)
    ctx.emit("init " + rand_ctopts(rng))
    while True:
        k = rng.choice([3, 3, 4])
        sizes = [rng.choice([2, 2, 3]) for _ in range(k)]
        d = Domain("D", sizes)
        if d.npoints(False) <= 48:
            break
    ctx.emit(d.decl())
    fs = Forest("S", d, False, "bool", "mt", rng.choice(["fr", "fr", "fr", "qr"]), rand_opts(rng))
    fm = Forest("M", d, True, "bool", "mt", "ir", rand_opts(rng))
    ctx.emit(fs.decl())
    ctx.emit(fm.decl())
    for rnd in range(rng.randint(1, 2)):
        s = "s%d" % rnd
        # variables above `low` are unconstrained in the initial set
        low = rng.randint(1, k - 2)
        parts = ["coll", s, "S", "max", "0"]
        for _ in range(rng.choice([1, 1, 2])):
            pos = [str(rng.randrange(sizes[v])) if v < low else "x" for v in range(k)]
            parts += [";"] + pos + ["=>", "1"]
        ctx.emit(" ".join(parts))
        # events rooted at chosen levels only; some level between has none
        roots = sorted(rng.sample(range(1, k + 1), rng.randint(1, k - 1)))
        evs = []
        for e, top in enumerate(roots * rng.choice([1, 1, 2])):
            name = "e%d_%d" % (rnd, e)
            parts = ["coll", name, "M", "max", "0"]
            for _ in range(rng.choice([1, 2])):
                pos = []
                for v in range(k):
                    if v + 1 > top:
                        pos += ["x", "="]
                    elif v + 1 == top or rng.random() < 0.5:
                        a = rng.randrange(sizes[v])
                        b = rng.choice([x for x in range(sizes[v]) if x != a])
                        pos += [str(a), str(b)]
                    else:
                        pos += rng.choice([["x", "="], [str(rng.randrange(sizes[v])), "="]])
                parts += [";"] + pos + ["=>", "1"]
            ctx.emit(" ".join(parts))
            evs.append(name)
        u = evs[0]
        for i, e in enumerate(evs[1:]):
            n = "u%d_%d" % (rnd, i)
            ctx.emit("apply %s M union %s %s" % (n, u, e))
            u = n
        res = []
        for _ in range(rng.randint(1, 3)):
            n = ctx.fresh("r")
            ctx.emit("satpre %s S %s %s %s %s" % (n, rng.choice(["events", "levels"]),
                                                  rng.choice(["only", "sub", "suball", "mono"]), s, " ".join(evs)))
            res.append(n)
        m = ctx.fresh("m")
        ctx.emit("apply %s S %s %s %s" % (m, rng.choice(["reach_nofs", "reach_fs", "reach_sat"]), s, u))
        for x in res:
            ctx.emit("eq %s %s" % (x, m))
    return ctx.text()


def gen_C20_gap(rng):
    """saturation by events where a fired result is a node far below its parent (the
    middle variables are unconstrained in a fully-reduced set forest): among the skipped
    levels the lowest has no event of its own, a higher one has an event that moves a low
    variable on -- the events of ALL skipped levels have to be fired on the result"""
    ctx = Ctx(rng)
    ctx.emit("init " + rand_ctopts(rng))
    k = rng.choice([4, 4, 5])
    sizes = [3] + [2] * (k - 1)
    d = Domain("D", sizes)
    ctx.emit(d.decl())
    fs = Forest("S", d, False, "bool", "mt", rng.choice(["fr", "fr", "fr", "qr"]), rand_opts(rng))
    fm = Forest("M", d, True, "bool", "mt", "ir", rand_opts(rng))
    ctx.emit(fs.decl())
    ctx.emit(fm.decl())
    for rnd in range(rng.randint(1, 2)):
        s = "s%d" % rnd
        # initial set: bottom and top variable fixed, the middle ones free
        pos = ["0"] + ["x"] * (k - 2) + ["0"]
        ctx.emit("coll %s S max 0 ; %s => 1" % (s, " ".join(pos)))
        gap = rng.randint(2, k - 2)                 # no event rooted at this level
        high = rng.randint(gap + 1, k - 1)          # an event rooted here moves x1 on
        evs = []

        def event(top, x1from, x1to):
            name = "e%d_%d" % (rnd, len(evs))
            pos = [str(x1from), str(x1to)]
            for v in range(2, k + 1):
                if v == top:
                    pos += ["0", "1"]
                else:
                    pos += ["x", "="]
            ctx.emit("coll %s M max 0 ; %s => 1" % (name, " ".join(pos)))
            evs.append(name)

        event(k, 0, 1)                 # the top event fires first and produces the skipping node
        event(high, 1, 2)
        for v in range(2, k):
            if v not in (gap, high) and rng.random() < 0.4:
                event(v, rng.randrange(3), rng.randrange(3))
        rng.shuffle(evs)
        u = evs[0]
        for i, e in enumerate(evs[1:]):
            n = "u%d_%d" % (rnd, i)
            ctx.emit("apply %s M union %s %s" % (n, u, e))
            u = n
        res = []
        for _ in range(rng.randint(1, 3)):
            n = ctx.fresh("r")
            ctx.emit("satpre %s S %s %s %s %s" % (n, rng.choice(["events", "levels"]),
                                                  rng.choice(["only", "sub", "suball", "mono"]), s, " ".join(evs)))
            res.append(n)
        m = ctx.fresh("m")
        ctx.emit("apply %s S %s %s %s" % (m, rng.choice(["reach_nofs", "reach_fs"]), s, u))
        for x in res:
            ctx.emit("eq %s %s" % (x, m))
    return ctx.text()


def gen_C20_dense(rng):
    """saturation by events on tiny domains with dense event systems: a "clock"
    variable at the top moves back and forth between its values while other events
    free the lower variables, so that whole sub-spaces below an index become complete
    (the terminal TRUE in a fully-reduced set forest) while that index has already
    been explored, and states found late enable transitions that were not enabled
    before"""
    ctx = Ctx(rng)
    ctx.emit("init " + rand_ctopts(rng))
    k = rng.choice([2, 2, 3])
    sizes = [rng.choice([2, 2, 3]) for _ in range(k)]
    sizes[k - 1] = rng.choice([2, 3, 3, 4])
    d = Domain("D", sizes)
    ctx.emit(d.decl())
    fs = Forest("S", d, False, "bool", "mt", rng.choice(["fr", "fr", "fr", "fr", "fr", "qr"]), rand_opts(rng))
    fm = Forest("M", d, True, "bool", "mt", "ir", rand_opts(rng))
    ctx.emit(fs.decl())
    ctx.emit(fm.decl())
    for rnd in range(rng.randint(1, 3)):
        s = "s%d" % rnd
        parts = ["coll", s, "S", "max", "0", ";"] + [str(rng.choice([0, 0, rng.randrange(sizes[v])])) for v in range(k)] + ["=>", "1"]
        ctx.emit(" ".join(parts))
        evs = []

        def event(minterms):
            name = "e%d_%d" % (rnd, len(evs))
            parts = ["coll", name, "M", "max", "0"]
            for pos in minterms:
                parts += [";"] + pos + ["=>", "1"]
            ctx.emit(" ".join(parts))
            evs.append(name)

        top = k - 1
        nt = sizes[top]
        # clock moves: a -> b on the top variable; lower variables unchanged, or one of
        # them set to a value (possibly only from a given value)
        moves = [(a, a + 1) for a in range(nt - 1)] + [(a + 1, a) for a in range(nt - 1)]
        rng.shuffle(moves)
        for (a, b) in moves[: (len(moves) if rng.random() < 0.6 else rng.randint(2, len(moves)))]:
            mts = []
            for _ in range(rng.choice([1, 1, 2])):
                pos = []
                for v in range(k):
                    if v == top:
                        pos += [str(a), str(b)]
                    else:
                        r = rng.random()
                        if r < 0.4:
                            pos += ["x", "="]
                        elif r < 0.6:
                            pos += [str(rng.randrange(sizes[v])), str(rng.randrange(sizes[v]))]
                        else:
                            pos += [str(rng.randrange(sizes[v])), "x"]
                mts.append(pos)
            event(mts)
        # sometimes an event below the top
        if k > 1 and rng.random() < 0.5:
            v0 = rng.randrange(k - 1)
            pos = []
            for v in range(k):
                if v == v0:
                    a = rng.randrange(sizes[v])
                    pos += [str(a), str(rng.choice([x for x in range(sizes[v]) if x != a]))]
                else:
                    pos += ["x", "="]
            event([pos])
        rng.shuffle(evs)
        u = evs[0]
        for i, e in enumerate(evs[1:]):
            n = "u%d_%d" % (rnd, i)
            ctx.emit("apply %s M union %s %s" % (n, u, e))
            u = n
        res = []
        for _ in range(rng.randint(1, 3)):
            n = ctx.fresh("r")
            ctx.emit("satpre %s S %s %s %s %s" % (n, rng.choice(["events", "levels"]),
                                                  rng.choice(["only", "sub", "suball", "mono"]), s, " ".join(evs)))
            res.append(n)
        m = ctx.fresh("m")
        ctx.emit("apply %s S %s %s %s" % (m, rng.choice(["reach_nofs", "reach_fs"]), s, u))
        for x in res:
            ctx.emit("eq %s %s" % (x, m))
    return ctx.text()


REORDERS = ["li", "hi", "sd", "bu", "lc", "lm", "rand", "larc"]


def gen_C13(rng):
    """reorder a forest with live edges (shared nodes, warm caches); other
    forests over the same domain must be untouched"""
    ctx = Ctx(rng)
    rel = rng.random() < 0.4
    ctx.emit("init " + rand_ctopts(rng))
    d = rand_domain(rng, "D", rel, 200, 4)
    ctx.emit(d.decl())
    ctx.doms.append(d)
    rules = ["fr", "qr"] if not rel else RULES_REL
    k = len(d.sizes)
    fs = []
    for i in range(rng.choice([1, 2, 3])):
        rg = rng.choice(["bool", "int", "int"])
        opts = rand_opts(rng) + " reorder=" + rng.choice(REORDERS) + " swap=" + rng.choice(["var", "level"])
        f = Forest("F%d" % i, d, rel, rg, "mt", rng.choice(rules), opts)
        ctx.emit(f.decl())
        ctx.forests.append(f)
        fs.append(f)
    for _ in range(rng.randint(2, 5)):
        gen_leaf(ctx, rng.choice(fs))
    for _ in range(rng.randint(0, 3)):
        names = list(ctx.edges)
        a, b = rng.choice(names), rng.choice(names)
        if ctx.edges[a] is ctx.edges[b]:
            f = ctx.edges[a]
            n = ctx.fresh()
            ctx.emit("apply %s %s %s %s %s" % (n, f.name, rng.choice(SETOPS) if f.range == "bool"
                                                else rng.choice(["plus", "max", "min"]), a, b))
            ctx.edges[n] = f
    used = []
    for rnd in range(rng.randint(1, 4)):
        f = rng.choice(fs)
        # orders are shared between forests that reach the same permutation:
        # re-use an earlier permutation half of the time
        if used and rng.random() < 0.5:
            perm = list(rng.choice(used))
        else:
            perm = list(range(1, k + 1))
            rng.shuffle(perm)
        used.append(perm)
        ctx.emit("reorder %s %s" % (f.name, " ".join(map(str, perm))))
        for g in fs:
            ctx.emit("order %s" % g.name)
        for e in ctx.edges:
            ctx.emit("show %s" % e)
        ctx.emit("audit %s" % f.name)
        # the forest stays usable: new operations after the reorder
        names = [e for e in ctx.edges if ctx.edges[e] is f]
        if len(names) >= 2 and rng.random() < 0.7:
            a, b = rng.choice(names), rng.choice(names)
            n = ctx.fresh()
            ctx.emit("apply %s %s %s %s %s" % (n, f.name, rng.choice(SETOPS) if f.range == "bool"
                                                else rng.choice(["plus", "max", "min"]), a, b))
            ctx.edges[n] = f
    return ctx.text()


def gen_C13_shared(rng):
    """several forests over one domain are brought to the same variable order
    (forests in the same order share the domain's order object), then one of
    them moves on: the others must keep their order and their functions"""
    ctx = Ctx(rng)
    rel = rng.random() < 0.3
    ctx.emit("init " + rand_ctopts(rng))
    d = rand_domain(rng, "D", rel, 200, 4)
    ctx.emit(d.decl())
    ctx.doms.append(d)
    rules = ["fr", "qr"] if not rel else RULES_REL
    k = len(d.sizes)
    fs = []
    for i in range(rng.choice([2, 2, 3])):
        rg = rng.choice(["bool", "int"])
        # relation forests: level swap only (variable swap is a recorded finding)
        opts = rand_opts(rng) + " reorder=" + rng.choice(REORDERS) + " swap=" + ("level" if rel else rng.choice(["var", "level"]))
        f = Forest("F%d" % i, d, rel, rg, "mt", rng.choice(rules), opts)
        ctx.emit(f.decl())
        ctx.forests.append(f)
        fs.append(f)
    for f in fs:
        for _ in range(rng.randint(1, 2)):
            gen_leaf(ctx, f)

    def perm():
        p = list(range(1, k + 1))
        rng.shuffle(p)
        return p

    def observe():
        for g in fs:
            ctx.emit("order %s" % g.name)
        for e in ctx.edges:
            ctx.emit("show %s" % e)

    P = perm()
    movers = list(fs)
    rng.shuffle(movers)
    for f in movers[: rng.choice([2, len(fs)])]:
        ctx.emit("reorder %s %s" % (f.name, " ".join(map(str, P))))
    observe()
    for rnd in range(rng.randint(1, 3)):
        f = rng.choice(fs)
        Q = perm() if rng.random() < 0.7 else P
        ctx.emit("reorder %s %s" % (f.name, " ".join(map(str, Q))))
        observe()
        for g in fs:
            ctx.emit("audit %s" % g.name)
            # every forest stays usable
            names = [e for e in ctx.edges if ctx.edges[e] is g]
            if len(names) >= 1 and rng.random() < 0.5:
                a, b = rng.choice(names), rng.choice(names)
                n = ctx.fresh()
                ctx.emit("apply %s %s %s %s %s" % (n, g.name, rng.choice(SETOPS) if g.range == "bool"
                                                    else rng.choice(["plus", "max", "min"]), a, b))
                ctx.edges[n] = g
                ctx.emit("show %s" % n)
    return ctx.text()


def gen_C14(rng):
    """write roots (shared sub-graphs, terminal roots, repeated roots) and read
    them back into the same forest, a twin forest, and a forest created from
    the file; reader/writer with different storage policies"""
    ctx = Ctx(rng)
    rel = rng.random() < 0.5
    ctx.emit("init " + rand_ctopts(rng))
    d = rand_domain(rng, "D", rel, 300, 4)
    ctx.emit(d.decl())
    ctx.doms.append(d)
    rg = rng.choice(["bool", "int", "int", "real"])
    rule = rng.choice(RULES_REL if rel else RULES_SET)
    fw = Forest("W", d, rel, rg, "mt", rule, rand_opts(rng))
    ft = Forest("T", d, rel, rg, "mt", rule, rand_opts(rng))      # twin: same kind, other policies
    ctx.emit(fw.decl())
    ctx.emit(ft.decl())
    ctx.forests += [fw, ft]
    for _ in range(rng.randint(2, 5)):
        gen_leaf(ctx, fw)
    names = list(ctx.edges)
    for _ in range(rng.randint(0, 3)):
        a, b = rng.choice(names), rng.choice(names)
        n = ctx.fresh()
        ctx.emit("apply %s W %s %s %s" % (n, rng.choice(SETOPS) if rg == "bool" else rng.choice(["plus", "max", "min"]), a, b))
        ctx.edges[n] = fw
        names.append(n)
    if rng.random() < 0.4:
        n = ctx.fresh()
        ctx.emit("const %s W %s" % (n, rng.choice(["0", "1"] if rg == "bool" else ["0", "64", "128"] if rg == "real" else ["0", "3"])))
        names.append(n)
    roots = [rng.choice(names) for _ in range(rng.randint(1, 5))]
    if rng.random() < 0.3:
        roots.append(roots[0])                       # repeated root
    ctx.emit("write f W %s" % " ".join(roots))
    # something already in the twin forest (equal nodes must be found, not duplicated)
    if rng.random() < 0.5:
        gen_leaf(ctx, ft)
    targets = [("read", "W"), ("read", "T")]
    # a forest created from the file gets the default reduction rule; the file does
    # not record the writer's rule, so a fully-reduced *relation* forest does not
    # survive, and a quasi-reduced one leaves illegal singleton edges in the new
    # identity-reduced forest (known findings, probed by corpus/C14/readnew-*.script)
    if not (rel and rule != "ir"):
        targets.append(("readnew", "N D"))
    rng.shuffle(targets)
    for ti, (cmd, tgt) in enumerate(targets[: rng.randint(1, 3)]):
        rn = ["r%d_%d" % (ti, i) for i in range(len(roots))]
        ctx.emit("%s f %s %s" % (cmd, tgt, " ".join(rn)))
        for i, r in enumerate(rn):
            ctx.emit("show %s" % r)
            if tgt == "W":
                ctx.emit("eq %s %s" % (r, roots[i]))
        ctx.emit("audit %s" % tgt.split()[0])
    # release everything read: counts must return to exact
    return ctx.text()


def gen_C16(rng):
    """deliberate misuse: every call must raise the documented error, and
    afterwards everything obtained earlier is intact and usable"""
    ctx = Ctx(rng)
    ctx.emit("init " + rand_ctopts(rng))
    ctx.emit("auditmode lenient")
    d1 = rand_domain(rng, "D1", False, 60, 3)
    d2 = Domain("D2", [rng.choice([2, 3, 4]) for _ in range(len(d1.sizes) + rng.choice([0, 1]))])
    if d2.sizes == d1.sizes:
        d2.sizes[0] += 1
    ctx.emit(d1.decl())
    ctx.emit(d2.decl())
    S1 = Forest("S1", d1, False, "bool", "mt", rng.choice(RULES_SET), rand_opts(rng))
    R1 = Forest("R1", d1, True, "bool", "mt", rng.choice(RULES_REL), rand_opts(rng))
    S2 = Forest("S2", d2, False, "bool", "mt", rng.choice(RULES_SET), rand_opts(rng))
    I1 = Forest("I1", d1, False, "int", "mt", rng.choice(RULES_SET), rand_opts(rng))
    J1 = Forest("J1", d1, True, "int", "mt", rng.choice(RULES_REL), rand_opts(rng))
    for f in (S1, R1, S2, I1, J1):
        ctx.emit(f.decl())
        ctx.forests.append(f)
    a = gen_coll(ctx, S1, "a")
    a2 = gen_coll(ctx, S1, "a2")
    b = gen_coll(ctx, S2, "b")
    c = gen_leaf(ctx, R1, "c")
    n = gen_coll(ctx, I1, "n", mode="max", deflt="0")
    n2 = gen_coll(ctx, I1, "n2", mode="max", deflt="0")
    m = gen_leaf(ctx, J1, "m")
    held = ["a", "a2", "b", "c", "n", "n2", "m"]

    def after():
        for e in held:
            ctx.emit("show %s" % e)
        for f in ctx.forests:
            ctx.emit("audit %s" % f.name)
        x = ctx.fresh("ok")
        ctx.emit("apply %s S1 %s a a2" % (x, rng.choice(SETOPS)))
        x = ctx.fresh("ok")
        ctx.emit("apply %s I1 %s n n2" % (x, rng.choice(["plus", "max", "min"])))

    misuses = [
        lambda: ctx.emit("apply %s S1 %s a b" % (ctx.fresh("x"), rng.choice(SETOPS))),          # domains
        lambda: ctx.emit("apply %s S2 %s a a2" % (ctx.fresh("x"), rng.choice(SETOPS))),         # result domain
        lambda: ctx.emit("apply %s S1 %s a c" % (ctx.fresh("x"), rng.choice(SETOPS))),          # set vs relation
        lambda: ctx.emit("apply %s R1 %s a a2" % (ctx.fresh("x"), rng.choice(SETOPS))),         # result relation
        lambda: ctx.emit("apply %s I1 %s n m" % (ctx.fresh("x"), rng.choice(["plus", "max"]))), # set vs relation (int)
        lambda: ctx.emit("apply %s S1 cross a c" % ctx.fresh("x")),                              # cross shape
        lambda: ctx.emit("apply %s S1 post a a2" % ctx.fresh("x")),                              # image needs a relation
        lambda: ctx.emit("constinto a I1 3"),                                                    # edge of another forest
        lambda: ctx.emit("constinto n S1 1"),
        lambda: ctx.emit("const %s I1 %d" % (ctx.fresh("x"), rng.choice([1073741824, -1073741825, 2147483647, 1 << 40]))),
        lambda: ctx.emit("iterpast %s" % rng.choice(["a", "n", "c"])),
    ]
    # division by zero at depth: divisor zero somewhere, dividend nowhere zero there
    def divzero():
        z = ctx.fresh("z")
        parts = ["coll", z, "I1", "max", "0"]
        for _ in range(rng.choice([1, 2, 3])):
            parts += [";"] + rand_pos_set(rng, d1, 0.3) + ["=>", str(rng.choice([1, 2, 3]))]
        ctx.emit(" ".join(parts))
        held.append(z)
        k = ctx.fresh("k")
        ctx.emit("const %s I1 %d" % (k, rng.choice([1, 5, 7])))
        held.append(k)
        ctx.emit("apply %s I1 %s %s %s" % (ctx.fresh("x"), rng.choice(["div", "mod"]), k, z))
    misuses.append(divzero)

    # EV+ : subtracting +infinity, found below the root, with the result directed into an
    # edge that already holds a function (it must still hold it afterwards)
    E1 = Forest("E1", d1, False, "int", "evp", rng.choice(RULES_SET), rand_opts(rng))
    ctx.emit(E1.decl())
    ctx.forests.append(E1)

    def evcoll(name, mode, deflt, vals, n):
        parts = ["coll", name, "E1", mode, deflt]
        for _ in range(n):
            parts += [";"] + rand_pos_set(rng, d1, rng.choice([0, .3, .6])) + ["=>", str(rng.choice(vals))]
        ctx.emit(" ".join(parts))
        held.append(name)

    evcoll("ep", "max", "0", [1, 2, 3, 5], rng.randint(1, 3))            # finite everywhere
    # +infinity somewhere (unless a minterm happens to cover everything: then the
    # subtraction is defined and must simply succeed)
    evcoll("eq", "min", "inf", [0, 1, 2, 4], rng.randint(1, 2))
    evcoll("ex", "max", str(rng.choice([1, 2, 4])), [5, 6, 9], rng.randint(1, 3))   # root value >= 1

    def subinf():
        ctx.emit("applyinto ex minus ep eq")
    misuses.append(subinf)
    misuses.append(subinf)
    # EV+ division / modulo by a divisor that is zero only at assignments explored late
    # (high indices), so that partial results exist when the error is raised; the result is
    # directed into an edge that already holds a function
    parts = ["coll", "ez", "E1", "min", str(rng.choice([2, 3]))]
    for _ in range(rng.choice([1, 1, 2])):
        pos = [str(sz - 1) if rng.random() < 0.8 else str(rng.randrange(sz)) for sz in d1.sizes]
        parts += [";"] + pos + ["=>", "0"]
    ctx.emit(" ".join(parts))
    held.append("ez")

    # the dividend is nowhere zero and never the target of an applyinto: the shortcut
    # 0/g = 0 skips the zero-divisor check (recorded finding F2 and its EV+ counterpart),
    # so 0/0 is not generated
    evcoll("ed", "max", str(rng.choice([1, 2, 4])), [5, 6, 9], rng.randint(1, 3))

    def evdivzero():
        ctx.emit("applyinto ep %s ed ez" % rng.choice(["div", "mod"]))
    misuses.append(evdivzero)
    misuses.append(evdivzero)
    rng.shuffle(misuses)
    for mis in misuses[: rng.randint(3, 8)]:
        mis()
        after()
    # use of an edge whose forest was destroyed
    if rng.random() < 0.7:
        ctx.emit("destroyforest S1")
        held2 = [e for e in held if e not in ("a", "a2")]
        ctx.emit("attached a")
        ctx.emit("show a")
        ctx.emit("evalx a")
        ctx.emit("apply %s S2 union a b" % ctx.fresh("x"))
        ctx.emit("apply %s I1 plus n n2" % ctx.fresh("ok"))
        for e in held2:
            ctx.emit("show %s" % e)
        for f in (R1, S2, I1, J1):
            ctx.emit("audit %s" % f.name)
    return ctx.text()


def gen_C16_order(rng):
    """operations across forests of one domain whose variable orders differ must be
    rejected (INVALID_OPERATION) at EVERY call -- also when the same operation on the same
    forests succeeded before one of them was reordered -- and succeed again once the
    orders agree; operands and earlier results keep their functions"""
    ctx = Ctx(rng)
    ctx.emit("init " + rand_ctopts(rng))
    d = rand_domain(rng, "D", False, 120, 4)
    while len(d.sizes) < 2:
        d = rand_domain(rng, "D", False, 120, 4)
    ctx.emit(d.decl())
    ctx.doms.append(d)
    k = len(d.sizes)
    rg = rng.choice(["bool", "int"])
    fs = []
    for i in range(2):
        f = Forest("F%d" % i, d, False, rg, "mt", rng.choice(["fr", "qr"]),
                   rand_opts(rng) + " reorder=" + rng.choice(REORDERS) + " swap=" + rng.choice(["var", "level"]))
        ctx.emit(f.decl())
        ctx.forests.append(f)
        fs.append(f)
    a0 = gen_coll(ctx, fs[0], "a0", nmax=4)
    b0 = gen_coll(ctx, fs[0], "b0", nmax=4)
    a1 = gen_coll(ctx, fs[1], "a1", nmax=4)
    op = rng.choice(SETOPS) if rg == "bool" else rng.choice(["plus", "max", "min"])

    def tryop(res_forest):
        n = ctx.fresh("x")
        ctx.emit("apply %s %s %s a0 a1" % (n, res_forest.name, op))
        ctx.edges[n] = res_forest
        if rng.random() < 0.5:
            # unary operations across the two forests obey the same rule
            c = ctx.fresh("c")
            ctx.emit("unary %s F1 copy %s" % (c, rng.choice(["a0", "b0"])))
            ctx.edges[c] = fs[1]
        return n

    def perm():
        while True:
            p = list(range(1, k + 1))
            rng.shuffle(p)
            if p != list(range(1, k + 1)):
                return p

    def observe():
        for g in fs:
            ctx.emit("order %s" % g.name)
        for e in list(ctx.edges):
            ctx.emit("show %s" % e)
        for g in fs:
            ctx.emit("audit %s" % g.name)

    tryop(rng.choice(fs))                 # same orders: accepted (the operation now exists)
    P = perm()
    ctx.emit("reorder F0 %s" % " ".join(map(str, P)))
    tryop(fs[1])                          # orders differ: rejected
    tryop(fs[0])
    observe()
    ctx.emit("reorder F1 %s" % " ".join(map(str, P)))
    tryop(rng.choice(fs))                 # orders agree again: accepted
    if rng.random() < 0.6:
        Q = perm()
        ctx.emit("reorder %s %s" % (rng.choice(["F0", "F1"]), " ".join(map(str, Q))))
        tryop(rng.choice(fs))             # rejected unless Q == P
    observe()
    n = ctx.fresh("ok")
    ctx.emit("apply %s F0 %s a0 b0" % (n, op))
    return ctx.text()


def gen_C17(rng):
    """create and destroy domains, forests and edges in random orders, with
    operations spanning destroyed and surviving forests; repeated init/cleanup"""
    ctx = Ctx(rng)
    old = []                # edges that outlived a cleanup (detached for ever)
    for cycle in range(rng.choice([1, 2, 3])):
        ctx.emit("init " + rand_ctopts(rng))
        doms = {}
        forests = {}        # name -> Forest (alive)
        edges = {}          # name -> forest name
        nd = rng.choice([1, 2, 3])
        for i in range(nd):
            dname = "D%d_%d" % (cycle, i)
            d = rand_domain(rng, dname, False, 30, 3)
            ctx.emit(d.decl())
            doms[dname] = d
        nf = 0
        for step in range(rng.randint(6, 18)):
            r = rng.random()
            alive_f = list(forests)
            if r < 0.3 or not alive_f:
                if not doms:
                    continue
                dname = rng.choice(list(doms))
                fname = "F%d_%d" % (cycle, nf)
                nf += 1
                rel = rng.random() < 0.3
                f = Forest(fname, doms[dname], rel, "bool", "mt", rng.choice(RULES_REL if rel else RULES_SET),
                           rand_opts(rng) + " showfid=1")
                ctx.emit(f.decl())
                forests[fname] = f
            elif r < 0.55:
                fname = rng.choice(alive_f)
                e = ctx.fresh("e")
                gen_coll(ctx, forests[fname], e, nmax=4)
                edges[e] = fname
                if old and rng.random() < 0.6:
                    # an edge from an earlier initialisation: forest identifiers start again at
                    # 1, but the edge must stay inert, be rejected as an operand, and be harmless
                    # to drop
                    o = rng.choice(old)
                    ctx.emit("attached %s" % o)
                    ctx.emit("apply %s %s union %s %s" % (ctx.fresh("x"), fname, o, e))
                    if rng.random() < 0.6:
                        ctx.emit("card %s" % e)
                        ctx.emit("unaryinto %s card %s" % (o, e))
                    r2 = rng.random()
                    if r2 < 0.4:
                        ctx.emit("release %s" % o)
                        old.remove(o)
                    elif r2 < 0.7:
                        ctx.emit("reattach %s %s" % (o, fname))
                        old.remove(o)
                        edges[o] = fname
                    ctx.emit("show %s" % e)
                    ctx.emit("audit %s" % fname)
            elif r < 0.7:
                # operation among forests of one domain (fills the compute tables)
                es = [e for e in edges if edges[e] in forests]
                if len(es) >= 2:
                    a, b = rng.choice(es), rng.choice(es)
                    fa, fb = forests[edges[a]], forests[edges[b]]
                    tg = [f for f in forests.values() if f.dom is fa.dom and f.rel == fa.rel]
                    if fa.dom is fb.dom and fa.rel == fb.rel and tg:
                        x = ctx.fresh("e")
                        t = rng.choice(tg)
                        ctx.emit("apply %s %s %s %s %s" % (x, t.name, rng.choice(SETOPS), a, b))
                        edges[x] = t.name
            elif r < 0.82:
                fname = rng.choice(alive_f)
                ctx.emit("destroyforest %s" % fname)
                del forests[fname]
                for e in edges:
                    ctx.emit("attached %s" % e)
                gone = [e for e in edges if edges[e] == fname]
                if gone:
                    g = rng.choice(gone)
                    ctx.emit("show %s" % g)
                    ctx.emit("evalx %s" % g)
                    live = [e for e in edges if edges[e] in forests]
                    if live:
                        o = rng.choice(live)
                        ctx.emit("apply %s %s union %s %s" % (ctx.fresh("x"), edges[o], g, o))
                    if live and rng.random() < 0.85:
                        # unary operations with the detached edge as result operand, after the
                        # same operator was used with a non-edge result on a surviving forest
                        o = rng.choice(live)
                        ctx.emit("card %s" % o)
                        ctx.emit("unaryinto %s %s %s" % (g, rng.choice(["card", "card", "card", "copy", "compl"]), o))
                        ctx.emit("attached %s" % g)
                        ctx.emit("show %s" % o)
                    if forests and rng.random() < 0.6:
                        # the same edge object is attached to a surviving forest: it must be that
                        # forest's transparent edge and hold no reference there
                        tf = rng.choice(list(forests))
                        ctx.emit("reattach %s %s" % (g, tf))
                        edges[g] = tf
                        ctx.emit("audit %s" % tf)
                        if rng.random() < 0.5:
                            ctx.emit("release %s" % g)
                            del edges[g]
                            ctx.emit("audit %s" % tf)
            elif r < 0.88 and len(doms) > 1:
                dname = rng.choice(list(doms))
                ctx.emit("destroydomain %s" % dname)
                for fname in [f for f in forests if forests[f].dom is doms[dname]]:
                    del forests[fname]
                del doms[dname]
                for e in edges:
                    ctx.emit("attached %s" % e)
            elif edges:
                e = rng.choice(list(edges))
                if rng.random() < 0.5:
                    ctx.emit("release %s" % e)
                    del edges[e]
                elif edges[e] in forests:
                    ctx.emit("show %s" % e)
        # survivors still work
        for e in edges:
            if edges[e] in forests:
                ctx.emit("show %s" % e)
        for f in forests:
            ctx.emit("audit %s" % f)
        if rng.random() < 0.6:
            ctx.emit("cleanup keep")
            old += list(edges)
            for e in old:
                ctx.emit("attached %s" % e)
        else:
            ctx.emit("cleanup")
            old = []
    return ctx.text()


def gen_heavy_ct(rng):
    """many operations on larger sets with results and operands released all the
    time: thousands of compute-table entries, many of them stale, long bucket
    chains.  Too large for the tree model: observations are digests, compared
    across compute-table configurations (and the unchanged cache-free run)."""
    L = ["init", "quiet 1"]
    k = rng.choice([5, 6])
    sz = rng.choice([3, 4])
    L.append("domain D " + " ".join([str(sz)] * k))
    nf = rng.choice([1, 2])
    for i in range(nf):
        L.append("forest F%d D set bool mt %s %s" % (i, rng.choice(RULES_SET), rng.choice(["", "del=pess", "del=opt"])))
    names = []

    def newset(name):
        f = rng.randrange(nf)
        parts = ["coll", name, "F%d" % f, "max", "0"]
        for _ in range(rng.randint(3, 12)):
            pos = [("x" if rng.random() < 0.25 else str(rng.randrange(sz))) for _ in range(k)]
            parts += [";"] + pos + ["=>", "1"]
        L.append(" ".join(parts))

    for i in range(8):
        newset("s%d" % i)
        names.append("s%d" % i)
    cnt = 0
    for rnd in range(rng.randint(8, 14)):
        made = []
        for _ in range(rng.randint(8, 20)):
            a, b = rng.choice(names), rng.choice(names)
            n = "t%d" % cnt
            cnt += 1
            L.append("apply %s F%d %s %s %s" % (n, rng.randrange(nf), rng.choice(SETOPS), a, b))
            made.append(n)
            if rng.random() < 0.5:
                names.append(n)
        # release most results and some operands, build fresh operands
        for n in made:
            if rng.random() < 0.8:
                L.append("release %s" % n)
                if n in names:
                    names.remove(n)
        for _ in range(rng.randint(1, 4)):
            if len(names) > 4:
                v = rng.choice(names)
                L.append("release %s" % v)
                names.remove(v)
        for _ in range(rng.randint(1, 3)):
            n = "s%d" % (100 + cnt)
            cnt += 1
            newset(n)
            names.append(n)
    for n in names:
        L.append("show %s" % n)
    return "\n".join(L) + "\n"


CT_STYLES = ["mc", "mu", "oc", "ou"]
CT_STALE = ["agg", "mod", "lazy"]


def rand_ctopts(rng):
    o = []
    if rng.random() < 0.8:
        o.append("ct=" + rng.choice(CT_STYLES))
    if rng.random() < 0.7:
        o.append("stale=" + rng.choice(CT_STALE))
    if rng.random() < 0.5:
        o.append("maxsize=" + str(rng.choice([1, 2, 8, 64, 1024, 100000])))
    if rng.random() < 0.3:
        o.append("compress=type")
    return " ".join(o)


def gen_hist(rng, nops=None, labs=("mt", "mt", "mt", "evp"), audit_every=3, ctopts=None, fanin=True,
             blank=False):
    """long mixed history: constructions, operations, copies, releases, cache
    clears, with an audit of every forest after every few lines"""
    ctx = Ctx(rng)
    rel = rng.random() < 0.5
    nops = nops or rng.randint(15, 60)
    ctx.emit("init " + (rand_ctopts(rng) if ctopts is None else ctopts))
    d = rand_domain(rng, "D", rel, 400)
    ctx.emit(d.decl())
    ctx.doms.append(d)
    rules = RULES_REL if rel else RULES_SET
    kinds = []
    for lab in labs:
        if lab == "mt":
            kinds.append((rng.choice(["bool", "int", "int", "real"]), "mt"))
        elif lab == "evp":
            kinds.append(("int", "evp"))
        else:
            if rel:
                kinds.append(("real", "evt"))
    nf = rng.choice([2, 3, 4])
    for i in range(nf):
        rg, lab = rng.choice(kinds)
        f = Forest("F%d" % i, d, rel, rg, lab, rng.choice(rules), rand_opts(rng))
        ctx.emit(f.decl())
        ctx.forests.append(f)

    def audit_all():
        for f in ctx.forests:
            ctx.emit("audit %s" % f.name)

    for _ in range(rng.randint(2, 4)):
        gen_leaf_any(ctx, rng.choice(ctx.forests))
    audit_all()
    for step in range(nops):
        names = list(ctx.edges)
        r = rng.random()
        if r < 0.45 and names:
            a = rng.choice(names)
            fa = ctx.edges[a]
            # partner in a forest of the same labeling and range
            cands = [e for e in names if ctx.edges[e].lab == fa.lab and ctx.edges[e].range == fa.range]
            b = rng.choice(cands)
            tgt = rng.choice([f for f in ctx.forests if f.lab == fa.lab and f.range == fa.range])
            if fa.range == "bool":
                op = rng.choice(SETOPS)
            elif fa.lab == "mt":
                op = rng.choice(["plus", "minus", "max", "min", "mult"] if fa.range == "int"
                                else ["plus", "minus", "max", "min"])
            else:
                op = rng.choice(["plus", "min", "max"])
            n = ctx.fresh()
            ctx.emit("apply %s %s %s %s %s" % (n, tgt.name, op, a, b))
            ctx.edges[n] = tgt
        elif r < 0.55 and names:
            a = rng.choice(names)
            fa = ctx.edges[a]
            tg = [f for f in ctx.forests if f.lab == "mt" and fa.lab == "mt"]
            if tg:
                tgt = rng.choice(tg)
                n = ctx.fresh()
                ctx.emit("unary %s %s copy %s" % (n, tgt.name, a))
                ctx.edges[n] = tgt
        elif r < 0.68:
            gen_leaf_any(ctx, rng.choice(ctx.forests))
        elif r < 0.80 and len(names) > 1:
            v = rng.choice(names)
            ctx.emit("release %s" % v)
            del ctx.edges[v]
        elif r < 0.86 and names:
            a = rng.choice(names)
            n = ctx.fresh("c")
            ctx.emit("copyedge %s %s" % (n, a))
            ctx.edges[n] = ctx.edges[a]
        elif r < 0.90 and len(names) > 1:
            a, b = rng.choice(names), rng.choice(names)
            if ctx.edges[a] is ctx.edges[b] and a != b:
                ctx.emit("assign %s %s" % (a, b))
        elif r < 0.95:
            ctx.emit("clearct" if rng.random() < 0.5 else "clearct %s" % rng.choice(ctx.forests).name)
        elif names:
            ctx.emit("card %s" % rng.choice(names))
        if step % audit_every == audit_every - 1:
            audit_all()
    # fan-in: many copies of one root push its count across the 8/16-bit widths
    if fanin and ctx.edges and rng.random() < 0.5:
        a = rng.choice(list(ctx.edges))
        k = rng.choice([254, 255, 256, 257, 300])
        for i in range(k):
            ctx.emit("copyedge z%d %s" % (i, a))
            if i in (253, 254, 255, 256):
                ctx.emit("audit %s" % ctx.edges[a].name)
        ctx.emit("audit %s" % ctx.edges[a].name)
        for i in range(k):
            ctx.emit("release z%d" % i)
            if k - i in (257, 256, 255, 254):
                ctx.emit("audit %s" % ctx.edges[a].name)
        ctx.emit("audit %s" % ctx.edges[a].name)
    # everything still held is re-shown (held edges keep their function)
    for e in list(ctx.edges):
        ctx.emit("show %s" % e)
    # release everything, clear caches: nothing may remain
    for e in list(ctx.edges):
        ctx.emit("release %s" % e)
    ctx.emit("clearct")
    audit_all()
    if blank:
        # a blank line after every command (C07 turns them into cache clears)
        out = []
        for ln in ctx.lines:
            out.append(ln)
            out.append("")
        return "\n".join(out) + "\n"
    return ctx.text()


def gen_leaf_any(ctx, f):
    """leaf for MT or EV forests"""
    if f.lab == "mt":
        return gen_leaf(ctx, f)
    rng = ctx.rng
    name = ctx.fresh()
    if f.lab == "evp":
        n = rng.choice([1, 2, 3, 5])
        parts = ["coll", name, f.name, "min", "inf"]
        for _ in range(n):
            pos = rand_pos_rel(rng, f.dom, 0.3, 0.2) if f.rel else rand_pos_set(rng, f.dom, 0.3)
            parts += [";"] + pos + ["=>", str(rng.choice([0, 1, 2, 3, 5, 8]))]
        ctx.emit(" ".join(parts))
    else:
        n = rng.choice([1, 2, 3])
        parts = ["coll", name, f.name, "max", "0"]
        for _ in range(n):
            pos = rand_pos_rel(rng, f.dom, 0.3, 0.2)
            parts += [";"] + pos + ["=>", str(rng.choice([32, 64, 128, 256]))]
        ctx.emit(" ".join(parts))
    ctx.edges[name] = f
    return name


GENS = {
    "C01": gen_C01,
    "C03": gen_C03,
    "C04": gen_C04,
    "C05": gen_C05,
    "C10": gen_C10,
}
