#!/bin/bash
# usage: mkworktree.sh <name>   -> /tmp/mut/<name>: a git worktree of /repo's HEAD
# with a complete in-tree build copied from the prebuilt seed /tmp/mut/probe
# (built once; same HEAD), so that `make` only rebuilds what is edited.
set -e
name=$1
dir=/tmp/mut/$name
seed=/tmp/mut/probe
mkdir -p /tmp/mut
head=$(git -C /repo rev-parse HEAD)
if [ ! -d "$seed" ] || [ "$(git -C $seed rev-parse HEAD)" != "$head" ]; then
  [ -d "$seed" ] && git -C /repo worktree remove --force "$seed"
  git -C /repo worktree add --detach "$seed" HEAD >/dev/null 2>&1
  rsync -a --ignore-existing --exclude '.git' --exclude '*.o' --exclude '*.lo' --exclude '*.la' \
        --exclude '.libs' --exclude '*.log' --exclude '*.trs' --exclude 'autom4te.cache' /repo/ "$seed"/
  ( cd "$seed" && ./config.status >/dev/null 2>&1 || true; make -j16 > build.log 2>&1; \
    make -j16 -C tests check TESTS= >> build.log 2>&1 || true )
fi
[ "$name" = "probe" ] && { echo $seed; exit 0; }
git -C /repo worktree add --detach "$dir" HEAD >/dev/null 2>&1
rsync -a --exclude '.git' "$seed"/ "$dir"/
mkdir -p "$dir/deliver"
echo "$dir"
