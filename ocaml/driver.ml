(* mmodel: runs a verification script on the extracted Coq model and prints one
   observation per supported command, in exactly the format of mdriver.
   Glue only: parsing, printing, name environments.  All semantic content is
   in the extracted module Model. *)
open Model
type string = Stdlib.String.t

(* Coq strings (error codes) to OCaml strings *)
let rec ocaml_string (s : Model.string) : string =
  match s with
  | EmptyString -> ""
  | String (Ascii (b0, b1, b2, b3, b4, b5, b6, b7), r) ->
    let bit b k = if b then 1 lsl k else 0 in
    let c = bit b0 0 + bit b1 1 + bit b2 2 + bit b3 3 + bit b4 4 + bit b5 5 + bit b6 6 + bit b7 7 in
    Stdlib.String.make 1 (Char.chr c) ^ ocaml_string r

let rec nat_of_int n = if n <= 0 then O else S (nat_of_int (n - 1))
let rec int_of_nat = function O -> 0 | S n -> 1 + int_of_nat n

let rec pos_of_int n =
  if n = 1 then XH
  else if n land 1 = 0 then XO (pos_of_int (n lsr 1))
  else XI (pos_of_int (n lsr 1))
let z_of_int n = if n = 0 then Z0 else if n > 0 then Zpos (pos_of_int n) else Zneg (pos_of_int (-n))
let rec int_of_pos = function XH -> 1 | XO p -> 2 * int_of_pos p | XI p -> 2 * int_of_pos p + 1
let int_of_z = function Z0 -> 0 | Zpos p -> int_of_pos p | Zneg p -> - (int_of_pos p)
let n_of_int n = if n <= 0 then N0 else Npos (pos_of_int n)
let int_of_n = function N0 -> 0 | Npos p -> int_of_pos p

type range = RBool | RInt | RReal
type labeling = MT | EVP | IDX | EVT

type forest = {
  fdom : string; rel : bool; range : range; lab : labeling; rule : rule;
  sizes : int array;                 (* sizes by level, level 1 first *)
  order : int array;                 (* order.(k-1) = variable at level k *)
}

let nlev f = if f.rel then 2 * Array.length f.sizes else Array.length f.sizes

(* size by linear level, as a Coq function nat -> nat *)
let szf f : nat -> nat = fun p ->
  let p = int_of_nat p in
  let k = if f.rel then (p + 1) / 2 else p in
  if k >= 1 && k <= Array.length f.sizes then nat_of_int f.sizes.(k - 1) else S O

(* MEDDLY level of a linear level *)
let mlevel f p = if f.rel then (if p land 1 = 0 then p / 2 else - ((p + 1) / 2)) else p

let scale f = match f.range with RReal -> 64 | _ -> 1
let one f = match f.range with RReal -> 64 | _ -> 1

let doms : (string, int array) Hashtbl.t = Hashtbl.create 7
let fors : (string, forest) Hashtbl.t = Hashtbl.create 7
let edges : (string, string * dd) Hashtbl.t = Hashtbl.create 31   (* name -> forest, tree *)

let idxsets : (string, string * dd) Hashtbl.t = Hashtbl.create 7   (* index set name -> source set *)

let xfiles : (string, string * dd option list) Hashtbl.t = Hashtbl.create 7
let xfiles_ev : (string, string * int list option list) Hashtbl.t = Hashtbl.create 7

(* ---- C17: registry state machine (extracted) ---- *)
let ls = ref ls_init
let dom_ids : (string, int) Hashtbl.t = Hashtbl.create 7
let forest_ids : (string, int) Hashtbl.t = Hashtbl.create 7     (* name -> fid *)
let edge_ids : (string, int) Hashtbl.t = Hashtbl.create 31
let next_dom = ref 0
let next_edge = ref 0
let dead_forests : (string, unit) Hashtbl.t = Hashtbl.create 7
let dead_doms : (string, unit) Hashtbl.t = Hashtbl.create 7
let lstep_do o = ls := lstep !ls o
let edge_forest_name : (string, string) Hashtbl.t = Hashtbl.create 31   (* every edge ever defined *)
let edge_attached name =
  match Hashtbl.find_opt edge_ids name with
  | None -> true
  | Some id ->
    List.exists (fun e -> int_of_nat e.le_id = id && e.le_forest <> None) !ls.ls_edges
let note_edge name fname =
  (* called whenever the implementation creates edge [name] in forest [fname] *)
  (match Hashtbl.find_opt edge_ids name with
   | Some id -> lstep_do (LDropEdge (nat_of_int id))
   | None -> ());
  incr next_edge;
  Hashtbl.replace edge_ids name !next_edge;
  Hashtbl.replace edge_forest_name name fname;
  (match Hashtbl.find_opt forest_ids fname with
   | Some fid -> lstep_do (LNewEdge (nat_of_int !next_edge, nat_of_int fid))
   | None -> ())

let lenient_counts = ref false

let line = ref 0
let mute = ref false
let emit s = if not !mute then Printf.printf "@%d %s\n" !line s

let split s = List.filter (fun t -> t <> "") (Stdlib.String.split_on_char ' ' (Stdlib.String.map (fun c -> if c = '\t' then ' ' else c) s))

exception Unsupported
exception Err of string

let get_forest n = try Hashtbl.find fors n with Not_found -> raise Unsupported
let get_edge n = try Hashtbl.find edges n with Not_found -> raise Unsupported

(* ---- printing ---- *)

let table_str f t =
  let tb = table (szf f) f.rule (nat_of_int (nlev f)) t in
  Stdlib.String.concat "," (List.map (fun z -> string_of_int (int_of_z z)) tb)

let dump_str f t =
  let ids : (dd, int) Hashtbl.t = Hashtbl.create 31 in
  let next = ref 1 in
  let body = Buffer.create 100 in
  let rec reff t = match t with
    | T v -> "t" ^ string_of_int (int_of_z v)
    | N (_, _) -> "n" ^ string_of_int (visit t)
  and visit t =
    match Hashtbl.find_opt ids t with
    | Some i -> i
    | None ->
      (match t with
       | N (k, cs) ->
         let rs = List.map reff cs in
         let me = !next in
         incr next;
         Hashtbl.add ids t me;
         Buffer.add_string body (Printf.sprintf " n%d=L%d[%s]" me (mlevel f (int_of_nat k)) (Stdlib.String.concat " " rs));
         me
       | T _ -> 0)
  in
  let r = reff t in
  "root=" ^ r ^ Buffer.contents body

let show name =
  let (fn, t) = get_edge name in
  let f = get_forest fn in
  emit (Printf.sprintf "%s tab=%s dump=%s" name (table_str f t) (dump_str f t))

(* assignment printed as the implementation's iterator prints it *)
let asg_str f (x : nat -> nat) =
  let k = Array.length f.sizes in
  let parts = List.init k (fun j ->
      let v = k - j in
      if f.rel then Printf.sprintf "%d>%d" (int_of_nat (x (nat_of_int (2 * v)))) (int_of_nat (x (nat_of_int (2 * v - 1))))
      else string_of_int (int_of_nat (x (nat_of_int v)))) in
  Stdlib.String.concat "." parts

(* ---- EV+ (and index-set) functions are handled at table level:
   +infinity is the sentinel [inf] ---- *)
let inf = 1 lsl 50
let evtabs : (string, string * int list) Hashtbl.t = Hashtbl.create 31
let ev_str v = if v >= inf then "inf" else string_of_int v
let ev_dump_hook : (string -> int list -> string) ref = ref (fun _ _ -> "")
let show_ev name =
  let (fn, tb) = Hashtbl.find evtabs name in
  emit (Printf.sprintf "%s tab=%s%s" name (Stdlib.String.concat "," (List.map ev_str tb)) (!ev_dump_hook fn tb))
let ev_value s = if s = "inf" then inf else int_of_string s


(* ---- EV+ at table level: tables are in the order of [all_asg] ---- *)
let ev_get name : string * z option list =
  let (fn, tb) = Hashtbl.find evtabs name in
  (fn, List.map (fun v -> if v >= inf then None else Some (z_of_int v)) tb)
let ev_put name fn (tb : z option list) =
  Hashtbl.replace evtabs name (fn, List.map (function None -> inf | Some v -> int_of_z v) tb)
(* index of an assignment in the table of forest f (top level most significant) *)
let tab_index f (y : nat -> nat) =
  let idx = ref 0 in
  for lv = nlev f downto 1 do
    idx := !idx * int_of_nat (szf f (nat_of_int lv)) + int_of_nat (y (nat_of_int lv))
  done;
  !idx
let dd_of_table f (tb : z list) : dd =
  let arr = Array.of_list tb in
  of_fun (szf f) f.rule (nat_of_int (nlev f)) O (fun y -> arr.(tab_index f y)) (fun _ -> O)
(* canonical EV+ diagram of a table (fully- and quasi-reduced forests): EvDD.ev_of_fun,
   proved canonical in EvP.ev_canon; printed like the implementation's dump *)
let rec ev_paths = function
  | EO -> 1
  | EN (_, vs, cs) ->
    List.fold_left2 (fun acc v c -> match v with None -> acc | Some _ -> acc + ev_paths c) 0 vs cs
let ev_dump_str ?(cards = false) f (tb : int list) : string =
  let arr = Array.of_list tb in
  let g y = let v = arr.(tab_index f y) in if v >= inf then None else Some (z_of_int v) in
  let (rv, rt) = ev_of_fun (szf f) (f.rule = FR) (nat_of_int (nlev f)) g (fun _ -> O) in
  let ids : (evdd, int) Hashtbl.t = Hashtbl.create 31 in
  let next = ref 1 in
  let body = Buffer.create 100 in
  let rec reff (v, t) = match v with
    | None -> "inf"
    | Some z ->
      string_of_int (int_of_z z) ^ ":" ^ (match t with EO -> "w" | EN (_, _, _) -> "n" ^ string_of_int (visit t))
  and visit t =
    match Hashtbl.find_opt ids t with
    | Some i -> i
    | None ->
      (match t with
       | EN (k, vs, cs) ->
         let rs = List.map2 (fun v c -> reff (v, c)) vs cs in
         let me = !next in
         incr next;
         Hashtbl.add ids t me;
         (* index sets: every node stores the number of members below it *)
         let card = if cards then Printf.sprintf "#%d" (ev_paths t) else "" in
         Buffer.add_string body (Printf.sprintf " n%d=L%d%s[%s]" me (mlevel f (int_of_nat k)) card (Stdlib.String.concat " " rs));
         me
       | EO -> 0)
  in
  let r = reff (rv, rt) in
  "root=" ^ r ^ Buffer.contents body
let () = ev_dump_hook := (fun fn tb ->
    match Hashtbl.find_opt fors fn with
    | Some f when f.lab = EVP && f.rule <> IR -> " dump=" ^ ev_dump_str f tb
    | _ -> "")
let everr_name = function ESubInf -> "SUBTRACT_INFINITY" | EDivZero -> "DIVIDE_BY_ZERO" | EInfDivInf -> "INFINITY_DIV_INFINITY"

(* ---- parsing helpers ---- *)

let value f s =
  if s = "inf" then raise Unsupported
  else
    let v = int_of_string s in
    match f.range with RBool -> if v <> 0 then 1 else 0 | _ -> v

(* positions: sets: K tokens var1..varK; relations: 2K tokens from1 to1 from2 to2 ...
   returns list of mpos for linear levels 1..L and the rest of the tokens *)
let parse_positions f toks =
  let k = Array.length f.sizes in
  let pos s = if s = "x" then PAny else if s = "=" then PSame else PVal (nat_of_int (int_of_string s)) in
  let rec take n l acc = if n = 0 then (List.rev acc, l) else
      match l with [] -> failwith "minterm too short" | h :: t -> take (n - 1) t (h :: acc) in
  if f.rel then begin
    let (ts, rest) = take (2 * k) toks [] in
    (* tokens: from1 to1 from2 to2...; linear level 2k-1 = to_k, 2k = from_k *)
    let arr = Array.of_list ts in
    let l = List.init (2 * k) (fun i ->
        let p = i + 1 in
        let var = (p + 1) / 2 in
        if p land 1 = 0 then pos arr.(2 * (var - 1))
        else
          let fromp = pos arr.(2 * (var - 1)) and top = pos arr.(2 * (var - 1) + 1) in
          (* minterm::setVars: DONT_CHANGE with a fixed from becomes that value *)
          (match top, fromp with PSame, PVal n -> PVal n | _ -> top)) in
    (l, rest)
  end else begin
    let (ts, rest) = take k toks [] in
    (List.map pos ts, rest)
  end

let zmax a b = if int_of_z a >= int_of_z b then a else b
let zmin a b = if int_of_z a <= int_of_z b then a else b

let binop_of = function
  | "union" -> OUnion | "inter" -> OInter | "diff" -> ODiff
  | "plus" -> OPlus | "minus" -> OMinus | "mult" -> OMult | "div" -> ODiv | "mod" -> OMod
  | "max" -> OMax | "min" -> OMin | "distmin" -> ODistMin
  | "eq" -> OEq | "ne" -> ONe | "lt" -> OLt | "le" -> OLe | "gt" -> OGt | "ge" -> OGe
  | _ -> raise Unsupported

let same_shape a b = a.rel = b.rel && a.fdom = b.fdom

let set_edge name fn t = Hashtbl.replace edges name (fn, t)

(* ---- implementation observations (optional 2nd argument) ---- *)
let impl_obs : (int, string) Hashtbl.t = Hashtbl.create 101

let load_impl file =
  let ic = open_in file in
  (try
     while true do
       let l = input_line ic in
       if Stdlib.String.length l > 1 && l.[0] = '@' then
         match Stdlib.String.index_opt l ' ' with
         | Some i ->
           (try Hashtbl.replace impl_obs (int_of_string (Stdlib.String.sub l 1 (i - 1)))
                  (Stdlib.String.sub l (i + 1) (Stdlib.String.length l - i - 1))
            with _ -> ())
         | None -> ()
     done
   with End_of_file -> ());
  close_in ic

(* "key=value" field of an observation *)
let field obs key =
  let toks = split obs in
  let k = key ^ "=" in
  let kl = Stdlib.String.length k in
  let rec go = function
    | [] -> None
    | t :: r -> if Stdlib.String.length t >= kl && Stdlib.String.sub t 0 kl = k
      then Some (Stdlib.String.sub t kl (Stdlib.String.length t - kl)) else go r in
  go toks

(* ---- C18: memory managers: monitor state per manager ---- *)
type mmstate = { mutable live : Model.state; mutable nreq : int; style : string;
                 mutable fl : fl_state; mutable sizes : (int * (int * int)) list }
let mms : (string, mmstate) Hashtbl.t = Hashtbl.create 7

let sat_limit = 100000
let dd_top = function T _ -> 0 | N (k, _) -> int_of_nat k

(* ---- audit: parse the implementation's dump and run the extracted checker ---- *)
let clause_name = function
  | 1 -> "duplicate-node" | 2 -> "transparent-node" | 3 -> "redundant-node"
  | 4 -> "quasi-skips-level" | 5 -> "illegal-singleton-edge" | 6 -> "child-not-below-or-dead"
  | 7 -> "full-vs-sparse-view" | 8 -> "hash-mismatch" | 9 -> "node-count-mismatch"
  | 10 -> "incoming-count-not-exact" | 11 -> "unreferenced-node-not-reclaimed"
  | 12 -> "cache-count-mismatch" | 13 -> "edge-values-not-normalised"
  | 14 -> "full-view-size" | 15 -> "singleton-flag" | 16 -> "level-size" | 17 -> "node-at-level-0" | 18 -> "quasi-root-below-top" | 19 -> "root-not-live" | 20 -> "ev-terminal-child" | n -> "clause" ^ string_of_int n

let ev_int s = try int_of_string s with _ -> 0

(* "ev:child" or "child" *)
let parse_edge s =
  match Stdlib.String.index_opt s ':' with
  | Some i -> (z_of_int (ev_int (Stdlib.String.sub s 0 i)),
               z_of_int (int_of_string (Stdlib.String.sub s (i + 1) (Stdlib.String.length s - i - 1))))
  | None -> (Z0, z_of_int (int_of_string s))

let parse_audit (obs : string) =
  (* audit nodes=N ut=U roots=a,b rel=0 rule=fr K=2 lab=mt del=opt ; <node> ; <node> ; active=A *)
  let parts = List.map Stdlib.String.trim (Stdlib.String.split_on_char ';' obs) in
  match parts with
  | [] -> None
  | hd :: rest ->
    let get k = match field hd k with Some v -> v | None -> "" in
    let roots = if get "roots" = "-" || get "roots" = "" then []
      else List.map (fun s -> z_of_int (int_of_string s)) (Stdlib.String.split_on_char ',' (get "roots")) in
    let nodes = ref [] and zombies = ref [] and active = ref 0 in
    List.iter (fun p ->
        if p = "" then ()
        else if Stdlib.String.length p > 7 && Stdlib.String.sub p 0 7 = "active=" then
          active := int_of_string (Stdlib.String.sub p 7 (Stdlib.String.length p - 7))
        else if p.[0] = 'Z' then begin
          let toks = split p in
          let h = int_of_string (Stdlib.String.sub (List.hd toks) 1 (Stdlib.String.length (List.hd toks) - 1)) in
          let g k = match field p k with Some v -> int_of_string v | None -> 0 in
          zombies := (z_of_int h, (z_of_int (g "cc"), z_of_int (g "ce"))) :: !zombies
        end else begin
          (* h@lvl in= cc= ce= h= sg= f=[...] s=[...] sz= *)
          let toks = split p in
          let hl = List.hd toks in
          let at = Stdlib.String.index hl '@' in
          let h = int_of_string (Stdlib.String.sub hl 0 at) in
          let lvl = int_of_string (Stdlib.String.sub hl (at + 1) (Stdlib.String.length hl - at - 1)) in
          let g k = match field p k with Some v -> int_of_string v | None -> 0 in
          let between a b =
            let i = try Str.search_forward (Str.regexp_string a) p 0 with Not_found -> -1 in
            if i < 0 then "" else
              let st = i + Stdlib.String.length a in
              let j = Stdlib.String.index_from p st b in
              Stdlib.String.sub p st (j - st) in
          let full = List.map parse_edge (split (between "f=[" ']')) in
          let sparse = List.map (fun s ->
              let gt = Stdlib.String.index s '>' in
              (z_of_int (int_of_string (Stdlib.String.sub s 0 gt)),
               parse_edge (Stdlib.String.sub s (gt + 1) (Stdlib.String.length s - gt - 1))))
              (split (between "s=[" ']')) in
          nodes := { a_h = z_of_int h; a_lvl = z_of_int lvl; a_in = z_of_int (g "in");
                     a_cc = z_of_int (g "cc"); a_ce = z_of_int (g "ce"); a_hok = (g "h" = 1);
                     a_sg = z_of_int (g "sg"); a_full = full; a_sparse = sparse;
                     a_sz = z_of_int (g "sz") } :: !nodes
        end) rest;
    Some { d_nodes = List.rev !nodes; d_roots = roots;
           d_count = z_of_int (int_of_string (get "nodes")); d_ut = z_of_int (int_of_string (get "ut"));
           d_active = z_of_int !active; d_rel = (get "rel" = "1");
           d_rule = (match get "rule" with "fr" -> FR | "qr" -> QR | _ -> IR);
           d_lab = (match get "lab" with "mt" -> LMT | "evp" -> LEVP | _ -> LEVT);
           d_del = (match get "del" with "pess" -> DPess | "opt" -> DOpt | _ -> DNever);
           d_zombies = !zombies;
           d_lsz = (let l = get "lsz" in if l = "" then []
                    else List.map (fun s -> z_of_int (int_of_string s)) (Stdlib.String.split_on_char ',' l)) }

(* ---- C06 / C07: the counter array (Counter.cstep) ---- *)
let ctrs : (string, ctr) Hashtbl.t = Hashtbl.create 7

(* ---- C06: node-level store machine (OptStore.ostep / oobserve): unique table,
   incoming counts, cache counts, pessimistic or optimistic deletion ---- *)
let forest_opt : (string, bool) Hashtbl.t = Hashtbl.create 7
let rstore = ref (os_init false)
let rstore_started = ref false
let rnames : (string, int) Hashtbl.t = Hashtbl.create 31
let rtoks : (string, int) Hashtbl.t = Hashtbl.create 31
let rname_next = ref 0
let rname x = try Hashtbl.find rnames x with Not_found -> raise Unsupported
let rname_fresh x = incr rname_next; Hashtbl.replace rnames x !rname_next; !rname_next
let rtok x = try Hashtbl.find rtoks x with Not_found -> raise Unsupported
let rtok_fresh x = incr rname_next; Hashtbl.replace rtoks x !rname_next; !rname_next
(* the reuse discipline: the implementation's handle for every held node is read from
   its own observation; a handle may change owner (model identifier) only when the
   model says the previous owner's handle is free, and one model node has one handle *)
let handle_owner : (int, z) Hashtbl.t = Hashtbl.create 31
let owner_handle : (z, int) Hashtbl.t = Hashtbl.create 31
let impl_handles (impl : string option) : (string * int) list =
  match impl with
  | None -> []
  | Some l ->
    List.filter_map (fun t ->
        match Stdlib.String.index_opt t '=', Stdlib.String.index_opt t '@' with
        | Some i, Some j when j > i ->
          (try Some (Stdlib.String.sub t 0 i,
                     int_of_string (Stdlib.String.sub t (j + 1) (Stdlib.String.length t - j - 1)))
           with _ -> None)
        | _ -> None) (Stdlib.String.split_on_char ' ' l)
let robs impl =
  let ((cnts, toks), live) = oobserve !rstore in
  let byid = List.map (fun (nm, c) -> (int_of_nat nm, int_of_nat c)) cnts in
  let tokid = List.map (fun (nm, (c, a)) -> (int_of_nat nm, (int_of_nat c, a))) toks in
  let hs = impl_handles impl in
  let names = List.sort compare (Hashtbl.fold (fun k v acc -> (k, v) :: acc) rnames []) in
  let tnames = List.sort compare (Hashtbl.fold (fun k v acc -> (k, v) :: acc) rtoks []) in
  let handle_of k v =
    (* model identifier behind name k *)
    match lookup_name !rstore.os_names (nat_of_int v) with
    | None -> "?"
    | Some id when int_of_z id <= 0 -> "0"
    | Some id ->
      (match List.assoc_opt k hs with
       | None -> "?"                      (* no implementation observation: nothing to check *)
       | Some h ->
         let ok_owner =
           match Hashtbl.find_opt handle_owner h with
           | Some id' when id' <> id -> handle_free !rstore id'
           | _ -> true in
         let ok_same =
           match Hashtbl.find_opt owner_handle id with
           | Some h' -> h' = h
           | None -> true in
         if ok_owner && ok_same then begin
           Hashtbl.replace handle_owner h id; Hashtbl.replace owner_handle id h;
           string_of_int h
         end else "REUSED-WHILE-IN-USE") in
  emit (Printf.sprintf "nobs live=%d%s%s" (int_of_nat live)
          (Stdlib.String.concat "" (List.map (fun (k, v) ->
               Printf.sprintf " %s=%d@%s" k (try List.assoc v byid with Not_found -> -1) (handle_of k v)) names))
          (Stdlib.String.concat "" (List.map (fun (k, v) ->
               match List.assoc_opt v tokid with
               | Some (c, a) -> Printf.sprintf " %s=%d%s" k c (if a then "a" else "z")
               | None -> Printf.sprintf " %s=?" k) tnames)))

(* ---- C15 on product sets too large to tabulate (Model/Product.v) ---- *)
let prodsets : (string, string * int list array) Hashtbl.t = Hashtbl.create 7
let prodidx : (string, string * int list array) Hashtbl.t = Hashtbl.create 7
let prod_al (al : int list array) : nat -> nat list = fun k ->
  let k = int_of_nat k in
  if k >= 1 && k <= Array.length al then List.map nat_of_int al.(k - 1) else []

(* ---- C16: documented precondition checks of apply (domain, set/relation) ---- *)
let forest_of_edge name = Hashtbl.find_opt edge_forest_name name

let apply_precheck r fn op a b =
  (* the result edge exists (attached to fn) whatever happens *)
  let detached x = Hashtbl.mem edge_ids x && not (edge_attached x) in
  if detached a || detached b then Some "NOT_IMPLEMENTED"
  else
    match forest_of_edge a, forest_of_edge b, Hashtbl.find_opt fors fn with
    | Some fa, Some fb, Some fr ->
      (match Hashtbl.find_opt fors fa, Hashtbl.find_opt fors fb with
       | Some fa, Some fb ->
         (* the decision table of Model/Precheck.v (PrecheckP: accepted iff one domain,
            fitting shapes, same variable order; first violated precondition decides) *)
         let desc f = { fd_dom = nat_of_int (match Hashtbl.find_opt dom_ids f.fdom with
                                             | Some i -> i
                                             | None -> 1000 + (Hashtbl.hash f.fdom land 0xFFF));
                        fd_rel = f.rel;
                        fd_order = List.map nat_of_int (Array.to_list f.order) } in
         let sh = match op with
           | "cross" -> ShCross
           | "post" | "pre" | "vm" | "reach_fs" | "reach_nofs" | "reach_sat"
           | "rreach_fs" | "rreach_nofs" | "rreach_sat" -> ShImage
           | "mv" -> ShMatVec
           | _ -> ShSame in
         (match precheck sh (desc fa) (desc fb) (desc fr) with
          | Some c -> Some (ocaml_string c)
          | None -> None)
       | _ -> None)
    | _ -> None

(* ---- commands ---- *)

let registry_note toks =
  match toks with
  | ("coll" | "minterm" | "const" | "var" | "apply" | "unary" | "satpre" | "reattach" | "prodset" | "idxbig") :: n :: fn :: _ -> note_edge n fn
  | "read" :: _ :: fn :: names -> List.iter (fun n -> note_edge n fn) names
  | "readnew" :: _ :: fn :: _ :: names -> List.iter (fun n -> note_edge n fn) names
  | "copyedge" :: b :: a :: _ ->
    (match Hashtbl.find_opt edge_forest_name a with
     | Some fn when edge_attached a -> note_edge b fn
     | _ -> ())
  | "release" :: a :: _ ->
    (match Hashtbl.find_opt edge_ids a with
     | Some id -> lstep_do (LDropEdge (nat_of_int id)); Hashtbl.remove edge_ids a
     | None -> ())
  | _ -> ()

let rec run toks =
  match toks with
  | "apply" :: r :: fn :: op :: a :: b :: _
    when (match apply_precheck r fn op a b with Some _ -> true | None -> false) ->
    Hashtbl.remove edges r; Hashtbl.remove evtabs r;
    (match apply_precheck r fn op a b with Some c -> raise (Err c) | None -> ())
  | "domain" :: d :: sizes ->
    Hashtbl.replace doms d (Array.of_list (List.map int_of_string sizes));
    incr next_dom;
    Hashtbl.replace dom_ids d !next_dom;
    lstep_do (LCreateDomain (nat_of_int !next_dom))
  | "auditmode" :: m :: _ -> lenient_counts := (m = "lenient")
  | "init" :: _ -> lstep_do LInitialize; rstore := os_init false; rstore_started := false; Hashtbl.reset rnames; Hashtbl.reset rtoks; Hashtbl.reset handle_owner; Hashtbl.reset owner_handle
  | "cleanup" :: "keep" :: _ ->
    (* the user's edges outlive the library: all of them are detached, the
       forests and domains are gone, the registry restarts at the next init *)
    lstep_do LCleanup;
    Hashtbl.reset edges; Hashtbl.reset evtabs;
    Hashtbl.iter (fun fn _ -> Hashtbl.replace dead_forests fn ()) fors;
    Hashtbl.iter (fun d _ -> Hashtbl.replace dead_doms d ()) doms;
    Hashtbl.reset forest_ids; Hashtbl.reset dom_ids; Hashtbl.reset idxsets; Hashtbl.reset xfiles; Hashtbl.reset xfiles_ev
  | "cleanup" :: _ ->
    lstep_do LCleanup;
    Hashtbl.reset edges; Hashtbl.reset evtabs; Hashtbl.reset fors; Hashtbl.reset doms;
    Hashtbl.reset forest_ids; Hashtbl.reset dom_ids; Hashtbl.reset edge_ids; Hashtbl.reset dead_forests;
    Hashtbl.reset edge_forest_name; Hashtbl.reset idxsets; Hashtbl.reset xfiles; Hashtbl.reset xfiles_ev
  | "destroyforest" :: fn :: _ ->
    (match Hashtbl.find_opt forest_ids fn with
     | Some fid -> lstep_do (LDestroyForest (nat_of_int fid))
     | None -> ());
    Hashtbl.replace dead_forests fn ();
    Hashtbl.iter (fun n (fn', _) -> if fn' = fn then Hashtbl.remove edges n) (Hashtbl.copy edges);
    Hashtbl.iter (fun n (fn', _) -> if fn' = fn then Hashtbl.remove evtabs n) (Hashtbl.copy evtabs)
  | "destroydomain" :: d :: _ ->
    Hashtbl.replace dead_doms d ();
    (match Hashtbl.find_opt dom_ids d with
     | Some did -> lstep_do (LDestroyDomain (nat_of_int did))
     | None -> ());
    Hashtbl.iter (fun fn f -> if f.fdom = d then begin
        Hashtbl.replace dead_forests fn ();
        Hashtbl.iter (fun n (fn', _) -> if fn' = fn then Hashtbl.remove edges n) (Hashtbl.copy edges);
        Hashtbl.iter (fun n (fn', _) -> if fn' = fn then Hashtbl.remove evtabs n) (Hashtbl.copy evtabs)
      end) (Hashtbl.copy fors)
  | "attached" :: a :: _ ->
    if not (Hashtbl.mem edge_ids a) then raise Unsupported;
    emit (if edge_attached a then "attached 1" else "attached 0 node=0")
  | "unary" :: r :: fn :: _ :: a :: _
    when (match forest_of_edge a, Hashtbl.find_opt fors fn with
        | Some fan, Some fr ->
          (match Hashtbl.find_opt fors fan with
           | Some fa when edge_attached a && fa.fdom = fr.fdom ->
             (* unary operations check the variable orders at every call as well
                (Precheck.precheck with both operands the argument) *)
             let desc f = { fd_dom = O; fd_rel = false;
                            fd_order = List.map nat_of_int (Array.to_list f.order) } in
             (match precheck ShSame (desc fa) (desc fa) (desc fr) with
              | Some c -> ocaml_string c = "INVALID_OPERATION"
              | None -> false)
           | _ -> false)
        | _ -> false) ->
    Hashtbl.remove edges r; Hashtbl.remove evtabs r; Hashtbl.remove idxsets r;
    raise (Err "INVALID_OPERATION")
  | "unaryinto" :: x :: _ :: a :: _ ->
    (* a detached edge as the operand or the result of a unary operation is rejected *)
    let detached n = Hashtbl.mem edge_ids n && not (edge_attached n) in
    if detached x || detached a then raise (Err "NOT_IMPLEMENTED") else begin
      Hashtbl.remove edges x; Hashtbl.remove evtabs x; raise Unsupported
    end
  | "reattach" :: a :: fn :: _ ->
    (* dd_edge::attach: the edge becomes the transparent edge of the forest *)
    Hashtbl.remove edges a; Hashtbl.remove evtabs a;
    let f = get_forest fn in
    if f.lab <> MT then raise Unsupported;
    set_edge a fn (const_dd (szf f) f.rule (nat_of_int (nlev f)) (z_of_int 0)); show a
  | "show" :: a :: _ when Hashtbl.mem edge_ids a && not (edge_attached a) ->
    emit (a ^ " detached attached=0")
  | "evalx" :: a :: _ when Hashtbl.mem edge_ids a && not (edge_attached a) ->
    (match Hashtbl.find_opt edge_forest_name a with
     | Some fn when (match Hashtbl.find_opt fors fn with
         | Some f -> Hashtbl.mem doms f.fdom && not (Hashtbl.mem dead_doms f.fdom) | None -> false) ->
       raise (Err "FOREST_MISMATCH")
     | _ -> raise Unsupported)
  | "evalx" :: a :: _ ->
    let (fn, t) = get_edge a in
    let f = get_forest fn in
    if f.lab <> MT then raise Unsupported;
    emit ("evalx " ^ string_of_int (int_of_z (eval f.rule (nat_of_int (nlev f)) t (fun _ -> O))))
  | "iterpast" :: a :: _ ->
    if Hashtbl.mem edge_ids a && edge_attached a then raise (Err "INVALID_ITERATOR") else raise Unsupported
  | "constinto" :: e :: fn :: _ ->
    (match Hashtbl.find_opt edge_forest_name e with
     | Some fe when fe <> fn && edge_attached e && not (Hashtbl.mem dead_forests fn) ->
       raise (Err "FOREST_MISMATCH")
     | _ ->
       (* defined behaviour (same forest): the edge changes; not modelled *)
       Hashtbl.remove edges e; Hashtbl.remove evtabs e; raise Unsupported)
  | "applyinto" :: x :: op :: a :: b :: _ ->
    (* the result goes into the existing edge x; when the operation is rejected, x keeps
       the function it held (C16) *)
    (match forest_of_edge x with
     | Some fn when edge_attached x && Hashtbl.mem fors fn ->
       let old_e = Hashtbl.find_opt edges x and old_ev = Hashtbl.find_opt evtabs x in
       mute := true;
       (* the result edge may be one of the operands: the operands are read first *)
       let alias n =
         if n <> x then n
         else begin
           let t = n ^ "~operand" in
           (match old_e with Some v -> Hashtbl.replace edges t v | None -> Hashtbl.remove edges t);
           (match old_ev with Some v -> Hashtbl.replace evtabs t v | None -> Hashtbl.remove evtabs t);
           (match Hashtbl.find_opt edge_forest_name n with
            | Some f -> Hashtbl.replace edge_forest_name t f | None -> ());
           t
         end in
       let a = alias a and b = alias b in
       (try run ["apply"; x; fn; op; a; b]; mute := false
        with
        | Err c ->
          mute := false;
          (match old_e with Some v -> Hashtbl.replace edges x v | None -> Hashtbl.remove edges x);
          (match old_ev with Some v -> Hashtbl.replace evtabs x v | None -> Hashtbl.remove evtabs x);
          raise (Err c)
        | ex -> mute := false; Hashtbl.remove edges x; Hashtbl.remove evtabs x; raise ex);
       emit "applyinto ok"
     | _ -> Hashtbl.remove edges x; Hashtbl.remove evtabs x; raise Unsupported)
  | "forest" :: fnm :: d :: sr :: rg :: lb :: rl :: _ ->
    let f = { fdom = d; rel = (sr = "rel");
              range = (match rg with "bool" -> RBool | "int" -> RInt | _ -> RReal);
              lab = (match lb with "mt" -> MT | "evp" -> EVP | "idx" -> IDX | _ -> EVT);
              rule = (match rl with "fr" -> FR | "qr" -> QR | _ -> IR);
              sizes = Hashtbl.find doms d;
              order = Array.init (Array.length (Hashtbl.find doms d)) (fun i -> i + 1) } in
    Hashtbl.replace fors fnm f;
    Hashtbl.replace forest_opt fnm (not (List.mem "del=pess" toks));
    Hashtbl.remove dead_forests fnm;
    let did = (match Hashtbl.find_opt dom_ids d with Some i -> i | None -> 0) in
    let fid = int_of_nat !ls.ls_next_fid in
    lstep_do (LCreateForest (nat_of_int did));
    Hashtbl.replace forest_ids fnm fid;
    if List.mem "showfid=1" toks then emit (Printf.sprintf "forest fid=%d" fid)
  | "coll" :: a :: fn :: mode :: dv :: rest when (try (let l = (get_forest fn).lab in l = EVP || l = EVT) with _ -> false) ->
    Hashtbl.remove edges a; Hashtbl.remove evtabs a;
    let f = get_forest fn in
    let rec mts toks acc = match toks with
      | [] -> List.rev acc
      | ";" :: t ->
        let (ps, t') = parse_positions f t in
        (match t' with
         | "=>" :: v :: t'' -> mts t'' ((ps, z_of_int (ev_value v)) :: acc)
         | _ -> failwith "coll syntax")
      | _ -> failwith "coll syntax" in
    let ms = mts rest [] in
    let comb = if mode = "max" then zmax else zmin in
    let l = nat_of_int (nlev f) in
    let tb = List.map (fun x -> int_of_z (build_spec comb (z_of_int (ev_value dv)) l ms x)) (all_asg (szf f) l) in
    Hashtbl.replace evtabs a (fn, tb); show_ev a
  | "minterm" :: a :: fn :: dv :: v :: ":" :: rest when (try (let l = (get_forest fn).lab in l = EVP || l = EVT) with _ -> false) ->
    Hashtbl.remove edges a; Hashtbl.remove evtabs a;
    let f = get_forest fn in
    let (ps, _) = parse_positions f rest in
    let l = nat_of_int (nlev f) in
    let tb = List.map (fun x -> int_of_z (build_spec zmax (z_of_int (ev_value dv)) l [(ps, z_of_int (ev_value v))] x))
        (all_asg (szf f) l) in
    Hashtbl.replace evtabs a (fn, tb); show_ev a
  | "const" :: a :: fn :: v :: _ when (try (let l = (get_forest fn).lab in l = EVP || l = EVT) with _ -> false) ->
    Hashtbl.remove edges a; Hashtbl.remove evtabs a;
    let f = get_forest fn in
    let l = nat_of_int (nlev f) in
    let tb = List.map (fun _ -> ev_value v) (all_asg (szf f) l) in
    Hashtbl.replace evtabs a (fn, tb); show_ev a
  | "coll" :: a :: fn :: mode :: dv :: rest ->
    Hashtbl.remove edges a; Hashtbl.remove evtabs a;
    let f = get_forest fn in
    if f.lab <> MT then raise Unsupported;
    let rec mts toks acc = match toks with
      | [] -> List.rev acc
      | ";" :: t ->
        let (ps, t') = parse_positions f t in
        (match t' with
         | "=>" :: v :: t'' -> mts t'' ((ps, z_of_int (value f v)) :: acc)
         | _ -> failwith "coll syntax")
      | _ -> failwith "coll syntax" in
    let ms = mts rest [] in
    let comb = if mode = "max" then zmax else zmin in
    let t = build (szf f) comb (z_of_int (value f dv)) f.rule (nat_of_int (nlev f)) O ms in
    set_edge a fn t; show a
  | "minterm" :: a :: fn :: dv :: v :: ":" :: rest ->
    Hashtbl.remove edges a; Hashtbl.remove evtabs a;
    let f = get_forest fn in
    if f.lab <> MT then raise Unsupported;
    let (ps, _) = parse_positions f rest in
    let t = build (szf f) zmax (z_of_int (value f dv)) f.rule (nat_of_int (nlev f)) O [(ps, z_of_int (value f v))] in
    set_edge a fn t; show a
  | "const" :: a :: fn :: v :: _ ->
    Hashtbl.remove edges a; Hashtbl.remove evtabs a;
    let f = get_forest fn in
    if f.lab <> MT then raise Unsupported;
    if f.range = RInt then
      (match getIntegerHandle (z_of_int (int_of_string v)) with
       | Err c -> raise (Err (ocaml_string c))
       | Ok _ -> ());
    let t = const_dd (szf f) f.rule (nat_of_int (nlev f)) (z_of_int (value f v)) in
    set_edge a fn t; show a
  | "var" :: a :: fn :: k :: up :: terms ->
    Hashtbl.remove edges a; Hashtbl.remove evtabs a;
    let f = get_forest fn in
    if f.lab <> MT then raise Unsupported;
    let k = int_of_string k in
    let p = if f.rel then (if up = "p" then 2 * k - 1 else 2 * k) else k in
    let n = f.sizes.(k - 1) in
    let ts = if terms = [] then List.init n (fun i -> z_of_int (value f (string_of_int (i * scale f))))
      else List.map (fun s -> z_of_int (value f s)) terms in
    let t = var_dd (szf f) f.rule (nat_of_int (nlev f)) (nat_of_int p) ts in
    set_edge a fn t; show a
  | "apply" :: r :: fn :: (("post" | "pre" | "reach_fs" | "reach_nofs" | "reach_sat"
                            | "rreach_fs" | "rreach_nofs" | "rreach_sat") as op) :: a :: b :: _
    when (match Hashtbl.find_opt fors fn with
        | Some fr -> fr.lab = EVP || (fr.lab = MT && fr.range = RInt)
        | None -> false) ->
    (* distance-valued operands: EV+ (+infinity = unreachable) or MT integers
       (negative = unreachable) *)
    Hashtbl.remove edges r; Hashtbl.remove evtabs r;
    let fr = get_forest fn in
    let (fbn, tb) = get_edge b in
    let fm = get_forest fbn in
    if (not fm.rel) || fm.lab <> MT || fm.range <> RBool || fr.rel || fr.fdom <> fm.fdom then raise Unsupported;
    let k = Array.length fr.sizes in
    let szs = szf fr in
    let states = all_asg szs (nat_of_int k) in
    (* initial distances *)
    let d0 : (nat -> nat) -> z option =
      if Hashtbl.mem evtabs a then begin
        let (fan, tab) = Hashtbl.find evtabs a in
        let fa = get_forest fan in
        if fa.rel || fa.fdom <> fr.fdom || fa.sizes <> fr.sizes then raise Unsupported;
        let arr = Array.of_list tab in
        (* index of a state in the table: level k most significant *)
        (fun y ->
           let idx = ref 0 in
           for lv = k downto 1 do
             idx := !idx * fr.sizes.(lv - 1) + int_of_nat (y (nat_of_int lv))
           done;
           let v = arr.(!idx) in if v >= inf then None else Some (z_of_int v))
      end else begin
        let (fan, ta) = get_edge a in
        let fa = get_forest fan in
        if fa.rel || fa.lab <> MT || fa.range <> RInt || fa.fdom <> fr.fdom || fa.sizes <> fr.sizes then raise Unsupported;
        (fun y -> let v = int_of_z (eval fa.rule (nat_of_int k) ta y) in if v < 0 then None else Some (z_of_int v))
      end in
    let rel x y = rel_mem (nat_of_int k) fm.rule tb x y in
    let eqb x y =
      let ok = ref true in
      for lv = 1 to k do if int_of_nat (x (nat_of_int lv)) <> int_of_nat (y (nat_of_int lv)) then ok := false done;
      !ok in
    (* the frontier variant is not offered for distance-valued sets *)
    if op = "reach_fs" || op = "rreach_fs" then raise Unsupported;
    let fwd = (op = "post" || op = "reach_fs" || op = "reach_nofs" || op = "reach_sat") in
    let step = if fwd then dpost states rel else dpre states rel in
    let res : (nat -> nat) -> z option =
      match op with
      | "post" | "pre" -> step d0
      | _ ->
        (match dist_bfs states step eqb (nat_of_int (List.length states + 2)) d0 with
         | Some d -> d
         | None -> raise Unsupported) in
    if fr.lab = EVP then begin
      let tab = List.map (fun y -> match res y with Some d -> int_of_z d | None -> inf) states in
      Hashtbl.replace evtabs r (fn, tab); show_ev r
    end else begin
      let t = of_fun szs fr.rule (nat_of_int k) O
          (fun y -> match res y with Some d -> d | None -> z_of_int (-1)) (fun _ -> O) in
      set_edge r fn t; show r
    end
  | "apply" :: r :: fn :: (("post" | "pre" | "reach_fs" | "reach_nofs" | "reach_sat"
                            | "rreach_fs" | "rreach_nofs" | "rreach_sat" | "vm" | "mv") as op) :: a :: b :: _ ->
    Hashtbl.remove edges r; Hashtbl.remove evtabs r;
    let fr = get_forest fn in
    let (fan, ta) = get_edge a and (fbn, tb) = get_edge b in
    let fa = get_forest fan and fb = get_forest fbn in
    if fr.lab <> MT || fa.lab <> MT || fb.lab <> MT then raise Unsupported;
    (* set/vector operand and relation/matrix operand *)
    let (fs, ts, fm, tm) = if op = "mv" then (fb, tb, fa, ta) else (fa, ta, fb, tb) in
    if fs.rel || (not fm.rel) || fr.rel || fs.fdom <> fm.fdom || fr.fdom <> fs.fdom then raise Unsupported;
    let k = nat_of_int (Array.length fs.sizes) in
    let szs = szf fs in
    let t = (match op with
        | "post" | "pre" | "reach_fs" | "reach_nofs" | "reach_sat" | "rreach_fs" | "rreach_nofs" | "rreach_sat" ->
          if fs.range <> RBool || fm.range <> RBool || fr.range <> RBool then raise Unsupported;
          (match op with
           | "post" -> post_dd szs k fs.rule fm.rule fr.rule ts tm
           | "pre" -> pre_dd szs k fs.rule fm.rule fr.rule ts tm
           | "reach_sat" when Array.fold_left ( * ) 1 fs.sizes <= sat_limit ->
             (* the model's own saturation (SatDDP.sat_dd_is_reach_dd: same diagram as reach_dd) *)
             print_endline "#thm model-saturation(sat_dd) monolithic";
             (match sat_dd_fast szs k fs.rule fm.rule fr.rule ts [tm] with Some t -> t | None -> raise Unsupported)
           | "reach_fs" when Array.fold_left ( * ) 1 fs.sizes <= sat_limit ->
             print_endline "#thm model-frontier(reach_fs_dd)";
             (match reach_fs_dd_fast szs k fs.rule fm.rule fr.rule ts tm with Some t -> t | None -> raise Unsupported)
           | "reach_fs" | "reach_nofs" | "reach_sat" ->
             (match reach_dd_fast szs k fs.rule fm.rule fr.rule ts tm with Some t -> t | None -> raise Unsupported)
           | _ ->
             (match rreach_dd_fast szs k fs.rule fm.rule fr.rule ts tm with Some t -> t | None -> raise Unsupported))
        | "vm" ->
          (* the matrix may be boolean (entries 0/1); vector and result are integer *)
          if fs.range <> RInt || (fm.range <> RInt && fm.range <> RBool) || fr.range <> RInt then raise Unsupported;
          vm_dd szs k fs.rule fm.rule fr.rule ts tm
        | _ ->
          if fs.range <> RInt || (fm.range <> RInt && fm.range <> RBool) || fr.range <> RInt then raise Unsupported;
          mv_dd szs k fs.rule fm.rule fr.rule tm ts) in
    set_edge r fn t; show r
  | "apply" :: r :: fn :: "cross" :: a :: b :: _ ->
    Hashtbl.remove edges r; Hashtbl.remove evtabs r;
    let fr = get_forest fn in
    let (fan, ta) = get_edge a and (fbn, tb) = get_edge b in
    let fa = get_forest fan and fb = get_forest fbn in
    if fr.lab <> MT || fa.lab <> MT || fb.lab <> MT then raise Unsupported;
    if fa.rel || fb.rel || (not fr.rel) || fa.fdom <> fb.fdom || fa.fdom <> fr.fdom then raise Unsupported;
    if fa.range <> RBool || fb.range <> RBool || fr.range <> RBool then raise Unsupported;
    let t = cross_dd (szf fa) (nat_of_int (Array.length fa.sizes)) fa.rule fb.rule fr.rule ta tb in
    set_edge r fn t; show r
  | "apply" :: r :: fn :: op :: a :: b :: _
    when Hashtbl.mem evtabs a && Hashtbl.mem evtabs b
         && (try (get_forest (fst (Hashtbl.find evtabs a))).lab = EVT with _ -> false)
         && (match op with "plus" | "minus" | "mult" | "div" | "max" | "min" -> true | _ -> false) ->
    (* element-wise arithmetic on EV* operands (real-valued relations), at table level;
       values are reals scaled by 64 *)
    Hashtbl.remove edges r; Hashtbl.remove evtabs r;
    let fr = get_forest fn in
    let (fan, ta) = Hashtbl.find evtabs a and (fbn, tb) = Hashtbl.find evtabs b in
    let fa = get_forest fan and fb = get_forest fbn in
    if fa.lab <> EVT || fb.lab <> EVT || fr.lab <> EVT then raise Unsupported;
    if not (same_shape fa fb && same_shape fa fr) || fa.sizes <> fb.sizes || fa.sizes <> fr.sizes then raise Unsupported;
    let o = binop_of op in
    if List.exists2 (fun x y -> scalar2_undefined o (z_of_int x) (z_of_int y)) ta tb then raise (Err "DIVIDE_BY_ZERO");
    let res = List.map2 (fun x y -> int_of_z (scalar2 o (z_of_int 64) (z_of_int 64) (z_of_int x) (z_of_int y))) ta tb in
    Hashtbl.replace evtabs r (fn, res); show_ev r
  | "unary" :: r :: fn :: "copy" :: a :: _
    when (Hashtbl.mem evtabs a && (try (get_forest (fst (Hashtbl.find evtabs a))).lab = EVT with _ -> false))
         || (try (get_forest fn).lab = EVT with _ -> false) ->
    (* COPY with an EV* source or target, at table level *)
    Hashtbl.remove edges r; Hashtbl.remove evtabs r;
    let fr = get_forest fn in
    let (fa, ta) =
      if Hashtbl.mem evtabs a then begin
        let (fan, tb) = Hashtbl.find evtabs a in
        let fa = get_forest fan in
        if fa.lab <> EVT then raise Unsupported;
        (fa, List.map z_of_int tb)
      end else begin
        let (fan, t) = get_edge a in
        let fa = get_forest fan in
        if fa.lab <> MT then raise Unsupported;
        (fa, table (szf fa) fa.rule (nat_of_int (nlev fa)) t)
      end in
    if not (same_shape fa fr) || fa.sizes <> fr.sizes then raise Unsupported;
    let conv_tab = List.map (conv (fr.range = RBool) (z_of_int (scale fa)) (z_of_int (scale fr))) ta in
    (match fr.lab with
     | EVT -> Hashtbl.replace evtabs r (fn, List.map int_of_z conv_tab); show_ev r
     | MT -> set_edge r fn (dd_of_table fr conv_tab); show r
     | _ -> raise Unsupported)
  | "apply" :: r :: fn :: op :: a :: b :: _
    when Hashtbl.mem evtabs a && Hashtbl.mem evtabs b
         && (match op with "plus" | "minus" | "mult" | "div" | "mod" | "max" | "min"
                         | "eq" | "ne" | "lt" | "le" | "gt" | "ge" -> true | _ -> false) ->
    (* element-wise operations on EV+ operands, at table level *)
    Hashtbl.remove edges r; Hashtbl.remove evtabs r;
    let fr = get_forest fn in
    let (fan, ta) = ev_get a and (fbn, tb) = ev_get b in
    let fa = get_forest fan and fb = get_forest fbn in
    if fa.lab <> EVP || fb.lab <> EVP then raise Unsupported;
    if not (same_shape fa fb && same_shape fa fr) || fa.sizes <> fb.sizes || fa.sizes <> fr.sizes then raise Unsupported;
    let o = binop_of op in
    (match o with
     | OEq | ONe | OLt | OLe | OGt | OGe ->
       if fr.lab <> MT then raise (Err "TYPE_MISMATCH");
       if fr.range = RReal then raise Unsupported;
       let t = dd_of_table fr (List.map2 (fun x y -> ev_compare o (z_of_int (one fr)) x y) ta tb) in
       set_edge r fn t; show r
     | _ ->
       if fr.lab <> EVP then raise Unsupported;
       let errs = List.sort_uniq compare
           (List.filter_map (fun e -> e) (List.map2 (fun x y -> ev_undefined o x y) ta tb)) in
       (match errs with
        | [] -> ev_put r fn (List.map2 (fun x y -> ev_scalar2 o x y) ta tb); show_ev r
        | [e] -> raise (Err (everr_name e))
        | _ -> raise Unsupported))
  | "unary" :: r :: fn :: "copy" :: a :: _ when Hashtbl.mem idxsets a ->
    (* COPY of an index set: the function is the rank of members, +infinity elsewhere *)
    Hashtbl.remove edges r; Hashtbl.remove evtabs r;
    let fr = get_forest fn in
    let (fan, ta) = Hashtbl.find idxsets a in
    let fa = get_forest fan in
    if not (same_shape fa fr) || fa.sizes <> fr.sizes then raise Unsupported;
    let l = nat_of_int (nlev fa) in
    let tb = List.map (function Some i -> Some (z_of_int (int_of_nat i)) | None -> None)
        (index_table (szf fa) fa.rule l ta) in
    (match fr.lab with
     | EVP -> ev_put r fn tb; show_ev r
     | MT ->
       let t = dd_of_table fr (List.map (conv_from_ev (fr.range = RBool) (z_of_int (scale fr))) tb) in
       set_edge r fn t; show r
     | _ -> raise Unsupported)
  | "unary" :: r :: fn :: "copy" :: a :: _
    when Hashtbl.mem evtabs a || (try (get_forest fn).lab = EVP with _ -> false) ->
    (* COPY with an EV+ source or target, at table level *)
    Hashtbl.remove edges r; Hashtbl.remove evtabs r;
    let fr = get_forest fn in
    if Hashtbl.mem evtabs a then begin
      let (fan, ta) = ev_get a in
      let fa = get_forest fan in
      if fa.lab <> EVP || not (same_shape fa fr) || fa.sizes <> fr.sizes then raise Unsupported;
      match fr.lab with
      | EVP -> ev_put r fn ta; show_ev r
      | MT ->
        let t = dd_of_table fr (List.map (conv_from_ev (fr.range = RBool) (z_of_int (scale fr))) ta) in
        set_edge r fn t; show r
      | _ -> raise Unsupported
    end else begin
      let (fan, ta) = get_edge a in
      let fa = get_forest fan in
      if fa.lab <> MT || fr.lab <> EVP || not (same_shape fa fr) || fa.sizes <> fr.sizes then raise Unsupported;
      let tb = table (szf fa) fa.rule (nat_of_int (nlev fa)) ta in
      ev_put r fn (List.map (conv_to_ev (z_of_int (scale fa))) tb); show_ev r
    end
  | "apply" :: r :: fn :: op :: a :: b :: _ ->
    Hashtbl.remove edges r; Hashtbl.remove evtabs r;
    let fr = get_forest fn in
    let (fan, ta) = get_edge a and (fbn, tb) = get_edge b in
    let fa = get_forest fan and fb = get_forest fbn in
    if fr.lab <> MT || fa.lab <> MT || fb.lab <> MT then raise Unsupported;
    if not (same_shape fa fb && same_shape fa fr) then raise Unsupported;
    let o = binop_of op in
    (match o with
     | OUnion | OInter | ODiff -> ()
     | _ -> if fa.range <> fb.range then raise Unsupported);
    let sc = z_of_int (scale fa) and on = z_of_int (one fr) in
    (* result conversion when result range differs from operand range *)
    let post v = match o with
      | OUnion | OInter | ODiff | OEq | ONe | OLt | OLe | OGt | OGe -> v
      | _ -> if fr.range = fa.range then v else raise Unsupported in
    let fsc x y = post (scalar2 o sc on x y) in
    let l = nat_of_int (nlev fr) in
    (* undefined scalar points *)
    let tabA = table (szf fa) fa.rule l ta and tabB = table (szf fb) fb.rule l tb in
    (* documented: division by zero raises DIVIDE_BY_ZERO *)
    if List.exists2 (fun x y -> scalar2_undefined o x y) tabA tabB then raise (Err "DIVIDE_BY_ZERO");
    let t = apply2 (szf fr) fsc fa.rule fb.rule fr.rule l O ta tb in
    (* integers outside the terminal range are rejected (C19: VALUE_OVERFLOW) *)
    if fr.range = RInt then
      List.iter (fun v -> match getIntegerHandle v with
          | Err c -> raise (Err (ocaml_string c)) | Ok _ -> ()) (table (szf fr) fr.rule l t);
    set_edge r fn t; show r
  | "unary" :: r :: fn :: op :: a :: _ when op <> "index" ->
    Hashtbl.remove edges r; Hashtbl.remove evtabs r;
    let fr = get_forest fn in
    let (fan, ta) = get_edge a in
    let fa = get_forest fan in
    if fr.lab <> MT || fa.lab <> MT then raise Unsupported;
    if not (same_shape fa fr) then raise Unsupported;
    let l = nat_of_int (nlev fr) in
    let g = match op with
      | "compl" -> compl (z_of_int (one fr))
      | "copy" -> conv (fr.range = RBool) (z_of_int (scale fa)) (z_of_int (scale fr))
      | _ -> raise Unsupported in
    let t = apply1 (szf fr) g fa.rule fr.rule l O ta in
    set_edge r fn t; show r
  | "ctr" :: "new" :: c :: _ ->
    Hashtbl.replace ctrs c ctr_init; emit "ctr bits=8 vals="
  | "ctr" :: "del" :: c :: _ -> Hashtbl.remove ctrs c
  | "ctr" :: op :: c :: rest ->
    let st = try Hashtbl.find ctrs c with Not_found -> raise Unsupported in
    let arg n = int_of_string (List.nth rest n) in
    let st' = match op with
      | "inc" | "dec" ->
        let i = nat_of_int (arg 0) in
        let k = if List.length rest > 1 then arg 1 else 1 in
        let r = ref st in
        for _ = 1 to k do r := cstep !r (if op = "inc" then CInc i else CDec i) done;
        !r
      | "exp" -> cstep st (CExp (nat_of_int (arg 0)))
      | "shr" -> cstep st (CShr (nat_of_int (arg 0)))
      | _ -> raise Unsupported in
    Hashtbl.replace ctrs c st';
    emit (Printf.sprintf "ctr bits=%d vals=%s" (int_of_z st'.cw)
            (Stdlib.String.concat "," (List.map (fun v -> string_of_int (int_of_z v)) st'.cdat)))
  | "nnew" :: x :: fn :: lvl :: cs ->
    ignore (get_forest fn);
    if not !rstore_started then begin
      rstore := os_init (try Hashtbl.find forest_opt fn with Not_found -> true);
      rstore_started := true
    end;
    let resolve c =
      if c.[0] = 't' then z_of_int (- (int_of_string (Stdlib.String.sub c 1 (Stdlib.String.length c - 1))))
      else match lookup_name !rstore.os_names (nat_of_int (rname c)) with
        | Some id -> id
        | None -> raise Unsupported in
    let ids = List.map resolve cs in
    rstore := ostep !rstore (ONew (nat_of_int (rname_fresh x), nat_of_int (int_of_string lvl), ids));
    robs (Hashtbl.find_opt impl_obs !line)
  | "ndup" :: y :: x :: _ ->
    let nx = rname x in
    rstore := ostep !rstore (ODup (nat_of_int (rname_fresh y), nat_of_int nx));
    robs (Hashtbl.find_opt impl_obs !line)
  | "ndrop" :: x :: _ ->
    rstore := ostep !rstore (ODrop (nat_of_int (rname x)));
    Hashtbl.remove rnames x;
    robs (Hashtbl.find_opt impl_obs !line)
  | "ncache" :: t :: x :: _ ->
    let nx = rname x in
    (match lookup_name !rstore.os_names (nat_of_int nx) with
     | Some id when int_of_z id > 0 ->
       rstore := ostep !rstore (OCache (nat_of_int (rtok_fresh t), nat_of_int nx))
     | _ -> ());
    robs (Hashtbl.find_opt impl_obs !line)
  | "nuncache" :: t :: _ ->
    rstore := ostep !rstore (OUncache (nat_of_int (rtok t)));
    Hashtbl.remove rtoks t;
    robs (Hashtbl.find_opt impl_obs !line)
  | "edgeval" :: fn :: kind :: rest ->
    let f = get_forest fn in
    (match f.lab, kind, rest with
     | EVT, "dbl", _ :: f32 :: _ ->
       let fb = z_of_int (int_of_string ("0x" ^ f32)) in
       let (tr, st) = evt_encode fb in
       let back = evt_decode (tr, st) in
       emit (Printf.sprintf "edgeval p=%s v=%08x back=%08x" (if tr then "z" else "w") (int_of_z st) (int_of_z back))
     | EVP, "int", v :: _ ->
       let (isinf, st) = evp_encode (Some (z_of_int (int_of_string v))) in
       (match evp_decode (isinf, st) with
        | Some b -> emit (Printf.sprintf "edgeval p=%s v=%d back=%d" (if isinf then "inf" else "w") (int_of_z st) (int_of_z b))
        | None -> emit "edgeval p=inf v=0 back=inf")
     | EVP, "inf", _ ->
       let (isinf, st) = evp_encode None in
       (match evp_decode (isinf, st) with
        | None -> emit (Printf.sprintf "edgeval p=%s v=%d back=inf" (if isinf then "inf" else "w") (int_of_z st))
        | Some b -> emit (Printf.sprintf "edgeval p=w v=%d back=%d" (int_of_z st) (int_of_z b)))
     | _ -> raise Unsupported)
  | "term" :: kind :: v :: _ ->
    let str = ocaml_string in
    let big s = (* decimal or hex string to z, via int (63-bit is enough) *) z_of_int (int_of_string s) in
    (match kind with
     | "int" ->
       (match getIntegerHandle (big v) with
        | Err c -> raise (Err (str c))
        | Ok h ->
          (match setFromHandle_INTEGER h with
           | Ok b -> emit (Printf.sprintf "term int h=%d back=%d" (int_of_z h) (int_of_z b))
           | Err c -> raise (Err (str c))))
     | "real" ->
       (match getRealHandle (big ("0x" ^ v)) with
        | Err c -> raise (Err (str c))
        | Ok h ->
          (match setFromHandle_REAL h with
           | Ok b -> emit (Printf.sprintf "term real h=%d back=%08x" (int_of_z h) (int_of_z b))
           | Err c -> raise (Err (str c))))
     | "bool" ->
       let h = if v <> "0" then (-1) else 0 in
       (match setFromHandle_BOOLEAN (z_of_int h) with
        | Ok b -> emit (Printf.sprintf "term bool h=%d back=%d" h (int_of_z b))
        | Err c -> raise (Err (str c)))
     | "hint" ->
       (match setFromHandle_INTEGER (big v) with
        | Ok b -> emit (Printf.sprintf "term hint v=%d" (int_of_z b))
        | Err c -> raise (Err (str c)))
     | "hreal" ->
       (match setFromHandle_REAL (big v) with
        | Ok b -> emit (Printf.sprintf "term hreal v=%08x" (int_of_z b))
        | Err c -> raise (Err (str c)))
     | _ -> raise Unsupported)
  | "mm" :: "new" :: m :: style :: _ ->
    Hashtbl.replace mms m { live = []; nreq = 0; style = style; fl = fl_init; sizes = [] }
  | "mm" :: "req" :: m :: n :: _ ->
    let st = try Hashtbl.find mms m with Not_found -> raise Unsupported in
    let id = st.nreq in
    st.nreq <- id + 1;
    let n = int_of_string n in
    if st.style = "free" then begin
      (* deterministic replica *)
      match fl_request st.fl (z_of_int n) with
      | None -> raise (Err "MISCELLANEOUS")
      | Some (fl', h) ->
        st.fl <- fl';
        let h = int_of_z h in
        st.sizes <- (id, (h, n)) :: st.sizes;
        (match accept st.live (Req (nat_of_int id, z_of_int n, z_of_int h, z_of_int n)) with
         | Some s' -> st.live <- s'
         | None -> if h <> 0 then emit "mm req REPLICA-REJECTED-BY-MONITOR");
        emit (Printf.sprintf "mm req id=%d addr=%d got=%d addressable=1" id h n)
    end else begin
      (* acceptance: validate the implementation's response *)
      match Hashtbl.find_opt impl_obs !line with
      | None -> ()
      | Some obs ->
        (match field obs "addr", field obs "got" with
         | Some a, Some g ->
           let a = int_of_string a and g = int_of_string g in
           st.sizes <- (id, (a, g)) :: st.sizes;
           (match accept st.live (Req (nat_of_int id, z_of_int n, z_of_int a, z_of_int g)) with
            | Some s' -> st.live <- s';
              emit (Printf.sprintf "mm req id=%d addr=%d got=%d addressable=1" id a g)
            | None -> emit (Printf.sprintf "mm req REJECTED-BY-MONITOR id=%d n=%d addr=%d got=%d (overlaps a live chunk, too small, or null)" id n a g))
         | _ -> ())
    end
  | "mm" :: "rec" :: m :: id :: _ ->
    let st = try Hashtbl.find mms m with Not_found -> raise Unsupported in
    let id = int_of_string id in
    (match accept st.live (Rec (nat_of_int id)) with
     | Some s' -> st.live <- s'
     | None -> ());
    if st.style = "free" then begin
      match List.assoc_opt id st.sizes with
      | Some (h, n) -> st.fl <- fl_recycle st.fl (z_of_int h) (z_of_int n)
      | None -> ()
    end;
    emit "mm rec ok"
  | "mm" :: "check" :: m :: _ ->
    let st = try Hashtbl.find mms m with Not_found -> raise Unsupported in
    emit (Printf.sprintf "mm check live=%d corrupt=0" (List.length st.live))
  | "audit" :: _ ->
    (match Hashtbl.find_opt impl_obs !line with
     | None -> ()
     | Some obs ->
       (match (try parse_audit obs with _ -> None) with
        | None -> emit "audit UNPARSABLE"
        | Some d ->
          let bad = audit d in
          (* instances of the hypotheses of AuditP.audited_store_canonical (not an observation) *)
          (match d.d_lab with
           | LMT -> print_endline (Printf.sprintf "#thm audited_store_canonical dom_ok=%b audit_empty=%b"
                                     (dom_ok d) (bad = []))
           | _ -> ());
          (* after a deliberately raised error, references held by the abandoned
             computation are leaked (C++ unwinding is not modelled): in scripts that
             say so, the two count clauses are reported but not enforced *)
          let bad = if !lenient_counts then List.filter (fun (c, _) ->
              let c = int_of_nat c in c <> 10 && c <> 11) bad else bad in
          if bad = [] then emit obs
          else emit ("audit FAILED " ^ Stdlib.String.concat " " (List.map (fun (c, h) ->
              Printf.sprintf "%s@%d" (clause_name (int_of_nat c)) (int_of_z h)) bad))))
  | "write" :: id :: fn :: roots when (try (get_forest fn).lab = EVP with _ -> false) ->
    (* EV+ forests: the model of the file is the list of tables written *)
    let l = List.map (fun r ->
        match Hashtbl.find_opt evtabs r with
        | Some (fn', t) when fn' = fn -> Some t
        | _ -> None) roots in
    Hashtbl.remove xfiles id;
    Hashtbl.replace xfiles_ev id (fn, l);
    emit "write ok"
  | ("read" | "readnew") :: id :: fn :: rest when Hashtbl.mem xfiles_ev id ->
    let names = (match toks with "readnew" :: _ -> List.tl rest | _ -> rest) in
    List.iter (fun n -> Hashtbl.remove edges n; Hashtbl.remove evtabs n) names;
    let (src, l) = Hashtbl.find xfiles_ev id in
    let fs = get_forest src in
    (match toks with
     | "readnew" :: _ ->
       let d = List.hd rest in
       if fs.fdom <> d then raise Unsupported;
       let fnew = { fs with fdom = d; rule = (if fs.rel then IR else FR) } in
       Hashtbl.replace fors fn fnew;
       Hashtbl.remove dead_forests fn;
       let did = (match Hashtbl.find_opt dom_ids d with Some i -> i | None -> 0) in
       let fid = int_of_nat !ls.ls_next_fid in
       lstep_do (LCreateForest (nat_of_int did));
       Hashtbl.replace forest_ids fn fid
     | _ ->
       let ft = get_forest fn in
       if fs.rel <> ft.rel || fs.range <> ft.range || fs.lab <> ft.lab || fs.rule <> ft.rule
          || fs.sizes <> ft.sizes then raise Unsupported);
    List.iteri (fun i n ->
        match List.nth_opt l i with
        | Some (Some t) -> Hashtbl.replace evtabs n (fn, t)
        | _ -> ()) names;
    emit (Printf.sprintf "read roots=%d" (List.length l))
  | "write" :: id :: fn :: roots ->
    Hashtbl.remove xfiles_ev id;
    (* the model of the file is the list of functions written *)
    let l = List.map (fun r ->
        match Hashtbl.find_opt edges r with
        | Some (fn', t) when fn' = fn -> Some t
        | _ -> None) roots in
    Hashtbl.replace xfiles id (fn, l);
    emit "write ok"
  | "read" :: id :: fn :: names ->
    List.iter (fun n -> Hashtbl.remove edges n; Hashtbl.remove evtabs n) names;
    let (src, l) = try Hashtbl.find xfiles id with Not_found -> raise Unsupported in
    let fs = get_forest src and ft = get_forest fn in
    if fs.rel <> ft.rel || fs.range <> ft.range || fs.lab <> ft.lab || fs.rule <> ft.rule
       || fs.sizes <> ft.sizes then raise Unsupported;
    List.iteri (fun i n ->
        match List.nth_opt l i with
        | Some (Some t) -> set_edge n fn t
        | _ -> ()) names;
    emit (Printf.sprintf "read roots=%d" (List.length l))
  | "readnew" :: id :: fn :: d :: names ->
    List.iter (fun n -> Hashtbl.remove edges n; Hashtbl.remove evtabs n) names;
    let (src, l) = try Hashtbl.find xfiles id with Not_found -> raise Unsupported in
    let fs = get_forest src in
    if fs.fdom <> d then raise Unsupported;
    (* the file does not record the reduction rule: the new forest gets the
       library default (fully reduced sets, identity-reduced relations) *)
    let fnew = { fs with fdom = d; rule = (if fs.rel then IR else FR) } in
    Hashtbl.replace fors fn fnew;
    Hashtbl.remove dead_forests fn;
    let did = (match Hashtbl.find_opt dom_ids d with Some i -> i | None -> 0) in
    let fid = int_of_nat !ls.ls_next_fid in
    lstep_do (LCreateForest (nat_of_int did));
    Hashtbl.replace forest_ids fn fid;
    let lv = nat_of_int (nlev fs) in
    List.iteri (fun i n ->
        match List.nth_opt l i with
        | Some (Some t) -> set_edge n fn (apply1 (szf fnew) (fun v -> v) fs.rule fnew.rule lv O t)
        | _ -> ()) names;
    emit (Printf.sprintf "read roots=%d" (List.length l))
  | "order" :: fn :: _ ->
    let f = get_forest fn in
    emit (Stdlib.String.concat " " ("order" :: List.map string_of_int (Array.to_list f.order)))
  | "reorder" :: fn :: vars ->
    let f = get_forest fn in
    if f.lab <> MT then begin
      (* not modelled: forget the edges of this forest *)
      Hashtbl.iter (fun n (fn', _) -> if fn' = fn then Hashtbl.remove edges n) (Hashtbl.copy edges);
      Hashtbl.iter (fun n (fn', _) -> if fn' = fn then Hashtbl.remove evtabs n) (Hashtbl.copy evtabs);
      raise Unsupported
    end;
    (* the order actually reached is read from the implementation's observation
       (C13 is about the functions of held edges under whatever order results) *)
    let vars = match Hashtbl.find_opt impl_obs !line with
      | Some obs when Stdlib.String.length obs > 8 && Stdlib.String.sub obs 0 8 = "reorder " ->
        List.tl (split obs)
      | _ -> vars in
    let neworder = Array.of_list (List.map int_of_string vars) in
    let k = Array.length f.order in
    (* variable sizes by variable number *)
    let vsize = Array.make (k + 1) 0 in
    Array.iteri (fun i v -> vsize.(v) <- f.sizes.(i)) f.order;
    let newsizes = Array.map (fun v -> vsize.(v)) neworder in
    (* src: old level j (variable f.order.(j-1)) -> new level *)
    let newlevel_of_var = Array.make (k + 1) 0 in
    Array.iteri (fun i v -> newlevel_of_var.(v) <- i + 1) neworder;
    let src_var j = if j >= 1 && j <= k then newlevel_of_var.(f.order.(j - 1)) else j in
    let src : nat -> nat = fun p ->
      let p = int_of_nat p in
      if f.rel then
        (if p < 1 || p > 2 * k then nat_of_int p
         else if p land 1 = 0 then nat_of_int (2 * src_var (p / 2))
         else nat_of_int (2 * src_var ((p + 1) / 2) - 1))
      else nat_of_int (src_var p) in
    let f' = { f with sizes = newsizes; order = neworder } in
    Hashtbl.replace fors fn f';
    let l = nat_of_int (nlev f') in
    Hashtbl.iter (fun n (fn', t) ->
        if fn' = fn then Hashtbl.replace edges n (fn, permute_dd (szf f') f'.rule l src t))
      (Hashtbl.copy edges);
    emit (Stdlib.String.concat " " ("reorder" :: List.map string_of_int (Array.to_list neworder)))
  | "satpre" :: r :: fn :: _mode :: _split :: s0 :: evs ->
    (* reachability under the union of the events (the splitting option and the
       grouping cannot matter) *)
    Hashtbl.remove edges r; Hashtbl.remove evtabs r;
    let fr = get_forest fn in
    let (fsn, ts) = get_edge s0 in
    let fs = get_forest fsn in
    let evl = List.map get_edge evs in
    (match evl with
     | [] -> raise Unsupported
     | (fmn, _) :: _ ->
       let fm = get_forest fmn in
       if List.exists (fun (n, _) -> n <> fmn) evl then raise Unsupported;
       if fs.rel || (not fm.rel) || fr.rel || fs.fdom <> fm.fdom || fr.fdom <> fs.fdom then raise Unsupported;
       if fs.lab <> MT || fm.lab <> MT || fr.lab <> MT then raise Unsupported;
       if fs.range <> RBool || fm.range <> RBool || fr.range <> RBool then raise Unsupported;
       let l2 = nat_of_int (nlev fm) in
       let un = List.fold_left (fun acc (_, t) ->
           apply2 (szf fm) (scalar2 OUnion (z_of_int 1) (z_of_int 1)) fm.rule fm.rule fm.rule l2 O acc t)
           (T Z0) evl in
       let k = nat_of_int (Array.length fs.sizes) in
       let res =
         if Array.fold_left ( * ) 1 fs.sizes <= sat_limit then begin
           (* saturation over the separate events, top level first; by
              SatDDP.sat_dd_is_reach_dd this is the diagram reach_dd builds for the union *)
           let evs = List.sort (fun a b -> compare (dd_top b) (dd_top a)) (List.map snd evl) in
           print_endline (Printf.sprintf "#thm model-saturation(sat_dd) events=%d" (List.length evs));
           sat_dd_fast (szf fs) k fs.rule fm.rule fr.rule ts evs
         end else reach_dd_fast (szf fs) k fs.rule fm.rule fr.rule ts un in
       (match res with
        | Some t -> set_edge r fn t; show r
        | None -> raise Unsupported))
  | "iter" :: a :: mask when Hashtbl.mem evtabs a
                            && (try (get_forest (fst (Hashtbl.find evtabs a))).lab = EVP with _ -> false) ->
    (* EV+: the assignments whose value is not +infinity, in lexicographic order, with
       their values; the mask restricts them (table level: Build.matches on DD.all_asg) *)
    let (fn, tb) = Hashtbl.find evtabs a in
    let f = get_forest fn in
    let m = if mask = [] then [] else fst (parse_positions f mask) in
    let l = nat_of_int (nlev f) in
    let arr = Array.of_list tb in
    (* EnumOpt.enum_opt on the function of the edge (EnumOptP: sound, complete, increasing) *)
    let g x = let v = arr.(tab_index f x) in if v >= inf then None else Some (z_of_int v) in
    let parts = List.map (fun (x, v) -> asg_str f x ^ "=" ^ string_of_int (int_of_z v))
        (enum_opt (szf f) g l m) in
    emit (Stdlib.String.concat " " ("iter" :: parts))
  | "iter" :: a :: mask ->
    let (fn, t) = get_edge a in
    let f = get_forest fn in
    if f.lab <> MT then raise Unsupported;
    let m = if mask = [] then [] else fst (parse_positions f mask) in
    let l = enum (szf f) f.rule (nat_of_int (nlev f)) t m in
    emit (Stdlib.String.concat " " ("iter" :: List.map (fun (x, v) ->
        asg_str f x ^ "=" ^ string_of_int (int_of_z v)) l))
  | "iter2" :: _it :: a :: limit :: mask ->
    let (fn, t) = get_edge a in
    let f = get_forest fn in
    if f.lab <> MT then raise Unsupported;
    let m = if mask = [] then [] else fst (parse_positions f mask) in
    let l = enum (szf f) f.rule (nat_of_int (nlev f)) t m in
    let limit = int_of_string limit in
    let l = if limit < 0 then l else List.filteri (fun i _ -> i < limit) l in
    emit (Stdlib.String.concat " " ("iter" :: List.map (fun (x, v) ->
        asg_str f x ^ "=" ^ string_of_int (int_of_z v)) l))
  | "card" :: a :: _ ->
    let (fn, t) = get_edge a in
    let f = get_forest fn in
    if f.lab <> MT then raise Unsupported;
    let c = int_of_nat (cardinality (szf f) f.rule (nat_of_int (nlev f)) t) in
    emit (Printf.sprintf "card long=%d double=%d mpz=%d nodes=%d edges=%d" c c c
            (int_of_nat (node_count t)) (int_of_nat (edge_count t)))
  | "range" :: a :: _ ->
    let (fn, t) = get_edge a in
    let f = get_forest fn in
    if f.lab <> MT then raise Unsupported;
    let tb = List.map int_of_z (table (szf f) f.rule (nat_of_int (nlev f)) t) in
    emit (Printf.sprintf "range max=%d min=%d" (List.fold_left max min_int tb) (List.fold_left min max_int tb))
  | "unary" :: r :: fn :: "index" :: a :: _ ->
    Hashtbl.remove edges r;
    Hashtbl.remove idxsets r;
    let (fan, ta) = get_edge a in
    let fa = get_forest fan in
    if fa.lab <> MT || fa.rel then raise Unsupported;
    let l = nat_of_int (nlev fa) in
    let tb = index_table (szf fa) fa.rule l ta in
    Hashtbl.replace idxsets r (fan, ta);
    let dump =
      match Hashtbl.find_opt fors fn with
      | Some fi when fi.lab = IDX && fi.rule <> IR && not fi.rel ->
        " dump=" ^ ev_dump_str ~cards:true fi
          (List.map (function Some i -> int_of_nat i | None -> inf) tb)
      | _ -> "" in
    emit (Printf.sprintf "%s tab=%s%s" r (Stdlib.String.concat "," (List.map (function
        | Some i -> string_of_int (int_of_nat i) | None -> "inf") tb)) dump)
  | "lvl" :: k1 :: k2 :: _ ->
    (* the generated Gen/Levels.v definitions, run on the same inputs as the C++ functions *)
    let a = z_of_int (int_of_string k1) and b = z_of_int (int_of_string k2) in
    let v = function Ok z -> int_of_z z | Err _ -> raise Unsupported in
    emit (Printf.sprintf "lvl above=%d mdown=%d mup=%d mtop=%d mtopu=%d unp=%d pr=%d ddown=%d dup=%d dtop=%d"
            (v (isLevelAbove a b)) (v (mXD_downLevel a)) (v (mXD_upLevel a)) (v (mXD_topLevel a b))
            (v (mXD_topUnprimed a b)) (v (mXD_unprimedOfLevel a)) (v (mXD_primedOfLevel a))
            (v (mDD_downLevel a)) (v (mDD_upLevel a)) (v (mDD_topLevel a b)))
  | "prodset" :: a :: fn :: toks ->
    (* product set: per variable (variable 1 first) the allowed values; never tabulated *)
    Hashtbl.remove edges a; Hashtbl.remove evtabs a;
    let f = get_forest fn in
    if f.lab <> MT || f.rel || f.range <> RBool then raise Unsupported;
    let k = Array.length f.sizes in
    if List.length toks <> k then raise Unsupported;
    let al = Array.of_list (List.map (fun t ->
        List.sort_uniq compare (List.map int_of_string (Stdlib.String.split_on_char ',' t))) toks) in
    Array.iteri (fun i l -> List.iter (fun v -> if v < 0 || v >= f.sizes.(i) then raise Unsupported) l) al;
    Hashtbl.replace prodsets a (fn, al);
    emit (Printf.sprintf "prodset card=%d" (int_of_n (prod_countN (prod_al al) (nat_of_int k))))
  | "idxbig" :: x :: _ :: a :: _ ->
    let (fn, al) = try Hashtbl.find prodsets a with Not_found -> raise Unsupported in
    Hashtbl.replace prodidx x (fn, al);
    let k = Array.length al in
    (* the stored cardinality of the root is the number of members (ProductP.product_cardinality) *)
    emit (Printf.sprintf "idxbig stored_card=%d" (int_of_n (prod_countN (prod_al al) (nat_of_int k))))
  | "getelemat" :: x :: idxs ->
    let (_, al) = try Hashtbl.find prodidx x with Not_found -> raise Unsupported in
    let k = Array.length al in
    let l = nat_of_int k in
    let cnt = int_of_n (prod_countN (prod_al al) l) in
    let parts = List.map (fun s ->
        let i = int_of_string s in
        if i < 0 || i >= cnt then "none"          (* ProductP.product_get_element *)
        else begin
          let m = unrankN (prod_al al) l (n_of_int i) in
          let digits = List.init k (fun j -> string_of_int (int_of_nat (m (nat_of_int (k - j))))) in
          (* the index set maps the member to its rank (ProductP.rank_unrank) *)
          Stdlib.String.concat "." digits ^ "=" ^ string_of_int (int_of_n (rankN (prod_al al) l m))
        end) idxs in
    emit (Stdlib.String.concat " " ("getelemat" :: parts))
  | "getelem" :: i :: lo :: hi :: _ ->
    let (fan, ta) = try Hashtbl.find idxsets i with Not_found -> raise Unsupported in
    let fa = get_forest fan in
    let l = nat_of_int (nlev fa) in
    let lo = int_of_string lo and hi = int_of_string hi in
    let parts = List.init (hi - lo + 1) (fun j ->
        match get_element (szf fa) fa.rule l ta (z_of_int (lo + j)) with
        | Some x -> asg_str fa x
        | None -> "none") in
    emit (Stdlib.String.concat " " ("getelem" :: parts))
  | "show" :: a :: _ when Hashtbl.mem evtabs a -> show_ev a
  | "show" :: a :: _ -> show a
  | "eq" :: a :: b :: _ when Hashtbl.mem evtabs a && Hashtbl.mem evtabs b ->
    (* edge-valued forests: by canonicity (EvP.ev_canon) two edges of one forest are
       equal exactly when their functions are *)
    let (fa, ta) = Hashtbl.find evtabs a and (fb, tb) = Hashtbl.find evtabs b in
    emit ("eq " ^ (if fa = fb && ta = tb then "1" else "0"))
  | "eq" :: a :: b :: _ ->
    let (fa, ta) = get_edge a and (fb, tb) = get_edge b in
    emit ("eq " ^ (if fa = fb && dd_eqb ta tb then "1" else "0"))
  | "copyedge" :: b :: a :: _ | "assign" :: b :: a :: _ ->
    (match Hashtbl.find_opt edges a with
     | Some e -> Hashtbl.replace edges b e
     | None -> Hashtbl.remove edges b);
    (match Hashtbl.find_opt evtabs a with
     | Some e -> Hashtbl.replace evtabs b e
     | None -> Hashtbl.remove evtabs b)
  | "release" :: a :: _ -> Hashtbl.remove edges a; Hashtbl.remove evtabs a
  | _ -> ()

let () =
  if Array.length Sys.argv > 2 then load_impl Sys.argv.(2);
  let ic = open_in Sys.argv.(1) in
  (try
     while true do
       let l = input_line ic in
       incr line;
       let l = match Stdlib.String.index_opt l '#' with Some i -> Stdlib.String.sub l 0 i | None -> l in
       let toks = split l in
       if toks <> [] then
         (try (let r = (try run toks; None with e -> Some e) in
               registry_note toks;
               match r with Some e -> raise e | None -> ()) with
          | Unsupported -> ()
          | Err c -> emit ("ERR " ^ c))
     done
   with End_of_file -> ());
  close_in ic
