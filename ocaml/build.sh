#!/bin/bash
# Re-extract the model from the compiled Coq development and build mmodel.
set -e
cd "$(dirname "$0")"
mkdir -p extracted
( cd extracted && timeout 300 coqc -Q ../../coq/theories Meddly ../../coq/theories/Extract.v >/dev/null )
rm -f ../coq/theories/Extract.vo ../coq/theories/Extract.glob ../coq/theories/.Extract.aux ../coq/theories/Extract.vok ../coq/theories/Extract.vos
cp driver.ml extracted/driver.ml
( cd extracted && ocamlfind ocamlopt -package str -linkpkg -w -a model.mli model.ml driver.ml -o ../mmodel )
