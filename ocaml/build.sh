#!/bin/bash
# Re-extract the model from the compiled Coq development and build mmodel.
# Everything is built in a private directory and moved into place atomically, so that a
# check that is running concurrently keeps using a complete binary.
set -e
cd "$(dirname "$0")"
w=extracted.$$
mkdir -p "$w"
trap 'rm -rf "$w"' EXIT
( cd "$w" && timeout 300 coqc -Q ../../coq/theories Meddly ../../coq/theories/Extract.v >/dev/null )
rm -f ../coq/theories/Extract.vo ../coq/theories/Extract.glob ../coq/theories/.Extract.aux ../coq/theories/Extract.vok ../coq/theories/Extract.vos
cp driver.ml "$w/driver.ml"
( cd "$w" && ocamlfind ocamlopt -package str -linkpkg -w -a model.mli model.ml driver.ml -o mmodel.new )
mv "$w/mmodel.new" mmodel
rm -rf extracted && mv "$w" extracted
trap - EXIT
