// mdriver: runs a verification script against the real MEDDLY library built
// from /repo's working tree and prints one canonical observation per command.
//
//   usage: mdriver <script>          (observations on stdout)
//
// Observation lines:  "@<line> <text>".   Errors:  "@<line> ERR <CODE>".
// Values: booleans 0/1, integers decimal, +infinity "inf", reals as value*64
// (exact; "x<bits>" when the stored float is not a multiple of 1/64).
// Nothing printed depends on node handles, addresses or hash values.

#include "meddly.h"
#include "unique_table.h"
#include "arrays.h"
#include "forest_levels.h"
#include <cstdio>
#include <cstdlib>
#include <cstring>
#include <cmath>
#include <string>
#include <vector>
#include <map>
#include <set>
#include <sstream>
#include <fstream>
#include <iostream>
#include <algorithm>
#include <gmp.h>

using namespace MEDDLY;

#ifndef MEDDLY_VERIF_HOOKS
#error "build with -DMEDDLY_VERIF_HOOKS"
#endif

// ---------------------------------------------------------------------
// helpers
// ---------------------------------------------------------------------

static int LINE = 0;
static std::ostringstream OUT;

static void emit(const std::string &s)
{
    printf("@%d %s\n", LINE, s.c_str());
    fflush(stdout);
}

struct Bad { std::string msg; Bad(const std::string &m) : msg(m) {} };

static std::vector<std::string> split(const std::string &s)
{
    std::vector<std::string> v;
    std::istringstream is(s);
    std::string t;
    while (is >> t) v.push_back(t);
    return v;
}

static std::string optval(const std::vector<std::string> &tk, const char* key,
        const char* dflt)
{
    std::string k = std::string(key) + "=";
    for (size_t i=0; i<tk.size(); i++) {
        if (tk[i].compare(0, k.size(), k) == 0) return tk[i].substr(k.size());
    }
    return dflt;
}

struct DomainInfo {
    domain* D;
    std::vector<int> sizes;     // sizes[0] = variable 1 (bottom)
    bool alive;
};

struct ForestInfo {
    forest* F;
    std::string dom;
    bool rel;
    range_type rt;
    edge_labeling el;
    reduction_rule rr;
    bool alive;
    unsigned fid;
};

static std::map<std::string, DomainInfo> DOMS;
static std::map<std::string, ForestInfo> FORS;
static std::map<std::string, dd_edge*> EDGES;
static std::map<std::string, std::string> EDGEFOR;   // edge name -> forest name
static bool LIB_UP = false;

static ForestInfo& forestOf(const std::string &n)
{
    auto it = FORS.find(n);
    if (it == FORS.end()) throw Bad("unknown forest " + n);
    return it->second;
}
static ForestInfo& liveForest(const std::string &n)
{
    ForestInfo &fi = forestOf(n);
    if (!fi.alive) throw Bad("forest " + n + " was destroyed");
    return fi;
}
static dd_edge& edgeOf(const std::string &n)
{
    auto it = EDGES.find(n);
    if (it == EDGES.end() || !it->second) throw Bad("unknown edge " + n);
    return *(it->second);
}
static dd_edge& freshEdge(const std::string &n, const std::string &fname)
{
    ForestInfo &fi = liveForest(fname);
    auto it = EDGES.find(n);
    if (it != EDGES.end() && it->second) {
        delete it->second;
        it->second = nullptr;
    }
    dd_edge* e = new dd_edge(fi.F);
    EDGES[n] = e;
    EDGEFOR[n] = fname;
    return *e;
}

// value parsing -------------------------------------------------------

static rangeval parseVal(const std::string &s, range_type rt)
{
    if (s == "inf") return rangeval(range_special::PLUS_INFINITY, rt);
    long v = atol(s.c_str());
    switch (rt) {
        case range_type::BOOLEAN:   return rangeval(v != 0);
        case range_type::INTEGER:   return rangeval(v);
        default:                    return rangeval(double(v) / 64.0);
    }
}

static std::string realStr(double d)
{
    float f = float(d);
    double s = double(f) * 64.0;
    if (std::isfinite(s) && s == std::floor(s) && std::fabs(s) < 9e15) {
        char buf[64];
        snprintf(buf, 64, "%ld", long(s));
        return buf;
    }
    union { float f; unsigned u; } pun;
    pun.f = f;
    char buf[64];
    snprintf(buf, 64, "x%08x", pun.u);
    return buf;
}

static std::string valStr(const rangeval &v)
{
    if (v.isPlusInfinity()) return "inf";
    char buf[64];
    if (v.isBoolean()) return bool(v) ? "1" : "0";
    if (v.isInteger()) { snprintf(buf, 64, "%ld", long(v)); return buf; }
    return realStr(double(v));
}

// all assignments, lexicographic, top variable most significant.
// For relations: x_K, x'_K, x_{K-1}, x'_{K-1}, ...
struct AsgIter {
    const std::vector<int> &sz;
    bool rel;
    std::vector<int> from, to;   // 1-based
    bool done;
    AsgIter(const std::vector<int> &s, bool r) : sz(s), rel(r), done(false) {
        from.assign(s.size()+1, 0);
        to.assign(s.size()+1, 0);
    }
    void next() {
        for (unsigned k=1; k<=sz.size(); k++) {
            if (rel) {
                if (++to[k] < sz[k-1]) return;
                to[k] = 0;
            }
            if (++from[k] < sz[k-1]) return;
            from[k] = 0;
        }
        done = true;
    }
    void fill(minterm &m) const {
        for (unsigned k=1; k<=sz.size(); k++) {
            if (rel) m.setVars(k, from[k], to[k]);
            else m.setVar(k, from[k]);
        }
    }
};

static std::vector<int> levelSizes(const ForestInfo &fi)
{
    std::vector<int> sz;
    for (int k=1; k<=int(fi.F->getNumVariables()); k++) sz.push_back(fi.F->getLevelSize(k));
    return sz;
}

static std::string tableOf(const dd_edge &e, const ForestInfo &fi)
{
    const std::vector<int> lsz = levelSizes(fi);
    minterm m(fi.F);
    std::string s;
    rangeval v;
    bool first = true;
    for (AsgIter it(lsz, fi.rel); !it.done; it.next()) {
        it.fill(m);
        e.evaluate(m, v);
        if (!first) s += ",";
        first = false;
        s += valStr(v);
    }
    return s;
}

// canonical dump ------------------------------------------------------

struct Dumper {
    forest* F;
    const ForestInfo &fi;
    std::map<node_handle, int> id;
    std::string body;
    int next;
    Dumper(const ForestInfo &f) : F(f.F), fi(f), next(1) {}

    std::string termStr(node_handle p) {
        if (fi.el == edge_labeling::MULTI_TERMINAL) {
            rangeval v;
            edge_value ev;
            F->getValueForEdge(ev, p, v);
            return "t" + valStr(v);
        }
        if (fi.el == edge_labeling::EVTIMES) return p ? "w" : "z";
        return p ? "w" : "inf";
    }
    std::string evStr(const edge_value &ev) {
        char buf[64];
        if (ev.isLong()) { snprintf(buf, 64, "%ld", long(ev)); return buf; }
        if (ev.isInt()) { snprintf(buf, 64, "%d", int(ev)); return buf; }
        if (ev.isFloat()) return realStr(float(ev));
        if (ev.isDouble()) return realStr(double(ev));
        return "";
    }
    std::string ref(const edge_value &ev, node_handle p) {
        std::string r;
        if (F->isTerminalNode(p)) r = termStr(p);
        else {
            char buf[32];
            snprintf(buf, 32, "n%d", visit(p));
            r = buf;
        }
        if (fi.el == edge_labeling::MULTI_TERMINAL) return r;
        if (r == "inf" || r == "z") {
            // the edge to the transparent terminal is normalised: value 0.  Any other value
            // is the same function behind a different edge (C01/C02), so it is shown.
            bool zero = true;
            if (ev.isLong()) zero = (long(ev) == 0);
            else if (ev.isInt()) zero = (int(ev) == 0);
            else if (ev.isFloat()) zero = (float(ev) == 0);
            else if (ev.isDouble()) zero = (double(ev) == 0);
            if (zero) return r;
            return evStr(ev) + ":" + r + "!";
        }
        return evStr(ev) + ":" + r;
    }
    int visit(node_handle p) {
        auto it = id.find(p);
        if (it != id.end()) return it->second;
        unpacked_node* U = unpacked_node::newFromNode(F, p, FULL_ONLY);
        std::vector<std::string> cs;
        for (unsigned i=0; i<U->getSize(); i++) {
            if (fi.el == edge_labeling::MULTI_TERMINAL) {
                edge_value none;
                cs.push_back(ref(none, U->down(i)));
            } else {
                cs.push_back(ref(U->edgeval(i), U->down(i)));
            }
        }
        int lvl = U->getLevel();
        unpacked_node::Recycle(U);
        // pad to the level size (full nodes may be truncated)
        int want = F->getLevelSize(lvl);
        const char* zero = (fi.el == edge_labeling::MULTI_TERMINAL) ? "t0"
                        : (fi.el == edge_labeling::EVTIMES ? "z" : "inf");
        while (int(cs.size()) < want) cs.push_back(zero);
        int me = next++;
        id[p] = me;
        char buf[96];
        if (fi.el == edge_labeling::INDEX_SET) {
            // index sets: the stored number of members below the node
            snprintf(buf, 96, " n%d=L%d#%ld[", me, lvl, long(F->getIndexSetCardinality(p)));
        } else {
            snprintf(buf, 96, " n%d=L%d[", me, lvl);
        }
        body += buf;
        for (size_t i=0; i<cs.size(); i++) {
            if (i) body += " ";
            body += cs[i];
        }
        body += "]";
        return me;
    }
    std::string dump(const dd_edge &e) {
        std::string r = ref(e.getEdgeValue(), e.getNode());
        return "root=" + r + body;
    }
};

static std::string dumpOf(const dd_edge &e, const ForestInfo &fi)
{
    Dumper d(fi);
    return d.dump(e);
}

static bool QUIET = false;

static void showEdge(const std::string &name)
{
    dd_edge &e = edgeOf(name);
    ForestInfo &fi = forestOf(EDGEFOR[name]);
    if (!fi.alive) {
        emit(name + " detached attached=" + (e.getForest() ? "1" : "0"));
        return;
    }
    if (QUIET) {
        // large functions: a digest of the evaluation table instead of the table
        std::string t = tableOf(e, fi);
        unsigned long h = 1469598103934665603UL;
        for (char c : t) { h ^= (unsigned char) c; h *= 1099511628211UL; }
        char buf[128];
        snprintf(buf, 128, " sig=%016lx nodes=%lu", h, e.getNodeCount());
        emit(name + buf);
        return;
    }
    emit(name + " tab=" + tableOf(e, fi) + " dump=" + dumpOf(e, fi));
}

// ---------------------------------------------------------------------
// library init / teardown
// ---------------------------------------------------------------------

static void cmd_init(const std::vector<std::string> &tk)
{
    if (LIB_UP) throw Bad("already initialized");
    initializer_list* L = defaultInitializerList(nullptr);
    std::string st = optval(tk, "ct", "mc");
    if (st == "mc") ct_initializer::setBuiltinStyle(ct_initializer::MonolithicChainedHash);
    else if (st == "mu") ct_initializer::setBuiltinStyle(ct_initializer::MonolithicUnchainedHash);
    else if (st == "oc") ct_initializer::setBuiltinStyle(ct_initializer::OperationChainedHash);
    else if (st == "ou") ct_initializer::setBuiltinStyle(ct_initializer::OperationUnchainedHash);
    else throw Bad("ct style");
    std::string sr = optval(tk, "stale", "mod");
    if (sr == "agg") ct_initializer::setStaleRemoval(staleRemovalOption::Aggressive);
    else if (sr == "mod") ct_initializer::setStaleRemoval(staleRemovalOption::Moderate);
    else if (sr == "lazy") ct_initializer::setStaleRemoval(staleRemovalOption::Lazy);
    else throw Bad("stale");
    std::string ms = optval(tk, "maxsize", "");
    if (ms != "") ct_initializer::setMaxSize(strtoul(ms.c_str(), 0, 10));
    else ct_initializer::setMaxSize(16777216);
    std::string co = optval(tk, "compress", "none");
    if (co == "none") ct_initializer::setCompression(compressionOption::None);
    else ct_initializer::setCompression(compressionOption::TypeBased);
    MEDDLY::initialize(L);
    LIB_UP = true;
}

static void dropIters();
static void dropAllEdges()
{
    dropIters();
    for (auto &p : EDGES) { delete p.second; p.second = nullptr; }
    EDGES.clear();
    EDGEFOR.clear();
}

static void dropHeldNodes();
static void cmd_cleanup(bool keep_edges = false)
{
    if (!LIB_UP) return;
    dropHeldNodes();
    if (keep_edges) {
        // the user's edges outlive the library: cleanup must detach them
        dropIters();
        MEDDLY::cleanup();
        for (auto &p : FORS) { p.second.alive = false; p.second.F = nullptr; }
        for (auto &p : DOMS) { p.second.alive = false; p.second.D = nullptr; }
        LIB_UP = false;
        return;
    }
    dropAllEdges();
    MEDDLY::cleanup();
    DOMS.clear();
    FORS.clear();
    LIB_UP = false;
}

// ---------------------------------------------------------------------
// commands: domains, forests
// ---------------------------------------------------------------------

static void cmd_domain(const std::vector<std::string> &tk)
{
    DomainInfo di;
    for (size_t i=2; i<tk.size(); i++) di.sizes.push_back(atoi(tk[i].c_str()));
    di.D = domain::createBottomUp(di.sizes.data(), unsigned(di.sizes.size()));
    di.alive = true;
    DOMS[tk[1]] = di;
}

static void cmd_forest(const std::vector<std::string> &tk)
{
    // forest F D set|rel bool|int|real mt|evp|evt|idx fr|qr|ir [opts]
    if (tk.size() < 7) throw Bad("forest syntax");
    ForestInfo fi;
    fi.dom = tk[2];
    auto dit = DOMS.find(tk[2]);
    if (dit == DOMS.end()) throw Bad("unknown domain");
    fi.rel = (tk[3] == "rel");
    fi.rt = tk[4] == "bool" ? range_type::BOOLEAN
          : tk[4] == "int"  ? range_type::INTEGER : range_type::REAL;
    fi.el = tk[5] == "mt"  ? edge_labeling::MULTI_TERMINAL
          : tk[5] == "evp" ? edge_labeling::EVPLUS
          : tk[5] == "idx" ? edge_labeling::INDEX_SET : edge_labeling::EVTIMES;
    fi.rr = tk[6] == "fr" ? reduction_rule::FULLY_REDUCED
          : tk[6] == "qr" ? reduction_rule::QUASI_REDUCED
          : reduction_rule::IDENTITY_REDUCED;
    policies p(fi.rel);
    p.reduction = fi.rr;
    std::string st = optval(tk, "storage", "both");
    if (st == "full") p.setFullStorage();
    else if (st == "sparse") p.setSparseStorage();
    else p.setFullOrSparse();
    std::string mm = optval(tk, "mm", "");
    if (mm == "orig") p.nodemm = ORIGINAL_GRID;
    else if (mm == "array") p.nodemm = ARRAY_PLUS_GRID;
    else if (mm == "malloc") p.nodemm = MALLOC_MANAGER;
    else if (mm == "heap") p.nodemm = HEAP_MANAGER;
    std::string del = optval(tk, "del", "");
    if (del == "opt") p.setOptimistic();
    else if (del == "pess") p.setPessimistic();
    else if (del == "never") p.setNeverDelete();
    std::string ro = optval(tk, "reorder", "");
    if (ro == "li") p.setLowestInversion();
    else if (ro == "hi") p.setHighestInversion();
    else if (ro == "sd") p.setSinkDown();
    else if (ro == "bu") p.setBringUp();
    else if (ro == "lc") p.setLowestCost();
    else if (ro == "lm") p.setLowestMemory();
    else if (ro == "rand") p.setRandom();
    else if (ro == "larc") p.setLARC();
    std::string sw = optval(tk, "swap", "");
    if (sw == "var") p.setVarSwap();
    else if (sw == "level") p.setLevelSwap();
    fi.F = forest::create(dit->second.D, fi.rel, fi.rt, fi.el, p);
    fi.alive = true;
    fi.fid = fi.F->FID();
    FORS[tk[1]] = fi;
    if (optval(tk, "showfid", "") == "1") {
        char buf[64];
        snprintf(buf, 64, "forest fid=%u", fi.fid);
        emit(buf);
    }
}

// ---------------------------------------------------------------------
// C16 / C17: misuse and lifecycle commands
// ---------------------------------------------------------------------

static binary_factory& binOp(const std::string &s);

static void cmd_destroyforest(const std::vector<std::string> &tk)
{
    ForestInfo &fi = forestOf(tk[1]);
    if (!fi.alive) throw Bad("forest already destroyed");
    forest::destroy(fi.F);
    fi.alive = false;
    fi.F = nullptr;
}

static void cmd_destroydomain(const std::vector<std::string> &tk)
{
    auto it = DOMS.find(tk[1]);
    if (it == DOMS.end() || !it->second.alive) throw Bad("unknown domain");
    domain::destroy(it->second.D);
    it->second.alive = false;
    for (auto &p : FORS) {
        if (p.second.dom == tk[1]) { p.second.alive = false; p.second.F = nullptr; }
    }
}

// attached A : 1 if the edge still has a forest
static void cmd_attached(const std::vector<std::string> &tk)
{
    dd_edge &e = edgeOf(tk[1]);
    // an edge without a forest is inert: it holds no node
    if (e.getForest()) emit("attached 1");
    else emit(std::string("attached 0 node=") + std::to_string(long(e.getNode())));
}

// reattach A F : the (possibly detached) edge object A is attached to forest F; it then
// is the transparent edge of F
static void cmd_reattach(const std::vector<std::string> &tk)
{
    dd_edge &e = edgeOf(tk[1]);
    ForestInfo &fi = forestOf(tk[2]);
    e.attach(fi.F);
    EDGEFOR[tk[1]] = tk[2];
    showEdge(tk[1]);
}

// constinto E F v : F->createConstant(v, E) with E attached to whatever it is
static void cmd_constinto(const std::vector<std::string> &tk)
{
    dd_edge &e = edgeOf(tk[1]);
    ForestInfo &fi = forestOf(tk[2]);
    fi.F->createConstant(parseVal(tk[3], fi.rt), e);
    emit("constinto ok");
}

// applyinto X op A B : result into the existing edge X (whatever its forest)
static void cmd_applyinto(const std::vector<std::string> &tk)
{
    dd_edge &x = edgeOf(tk[1]);
    apply(binOp(tk[2]), edgeOf(tk[3]), edgeOf(tk[4]), x);
    emit("applyinto ok");
}

// iterpast A : run an iterator to the end, then dereference it
static void cmd_iterpast(const std::vector<std::string> &tk)
{
    dd_edge &a = edgeOf(tk[1]);
    dd_edge::iterator it = a.begin();
    long n = 0;
    while (it) { ++it; if (++n > 1000000) break; }
    const minterm &m = *it;        // must throw INVALID_ITERATOR
    (void) m;
    emit("iterpast no-error");
}

// evalx A : evaluate at the all-zero assignment (A may be detached)
static void cmd_evalx(const std::vector<std::string> &tk)
{
    dd_edge &e = edgeOf(tk[1]);
    ForestInfo &fi = forestOf(EDGEFOR[tk[1]]);
    DomainInfo &di = DOMS[fi.dom];
    if (!di.alive) {
        // the minterm needs a live domain: use any live forest's domain
        emit(std::string("evalx attached=") + (e.getForest() ? "1" : "0"));
        return;
    }
    minterm m(di.D, fi.rel);
    for (unsigned k=1; k<=di.sizes.size(); k++) {
        if (fi.rel) m.setVars(k, 0, 0); else m.setVar(k, 0);
    }
    rangeval v;
    e.evaluate(m, v);
    emit("evalx " + valStr(v));
}

// ---------------------------------------------------------------------
// builders
// ---------------------------------------------------------------------

static int posVal(const std::string &s)
{
    if (s == "x") return DONT_CARE;
    if (s == "=") return DONT_CHANGE;
    return atoi(s.c_str());
}

// fill a minterm from tokens starting at i: for sets K tokens (var 1..K);
// for relations 2K tokens (from1 to1 from2 to2 ...)
static size_t fillMinterm(minterm &m, const ForestInfo &fi,
        const std::vector<std::string> &tk, size_t i)
{
    unsigned K = DOMS[fi.dom].sizes.size();
    for (unsigned k=1; k<=K; k++) {
        if (fi.rel) {
            if (i+1 >= tk.size()) throw Bad("minterm too short");
            m.setVars(k, posVal(tk[i]), posVal(tk[i+1]));
            i += 2;
        } else {
            if (i >= tk.size()) throw Bad("minterm too short");
            m.setVar(k, posVal(tk[i]));
            i += 1;
        }
    }
    return i;
}

static void cmd_minterm(const std::vector<std::string> &tk)
{
    // minterm A F <deflt> <val> : positions
    ForestInfo &fi = forestOf(tk[2]);
    dd_edge &e = freshEdge(tk[1], tk[2]);
    minterm m(fi.F);
    fillMinterm(m, fi, tk, 6);
    m.setValue(parseVal(tk[4], fi.rt));
    m.buildFunction(parseVal(tk[3], fi.rt), e);
    showEdge(tk[1]);
}

static void cmd_coll(const std::vector<std::string> &tk)
{
    // coll A F max|min <deflt> ; pos... = val ; pos... = val
    ForestInfo &fi = forestOf(tk[2]);
    dd_edge &e = freshEdge(tk[1], tk[2]);
    unsigned n = 0;
    for (size_t i=5; i<tk.size(); i++) if (tk[i] == ";") n++;
    minterm_coll mc(n ? n : 1, fi.F);
    size_t i = 5;
    while (i < tk.size()) {
        if (tk[i] != ";") throw Bad("coll: expected ;");
        i++;
        minterm &m = mc.unused();
        i = fillMinterm(m, fi, tk, i);
        if (i >= tk.size() || tk[i] != "=>") throw Bad("coll: expected =>");
        i++;
        m.setValue(parseVal(tk[i], fi.rt));
        i++;
        mc.pushUnused();
    }
    if (tk[3] == "max") mc.buildFunctionMax(parseVal(tk[4], fi.rt), e);
    else mc.buildFunctionMin(parseVal(tk[4], fi.rt), e);
    showEdge(tk[1]);
}

static void cmd_const(const std::vector<std::string> &tk)
{
    ForestInfo &fi = forestOf(tk[2]);
    dd_edge &e = freshEdge(tk[1], tk[2]);
    fi.F->createConstant(parseVal(tk[3], fi.rt), e);
    showEdge(tk[1]);
}

static void cmd_var(const std::vector<std::string> &tk)
{
    // var A F k u|p [terms...]
    ForestInfo &fi = forestOf(tk[2]);
    dd_edge &e = freshEdge(tk[1], tk[2]);
    int k = atoi(tk[3].c_str());
    bool pr = (tk[4] == "p");
    if (tk.size() > 5) {
        std::vector<rangeval> terms;
        for (size_t i=5; i<tk.size(); i++) terms.push_back(parseVal(tk[i], fi.rt));
        fi.F->createEdgeForVar(k, pr, terms.data(), e);
    } else {
        fi.F->createEdgeForVar(k, pr, e);
    }
    showEdge(tk[1]);
}

// ---------------------------------------------------------------------
// operations
// ---------------------------------------------------------------------

static binary_factory& binOp(const std::string &s)
{
    if (s == "union") return UNION();
    if (s == "inter") return INTERSECTION();
    if (s == "diff") return DIFFERENCE();
    if (s == "cross") return CROSS();
    if (s == "max") return MAXIMUM();
    if (s == "min") return MINIMUM();
    if (s == "distmin") return DIST_MIN();
    if (s == "plus") return PLUS();
    if (s == "minus") return MINUS();
    if (s == "mult") return MULTIPLY();
    if (s == "div") return DIVIDE();
    if (s == "mod") return MODULO();
    if (s == "eq") return EQUAL();
    if (s == "ne") return NOT_EQUAL();
    if (s == "lt") return LESS_THAN();
    if (s == "le") return LESS_THAN_EQUAL();
    if (s == "gt") return GREATER_THAN();
    if (s == "ge") return GREATER_THAN_EQUAL();
    if (s == "pre") return PRE_IMAGE();
    if (s == "post") return POST_IMAGE();
    if (s == "vm") return VM_MULTIPLY();
    if (s == "mv") return MV_MULTIPLY();
    if (s == "reach_fs") return REACHABLE_TRAD_FS(true);
    if (s == "reach_nofs") return REACHABLE_TRAD_NOFS(true);
    if (s == "reach_sat") return REACHABLE_SATUR(true);
    if (s == "rreach_fs") return REACHABLE_TRAD_FS(false);
    if (s == "rreach_nofs") return REACHABLE_TRAD_NOFS(false);
    if (s == "rreach_sat") return REACHABLE_SATUR(false);
    throw Bad("unknown binary op " + s);
}

static void cmd_apply(const std::vector<std::string> &tk)
{
    // apply R F op A B
    dd_edge &a = edgeOf(tk[4]);
    dd_edge &b = edgeOf(tk[5]);
    binary_factory &bf = binOp(tk[3]);
    dd_edge &r = freshEdge(tk[1], tk[2]);
    apply(bf, a, b, r);
    showEdge(tk[1]);
}

static unary_factory& unOp(const std::string &s)
{
    if (s == "compl") return COMPLEMENT();
    if (s == "copy") return COPY();
    if (s == "index") return CONVERT_TO_INDEX_SET();
    if (s == "distinc") return DIST_INC();
    if (s == "cycle") return CYCLE();
    if (s == "card") return CARDINALITY();
    if (s == "maxrange") return MAX_RANGE();
    if (s == "minrange") return MIN_RANGE();
    throw Bad("unknown unary op " + s);
}

static void cmd_unary(const std::vector<std::string> &tk)
{
    // unary R F op A
    dd_edge &a = edgeOf(tk[4]);
    unary_factory &uf = unOp(tk[3]);
    dd_edge &r = freshEdge(tk[1], tk[2]);
    apply(uf, a, r);
    showEdge(tk[1]);
}

// unaryinto X op A : unary operation with the existing edge X as the result operand
// (X may be detached)
static void cmd_unaryinto(const std::vector<std::string> &tk)
{
    dd_edge &x = edgeOf(tk[1]);
    apply(unOp(tk[2]), edgeOf(tk[3]), x);
    emit("unaryinto ok");
}

static void cmd_card(const std::vector<std::string> &tk)
{
    // card A
    dd_edge &a = edgeOf(tk[1]);
    long lc = -1;
    apply(CARDINALITY, a, lc);
    double dc = -1;
    apply(CARDINALITY, a, dc);
    mpz_t mc;
    mpz_init(mc);
    apply(CARDINALITY, a, mc);
    char* ms = mpz_get_str(nullptr, 10, mc);
    char buf[256];
    snprintf(buf, 256, "card long=%ld double=%.0f mpz=%s nodes=%lu edges=%lu",
            lc, dc, ms, a.getNodeCount(), a.getEdgeCount(false));
    free(ms);
    mpz_clear(mc);
    emit(buf);
}

static void cmd_range(const std::vector<std::string> &tk)
{
    // range A
    dd_edge &a = edgeOf(tk[1]);
    ForestInfo &fi = forestOf(EDGEFOR[tk[1]]);
    std::string s = "range";
    if (fi.rt == range_type::INTEGER) {
        long mx, mn;
        apply(MAX_RANGE, a, mx);
        apply(MIN_RANGE, a, mn);
        char buf[128];
        snprintf(buf, 128, " max=%ld min=%ld", mx, mn);
        s += buf;
    } else {
        double mx, mn;
        apply(MAX_RANGE, a, mx);
        apply(MIN_RANGE, a, mn);
        s += " max=" + realStr(mx) + " min=" + realStr(mn);
    }
    emit(s);
}

static void cmd_iter(const std::vector<std::string> &tk)
{
    // iter A [mask positions]
    dd_edge &a = edgeOf(tk[1]);
    ForestInfo &fi = forestOf(EDGEFOR[tk[1]]);
    unsigned K = DOMS[fi.dom].sizes.size();
    minterm mask(fi.F);
    bool usemask = tk.size() > 2;
    if (usemask) fillMinterm(mask, fi, tk, 2);
    std::string s = "iter";
    long count = 0;
    for (dd_edge::iterator it = a.begin(usemask ? &mask : nullptr); it; ++it) {
        const minterm &m = *it;
        s += " ";
        for (unsigned k=K; k>=1; k--) {
            char buf[32];
            if (fi.rel) snprintf(buf, 32, "%d>%d", m.from(k), m.to(k));
            else snprintf(buf, 32, "%d", m.from(k));
            s += buf;
            if (k>1) s += ".";
        }
        s += "=" + valStr(m.getValue());
        if (++count > 100000) { s += " OVERRUN"; break; }
    }
    emit(s);
}

// re-usable iterators: iter2 IT A limit [mask...]
struct NamedIter { dd_edge::iterator* it; minterm* mask; };
static std::map<std::string, NamedIter> ITERS;

static void cmd_iter2(const std::vector<std::string> &tk)
{
    dd_edge &a = edgeOf(tk[2]);
    ForestInfo &fi = forestOf(EDGEFOR[tk[2]]);
    unsigned K = DOMS[fi.dom].sizes.size();
    long limit = atol(tk[3].c_str());
    bool usemask = tk.size() > 4;
    minterm* mask = nullptr;
    if (usemask) {
        mask = new minterm(fi.F);
        fillMinterm(*mask, fi, tk, 4);
    }
    auto f = ITERS.find(tk[1]);
    dd_edge::iterator* it;
    if (f == ITERS.end()) {
        it = new dd_edge::iterator(a, mask);
        NamedIter ni; ni.it = it; ni.mask = mask;
        ITERS[tk[1]] = ni;
    } else {
        it = f->second.it;
        it->restart(a, mask);
        delete f->second.mask;
        f->second.mask = mask;
    }
    std::string s = "iter";
    long count = 0;
    for (; *it; ++(*it)) {
        if (limit >= 0 && count >= limit) break;
        const minterm &m = **it;
        s += " ";
        for (unsigned k=K; k>=1; k--) {
            char buf[32];
            if (fi.rel) snprintf(buf, 32, "%d>%d", m.from(k), m.to(k));
            else snprintf(buf, 32, "%d", m.from(k));
            s += buf;
            if (k>1) s += ".";
        }
        s += "=" + valStr(m.getValue());
        if (++count > 100000) { s += " OVERRUN"; break; }
    }
    emit(s);
}

static void dropIters()
{
    for (auto &p : ITERS) { delete p.second.it; delete p.second.mask; }
    ITERS.clear();
}

static void cmd_getelem(const std::vector<std::string> &tk)
{
    // getelem I lo hi
    dd_edge &a = edgeOf(tk[1]);
    ForestInfo &fi = forestOf(EDGEFOR[tk[1]]);
    unsigned K = DOMS[fi.dom].sizes.size();
    long lo = atol(tk[2].c_str()), hi = atol(tk[3].c_str());
    std::string s = "getelem";
    for (long i=lo; i<=hi; i++) {
        minterm m(fi.F);
        bool ok = a.getElement(i, m);
        s += " ";
        if (!ok) { s += "none"; continue; }
        for (unsigned k=K; k>=1; k--) {
            char buf[32];
            snprintf(buf, 32, "%d", m.from(k));
            s += buf;
            if (k>1) s += ".";
        }
    }
    emit(s);
}

// ---------------------------------------------------------------------
// C02: the level arithmetic itself (cross-check of the translated definitions
// Gen/Levels.v against the functions they were translated from)
//   lvl k1 k2
// ---------------------------------------------------------------------
static void cmd_lvl(const std::vector<std::string> &tk)
{
    int k1 = atoi(tk[1].c_str()), k2 = atoi(tk[2].c_str());
    char buf[512];
    snprintf(buf, 512, "lvl above=%d mdown=%d mup=%d mtop=%d mtopu=%d unp=%d pr=%d ddown=%d dup=%d dtop=%d",
        isLevelAbove(k1, k2) ? 1 : 0,
        MXD_levels::downLevel(k1), MXD_levels::upLevel(k1), MXD_levels::topLevel(k1, k2),
        MXD_levels::topUnprimed(k1, k2), MXD_levels::unprimedOfLevel(k1), MXD_levels::primedOfLevel(k1),
        MDD_levels::downLevel(k1), MDD_levels::upLevel(k1), MDD_levels::topLevel(k1, k2));
    emit(buf);
}

// ---------------------------------------------------------------------
// C15 on sets too large to tabulate: product sets
//   prodset A F v,v v v,v,v ...   one token per variable (variable 1 first): allowed values
//   idxbig X FI A                 X = CONVERT_TO_INDEX_SET(A); prints the stored cardinality
//   getelemat X i1 i2 ...         getElement at the given (large) indexes, and the value of
//                                 the index set at the member found
// nothing here prints a table
// ---------------------------------------------------------------------
static void cmd_prodset(const std::vector<std::string> &tk)
{
    ForestInfo &fi = forestOf(tk[2]);
    dd_edge &e = freshEdge(tk[1], tk[2]);
    forest* F = fi.F;
    unsigned K = DOMS[fi.dom].sizes.size();
    if (tk.size() != 3 + K) throw Bad("prodset: one token per variable");
    F->createConstant(true, e);
    for (unsigned k=1; k<=K; k++) {
        dd_edge u(F);
        F->createConstant(false, u);
        std::string l = tk[2+k];
        size_t pos = 0;
        while (pos <= l.size()) {
            size_t c = l.find(',', pos);
            if (c == std::string::npos) c = l.size();
            if (c > pos) {
                minterm m(F);
                for (unsigned j=1; j<=K; j++) m.setVar(j, DONT_CARE);
                m.setVar(k, atoi(l.substr(pos, c-pos).c_str()));
                dd_edge t(F);
                m.buildFunction(false, t);
                apply(UNION, u, t, u);
            }
            pos = c + 1;
        }
        apply(INTERSECTION, e, u, e);
    }
    long card = -1;
    apply(CARDINALITY, e, card);
    emit("prodset card=" + std::to_string(card));
}

static void cmd_idxbig(const std::vector<std::string> &tk)
{
    ForestInfo &fi = forestOf(tk[2]);
    dd_edge &a = edgeOf(tk[3]);
    dd_edge &x = freshEdge(tk[1], tk[2]);
    apply(CONVERT_TO_INDEX_SET, a, x);
    emit("idxbig stored_card=" + std::to_string(long(fi.F->getIndexSetCardinality(x.getNode()))));
}

static void cmd_getelemat(const std::vector<std::string> &tk)
{
    dd_edge &a = edgeOf(tk[1]);
    ForestInfo &fi = forestOf(EDGEFOR[tk[1]]);
    unsigned K = DOMS[fi.dom].sizes.size();
    std::string s = "getelemat";
    for (size_t j=2; j<tk.size(); j++) {
        long i = atol(tk[j].c_str());
        minterm m(fi.F);
        bool ok = a.getElement(i, m);
        s += " ";
        if (!ok) { s += "none"; continue; }
        for (unsigned k=K; k>=1; k--) {
            s += std::to_string(m.from(k));
            if (k>1) s += ".";
        }
        long v = -1;
        a.evaluate(m, v);
        s += "=" + std::to_string(v);
    }
    emit(s);
}

// ---------------------------------------------------------------------
// C14: exchange files
//   write <id> F A B ...        roots A B ... of forest F to file <id>
//   read  <id> F N1 N2 ...      read file <id> into forest F, roots named N1..
//   readnew <id> Fnew D N1 ...  forest created from the file over domain D
// ---------------------------------------------------------------------

static std::string SCRIPT_PATH;

static std::string xfile(const std::string &id)
{
    return SCRIPT_PATH + ".x" + id;
}

static void cmd_write(const std::vector<std::string> &tk)
{
    ForestInfo &fi = forestOf(tk[2]);
    FILE* f = fopen(xfile(tk[1]).c_str(), "w");
    if (!f) throw Bad("cannot write exchange file");
    {
        FILE_output out(f);
        mdd_writer W(out, fi.F);
        for (size_t i=3; i<tk.size(); i++) W.writeRootEdge(edgeOf(tk[i]));
        W.finish();
    }
    fclose(f);
    emit("write ok");
}

static void registerForest(const std::string &name, const std::string &dom, forest* F)
{
    ForestInfo fi;
    fi.F = F;
    fi.dom = dom;
    fi.rel = F->isForRelations();
    fi.rt = F->getRangeType();
    fi.el = F->getEdgeLabeling();
    fi.rr = F->getReductionRule();
    fi.alive = true;
    fi.fid = F->FID();
    FORS[name] = fi;
}

static void cmd_read(const std::vector<std::string> &tk, bool newforest)
{
    FILE* f = fopen(xfile(tk[1]).c_str(), "r");
    if (!f) throw Bad("cannot read exchange file");
    size_t first = newforest ? 4 : 3;
    try {
        FILE_input in(f);
        mdd_reader* R;
        if (newforest) {
            auto dit = DOMS.find(tk[3]);
            if (dit == DOMS.end()) throw Bad("unknown domain");
            R = new mdd_reader(in, dit->second.D);
            registerForest(tk[2], tk[3], R->getForest());
        } else {
            R = new mdd_reader(in, forestOf(tk[2]).F);
        }
        std::string s = "read roots=" + std::to_string(R->numRoots());
        emit(s);
        for (size_t i=first; i<tk.size(); i++) {
            dd_edge &e = freshEdge(tk[i], tk[2]);
            R->readRootEdge(e);
        }
        delete R;
    }
    catch (...) {
        fclose(f);
        throw;
    }
    fclose(f);
    for (size_t i=first; i<tk.size(); i++) {
        // one observation per line is the rule; extra roots are shown by
        // explicit "show" commands in the script
    }
}

// ---------------------------------------------------------------------
// C20: saturation over a partitioned (pre-generated) relation
// satpre R F events|levels only|sub|suball|mono S E1 E2 ...
// ---------------------------------------------------------------------

static void cmd_satpre(const std::vector<std::string> &tk)
{
    if (tk.size() < 7) throw Bad("satpre syntax");
    dd_edge &init = edgeOf(tk[5]);
    forest* inF = forestOf(EDGEFOR[tk[5]]).F;
    forest* mxd = forestOf(EDGEFOR[tk[6]]).F;
    unsigned n = unsigned(tk.size() - 6);
    pregen_relation* rel = (tk[3] == "events") ? new pregen_relation(mxd, n)
                                               : new pregen_relation(mxd);
    for (size_t i=6; i<tk.size(); i++) rel->addToRelation(edgeOf(tk[i]));
    pregen_relation::splittingOption so =
          tk[4] == "only" ? pregen_relation::SplitOnly
        : tk[4] == "sub" ? pregen_relation::SplitSubtract
        : tk[4] == "suball" ? pregen_relation::SplitSubtractAll
        : pregen_relation::MonolithicSplit;
    rel->finalize(so);
    dd_edge &r = freshEdge(tk[1], tk[2]);
    saturation_operation* sat = SATURATION_FORWARD(inF, rel, forestOf(tk[2]).F);
    if (!sat) throw error(error::INVALID_OPERATION, __FILE__, __LINE__);
    sat->compute(init, r);
    showEdge(tk[1]);
}

// ---------------------------------------------------------------------
// node-level audit of a forest (C02 / C06 / C07)
// prints, for every active node handle: level, children, incoming count,
// cache count, hash agreement, singleton info; plus roots and totals.
// Handles are renumbered canonically (sorted by level then content) so that
// the dump does not depend on handle numbers -- but the audit predicates are
// evaluated by the extracted Coq checker on exactly this dump.
// ---------------------------------------------------------------------

static void cmd_audit(const std::vector<std::string> &tk)
{
    ForestInfo &fi = forestOf(tk[1]);
    forest* F = fi.F;
    std::ostringstream s;
    s << "audit";
    node_handle last = F->getLastNode();
    long active = 0;
    // roots
    std::vector<node_handle> roots;
    F->verif_enumRoots(roots);
    s << " nodes=" << F->getCurrentNumNodes();
    long utotal = 0;
    for (int v=1; v<=int(F->getNumVariables()); v++) {
        utotal += F->getUT()->getNumEntries(v);
        if (fi.rel) utotal += F->getUT()->getNumEntries(-v);
    }
    s << " ut=" << utotal;
    s << " roots=";
    for (size_t i=0; i<roots.size(); i++) { if (i) s << ","; s << roots[i]; }
    if (roots.empty()) s << "-";
    s << " rel=" << (fi.rel ? 1 : 0) << " rule=" << (fi.rr == reduction_rule::FULLY_REDUCED ? "fr"
            : fi.rr == reduction_rule::QUASI_REDUCED ? "qr" : "ir")
      << " K=" << F->getNumVariables()
      << " lab=" << (fi.el == edge_labeling::MULTI_TERMINAL ? "mt" : fi.el == edge_labeling::EVTIMES ? "evt" : "evp")
      << " del=" << (F->getPolicies().isPessimistic() ? "pess" : F->getPolicies().isOptimistic() ? "opt" : "never");
    // sizes of the levels, bottom up (relations: -1, 1, -2, 2, ...)
    s << " lsz=";
    for (int k=1; k<=int(F->getNumVariables()); k++) {
        if (k>1) s << ",";
        if (fi.rel) s << F->getLevelSize(-k) << ",";
        s << F->getLevelSize(k);
    }
    s << " ;";
    std::vector<unsigned long> ctcounts(size_t(last)+2, 0);
    compute_table::countAllNodeEntries(F, ctcounts);
    for (node_handle p=1; p<=last; p++) {
        if (!F->isActiveNode(p)) {
            unsigned long cc = F->verif_cacheCount(p);
            if (cc || ctcounts[p]) {
                s << " Z" << p << " cc=" << cc << " ce=" << ctcounts[p] << " ;";
            }
            continue;
        }
        ++active;
        s << " " << p << "@" << F->getNodeLevel(p)
          << " in=" << F->getNodeInCount(p)
          << " cc=" << F->verif_cacheCount(p)
          << " ce=" << ctcounts[p];
        unpacked_node* Uf = unpacked_node::newFromNode(F, p, FULL_ONLY);
        unpacked_node* Us = unpacked_node::newFromNode(F, p, SPARSE_ONLY);
        Uf->computeHash();
        Us->computeHash();
        s << " h=" << ((Uf->hash() == Us->hash() && Uf->hash() == F->hashNode(p)) ? 1 : 0);
        unsigned sidx = 0; node_handle sdn = 0;
        bool single = F->isSingletonNode(p, sidx, sdn);
        s << " sg=" << (single ? int(sidx) : -1);
        s << " f=[";
        Dumper dd(fi);
        for (unsigned i=0; i<Uf->getSize(); i++) {
            if (i) s << " ";
            if (fi.el != edge_labeling::MULTI_TERMINAL) {
                s << dd.evStr(Uf->edgeval(i)) << ":";
            }
            s << Uf->down(i);
        }
        s << "] s=[";
        for (unsigned i=0; i<Us->getSize(); i++) {
            if (i) s << " ";
            s << Us->index(i) << ">";
            if (fi.el != edge_labeling::MULTI_TERMINAL) {
                s << dd.evStr(Us->edgeval(i)) << ":";
            }
            s << Us->down(i);
        }
        s << "] sz=" << F->getLevelSize(F->getNodeLevel(p));
        unpacked_node::Recycle(Uf);
        unpacked_node::Recycle(Us);
        s << " ;";
    }
    s << " active=" << active;
    emit(s.str());
}

// ---------------------------------------------------------------------
// C19: terminal codec
// ---------------------------------------------------------------------

static void cmd_term(const std::vector<std::string> &tk)
{
    // term int <v> | term real <hexbits> | term bool <0/1> | term hint <h> | term hreal <h>
    char buf[256];
    if (tk[1] == "int") {
        long v = atol(tk[2].c_str());
        terminal t(v, terminal_type::INTEGER);
        node_handle h = t.getHandle();
        terminal back(terminal_type::INTEGER, h);
        snprintf(buf, 256, "term int h=%d back=%ld", h, long(back.getInteger()));
        emit(buf);
    } else if (tk[1] == "real") {
        union { float f; unsigned u; } pun;
        pun.u = unsigned(strtoul(tk[2].c_str(), 0, 16));
        terminal t(pun.f, terminal_type::REAL);
        node_handle h = t.getHandle();
        terminal back(terminal_type::REAL, h);
        union { float f; unsigned u; } p2;
        p2.f = back.getReal();
        snprintf(buf, 256, "term real h=%d back=%08x", h, p2.u);
        emit(buf);
    } else if (tk[1] == "bool") {
        terminal t(tk[2] != "0", terminal_type::BOOLEAN);
        node_handle h = t.getHandle();
        terminal back(terminal_type::BOOLEAN, h);
        snprintf(buf, 256, "term bool h=%d back=%d", h, back.getBoolean() ? 1 : 0);
        emit(buf);
    } else if (tk[1] == "hint") {
        node_handle h = node_handle(atol(tk[2].c_str()));
        terminal back(terminal_type::INTEGER, h);
        snprintf(buf, 256, "term hint v=%ld", long(back.getInteger()));
        emit(buf);
    } else if (tk[1] == "hreal") {
        node_handle h = node_handle(atol(tk[2].c_str()));
        terminal back(terminal_type::REAL, h);
        union { float f; unsigned u; } p2;
        p2.f = back.getReal();
        snprintf(buf, 256, "term hreal v=%08x", p2.u);
        emit(buf);
    } else throw Bad("term kind");
}

// ---------------------------------------------------------------------
// C06: node-level histories (unique table + incoming counts + reclamation)
//   nnew X F L c1 c2 ...   children: names of held nodes, or t<v> for terminals
//   ndup Y X               another reference to X's node
//   ndrop X                give the reference up
// every command prints the number of live nodes and the recorded incoming
// count of every held node
// ---------------------------------------------------------------------
static std::map<std::string, node_handle> NODES;
static std::map<std::string, node_handle> TOKENS;   // cache entries made by ncache
static std::string NODEFOREST;

static void nodeObs()
{
    forest* F = forestOf(NODEFOREST).F;
    std::ostringstream s;
    s << "nobs live=" << F->getCurrentNumNodes();
    for (auto &p : NODES) {
        s << " " << p.first << "=";
        if (p.second > 0) s << F->getNodeInCount(p.second); else s << 0;
        // the handle itself (the model checks the reuse discipline with it)
        s << "@" << (p.second > 0 ? p.second : 0);
    }
    for (auto &p : TOKENS) {
        s << " " << p.first << "=" << F->verif_cacheCount(p.second)
          << (F->isActiveNode(p.second) ? "a" : "z");
    }
    emit(s.str());
}

static void dropHeldNodes()
{
    if (NODEFOREST.empty()) return;
    auto it = FORS.find(NODEFOREST);
    if (it != FORS.end() && it->second.alive) {
        for (auto &p : TOKENS) it->second.F->uncacheNode(p.second);
        for (auto &p : NODES) if (p.second > 0) it->second.F->unlinkNode(p.second);
    }
    TOKENS.clear();
    NODES.clear();
    NODEFOREST.clear();
}

static void cmd_nnew(const std::vector<std::string> &tk)
{
    if (tk.size() < 5) throw Bad("nnew syntax");
    if (NODES.count(tk[1])) throw Bad("nnew: name in use");
    if (!NODEFOREST.empty() && NODEFOREST != tk[2]) throw Bad("node commands use one forest per script");
    NODEFOREST = tk[2];
    ForestInfo &fi = forestOf(tk[2]);
    forest* F = fi.F;
    int L = atoi(tk[3].c_str());
    unsigned sz = unsigned(F->getLevelSize(L));
    if (tk.size() != 4 + sz) throw Bad("nnew: wrong number of children");
    unpacked_node* nb = unpacked_node::newWritable(F, L, sz, FULL_ONLY);
    for (unsigned i=0; i<sz; i++) {
        const std::string &c = tk[4+i];
        if (c[0] == 't') {
            long v = atol(c.c_str()+1);
            if (fi.rt == range_type::BOOLEAN) nb->setFull(i, v ? F->handleForValue(true) : 0);
            else nb->setFull(i, v ? F->handleForValue(v) : 0);
        } else {
            auto it = NODES.find(c);
            if (it == NODES.end()) throw Bad("nnew: unknown child");
            nb->setFull(i, F->linkNode(it->second));
        }
    }
    edge_value ev;
    node_handle h;
    F->createReducedNode(nb, ev, h);
    NODES[tk[1]] = h;
    nodeObs();
}

static void cmd_ndup(const std::vector<std::string> &tk)
{
    if (NODES.count(tk[1])) throw Bad("ndup: name in use");
    auto it = NODES.find(tk[2]);
    if (it == NODES.end()) throw Bad("ndup: unknown node");
    forest* F = forestOf(NODEFOREST).F;
    NODES[tk[1]] = F->linkNode(it->second);
    nodeObs();
}

static void cmd_ndrop(const std::vector<std::string> &tk)
{
    auto it = NODES.find(tk[1]);
    if (it == NODES.end()) throw Bad("ndrop: unknown node");
    forest* F = forestOf(NODEFOREST).F;
    F->unlinkNode(it->second);
    NODES.erase(it);
    nodeObs();
}

//   ncache T X             a cache entry T starts to mention X's node (forest::cacheNode)
//   nuncache T             that entry is removed (forest::uncacheNode)
static void cmd_ncache(const std::vector<std::string> &tk)
{
    if (tk.size() < 3) throw Bad("ncache syntax");
    if (TOKENS.count(tk[1])) throw Bad("ncache: token in use");
    auto it = NODES.find(tk[2]);
    if (it == NODES.end()) throw Bad("ncache: unknown node");
    forest* F = forestOf(NODEFOREST).F;
    if (it->second > 0) {
        F->cacheNode(it->second);
        TOKENS[tk[1]] = it->second;
    }
    nodeObs();
}

static void cmd_nuncache(const std::vector<std::string> &tk)
{
    auto it = TOKENS.find(tk[1]);
    if (it == TOKENS.end()) throw Bad("nuncache: unknown token");
    forest* F = forestOf(NODEFOREST).F;
    F->uncacheNode(it->second);
    TOKENS.erase(it);
    nodeObs();
}

// ---------------------------------------------------------------------
// C06 / C07: the width-changing counter array of arrays.h, driven directly
//   ctr new C | ctr inc C i [k] | ctr dec C i [k] | ctr exp C n | ctr shr C n | ctr del C
// every command prints the element width and all values
// ---------------------------------------------------------------------
static std::map<std::string, std::pair<counter_array*, size_t> > CTRS;

static void cmd_ctr(const std::vector<std::string> &tk)
{
    const std::string &op = tk[1];
    if (op == "new") {
        CTRS[tk[2]] = std::make_pair(new counter_array(nullptr), size_t(0));
        emit("ctr bits=8 vals=");
        return;
    }
    auto it = CTRS.find(tk[2]);
    if (it == CTRS.end()) throw Bad("ctr: unknown array");
    counter_array* C = it->second.first;
    size_t &sz = it->second.second;
    if (op == "del") { delete C; CTRS.erase(it); return; }
    if (op == "inc" || op == "dec") {
        size_t i = size_t(atol(tk[3].c_str()));
        long k = tk.size() > 4 ? atol(tk[4].c_str()) : 1;
        if (i >= sz) throw Bad("ctr: index out of range");
        for (long j=0; j<k; j++) {
            if (op == "inc") C->increment(i);
            else { if (0 == C->get(i)) throw Bad("ctr: decrement of zero"); C->decrement(i); }
        }
    } else if (op == "exp") {
        size_t n = size_t(atol(tk[3].c_str()));
        C->expand(n);
        if (n > sz) sz = n;
    } else if (op == "shr") {
        size_t n = size_t(atol(tk[3].c_str()));
        for (size_t i=n; i<sz; i++) if (C->get(i)) throw Bad("ctr: shrink would drop a used counter");
        C->shrink(n);
        if (n < sz) sz = n;
    } else throw Bad("ctr op");
    std::ostringstream s;
    s << "ctr bits=" << C->entry_bits() << " vals=";
    for (size_t i=0; i<sz; i++) { if (i) s << ","; s << C->get(i); }
    emit(s.str());
}

// edgeval F dbl <hex64> <hex32> | edgeval F int <v> | edgeval F inf
// forest::getEdgeForValue / getValueForEdge of an edge-valued forest (C19)
static void cmd_edgeval(const std::vector<std::string> &tk)
{
    ForestInfo &fi = forestOf(tk[1]);
    char buf[256];
    edge_value v;
    node_handle p = 0;
    rangeval T;
    if (tk[2] == "dbl") {
        union { double d; unsigned long u; } pd;
        pd.u = strtoul(tk[3].c_str(), 0, 16);
        union { float f; unsigned u; } pf;
        pf.f = float(pd.d);
        if (pf.u != unsigned(strtoul(tk[4].c_str(), 0, 16))) throw Bad("edgeval: the script's float rounding differs from the C cast");
        T = rangeval(pd.d);
    } else if (tk[2] == "int") {
        T = rangeval(atol(tk[3].c_str()));
    } else if (tk[2] == "inf") {
        T = rangeval(range_special::PLUS_INFINITY, range_type::INTEGER);
    } else throw Bad("edgeval kind");
    fi.F->getEdgeForValue(T, v, p);
    const char* pk = (p == OMEGA_NORMAL) ? "w" : "?";
    if (fi.el == edge_labeling::EVPLUS && p == OMEGA_INFINITY) pk = "inf";
    if (fi.el == edge_labeling::EVTIMES && p == OMEGA_ZERO) pk = "z";
    std::string stored;
    if (v.isFloat()) { union { float f; unsigned u; } q; q.f = float(v); snprintf(buf, 256, "%08x", q.u); stored = buf; }
    else if (v.isDouble()) { union { float f; unsigned u; } q; q.f = float(double(v)); snprintf(buf, 256, "%08x", q.u); stored = buf; }
    else if (v.isLong()) { snprintf(buf, 256, "%ld", long(v)); stored = buf; }
    else if (v.isInt()) { snprintf(buf, 256, "%d", int(v)); stored = buf; }
    else stored = "-";
    rangeval back;
    fi.F->getValueForEdge(v, p, back);
    std::string bs;
    if (back.isPlusInfinity()) bs = "inf";
    else if (fi.rt == range_type::REAL) { union { float f; unsigned u; } q; q.f = float(double(back)); snprintf(buf, 256, "%08x", q.u); bs = buf; }
    else { snprintf(buf, 256, "%ld", long(back)); bs = buf; }
    emit(std::string("edgeval p=") + pk + " v=" + stored + " back=" + bs);
}

// ---------------------------------------------------------------------
// C18: bare memory managers
// ---------------------------------------------------------------------

struct MMState {
    memory_manager* M;
    memstats* stats;
    unsigned gran;
    struct Chunk { node_address h; size_t req; size_t got; unsigned long tag; bool live; };
    std::vector<Chunk> chunks;
};
static std::map<std::string, MMState> MMS;

static unsigned long slotGet(MMState &st, node_address h, size_t i)
{
    char* base = (char*) st.M->getChunkAddress(h);
    if (st.gran == 4) { unsigned v; memcpy(&v, base + 4*i, 4); return v; }
    unsigned long v; memcpy(&v, base + 8*i, 8); return v;
}
static void slotSet(MMState &st, node_address h, size_t i, unsigned long v)
{
    char* base = (char*) st.M->getChunkAddress(h);
    if (st.gran == 4) { unsigned w = unsigned(v); memcpy(base + 4*i, &w, 4); }
    else memcpy(base + 8*i, &v, 8);
}
static unsigned long sentinel(const MMState &st, unsigned long tag, size_t i)
{
    // MSB always clear (managers may require it for first/last slot)
    unsigned long v = (tag * 2654435761UL + i * 40503UL + 12345UL);
    if (st.gran == 4) return v & 0x7fffffffUL;
    return v & 0x7fffffffffffffffUL;
}

static void cmd_mm(const std::vector<std::string> &tk)
{
    // mm new M style gran minsize | mm req M n | mm rec M id | mm check M | mm del M
    char buf[256];
    if (tk[1] == "new") {
        MMState st;
        const memory_manager_style* sty = nullptr;
        if (tk[3] == "orig") sty = ORIGINAL_GRID;
        else if (tk[3] == "array") sty = ARRAY_PLUS_GRID;
        else if (tk[3] == "heap") sty = HEAP_MANAGER;
        else if (tk[3] == "malloc") sty = MALLOC_MANAGER;
        else if (tk[3] == "free") sty = FREELISTS;
        else throw Bad("mm style");
        st.gran = unsigned(atoi(tk[4].c_str()));
        st.stats = new memstats();
        st.M = sty->initManager((unsigned char) st.gran,
                (unsigned char) atoi(tk[5].c_str()), *st.stats);
        if (!st.M) { emit("mm new null"); return; }
        MMS[tk[2]] = st;
        snprintf(buf, 256, "mm new first=%d last=%d", st.M->firstSlotMustClearMSB() ? 1:0,
                st.M->lastSlotMustClearMSB() ? 1:0);
        emit(buf);
        return;
    }
    auto it = MMS.find(tk[2]);
    if (it == MMS.end()) throw Bad("unknown mm");
    MMState &st = it->second;
    if (tk[1] == "req") {
        size_t n = size_t(atol(tk[3].c_str()));
        size_t got = n;
        node_address h = st.M->requestChunk(got);
        MMState::Chunk c;
        c.h = h; c.req = n; c.got = got; c.tag = st.chunks.size()+1; c.live = (h != 0);
        // every slot of the chunk must be addressable through the manager (C18); slots that
        // are not are reported and left alone rather than written
        bool addressable = h && st.M->isValidHandle(h) && st.M->isValidHandle(h + got - 1);
        if (h && addressable) for (size_t i=0; i<got; i++) slotSet(st, h, i, sentinel(st, c.tag, i));
        c.got = got;
        if (!addressable) c.tag = 0;
        st.chunks.push_back(c);
        snprintf(buf, 256, "mm req id=%lu addr=%lu got=%lu addressable=%d", (unsigned long) st.chunks.size()-1,
                (unsigned long) h, (unsigned long) got, (addressable || !h) ? 1 : 0);
        emit(buf);
    } else if (tk[1] == "rec") {
        size_t id = size_t(atol(tk[3].c_str()));
        if (id >= st.chunks.size() || !st.chunks[id].live) throw Bad("mm rec: not live");
        st.M->recycleChunk(st.chunks[id].h, st.chunks[id].got);
        st.chunks[id].live = false;
        emit("mm rec ok");
    } else if (tk[1] == "check") {
        // sentinel integrity of every live chunk
        long bad = 0, live = 0;
        for (auto &c : st.chunks) {
            if (!c.live) continue;
            ++live;
            if (c.tag == 0) continue;       // was never addressable: reported at the request
            for (size_t i=0; i<c.got; i++) {
                if (slotGet(st, c.h, i) != sentinel(st, c.tag, i)) { ++bad; break; }
            }
        }
        snprintf(buf, 256, "mm check live=%ld corrupt=%ld", live, bad);
        emit(buf);
    } else if (tk[1] == "del") {
        if (st.M->mustRecycleManually()) {
            for (auto &c : st.chunks) if (c.live) { st.M->recycleChunk(c.h, c.got); c.live = false; }
        }
        delete st.M;
        delete st.stats;
        MMS.erase(it);
    } else throw Bad("mm subcommand");
}

// ---------------------------------------------------------------------
// main loop
// ---------------------------------------------------------------------

static const char* errName(MEDDLY::error::code c)
{
#define EN(X) case MEDDLY::error::X: return #X;
    switch (c) {
        EN(UNINITIALIZED) EN(ALREADY_INITIALIZED) EN(NOT_IMPLEMENTED)
        EN(INSUFFICIENT_MEMORY) EN(INVALID_OPERATION) EN(INVALID_VARIABLE)
        EN(INVALID_LEVEL) EN(INVALID_BOUND) EN(INVALID_ITERATOR)
        EN(DOMAIN_NOT_EMPTY) EN(UNKNOWN_OPERATION) EN(DOMAIN_MISMATCH)
        EN(FOREST_MISMATCH) EN(TYPE_MISMATCH) EN(WRONG_NUMBER)
        EN(VALUE_OVERFLOW) EN(DIVIDE_BY_ZERO) EN(SUBTRACT_INFINITY)
        EN(INFINITY_DIV_INFINITY) EN(INVALID_POLICY) EN(INVALID_ASSIGNMENT)
        EN(INVALID_ARGUMENT) EN(INVALID_OPTION) EN(INVALID_FILE)
        EN(COULDNT_READ) EN(COULDNT_WRITE) EN(MISCELLANEOUS)
        default: return "UNKNOWN";
    }
#undef EN
}

static void run(const std::vector<std::string> &tk)
{
    const std::string &c = tk[0];
    if (c == "init") cmd_init(tk);
    else if (c == "cleanup") cmd_cleanup(tk.size() > 1 && tk[1] == "keep");
    else if (c == "domain") cmd_domain(tk);
    else if (c == "forest") cmd_forest(tk);
    else if (c == "minterm") cmd_minterm(tk);
    else if (c == "coll") cmd_coll(tk);
    else if (c == "const") cmd_const(tk);
    else if (c == "var") cmd_var(tk);
    else if (c == "apply") cmd_apply(tk);
    else if (c == "unary") cmd_unary(tk);
    else if (c == "unaryinto") cmd_unaryinto(tk);
    else if (c == "card") cmd_card(tk);
    else if (c == "range") cmd_range(tk);
    else if (c == "iter") cmd_iter(tk);
    else if (c == "getelem") cmd_getelem(tk);
    else if (c == "lvl") cmd_lvl(tk);
    else if (c == "prodset") cmd_prodset(tk);
    else if (c == "idxbig") cmd_idxbig(tk);
    else if (c == "getelemat") cmd_getelemat(tk);
    else if (c == "iter2") cmd_iter2(tk);
    else if (c == "dropiter") {
        auto f = ITERS.find(tk[1]);
        if (f != ITERS.end()) { delete f->second.it; delete f->second.mask; ITERS.erase(f); }
    }
    else if (c == "show") showEdge(tk[1]);
    else if (c == "eq") {
        emit(std::string("eq ") + ((edgeOf(tk[1]) == edgeOf(tk[2])) ? "1" : "0"));
    }
    else if (c == "copyedge") {
        // copyedge B A : B becomes a copy of A (copy constructor)
        dd_edge &a = edgeOf(tk[2]);
        auto it = EDGES.find(tk[1]);
        if (it != EDGES.end() && it->second) { delete it->second; it->second = nullptr; }
        EDGES[tk[1]] = new dd_edge(a);
        EDGEFOR[tk[1]] = EDGEFOR[tk[2]];
    }
    else if (c == "assign") {
        // assign B A : B = A (operator=)
        edgeOf(tk[1]) = edgeOf(tk[2]);
        EDGEFOR[tk[1]] = EDGEFOR[tk[2]];
    }
    else if (c == "release") {
        auto it = EDGES.find(tk[1]);
        if (it != EDGES.end() && it->second) { delete it->second; it->second = nullptr; }
    }
    else if (c == "clearct") {
        if (tk.size() > 1) forestOf(tk[1]).F->removeAllComputeTableEntries();
        else for (auto &p : FORS) if (p.second.alive) p.second.F->removeAllComputeTableEntries();
    }
    else if (c == "audit") cmd_audit(tk);
    else if (c == "satpre") cmd_satpre(tk);
    else if (c == "quiet") QUIET = (tk.size() > 1 && tk[1] == "1");
    else if (c == "auditmode") { /* directive for the checker only */ }
    else if (c == "destroyforest") cmd_destroyforest(tk);
    else if (c == "destroydomain") cmd_destroydomain(tk);
    else if (c == "attached") cmd_attached(tk);
    else if (c == "reattach") cmd_reattach(tk);
    else if (c == "constinto") cmd_constinto(tk);
    else if (c == "applyinto") cmd_applyinto(tk);
    else if (c == "iterpast") cmd_iterpast(tk);
    else if (c == "evalx") cmd_evalx(tk);
    else if (c == "write") cmd_write(tk);
    else if (c == "read") cmd_read(tk, false);
    else if (c == "readnew") cmd_read(tk, true);
    else if (c == "reorder") {
        // reorder F v1 .. vK : variable v_k goes to level k
        ForestInfo &fi = forestOf(tk[1]);
        std::vector<int> order(1, 0);
        for (size_t i=2; i<tk.size(); i++) order.push_back(atoi(tk[i].c_str()));
        if (order.size() != fi.F->getNumVariables()+1) throw Bad("reorder: wrong number of variables");
        fi.F->reorderVariables(order.data());
        std::string s = "reorder";
        for (int k=1; k<=int(fi.F->getNumVariables()); k++) {
            char buf[32];
            snprintf(buf, 32, " %d", fi.F->getVarByLevel(k));
            s += buf;
        }
        emit(s);
    }
    else if (c == "order") {
        // order F : the variable at every level of forest F
        ForestInfo &fi = forestOf(tk[1]);
        std::string s = "order";
        for (int k=1; k<=int(fi.F->getNumVariables()); k++) {
            char buf[32];
            snprintf(buf, 32, " %d", fi.F->getVarByLevel(k));
            s += buf;
        }
        emit(s);
    }
    else if (c == "term") cmd_term(tk);
    else if (c == "edgeval") cmd_edgeval(tk);
    else if (c == "ctr") cmd_ctr(tk);
    else if (c == "nnew") cmd_nnew(tk);
    else if (c == "ndup") cmd_ndup(tk);
    else if (c == "ndrop") cmd_ndrop(tk);
    else if (c == "ncache") cmd_ncache(tk);
    else if (c == "nuncache") cmd_nuncache(tk);
    else if (c == "mm") cmd_mm(tk);
    else throw Bad("unknown command " + c);
}

int main(int argc, char** argv)
{
    if (argc < 2) { fprintf(stderr, "usage: mdriver script\n"); return 2; }
    SCRIPT_PATH = argv[1];
    std::ifstream in(argv[1]);
    if (!in) { fprintf(stderr, "cannot open %s\n", argv[1]); return 2; }
    std::string line;
    while (std::getline(in, line)) {
        ++LINE;
        size_t h = line.find('#');
        if (h != std::string::npos) line = line.substr(0, h);
        std::vector<std::string> tk = split(line);
        if (tk.empty()) continue;
        try {
            run(tk);
        }
        catch (MEDDLY::error e) {
            emit(std::string("ERR ") + errName(e.getCode()));
        }
        catch (Bad b) {
            fprintf(stderr, "script error line %d: %s\n", LINE, b.msg.c_str());
            return 2;
        }
    }
    cmd_cleanup();
    return 0;
}
