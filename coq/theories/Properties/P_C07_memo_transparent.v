(** C07: for any purge policy [evict] that only ever drops entries (stale
    removal, size limits, unchained overwrites, explicit clears) and any
    initial cache whose entries are correct, the memoised recursion returns
    exactly what the recursion without a compute table returns, and leaves a
    cache whose entries are correct. *)
From Coq Require Import List ZArith.
From Meddly Require Import Model.DD Model.Memo Proofs.MemoP.

Theorem C07_memoisation_is_transparent :
  forall (sz : nat -> nat) (f : Z -> Z -> Z) (ra rb rr : rule)
         (evict : nat -> cache -> cache),
  (forall n c, incl (evict n c) c) ->
  forall L from a b st,
  sound sz f ra rb rr (fst st) ->
  fst (apply2_memo sz f ra rb rr evict L from a b st) = apply2 sz f ra rb rr L from a b
  /\ sound sz f ra rb rr (fst (snd (apply2_memo sz f ra rb rr evict L from a b st))).
Proof. intros. now apply memo_transparent. Qed.
Print Assumptions C07_memoisation_is_transparent.

(** the empty cache is sound, so the hypothesis is satisfiable *)
Example C07_empty_cache_sound : forall sz f ra rb rr, sound sz f ra rb rr nil.
Proof. intros sz f ra rb rr L from a b r H. destruct H. Qed.
