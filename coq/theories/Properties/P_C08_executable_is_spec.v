(** C08 / C20: the executable definitions that the correspondence check runs
    (the current set is stored as a table at every round) build exactly the
    diagrams of the closure-based definitions that the least-fixed-point,
    termination and identical-edge theorems are about. *)
From Coq Require Import List Arith ZArith Bool.
From Meddly Require Import Model.DD Model.Reach Proofs.TabP.

Theorem C08_executable_reachability_is_the_specified_one :
  forall (szS : nat -> nat) (K : nat) (rS rR rOut : rule),
  is_ir rS = false ->
  forall s r evs,
  reach_dd_fast szS K rS rR rOut s r = reach_dd szS K rS rR rOut s r /\
  rreach_dd_fast szS K rS rR rOut s r = rreach_dd szS K rS rR rOut s r /\
  reach_fs_dd_fast szS K rS rR rOut s r = reach_fs_dd szS K rS rR rOut s r /\
  sat_dd_fast szS K rS rR rOut s evs = sat_dd szS K rS rR rOut s evs.
Proof.
  intros szS K rS rR rOut H s r evs.
  split; [apply reach_dd_fast_eq; exact H|].
  split; [apply rreach_dd_fast_eq; exact H|].
  split; [apply reach_fs_dd_fast_eq; exact H|apply sat_dd_fast_eq; exact H].
Qed.
Print Assumptions C08_executable_reachability_is_the_specified_one.
