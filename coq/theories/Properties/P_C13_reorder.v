(** C13: after reordering, the diagram of every held edge denotes the same
    function of the renamed variables (value at the new assignment x' = value
    of the original at x' composed with the level map), and obeys the forest's
    reduction rule. *)
From Coq Require Import List Arith ZArith Bool.
From Meddly Require Import Model.DD Model.Reorder Proofs.DDFacts Proofs.Canon Proofs.Reduce Proofs.ReorderP.

Theorem C13_reordered_diagram_same_function :
  forall (sz' : nat -> nat), (forall k, 1 <= sz' k) ->
  forall r L src t x',
  valid sz' x' -> is_ir r && Nat.odd L = false ->
  (forall j, 1 <= j <= dep (is_ir r) L -> 1 <= src j <= L) ->
  eval r L (permute_dd sz' r L src t) x' = eval r L t (fun j => x' (src j)).
Proof. intros. now apply permute_dd_eval. Qed.
Print Assumptions C13_reordered_diagram_same_function.

Theorem C13_reordered_diagram_reduced :
  forall (sz' : nat -> nat), (forall k, 1 <= sz' k) ->
  forall r, paired sz' r -> forall L src t, is_ir r && Nat.odd L = false ->
  reducedb sz' r L None (permute_dd sz' r L src t) = true.
Proof. intros. now apply permute_dd_reduced. Qed.
Print Assumptions C13_reordered_diagram_reduced.
