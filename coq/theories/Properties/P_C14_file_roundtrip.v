(** C14: for every list of root diagrams (sharing sub-diagrams, with terminal
    and repeated roots), writing them as numbered node records and reading the
    records back returns exactly the diagrams written, in the same order. *)
From Coq Require Import List.
From Meddly Require Import Model.DD Model.IOFile Proofs.IOFileP.

Theorem C14_read_write_is_identity : forall ts : list dd,
  read_file (write_file ts) = ts.
Proof. exact read_write_file. Qed.
Print Assumptions C14_read_write_is_identity.
