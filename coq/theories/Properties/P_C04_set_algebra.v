(** C04: union, intersection, difference and complement are pointwise OR, AND,
    AND-NOT, NOT, for operands and result in forests with any mix of reduction
    rules; the result obeys the result forest's reduction rule.  (Operands are
    immutable values in the model: "operands are never changed" is checked on
    the implementation by the correspondence run.) *)
From Coq Require Import List Arith ZArith Bool.
From Meddly Require Import Model.DD Model.Scalar Proofs.DDFacts Proofs.Canon Proofs.Reduce.

Definition setop (o : binop) : Prop := o = OUnion \/ o = OInter \/ o = ODiff.

Theorem C04_binary_pointwise :
  forall (sz : nat -> nat), (forall k, 1 <= sz k) ->
  forall (o : binop) (ra rb rr : rule) L a b x,
  valid sz x -> wf L a -> wf L b ->
  (is_ir ra || is_ir rb || is_ir rr) && Nat.odd L = false ->
  eval rr L (apply2 sz (scalar2 o 1 1) ra rb rr L 0 a b) x
  = scalar2 o 1 1 (eval ra L a x) (eval rb L b x).
Proof.
  intros sz H1 o ra rb rr L a b x Hx Ha Hb Hc.
  apply (apply2_eval sz ra rb rr); auto; intros E;
    destruct (is_ir ra), (is_ir rb), (is_ir rr), (Nat.odd L); cbn in *; discriminate.
Qed.
Print Assumptions C04_binary_pointwise.

Theorem C04_scalar_meaning :
  forall a b : Z,
  scalar2 OUnion 1 1 a b = (if truthy a || truthy b then 1 else 0)%Z /\
  scalar2 OInter 1 1 a b = (if truthy a && truthy b then 1 else 0)%Z /\
  scalar2 ODiff 1 1 a b = (if truthy a && negb (truthy b) then 1 else 0)%Z /\
  compl 1 a = (if truthy a then 0 else 1)%Z.
Proof. intros a b. unfold scalar2, compl, b2z. destruct (truthy a), (truthy b); auto. Qed.
Print Assumptions C04_scalar_meaning.

Theorem C04_complement_pointwise :
  forall (sz : nat -> nat), (forall k, 1 <= sz k) ->
  forall (ra rr : rule) L a x,
  valid sz x -> wf L a ->
  (is_ir ra || is_ir rr) && Nat.odd L = false ->
  eval rr L (apply1 sz (compl 1) ra rr L 0 a) x = compl 1 (eval ra L a x).
Proof.
  intros sz H1 ra rr L a x Hx Ha Hc.
  apply (apply1_eval sz ra rr); auto; intros E;
    destruct (is_ir ra), (is_ir rr), (Nat.odd L); cbn in *; discriminate.
Qed.
Print Assumptions C04_complement_pointwise.

Theorem C04_result_reduced :
  forall (sz : nat -> nat), (forall k, 1 <= sz k) ->
  forall (f : Z -> Z -> Z) (ra rb rr : rule), paired sz rr ->
  forall L a b, is_ir rr && Nat.odd L = false ->
  reducedb sz rr L None (apply2 sz f ra rb rr L 0 a b) = true.
Proof.
  intros sz H1 f ra rb rr Hp L a b Hc.
  eapply reduced_from_irrel; [exact Hc|]. now apply apply2_reduced.
Qed.
Print Assumptions C04_result_reduced.
