(** C15: in the index table, entry i is None (+infinity) when the set's value
    at the i-th assignment is 0, and otherwise Some of the number of members
    that precede it in lexicographic order; every index is below the number of
    members. *)
From Coq Require Import List Arith ZArith Bool.
From Meddly Require Import Model.DD Model.Enum Proofs.EnumP.

Theorem C15_rank_is_number_of_preceding_members : forall vals i,
  i < length vals ->
  nth i (rank_table vals 0) None =
  if Z.eqb (nth i vals 0%Z) 0 then None else Some (count_nz (firstn i vals)).
Proof. intros. now rewrite rank_table_spec. Qed.
Print Assumptions C15_rank_is_number_of_preceding_members.

Theorem C15_indices_below_cardinality : forall vals i k,
  nth i (rank_table vals 0) None = Some k -> k < count_nz vals.
Proof. exact rank_table_range. Qed.
Print Assumptions C15_indices_below_cardinality.
