(** C01 (function level): two diagrams that obey the forest's reduction rule
    and denote the same function are identical -- for fully-, quasi- and
    identity-reduced forests, sets and relations, any domain. *)
From Coq Require Import List Arith ZArith Bool.
From Meddly Require Import Model.DD Proofs.DDFacts Proofs.Canon Proofs.Reduce.

Theorem C01_canonicity :
  forall (sz : nat -> nat) (r : rule),
  (forall k, 1 <= sz k) ->
  (is_ir r = true -> forall L, Nat.odd L = true -> sz L = sz (S L)) ->
  (is_ir r = true -> forall k, 2 <= sz k) ->
  forall L t1 t2,
  reducedb sz r L None t1 = true ->
  reducedb sz r L None t2 = true ->
  (forall x, valid sz x -> eval r L t1 x = eval r L t2 x) ->
  t1 = t2.
Proof.
  intros sz r H1 H2 H3 L t1 t2 R1 R2 E.
  apply (canon sz r H1 H2 H3 L None t1 t2 I R1 R2). intros x Hx _. apply E, Hx.
Qed.
Print Assumptions C01_canonicity.
