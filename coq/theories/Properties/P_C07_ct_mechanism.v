(** C07 (mechanism level): compute-table entries, cache counts and handle
    recycling as a state machine (Model/CTStore.v).  For EVERY history of node
    creations on recycled handles (allowed only when the handle holds no node and
    its cache count is zero), reclamations, entry insertions and sweeps of
    stale entries:
    - each handle's cache count equals the number of stored entries that mention it;
    - an entry that a lookup may return (stored, not stale) names on every handle
      the very node generation it was computed for, still alive: a cache entry is
      never returned once any node it mentions has been reclaimed, and a recycled
      handle can never make an old entry look valid. *)
From Coq Require Import List Arith Bool.
From Meddly Require Import Model.CTStore Proofs.CTStoreP.
Import ListNotations.

Theorem C07_cache_counts_are_exact :
  forall os h, let s := fold_left ctstep os ct_init in
  h_cc (ct_h s h) = mentions (ct_entries s) h.
Proof. intros os h s. apply (inv_cc _ (run_inv os ct_init init_inv)). Qed.
Print Assumptions C07_cache_counts_are_exact.

Theorem C07_a_returned_entry_names_the_nodes_it_was_computed_for :
  forall os e, let s := fold_left ctstep os ct_init in
  ct_hit s e ->
  forall h st, In (h, st) e -> h_alive (ct_h s h) = true /\ h_stamp (ct_h s h) = st.
Proof. intros os e s Hh. apply hit_is_genuine; [apply (run_inv os ct_init init_inv)|exact Hh]. Qed.
Print Assumptions C07_a_returned_entry_names_the_nodes_it_was_computed_for.

(** the guard matters: this history recycles handle 1 while an entry mentions it,
    which [ctstep] refuses (the state is unchanged by the second TNew) *)
Example C07_recycling_is_refused_while_cached :
  let s := fold_left ctstep [TNew 1; TNew 2; TAdd [1; 2]; TKill 1; TNew 1] ct_init in
  h_alive (ct_h s 1) = false /\ h_cc (ct_h s 1) = 1.
Proof. vm_compute. split; reflexivity. Qed.
