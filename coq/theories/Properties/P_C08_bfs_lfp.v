(** C08: the breadth-first reachability iterations -- without a frontier
    (S := S U post(S) until no change) and with a frontier (S := S U post(F),
    F := the new states, until F is empty) -- return exactly the set of states
    reachable from the initial set in zero or more steps, for every finite
    list of states, every relation and every initial set; and the first one
    terminates within |states|+1 rounds. *)
From Coq Require Import List Arith Bool Lia.
From Meddly Require Import Model.Reach Proofs.ReachP.

Theorem C08_bfs_without_frontier_is_lfp :
  forall (St : Type) (states : list St) (R : St -> St -> bool) fuel init S,
  bfs St states R fuel init = Some S ->
  forall y, In y states -> (S y = true <-> Reach St states R init y).
Proof.
  intros St states R fuel init S H. apply (bfs_lfp St states R fuel init init S); auto.
  intros y Hy Hi. now apply Reach0.
Qed.
Print Assumptions C08_bfs_without_frontier_is_lfp.

Theorem C08_bfs_terminates :
  forall (St : Type) (states : list St) (R : St -> St -> bool) init,
  bfs St states R (S (length states)) init <> None.
Proof. intros. apply bfs_terminates. pose proof (card_le St states init). lia. Qed.
Print Assumptions C08_bfs_terminates.

Theorem C08_bfs_with_frontier_is_lfp :
  forall (St : Type) (states : list St) (R : St -> St -> bool) fuel init S,
  bfs_front St states R fuel init init = Some S ->
  forall y, In y states -> (S y = true <-> Reach St states R init y).
Proof.
  intros St states R fuel init S H.
  apply (bfs_front_lfp St states R fuel init init init S); auto.
  - intros y Hy Hi. now apply Reach0.
  - intros x y _ _ Hx Hfx. congruence.
Qed.
Print Assumptions C08_bfs_with_frontier_is_lfp.
