(** C09: the post-image of a set under a relation evaluates to 1 exactly at
    the states that have an incoming edge from a member, for set/relation/
    result forests of any reduction rule. *)
From Coq Require Import List Arith ZArith Bool.
From Meddly Require Import Model.DD Model.Scalar Model.Reach Proofs.DDFacts Proofs.ImageP.

Theorem C09_post_image_relational :
  forall (szS : nat -> nat), (forall k, 1 <= szS k) ->
  forall K (rS rR rOut : rule) s r y,
  valid szS y -> is_ir rOut && Nat.odd K = false ->
  (eval rOut K (post_dd szS K rS rR rOut s r) y = 1%Z <->
   exists x, In x (states_of szS K) /\ set_mem K rS s x = true /\ rel_mem K rR r x y = true).
Proof. intros. now apply post_dd_relational. Qed.
Print Assumptions C09_post_image_relational.
