(** C09: the post-image of a set under a relation evaluates to 1 exactly at
    the states that have an incoming edge from a member, for set/relation/
    result forests of any reduction rule. *)
From Coq Require Import List Arith ZArith Bool.
From Meddly Require Import Model.DD Model.Scalar Model.Reach Proofs.DDFacts Proofs.ImageP.

Theorem C09_post_image_relational :
  forall (szS : nat -> nat), (forall k, 1 <= szS k) ->
  forall K (rS rR rOut : rule) s r y,
  valid szS y -> is_ir rOut && Nat.odd K = false ->
  (eval rOut K (post_dd szS K rS rR rOut s r) y = 1%Z <->
   exists x, In x (states_of szS K) /\ set_mem K rS s x = true /\ rel_mem K rR r x y = true).
Proof. intros. now apply post_dd_relational. Qed.
Print Assumptions C09_post_image_relational.

(** the pre-image: states with an outgoing edge to a member *)
Theorem C09_pre_image_relational :
  forall (szS : nat -> nat), (forall k, 1 <= szS k) ->
  forall K (rS rR rOut : rule) s r x,
  valid szS x -> is_ir rOut && Nat.odd K = false ->
  (eval rOut K (pre_dd szS K rS rR rOut s r) x = 1%Z <->
   exists y, In y (states_of szS K) /\ set_mem K rS s y = true /\ rel_mem K rR r x y = true).
Proof. intros. now apply pre_dd_relational. Qed.
Print Assumptions C09_pre_image_relational.

(** vector-matrix and matrix-vector products: the sum over the shared index of
    the products of the entries *)
Theorem C09_vector_matrix_product :
  forall (szS : nat -> nat), (forall k, 1 <= szS k) ->
  forall K (rS rR rOut : rule) v m y,
  valid szS y -> is_ir rOut && Nat.odd K = false ->
  eval rOut K (vm_dd szS K rS rR rOut v m) y
  = fold_left Z.add
      (map (fun x => (eval rS K v x * eval rR (2 * K) m (pair_asg x y))%Z) (states_of szS K)) 0%Z.
Proof. intros. now apply vm_dd_eval. Qed.
Print Assumptions C09_vector_matrix_product.

Theorem C09_matrix_vector_product :
  forall (szS : nat -> nat), (forall k, 1 <= szS k) ->
  forall K (rS rR rOut : rule) m v x,
  valid szS x -> is_ir rOut && Nat.odd K = false ->
  eval rOut K (mv_dd szS K rS rR rOut m v) x
  = fold_left Z.add
      (map (fun y => (eval rR (2 * K) m (pair_asg x y) * eval rS K v y)%Z) (states_of szS K)) 0%Z.
Proof. intros. now apply mv_dd_eval. Qed.
Print Assumptions C09_matrix_vector_product.
