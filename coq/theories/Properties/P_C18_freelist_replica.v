(** C18 (free-list manager): the deterministic replica of freelists.cc that the
    correspondence check compares with the implementation response by response
    is itself safe: for every history of requests (sizes 1..15, fresh
    identifiers) and recycles of live chunks, every response is accepted by the
    monitor -- each chunk handed out is disjoint from every live chunk -- and
    the live chunks stay pairwise disjoint. *)
From Coq Require Import List ZArith Bool.
From Meddly Require Import Model.MemSpec Proofs.MemSpecP Proofs.FreeListP.
Import ListNotations.

Theorem C18_freelist_replica_never_rejected :
  forall os, legal_run (fl_init, []) os ->
  exists fl' live',
    fold_left (fun st o => match st with Some s => sys_step s o | None => None end) os
              (Some (fl_init, [])) = Some (fl', live') /\ Safe live'.
Proof.
  intros os Hl.
  destruct (freelist_never_rejected os fl_init [] Inv_init Safe_nil Hl) as (fl' & live' & E & _ & Hs).
  exists fl', live'. split; [exact E|exact Hs].
Qed.
Print Assumptions C18_freelist_replica_never_rejected.

Local Open Scope Z_scope.
Example C18_freelist_replica_runs :
  exists fl live,
    fold_left (fun st o => match st with Some s => sys_step s o | None => None end)
      [CReq 0 3; CReq 1 3; CRec 0; CReq 2 3; CReq 3 5] (Some (fl_init, [])) = Some (fl, live)
    /\ map c_addr live = [7; 1; 4].
Proof. eexists _, _. split; [vm_compute; reflexivity|reflexivity]. Qed.
