(** C08 (saturation): the level-wise nested fixed point -- saturate all lower
    levels, fire this level's events, repeat until nothing changes -- returns
    exactly the set of states reachable under the union of all events, agrees
    state by state with the breadth-first iteration, and terminates within
    |states|+1 rounds per level.  More generally, ANY sequence of firings of
    single events on arbitrary parts of the current set that ends in a set
    closed under every event returns that same set: the order in which
    saturation fires events is irrelevant to its result. *)
From Coq Require Import List Arith Bool.
From Meddly Require Import Model.Reach Proofs.ReachP Proofs.SaturP.

Theorem C08_saturation_is_lfp :
  forall (St : Type) (states : list St) (lv : list (St -> St -> bool)) fuel init S,
  saturate St states lv fuel init = Some S ->
  forall y, In y states -> (S y = true <-> Reach St states (union_rel St lv) init y).
Proof. exact saturate_lfp. Qed.
Print Assumptions C08_saturation_is_lfp.

Theorem C08_saturation_terminates :
  forall (St : Type) (states : list St) (lv : list (St -> St -> bool)) S0,
  saturate St states lv (S (length states)) S0 <> None.
Proof. exact saturate_terminates. Qed.
Print Assumptions C08_saturation_terminates.

Theorem C08_saturation_agrees_with_bfs :
  forall (St : Type) (states : list St) (lv : list (St -> St -> bool)) fuel fuel' init S S',
  saturate St states lv fuel init = Some S ->
  bfs St states (union_rel St lv) fuel' init = Some S' ->
  forall y, In y states -> S y = S' y.
Proof. exact saturate_agrees_with_bfs. Qed.
Print Assumptions C08_saturation_agrees_with_bfs.

Theorem C08_any_closed_firing_sequence_is_lfp :
  forall (St : Type) (states : list St) (evs : list (St -> St -> bool))
         (sched : list ((St -> St -> bool) * (St -> bool))) (init : St -> bool),
  (forall p, In p sched -> In (fst p) evs) ->
  let S := fire_seq St states sched init in
  (forall e x y, In e evs -> In x states -> In y states ->
     S x = true -> e x y = true -> S y = true) ->
  forall y, In y states -> (S y = true <-> Reach St states (union_rel St evs) init y).
Proof. exact chaotic_lfp. Qed.
Print Assumptions C08_any_closed_firing_sequence_is_lfp.

(** non-vacuity: three states 0 -> 1 (event a, low level), 1 -> 2 (event b,
    top level); saturation from {0} returns a set *)
Import ListNotations.
Example C08_saturation_runs :
  exists S, saturate nat [0; 1; 2]
              [ (fun x y => Nat.eqb x 1 && Nat.eqb y 2); (fun x y => Nat.eqb x 0 && Nat.eqb y 1) ]
              4 (fun x => Nat.eqb x 0) = Some S /\ map S [0; 1; 2] = [true; true; true].
Proof. eexists. split; [vm_compute; reflexivity|reflexivity]. Qed.
