(** C02, the order "child strictly below parent" is the order of the code: the level
    functions GENERATED from src/forest_levels.h and src/defines.h (Gen/Levels.v) agree
    with [lpos] and [down_level], which the audit model (Model/Audit.v) uses to decide
    "strictly below" and "exactly one level down", for every level an int can hold. *)
From Coq Require Import ZArith String.
From Meddly Require Import Model.Bits Model.Audit Gen.Levels Proofs.LevelsP.
Local Open Scope Z_scope.

Theorem C02_isLevelAbove_is_position_order : forall k1 k2,
  lvl_ok k1 -> lvl_ok k2 ->
  isLevelAbove k1 k2 = Ok (if lpos true k2 <? lpos true k1 then 1 else 0).
Proof. exact isLevelAbove_model. Qed.
Print Assumptions C02_isLevelAbove_is_position_order.

Theorem C02_isLevelAbove_set_forests : forall k1 k2,
  0 <= k1 <= 2147483647 -> 0 <= k2 <= 2147483647 ->
  isLevelAbove k1 k2 = Ok (if lpos false k2 <? lpos false k1 then 1 else 0).
Proof. exact isLevelAbove_set. Qed.
Print Assumptions C02_isLevelAbove_set_forests.

Theorem C02_isLevelAbove_strict_total : forall k1 k2,
  lvl_ok k1 -> lvl_ok k2 -> k1 <> k2 ->
  isLevelAbove k1 k2 = Ok 1 /\ isLevelAbove k2 k1 = Ok 0 \/
  isLevelAbove k1 k2 = Ok 0 /\ isLevelAbove k2 k1 = Ok 1.
Proof. exact isLevelAbove_total. Qed.
Print Assumptions C02_isLevelAbove_strict_total.

Theorem C02_downLevel_relation : forall k,
  lvl_ok k -> MXD_downLevel k = Ok (down_level true k).
Proof. exact MXD_downLevel_model. Qed.
Print Assumptions C02_downLevel_relation.

Theorem C02_downLevel_set : forall k,
  lvl_ok k -> MDD_downLevel k = Ok (down_level false k).
Proof. exact MDD_downLevel_model. Qed.
Print Assumptions C02_downLevel_set.

Theorem C02_downLevel_is_one_position_down : forall k,
  k <> 0 -> lpos true (down_level true k) = lpos true k - 1.
Proof. exact down_level_lpos. Qed.
Print Assumptions C02_downLevel_is_one_position_down.

Theorem C02_upLevel_inverts_downLevel : forall k,
  lvl_ok k -> k <> 0 -> MXD_upLevel (val (MXD_downLevel k)) = Ok k.
Proof. exact MXD_up_down. Qed.
Print Assumptions C02_upLevel_inverts_downLevel.

Theorem C02_topLevel_is_higher_position : forall k1 k2,
  lvl_ok k1 -> lvl_ok k2 ->
  exists t, MXD_topLevel k1 k2 = Ok t /\ (t = k1 \/ t = k2) /\
            lpos true t = Z.max (lpos true k1) (lpos true k2).
Proof. exact MXD_topLevel_model. Qed.
Print Assumptions C02_topLevel_is_higher_position.

Example C02_level_order_nonvacuous :
  lvl_ok 3 /\ lvl_ok (-3) /\ isLevelAbove 3 (-3) = Ok 1 /\ isLevelAbove (-3) 2 = Ok 1 /\
  MXD_downLevel 3 = Ok (-3) /\ MXD_downLevel (-3) = Ok 2.
Proof. unfold lvl_ok. repeat split; try reflexivity; discriminate. Qed.
