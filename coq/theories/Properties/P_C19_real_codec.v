(** C19, reals (all 2^32 single-precision patterns, NaNs included): a float
    that is non-zero after the documented rounding (last mantissa bit dropped:
    [clear_lsb]) is recovered as that rounded pattern and gets a negative
    (terminal) handle; patterns that differ after rounding get different
    handles; the transparent handle 0 is given exactly to the values that are
    +-0.0 after rounding. *)
From Coq Require Import ZArith String.
From Meddly Require Import Model.Bits Gen.Terminal Proofs.TerminalP.
Local Open Scope Z_scope.

Theorem C19_real_roundtrip : forall b,
  0 <= b < 2 ^ 32 -> float_nonzero (clear_lsb b) = true ->
  exists h, getRealHandle b = Ok h /\ h < 0 /\ setFromHandle_REAL h = Ok (clear_lsb b).
Proof. exact real_roundtrip. Qed.
Print Assumptions C19_real_roundtrip.

Theorem C19_real_injective_after_rounding : forall b c,
  0 <= b < 2 ^ 32 -> 0 <= c < 2 ^ 32 ->
  float_nonzero (clear_lsb b) = true -> float_nonzero (clear_lsb c) = true ->
  getRealHandle b = getRealHandle c -> clear_lsb b = clear_lsb c.
Proof. exact real_injective_after_rounding. Qed.
Print Assumptions C19_real_injective_after_rounding.

Theorem C19_real_zero_handle_iff : forall b, 0 <= b < 2 ^ 32 ->
  (getRealHandle b = Ok 0 <-> float_nonzero (clear_lsb b) = false).
Proof. exact real_zero_handle_iff. Qed.
Print Assumptions C19_real_zero_handle_iff.
