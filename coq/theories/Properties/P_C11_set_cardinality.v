(** C11 + C04 (function level): the cardinality operation agrees with the set
    algebra.  For sets [a], [b] in forests of any reduction rules and a result
    forest of any rule: |a u b| + |a n b| = |a| + |b|, |a \ b| + |a n b| = |a|,
    and |complement a| + |a| = size of the domain -- for every domain and
    every pair of diagrams, with [cardinality] the length of the enumeration
    that C11_enum_sound_complete characterises. *)
From Coq Require Import List Arith ZArith Bool Lia.
From Meddly Require Import Model.DD Model.Build Model.Scalar Model.Enum
  Proofs.DDFacts Proofs.Canon Proofs.Reduce.
Import ListNotations.

Lemma all_asg_valid (sz : nat -> nat) : (forall k, 1 <= sz k) ->
  forall L x, In x (all_asg sz L) -> valid sz x.
Proof.
  intros H1. induction L as [|L IH]; intros x Hin.
  - destruct Hin as [<-|[]]. intros k. apply H1.
  - cbn [all_asg] in Hin. apply in_flat_map in Hin. destruct Hin as (i & Hi & Hin).
    apply in_map_iff in Hin. destruct Hin as (x0 & <- & Hx0).
    apply upd_valid; [now apply IH|]. apply in_seq in Hi. lia.
Qed.

Definition nz (v : Z) : bool := negb (Z.eqb v 0).

Lemma card_as_count (sz : nat -> nat) r L t :
  cardinality sz r L t = length (filter (fun x => nz (eval r L t x)) (all_asg sz L)).
Proof.
  unfold cardinality, enum.
  assert (Hm : filter (fun x => matches L [] x) (all_asg sz L) = all_asg sz L).
  { assert (Hall : forall x, matches L [] x = true).
    { intros x. unfold matches. apply forallb_forall. intros p _. unfold pos_ok, pos_at. now destruct (p - 1). }
    induction (all_asg sz L) as [|x l IH]; cbn; [reflexivity|]. now rewrite Hall, IH. }
  rewrite Hm. clear Hm. induction (all_asg sz L) as [|x l IH]; cbn; [reflexivity|].
  unfold nz. destruct (negb (eval r L t x =? 0)%Z); cbn; now rewrite IH.
Qed.

Lemma count_incl_excl {A} (pa pb pu pi : A -> bool) (l : list A) :
  (forall x, In x l -> pu x = pa x || pb x) ->
  (forall x, In x l -> pi x = pa x && pb x) ->
  length (filter pu l) + length (filter pi l) = length (filter pa l) + length (filter pb l).
Proof.
  induction l as [|x l IH]; intros Hu Hi; [reflexivity|].
  cbn. rewrite (Hu x (or_introl eq_refl)), (Hi x (or_introl eq_refl)).
  assert (IH' := IH (fun y Hy => Hu y (or_intror Hy)) (fun y Hy => Hi y (or_intror Hy))).
  destruct (pa x), (pb x); cbn; lia.
Qed.

Lemma count_split {A} (pa pd pi : A -> bool) (l : list A) :
  (forall x, In x l -> pd x = pa x && negb (pi x) /\ (pi x = true -> pa x = true)) ->
  length (filter pd l) + length (filter pi l) = length (filter pa l).
Proof.
  induction l as [|x l IH]; intros H; [reflexivity|].
  cbn. destruct (H x (or_introl eq_refl)) as [E Himp]. rewrite E.
  assert (IH' := IH (fun y Hy => H y (or_intror Hy))).
  destruct (pa x), (pi x); cbn; try lia; specialize (Himp eq_refl); discriminate.
Qed.

Lemma count_compl {A} (p q : A -> bool) (l : list A) :
  (forall x, In x l -> q x = negb (p x)) ->
  length (filter q l) + length (filter p l) = length l.
Proof.
  induction l as [|x l IH]; intros H; [reflexivity|].
  cbn. rewrite (H x (or_introl eq_refl)).
  assert (IH' := IH (fun y Hy => H y (or_intror Hy))).
  destruct (p x); cbn; lia.
Qed.

Theorem C11_union_intersection_cardinality :
  forall (sz : nat -> nat), (forall k, 1 <= sz k) ->
  forall (ra rb rr : rule) L a b, wf L a -> wf L b ->
  (is_ir ra || is_ir rb || is_ir rr) && Nat.odd L = false ->
  cardinality sz rr L (apply2 sz (scalar2 OUnion 1 1) ra rb rr L 0 a b)
  + cardinality sz rr L (apply2 sz (scalar2 OInter 1 1) ra rb rr L 0 a b)
  = cardinality sz ra L a + cardinality sz rb L b.
Proof.
  intros sz H1 ra rb rr L a b Ha Hb Hc. rewrite !card_as_count.
  assert (Ev : forall o x, In x (all_asg sz L) ->
             eval rr L (apply2 sz (scalar2 o 1 1) ra rb rr L 0 a b) x
             = scalar2 o 1 1 (eval ra L a x) (eval rb L b x)).
  { intros o x Hin. pose proof (all_asg_valid sz H1 L x Hin) as Hx.
    apply (apply2_eval sz ra rb rr); auto; intros E;
      destruct (is_ir ra), (is_ir rb), (is_ir rr), (Nat.odd L); cbn in *; discriminate. }
  apply count_incl_excl; intros x Hin; rewrite (Ev _ x Hin);
    unfold scalar2, b2z, nz, truthy;
    destruct (eval ra L a x =? 0)%Z, (eval rb L b x =? 0)%Z; reflexivity.
Qed.
Print Assumptions C11_union_intersection_cardinality.

Theorem C11_difference_cardinality :
  forall (sz : nat -> nat), (forall k, 1 <= sz k) ->
  forall (ra rb rr : rule) L a b, wf L a -> wf L b ->
  (is_ir ra || is_ir rb || is_ir rr) && Nat.odd L = false ->
  cardinality sz rr L (apply2 sz (scalar2 ODiff 1 1) ra rb rr L 0 a b)
  + cardinality sz rr L (apply2 sz (scalar2 OInter 1 1) ra rb rr L 0 a b)
  = cardinality sz ra L a.
Proof.
  intros sz H1 ra rb rr L a b Ha Hb Hc. rewrite !card_as_count.
  apply count_split; intros x Hin; pose proof (all_asg_valid sz H1 L x Hin) as Hx.
  assert (Ed : eval rr L (apply2 sz (scalar2 ODiff 1 1) ra rb rr L 0 a b) x
               = scalar2 ODiff 1 1 (eval ra L a x) (eval rb L b x))
    by (apply (apply2_eval sz ra rb rr); auto; intros E;
        destruct (is_ir ra), (is_ir rb), (is_ir rr), (Nat.odd L); cbn in *; discriminate).
  assert (Ei : eval rr L (apply2 sz (scalar2 OInter 1 1) ra rb rr L 0 a b) x
               = scalar2 OInter 1 1 (eval ra L a x) (eval rb L b x))
    by (apply (apply2_eval sz ra rb rr); auto; intros E;
        destruct (is_ir ra), (is_ir rb), (is_ir rr), (Nat.odd L); cbn in *; discriminate).
  rewrite Ed, Ei. unfold scalar2, b2z, nz, truthy.
  destruct (eval ra L a x =? 0)%Z, (eval rb L b x =? 0)%Z; cbn; split; auto; discriminate.
Qed.
Print Assumptions C11_difference_cardinality.

Theorem C11_complement_cardinality :
  forall (sz : nat -> nat), (forall k, 1 <= sz k) ->
  forall (ra rr : rule) L a, wf L a ->
  (is_ir ra || is_ir rr) && Nat.odd L = false ->
  cardinality sz rr L (apply1 sz (compl 1) ra rr L 0 a) + cardinality sz ra L a
  = length (all_asg sz L).
Proof.
  intros sz H1 ra rr L a Ha Hc. rewrite !card_as_count.
  apply count_compl. intros x Hin. pose proof (all_asg_valid sz H1 L x Hin) as Hx.
  replace (eval rr L (apply1 sz (compl 1) ra rr L 0 a) x) with (compl 1 (eval ra L a x)).
  - unfold compl, b2z, nz, truthy. destruct (eval ra L a x =? 0)%Z; reflexivity.
  - symmetry. apply (apply1_eval sz ra rr); auto; intros E;
      destruct (is_ir ra), (is_ir rr), (Nat.odd L); cbn in *; discriminate.
Qed.
Print Assumptions C11_complement_cardinality.

(** non-vacuity *)
Definition ex_a : dd := N 2 [N 1 [T 0%Z; T 1%Z]; T 1%Z].
Definition ex_b : dd := N 1 [T 1%Z; T 0%Z].
Example C11_set_cardinality_example :
  wf 2 ex_a /\ wf 2 ex_b /\
  cardinality (fun _ => 2) FR 2 ex_a = 3 /\ cardinality (fun _ => 2) FR 2 ex_b = 2 /\
  cardinality (fun _ => 2) FR 2 (apply2 (fun _ => 2) (scalar2 OUnion 1 1) FR FR FR 2 0 ex_a ex_b) = 4 /\
  cardinality (fun _ => 2) FR 2 (apply2 (fun _ => 2) (scalar2 OInter 1 1) FR FR FR 2 0 ex_a ex_b) = 1.
Proof. vm_compute. repeat split; auto. Qed.
