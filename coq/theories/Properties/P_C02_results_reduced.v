(** C02 (function level): every diagram produced by node reduction, by the
    builders, by the canonical construction and by the apply recursions obeys
    the reduction rule of its forest ([reducedb]: no transparent node, no
    redundant node where forbidden, no level skipped in a quasi-reduced
    forest, no illegal singleton edge in an identity-reduced relation,
    children strictly below, full child lists). *)
From Coq Require Import List Arith ZArith Bool.
From Meddly Require Import Model.DD Model.Build Proofs.DDFacts Proofs.Canon Proofs.Reduce Proofs.BuildP.

Theorem C02_mk_reduced :
  forall (sz : nat -> nat), (forall k, 1 <= sz k) ->
  forall r, paired sz r -> forall L from cs,
  length cs = sz (S L) ->
  (forall i, i < length cs -> reducedb sz r L (Some i) (nth i cs zero) = true) ->
  reducedb sz r (S L) (Some from) (mk r (S L) from cs) = true.
Proof. intros. now apply mk_reduced. Qed.
Print Assumptions C02_mk_reduced.

Theorem C02_operations_return_reduced :
  forall (sz : nat -> nat), (forall k, 1 <= sz k) ->
  forall rr, paired sz rr -> forall L, is_ir rr && Nat.odd L = false ->
  (forall f ra rb a b, reducedb sz rr L None (apply2 sz f ra rb rr L 0 a b) = true) /\
  (forall f ra a, reducedb sz rr L None (apply1 sz f ra rr L 0 a) = true) /\
  (forall comb dv ms, reducedb sz rr L None (build sz comb dv rr L 0 ms) = true) /\
  (forall g x, reducedb sz rr L None (of_fun sz rr L 0 g x) = true).
Proof.
  intros sz H1 rr Hp L Hc. repeat split; intros;
    (eapply reduced_from_irrel; [exact Hc|]).
  - now apply apply2_reduced.
  - now apply apply1_reduced.
  - now apply build_reduced.
  - now apply of_fun_reduced.
Qed.
Print Assumptions C02_operations_return_reduced.
