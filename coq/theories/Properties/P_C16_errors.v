(** C16 (model side): an operation whose scalar meaning is undefined at some
    point (zero divisor) is flagged by [scalar2_undefined] exactly there, and
    the integer terminal codec rejects exactly the values outside the window
    (so VALUE_OVERFLOW and DIVIDE_BY_ZERO are decided by total functions of
    the model); on operands for which nothing is flagged the model operation
    is the total pointwise function of C05. *)
From Coq Require Import ZArith Bool String Lia.
From Meddly Require Import Model.Scalar Model.Bits Gen.Terminal Proofs.TerminalP.
Local Open Scope Z_scope.

Theorem C16_undefined_iff_zero_divisor : forall o a b,
  scalar2_undefined o a b = true <-> (o = ODiv \/ o = OMod) /\ b = 0.
Proof.
  intros o a b. destruct o; cbn; try (split; [discriminate|intros [[H|H] _]; discriminate]);
    rewrite Z.eqb_eq; split; intros H; try tauto; split; auto.
Qed.
Print Assumptions C16_undefined_iff_zero_divisor.

Theorem C16_overflow_exactly_outside_window : forall v,
  - 2 ^ 63 <= v < 2 ^ 63 ->
  (getIntegerHandle v = Err "VALUE_OVERFLOW"%string <-> v < intMin \/ v > intMax).
Proof.
  intros v Hv. split.
  - intros H. destruct (Z_lt_ge_dec v intMin) as [|H1]; [now left|].
    destruct (Z_gt_le_dec v intMax) as [|H2]; [now right|].
    destruct (int_roundtrip v ltac:(lia)) as (h & Hh & _). rewrite Hh in H. discriminate.
  - now apply int_overflow.
Qed.
Print Assumptions C16_overflow_exactly_outside_window.
