(** C06, both deletion policies and the cache counts (Model/OptStore.v): for EVERY
    history of node creations (unique-table lookup, which may revive an unreferenced
    node kept by a cache entry), reference duplications and drops, and cache entries
    added and removed,
    - incoming counts are exact (child slots of nodes in the table + user references)
      and cache counts are exact (number of cache entries that mention the node);
    - pessimistic: a node is in the table iff it is referenced (it is reclaimed as soon
      as it is unreferenced), and its handle stays reserved while a cache entry still
      mentions it;
    - optimistic: a node is in the table iff it is referenced or a cache entry mentions
      it (it is reclaimed once no cache entry mentions it);
    - a handle is free exactly when both counts are zero ("handles are reused only
      after that");
    - with no user reference and no cache entry left, the table is empty. *)
From Coq Require Import List ZArith Bool Arith.
From Meddly Require Import Model.RefStore Model.OptStore Proofs.RefStoreP Proofs.OptStoreP.
Import ListNotations.
Local Open Scope Z_scope.

Theorem C06_policy_invariant_along_every_history :
  forall opt ops, ovalid_run (os_init opt) ops ->
  OInv (fold_left ostep ops (os_init opt)) /\ os_opt (fold_left ostep ops (os_init opt)) = opt.
Proof.
  intros opt ops Hv. apply (orun_inv ops (os_init opt)); [apply oinit_inv|reflexivity|exact Hv].
Qed.
Print Assumptions C06_policy_invariant_along_every_history.

Theorem C06_both_counts_exact :
  forall opt ops, ovalid_run (os_init opt) ops ->
  let s := fold_left ostep ops (os_init opt) in
  forall id, 0 < id ->
  os_cnt s id = (node_refs (os_nodes s) id + name_refs (os_names s) id)%nat /\
  os_cc s id = name_refs (os_toks s) id.
Proof.
  intros opt ops Hv s id Hid.
  destruct (C06_policy_invariant_along_every_history opt ops Hv) as [[HI Hcc _ _] _].
  split; [|exact (Hcc id Hid)].
  unfold s. rewrite (ci_exact _ _ _ _ _ _ HI id Hid). unfold cnt_occ. cbn [count_occ]. apply Nat.add_0_r.
Qed.
Print Assumptions C06_both_counts_exact.

Theorem C06_pessimistic_reclaims_when_unreferenced :
  forall ops, ovalid_run (os_init false) ops ->
  let s := fold_left ostep ops (os_init false) in
  forall id, 0 < id -> (in_table (os_nodes s) id = true <-> (1 <= os_cnt s id)%nat).
Proof.
  intros ops Hv s id Hid.
  destruct (C06_policy_invariant_along_every_history false ops Hv) as [HI Ho].
  now apply pessimistic_live.
Qed.
Print Assumptions C06_pessimistic_reclaims_when_unreferenced.

Theorem C06_optimistic_reclaims_when_no_cache_entry_mentions :
  forall ops, ovalid_run (os_init true) ops ->
  let s := fold_left ostep ops (os_init true) in
  forall id, 0 < id ->
  (in_table (os_nodes s) id = true <-> (1 <= os_cnt s id)%nat \/ (1 <= os_cc s id)%nat).
Proof.
  intros ops Hv s id Hid.
  destruct (C06_policy_invariant_along_every_history true ops Hv) as [HI Ho].
  now apply optimistic_live.
Qed.
Print Assumptions C06_optimistic_reclaims_when_no_cache_entry_mentions.

Theorem C06_handle_free_iff_both_counts_zero :
  forall opt ops, ovalid_run (os_init opt) ops ->
  let s := fold_left ostep ops (os_init opt) in
  forall id, 0 < id ->
  (handle_free s id = true <-> os_cnt s id = 0%nat /\ os_cc s id = 0%nat).
Proof.
  intros opt ops Hv s id Hid.
  destruct (C06_policy_invariant_along_every_history opt ops Hv) as [HI _].
  split; [now apply free_handle_unreferenced|intros [A B]; now apply unreferenced_handle_free].
Qed.
Print Assumptions C06_handle_free_iff_both_counts_zero.

Theorem C06_policy_no_leak :
  forall opt ops, ovalid_run (os_init opt) ops ->
  let s := fold_left ostep ops (os_init opt) in
  (forall p, In p (os_names s) -> snd p <= 0) -> os_toks s = [] -> os_nodes s = [].
Proof.
  intros opt ops Hv s Hn Ht.
  destruct (C06_policy_invariant_along_every_history opt ops Hv) as [HI _].
  now apply ono_leak.
Qed.
Print Assumptions C06_policy_no_leak.

(** non-vacuity: a node is cached, its last reference dropped, and the same content
    requested again -- deleted and re-created under the pessimistic policy (the old
    handle stays reserved), revived under the optimistic one *)
Example C06_policies_differ :
  (let s := fold_left ostep (demo false) (os_init false) in
   map sn_id (os_nodes s) = [2] /\ os_cc s 1 = 1%nat /\ handle_free s 1 = false) /\
  (let s := fold_left ostep (demo true) (os_init true) in
   map sn_id (os_nodes s) = [1] /\ os_cnt s 1 = 1%nat /\ os_cc s 1 = 1%nat).
Proof. split; [exact demo_pessimistic|exact demo_optimistic]. Qed.
