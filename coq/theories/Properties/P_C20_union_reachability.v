(** C20: what saturation over a partitioned relation must return is the least
    fixed point under the UNION of the events.  In the model the events are
    united first (pointwise OR, C04) and reachability is the proved least fixed
    point (C08): membership in the union relation is membership in some event,
    so a state is in the result iff it is reachable by steps each taken from
    some event -- independent of grouping and splitting. *)
From Coq Require Import List Arith Bool.
From Meddly Require Import Model.Reach Proofs.ReachP.

Theorem C20_reachability_under_union_of_events :
  forall (St : Type) (states : list St) (events : list (St -> St -> bool)) fuel init S,
  let R := fun x y => existsb (fun e => e x y) events in
  bfs St states R fuel init = Some S ->
  forall y, In y states ->
  (S y = true <->
   Reach St states (fun x y => existsb (fun e => e x y) events) init y).
Proof.
  intros St states events fuel init S R H. subst R.
  apply (bfs_lfp St states _ fuel init init S); auto.
  intros y Hy Hi. now apply Reach0.
Qed.
Print Assumptions C20_reachability_under_union_of_events.

(** the order and multiplicity of events is irrelevant to the union *)
Theorem C20_union_ignores_order_and_repeats :
  forall (St : Type) (ev1 ev2 : list (St -> St -> bool)) x y,
  (forall e, In e ev1 <-> In e ev2) ->
  existsb (fun e => e x y) ev1 = existsb (fun e => e x y) ev2.
Proof.
  intros St ev1 ev2 x y H.
  destruct (existsb (fun e => e x y) ev1) eqn:E1; destruct (existsb (fun e => e x y) ev2) eqn:E2; auto.
  - apply existsb_exists in E1. destruct E1 as (e & He & Hv).
    assert (existsb (fun e => e x y) ev2 = true) by (apply existsb_exists; exists e; split; [apply H, He|exact Hv]).
    congruence.
  - apply existsb_exists in E2. destruct E2 as (e & He & Hv).
    assert (existsb (fun e => e x y) ev1 = true) by (apply existsb_exists; exists e; split; [apply H, He|exact Hv]).
    congruence.
Qed.
Print Assumptions C20_union_ignores_order_and_repeats.
