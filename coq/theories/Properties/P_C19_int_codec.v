(** C19, integers: every integer in the terminal window survives
    encode/decode, gets a non-positive handle, the zero handle iff it is zero,
    distinct values get distinct handles, and values outside the window are
    rejected.  About the definitions generated from src/terminal.h. *)
From Coq Require Import ZArith String.
From Meddly Require Import Model.Bits Gen.Terminal Proofs.TerminalP.
Local Open Scope Z_scope.

Theorem C19_int_roundtrip : forall v,
  intMin <= v <= intMax ->
  exists h, getIntegerHandle v = Ok h /\ h <= 0 /\ (h = 0 <-> v = 0) /\
            setFromHandle_INTEGER h = Ok v.
Proof. exact int_roundtrip. Qed.
Print Assumptions C19_int_roundtrip.

Theorem C19_int_window : intMin = - 2 ^ 30 /\ intMax = 2 ^ 30 - 1.
Proof. split; reflexivity. Qed.
Print Assumptions C19_int_window.

Theorem C19_int_injective : forall v w,
  intMin <= v <= intMax -> intMin <= w <= intMax ->
  getIntegerHandle v = getIntegerHandle w -> v = w.
Proof. exact int_injective. Qed.
Print Assumptions C19_int_injective.

Theorem C19_int_overflow : forall v,
  - 2 ^ 63 <= v < 2 ^ 63 -> v < intMin \/ v > intMax ->
  getIntegerHandle v = Err "VALUE_OVERFLOW"%string.
Proof. exact int_overflow. Qed.
Print Assumptions C19_int_overflow.
