(** C03: the function built from a collection of minterms evaluates, at every
    assignment, to the combination (max or min, any associative choice [comb])
    of the values of the matching minterms, and to the default where none
    matches; the result obeys the reduction rule. *)
From Coq Require Import List Arith ZArith Bool.
From Meddly Require Import Model.DD Model.Build Proofs.DDFacts Proofs.Canon Proofs.Reduce Proofs.BuildP.

Theorem C03_build_evaluates_to_spec :
  forall (sz : nat -> nat), (forall k, 1 <= sz k) ->
  forall (comb : Z -> Z -> Z) (dv : Z) (r : rule) L (ms : list minterm) x,
  valid sz x -> x (S L) = 0 ->
  eval r L (build sz comb dv r L 0 ms) x = build_spec comb dv L ms x.
Proof. intros. now apply build_eval. Qed.
Print Assumptions C03_build_evaluates_to_spec.

Theorem C03_build_reduced :
  forall (sz : nat -> nat), (forall k, 1 <= sz k) ->
  forall (comb : Z -> Z -> Z) (dv : Z) (r : rule), paired sz r ->
  forall L (ms : list minterm), is_ir r && Nat.odd L = false ->
  reducedb sz r L None (build sz comb dv r L 0 ms) = true.
Proof.
  intros sz H1 comb dv r Hp L ms Hc.
  eapply reduced_from_irrel; [exact Hc|]. now apply build_reduced.
Qed.
Print Assumptions C03_build_reduced.
