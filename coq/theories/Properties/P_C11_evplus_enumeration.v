(** C11 for EV+ functions: iterating an edge-valued function visits exactly the
    assignments whose value is not +infinity ([None]) and that match the mask, with their
    values, in strictly increasing lexicographic order (hence each exactly once).  For the
    function of ANY edge -- in particular [ev_eval] of an EV+ diagram. *)
From Meddly Require Import Model.DD Model.Build Model.EnumOpt Model.EvDD Proofs.EnumP Proofs.EnumOptP.
From Coq Require Import List ZArith Sorted.

Theorem C11_evplus_enum_sound_complete :
  forall sz g L mask x v,
  In (x, v) (enum_opt sz g L mask) <->
  In x (all_asg sz L) /\ matches L mask x = true /\ g x = Some v.
Proof. exact enum_opt_sound_complete. Qed.
Print Assumptions C11_evplus_enum_sound_complete.

Theorem C11_evplus_enum_strictly_increasing :
  forall sz g L mask, StronglySorted (lex_lt L) (map fst (enum_opt sz g L mask)).
Proof. exact enum_opt_strictly_increasing. Qed.
Print Assumptions C11_evplus_enum_strictly_increasing.
