(** C09 (distance-valued operands): the one-step image of a distance function
    is one plus the minimum operand distance over the predecessors
    (successors for the pre-image), and "unreachable" (None) where there is
    none. *)
From Coq Require Import List Arith ZArith Bool Lia.
From Meddly Require Import Model.Reach Proofs.DistP.
Local Open Scope Z_scope.

Theorem C09_distance_post_image :
  forall (St : Type) (states : list St) (R : St -> St -> bool) (D : St -> option Z) y,
  match dpost St states R D y with
  | Some v =>
      (exists x, In x states /\ R x y = true /\ D x = Some (v - 1)) /\
      (forall x d, In x states -> R x y = true -> D x = Some d -> v <= d + 1)
  | None => forall x d, In x states -> R x y = true -> D x = Some d -> False
  end.
Proof.
  intros St states R D y. destruct (dpost St states R D y) as [v|] eqn:E.
  - split; [now apply dpost_sound|].
    intros x d Hx HR Hd. destruct (dpost_le St states R D y x d Hx HR Hd) as (w & Hw & Hle).
    rewrite E in Hw. injection Hw as <-. exact Hle.
  - intros x d Hx HR Hd. destruct (dpost_le St states R D y x d Hx HR Hd) as (w & Hw & _).
    rewrite E in Hw. discriminate.
Qed.
Print Assumptions C09_distance_post_image.

Theorem C09_distance_pre_image :
  forall (St : Type) (states : list St) (R : St -> St -> bool) (D : St -> option Z) x,
  match dpre St states R D x with
  | Some v =>
      (exists y, In y states /\ R x y = true /\ D y = Some (v - 1)) /\
      (forall y d, In y states -> R x y = true -> D y = Some d -> v <= d + 1)
  | None => forall y d, In y states -> R x y = true -> D y = Some d -> False
  end.
Proof.
  intros St states R D x. rewrite dpre_is_dpost_rev.
  exact (C09_distance_post_image St states (fun a b => R b a) D x).
Qed.
Print Assumptions C09_distance_pre_image.
