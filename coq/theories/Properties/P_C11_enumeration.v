(** C11: an assignment (with its value) is visited by the enumeration iff it
    belongs to the domain, matches the mask, and the function's value there is
    not the default; the visited sequence is the lexicographic enumeration of
    the domain filtered (so order is inherited). *)
From Coq Require Import List Arith ZArith Bool.
From Meddly Require Import Model.DD Model.Build Model.Enum Proofs.EnumP.

Theorem C11_enum_sound_complete :
  forall (sz : nat -> nat) r L t mask x v,
  In (x, v) (enum sz r L t mask) <->
  In x (all_asg sz L) /\ matches L mask x = true /\ v = eval r L t x /\ v <> 0%Z.
Proof. exact enum_sound_complete. Qed.
Print Assumptions C11_enum_sound_complete.
