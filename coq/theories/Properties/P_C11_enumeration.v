(** C11: an assignment (with its value) is visited by the enumeration iff it
    belongs to the domain, matches the mask, and the function's value there is
    not the default; the visited sequence is the lexicographic enumeration of
    the domain filtered (so order is inherited). *)
From Coq Require Import List Arith ZArith Bool.
From Meddly Require Import Model.DD Model.Build Model.Enum Proofs.EnumP.

Theorem C11_enum_sound_complete :
  forall (sz : nat -> nat) r L t mask x v,
  In (x, v) (enum sz r L t mask) <->
  In x (all_asg sz L) /\ matches L mask x = true /\ v = eval r L t x /\ v <> 0%Z.
Proof. exact enum_sound_complete. Qed.
Print Assumptions C11_enum_sound_complete.

(** the visited assignments are strictly increasing in lexicographic order
    (level L most significant): in particular each is visited exactly once *)
Theorem C11_enum_strictly_increasing :
  forall (sz : nat -> nat) r L t mask,
  Sorted.StronglySorted (lex_lt L) (map fst (enum sz r L t mask)).
Proof. exact enum_strictly_increasing. Qed.
Print Assumptions C11_enum_strictly_increasing.

Theorem C11_lex_order_is_strict :
  forall L x y z, ~ lex_lt L x x /\ (lex_lt L x y -> lex_lt L y z -> lex_lt L x z).
Proof. intros L x y z. split; [apply lex_lt_irrefl|apply lex_lt_trans]. Qed.
Print Assumptions C11_lex_order_is_strict.

(** node counts: the collection whose length is the node count holds every
    distinct non-terminal sub-diagram of the edge exactly once; the edge count
    sums their non-transparent child slots *)
Theorem C11_node_count_counts_distinct_subdiagrams : forall t,
  NoDup (dedup (subnodes t)) /\
  (forall s, In s (dedup (subnodes t)) <-> (subdiagram t s /\ exists k cs, s = N k cs)) /\
  node_count t = length (dedup (subnodes t)).
Proof.
  intros t. destruct (counted_nodes_spec t) as [H1 H2]. split; [exact H1|]. split; [exact H2|reflexivity].
Qed.
Print Assumptions C11_node_count_counts_distinct_subdiagrams.
