(** C06 (counter widths): after ANY history of increments, decrements,
    expansions and shrinks performed by a client that respects the interface
    (indices in range, no decrement of zero, counts below 2^32-1, only unused
    handles dropped), the 8/16/32-bit width-changing counter array holds
    exactly the unbounded reference counts -- including across 255->256 and
    65535->65536 and back down. *)
From Coq Require Import List ZArith.
From Meddly Require Import Model.Counter Proofs.CounterP.
Import ListNotations.

Theorem C06_counter_array_refines_unbounded_counts : forall os,
  legal_all [] os ->
  cdat (fold_left cstep os ctr_init) = fold_left astep os [].
Proof.
  intros os H. exact (proj2 (counter_refines os ctr_init Inv_init H)).
Qed.
Print Assumptions C06_counter_array_refines_unbounded_counts.

(** non-vacuity: a history that crosses 255 -> 256 and comes back is legal *)
Example C06_history_crossing_256 :
  let os := CExp 3 :: repeat (CInc 1) 300 ++ repeat (CDec 1) 100 ++ [CShr 2] in
  legal_all [] os /\ cdat (fold_left cstep os ctr_init) = [0; 200]%Z.
Proof.
  cbv zeta. split; [|vm_compute; reflexivity].
  vm_compute. repeat split; try constructor; auto.
Qed.
