(** C12 (storage flag): for every node (list of children), every storage
    option (full only, sparse only, whichever is smaller) and every header /
    edge-value layout, the packed node reads back as exactly the children that
    were written -- so the unpacked content, and with it hashing, duplicate
    detection and every operation result, cannot depend on the storage flag. *)
From Coq Require Import List ZArith.
From Meddly Require Import Model.Storage Proofs.StorageP.

Theorem C12_storage_flag_never_changes_content : forall h e opt cs,
  unpack_full (length cs) (make_node h e opt cs) = cs.
Proof. exact unpack_make_node. Qed.
Print Assumptions C12_storage_flag_never_changes_content.
