(** C15 on sets too large to tabulate.  A product set allows at every level k the values
    [al k] (strictly increasing, below the level's size).  For ANY diagram [t] that denotes
    it, in a domain of any number of levels and sizes:
    - its members in lexicographic order are exactly the mixed-radix numerals
      [unrank al L 0 .. unrank al L (n-1)], n the product of the numbers of allowed values;
    - looking an index up returns [unrankN al L i] for 0 <= i < n and fails outside;
    - the number of members is [prod_countN al L];
    - numbering and lookup are inverse ([rankN (unrankN i) = i]).
    [unrankN], [rankN] and [prod_countN] compute with binary numbers and are what the
    extracted model runs against getElement / evaluate / the stored cardinality for sets
    of more than 2^31 members. *)
From Meddly Require Import Model.DD Model.Enum Model.Product Proofs.ProductP.
From Coq Require Import List Arith NArith ZArith Bool.
Import ListNotations.

Theorem C15_product_members_are_mixed_radix_numerals :
  forall sz al r L t, al_ok sz al L ->
  (forall x, In x (all_asg sz L) -> negb (Z.eqb (eval r L t x) 0) = in_pset al L x) ->
  members sz r L t = map (unrank al L) (seq 0 (prod_count al L)).
Proof. exact product_set_members. Qed.
Print Assumptions C15_product_members_are_mixed_radix_numerals.

Theorem C15_product_lookup :
  forall sz al r L t, al_ok sz al L ->
  (forall x, In x (all_asg sz L) -> negb (Z.eqb (eval r L t x) 0) = in_pset al L x) ->
  forall i, get_element sz r L t i =
    if ((0 <=? i) && (i <? Z.of_N (prod_countN al L)))%Z
    then Some (unrankN al L (Z.to_N i)) else None.
Proof. exact product_get_element. Qed.
Print Assumptions C15_product_lookup.

Theorem C15_product_cardinality :
  forall sz al r L t, al_ok sz al L ->
  (forall x, In x (all_asg sz L) -> negb (Z.eqb (eval r L t x) 0) = in_pset al L x) ->
  N.of_nat (length (members sz r L t)) = prod_countN al L.
Proof. exact product_cardinality. Qed.
Print Assumptions C15_product_cardinality.

Theorem C15_product_rank_inverts_lookup :
  forall al L sz i, al_ok sz al L -> (i < prod_countN al L)%N ->
  rankN al L (unrankN al L i) = i.
Proof. exact rank_unrank. Qed.
Print Assumptions C15_product_rank_inverts_lookup.

(** non-vacuity, and beyond 2^31: 33 boolean levels, everything allowed *)
Example C15_product_two_to_33 :
  let al := fun k : nat => [0; 1] in
  prod_countN al 33 = 8589934592%N /\
  map (unrankN al 33 4294967296%N) [33; 32; 1] = [1; 0; 0] /\
  rankN al 33 (unrankN al 33 8589934591%N) = 8589934591%N.
Proof. vm_compute. repeat split. Qed.
