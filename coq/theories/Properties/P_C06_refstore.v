(** C06 (mechanism level): the node store with its unique table, recorded
    incoming counts and recursive reclamation, as a state machine.  For EVERY
    history of node creations (with duplicate lookup), reference duplications
    and reference drops:
    - each identifier's recorded count equals the number of child slots of live
      nodes plus the number of user references that mention it (exact counts);
    - an identifier is live iff its count is positive (nothing dangles, nothing
      unreferenced lingers); children are live and strictly below their parent;
    - no two live nodes have the same level and children (C02: unique table);
    and when the user holds no reference, no node is live (no leak). *)
From Coq Require Import List ZArith Bool Arith.
From Meddly Require Import Model.RefStore Proofs.RefStoreP.
Import ListNotations.
Local Open Scope Z_scope.

Theorem C06_store_invariant_along_every_history :
  forall ops, valid_run st_init ops -> Inv [] (fold_left sstep ops st_init).
Proof.
  intros ops Hv. apply run_inv; [apply init_inv|cbn; reflexivity|exact Hv].
Qed.
Print Assumptions C06_store_invariant_along_every_history.

Theorem C06_counts_are_exact :
  forall ops, valid_run st_init ops ->
  let s := fold_left sstep ops st_init in
  forall id, 0 < id ->
  st_cnt s id = (node_refs (st_nodes s) id + name_refs (st_names s) id)%nat.
Proof.
  intros ops Hv s id Hid. unfold s.
  rewrite (inv_exact _ _ (C06_store_invariant_along_every_history ops Hv) id Hid).
  unfold cnt_occ. cbn [count_occ]. apply Nat.add_0_r.
Qed.
Print Assumptions C06_counts_are_exact.

Theorem C06_live_iff_referenced :
  forall ops, valid_run st_init ops ->
  let s := fold_left sstep ops st_init in
  forall id, 0 < id -> ((1 <= st_cnt s id)%nat <-> live (st_nodes s) id).
Proof.
  intros ops Hv s id Hid. exact (inv_live _ _ (C06_store_invariant_along_every_history ops Hv) id Hid).
Qed.
Print Assumptions C06_live_iff_referenced.

Theorem C06_no_leak :
  forall ops, valid_run st_init ops ->
  let s := fold_left sstep ops st_init in
  (forall p, In p (st_names s) -> snd p <= 0) -> st_nodes s = [].
Proof.
  intros ops Hv s Hn. apply no_leak; [exact (C06_store_invariant_along_every_history ops Hv)|exact Hn].
Qed.
Print Assumptions C06_no_leak.

(** non-vacuity: the history of corpus/C06/node-history.script *)
Example C06_history_runs :
  let ops := [SNew 1 1 [0; -1]; SNew 2 1 [-1; -1]; SNew 3 2 [1; 2]; SNew 4 2 [1; 2];
              SDup 5 1; SNew 7 3 [3; 0]; SDrop 1; SDrop 2; SDrop 3; SDrop 4; SDrop 5] in
  observe (fold_left sstep ops st_init) = ([(7%nat, 1%nat)], 4%nat).
Proof. vm_compute. reflexivity. Qed.
