(** C05 + C01 (function level): element-wise operations obey their algebraic
    laws as edge identities.  Two applications of the generic recursion whose
    scalar results agree at every valid assignment return the identical
    diagram in the result forest (result reduced by C02, pointwise by C05,
    hence canonical by C01).  Corollaries for the catalogue of Model/Scalar.v:
    the commutative operations commute as edges, a comparison equals its dual
    with the operands swapped, and adding the constant 0 / taking the
    maximum with itself returns the stored operand itself. *)
From Coq Require Import List Arith ZArith Bool Lia.
From Meddly Require Import Model.DD Model.Scalar Proofs.DDFacts Proofs.Canon Proofs.Reduce.

Theorem C05_same_function_identical_edge :
  forall (sz : nat -> nat), (forall k, 1 <= sz k) ->
  forall (rr : rule), paired sz rr -> (is_ir rr = true -> forall k, 2 <= sz k) ->
  forall (f g : Z -> Z -> Z) (ra rb rc rd : rule) L a b c d,
  wf L a -> wf L b -> wf L c -> wf L d ->
  (is_ir ra || is_ir rb || is_ir rc || is_ir rd || is_ir rr) && Nat.odd L = false ->
  (forall x, valid sz x ->
     f (eval ra L a x) (eval rb L b x) = g (eval rc L c x) (eval rd L d x)) ->
  apply2 sz f ra rb rr L 0 a b = apply2 sz g rc rd rr L 0 c d.
Proof.
  intros sz H1 rr Hp H2 f g ra rb rc rd L a b c d Ha Hb Hc' Hd Hc E.
  assert (Hrr : is_ir rr && Nat.odd L = false)
    by (destruct (is_ir ra), (is_ir rb), (is_ir rc), (is_ir rd), (is_ir rr), (Nat.odd L);
        cbn in *; congruence).
  apply (canon sz rr H1 Hp H2 L None _ _ I).
  - eapply reduced_from_irrel; [exact Hrr|]. now apply apply2_reduced.
  - eapply reduced_from_irrel; [exact Hrr|]. now apply apply2_reduced.
  - intros x Hx _.
    transitivity (f (eval ra L a x) (eval rb L b x)).
    + apply (apply2_eval sz ra rb rr); auto; intros E';
        destruct (is_ir ra), (is_ir rb), (is_ir rc), (is_ir rd), (is_ir rr), (Nat.odd L);
        cbn in *; discriminate.
    + rewrite (E x Hx). symmetry.
      apply (apply2_eval sz rc rd rr); auto; intros E';
        destruct (is_ir ra), (is_ir rb), (is_ir rc), (is_ir rd), (is_ir rr), (Nat.odd L);
        cbn in *; discriminate.
Qed.
Print Assumptions C05_same_function_identical_edge.

Definition commutative_op (o : binop) : Prop :=
  o = OPlus \/ o = OMult \/ o = OMax \/ o = OMin \/ o = ODistMin \/ o = OEq \/ o = ONe.

Lemma scalar2_comm o scale one u v : commutative_op o ->
  scalar2 o scale one u v = scalar2 o scale one v u.
Proof.
  intros [H|[H|[H|[H|[H|[H|H]]]]]]; subst o; cbn.
  - apply Z.add_comm.
  - now rewrite Z.mul_comm.
  - apply Z.max_comm.
  - apply Z.min_comm.
  - destruct (u <? 0)%Z, (v <? 0)%Z; auto using Z.min_comm.
  - now rewrite Z.eqb_sym.
  - now rewrite Z.eqb_sym.
Qed.

Theorem C05_commutative_edges :
  forall (sz : nat -> nat), (forall k, 1 <= sz k) ->
  forall (rr : rule), paired sz rr -> (is_ir rr = true -> forall k, 2 <= sz k) ->
  forall (o : binop) (scale one : Z), commutative_op o ->
  forall (ra rb : rule) L a b, wf L a -> wf L b ->
  (is_ir ra || is_ir rb || is_ir rr) && Nat.odd L = false ->
  apply2 sz (scalar2 o scale one) ra rb rr L 0 a b
  = apply2 sz (scalar2 o scale one) rb ra rr L 0 b a.
Proof.
  intros sz H1 rr Hp H2 o scale one Ho ra rb L a b Ha Hb Hc.
  apply C05_same_function_identical_edge; auto.
  - destruct (is_ir ra), (is_ir rb), (is_ir rr), (Nat.odd L); cbn in *; congruence.
  - intros x _. now apply scalar2_comm.
Qed.
Print Assumptions C05_commutative_edges.

(** a comparison and its dual with swapped operands are the same edge *)
Theorem C05_comparison_dual_edges :
  forall (sz : nat -> nat), (forall k, 1 <= sz k) ->
  forall (rr : rule), paired sz rr -> (is_ir rr = true -> forall k, 2 <= sz k) ->
  forall (scale one : Z) (ra rb : rule) L a b, wf L a -> wf L b ->
  (is_ir ra || is_ir rb || is_ir rr) && Nat.odd L = false ->
  apply2 sz (scalar2 OLt scale one) ra rb rr L 0 a b
  = apply2 sz (scalar2 OGt scale one) rb ra rr L 0 b a /\
  apply2 sz (scalar2 OLe scale one) ra rb rr L 0 a b
  = apply2 sz (scalar2 OGe scale one) rb ra rr L 0 b a.
Proof.
  intros sz H1 rr Hp H2 scale one ra rb L a b Ha Hb Hc.
  assert (Hc' : (is_ir ra || is_ir rb || is_ir rb || is_ir ra || is_ir rr) && Nat.odd L = false)
    by (destruct (is_ir ra), (is_ir rb), (is_ir rr), (Nat.odd L); cbn in *; congruence).
  split; apply C05_same_function_identical_edge; auto; intros x _; cbn.
  - now rewrite Z.gtb_ltb.
  - now rewrite Z.geb_leb.
Qed.
Print Assumptions C05_comparison_dual_edges.

(** neutral elements return the stored operand itself: a + 0 = a,
    max(a,a) = a, min(a,a) = a -- as the identical edge *)
Theorem C05_neutral_edges :
  forall (sz : nat -> nat), (forall k, 1 <= sz k) ->
  forall (rr : rule), paired sz rr -> (is_ir rr = true -> forall k, 2 <= sz k) ->
  forall L a, is_ir rr && Nat.odd L = false ->
  reducedb sz rr L None a = true ->
  apply2 sz (scalar2 OPlus 1 1) rr rr rr L 0 a (T 0%Z) = a /\
  apply2 sz (scalar2 OMax 1 1) rr rr rr L 0 a a = a /\
  apply2 sz (scalar2 OMin 1 1) rr rr rr L 0 a a = a.
Proof.
  intros sz H1 rr Hp H2 L a Hc Hr.
  assert (Hcx : forall x, cx rr L 0 x) by (intros x E'; rewrite Hc in E'; discriminate).
  assert (Hw : wf L a) by (eapply (reduced_wf sz rr L None); exact Hr).
  assert (Hz : wf L (T 0%Z)) by apply wf_zero.
  assert (Ez : forall x, evalL (is_ir rr) L (T 0%Z) x = 0%Z).
  { intros x. clear. induction L as [|L IH]; cbn; [reflexivity|]. destruct (skip_ok _ _ _); [exact IH|reflexivity]. }
  repeat split; apply (canon sz rr H1 Hp H2 L None _ _ I); try exact Hr;
    try (eapply reduced_from_irrel; [exact Hc|]; now apply apply2_reduced);
    intros x Hx _; (etransitivity; [apply (apply2_eval sz rr rr rr); auto|]); cbn.
  - rewrite Ez. apply Z.add_0_r.
  - apply Z.max_id.
  - apply Z.min_id.
Qed.
Print Assumptions C05_neutral_edges.

(** associativity as an edge identity: (a op b) op c and a op (b op c),
    computed through different intermediate edges, are the same edge *)
Theorem C05_associative_edges :
  forall (sz : nat -> nat), (forall k, 1 <= sz k) ->
  forall (rr : rule), paired sz rr -> (is_ir rr = true -> forall k, 2 <= sz k) ->
  forall (o : binop), o = OPlus \/ o = OMax \/ o = OMin ->
  forall L a b c, wf L a -> wf L b -> wf L c -> is_ir rr && Nat.odd L = false ->
  apply2 sz (scalar2 o 1 1) rr rr rr L 0 (apply2 sz (scalar2 o 1 1) rr rr rr L 0 a b) c
  = apply2 sz (scalar2 o 1 1) rr rr rr L 0 a (apply2 sz (scalar2 o 1 1) rr rr rr L 0 b c).
Proof.
  intros sz H1 rr Hp H2 o Ho L a b c Ha Hb Hc' Hc.
  assert (Hcx : forall x, cx rr L 0 x) by (intros x E'; rewrite Hc in E'; discriminate).
  assert (Hw : forall u v, wf L (apply2 sz (scalar2 o 1 1) rr rr rr L 0 u v)).
  { intros u v. eapply (reduced_wf sz rr L None). eapply reduced_from_irrel; [exact Hc|].
    now apply apply2_reduced. }
  assert (Ev : forall u v x, valid sz x -> wf L u -> wf L v ->
             eval rr L (apply2 sz (scalar2 o 1 1) rr rr rr L 0 u v) x
             = scalar2 o 1 1 (eval rr L u x) (eval rr L v x)).
  { intros u v x Hx Hu Hv. apply (apply2_eval sz rr rr rr); auto. }
  apply C05_same_function_identical_edge; auto.
  - rewrite !orb_diag. exact Hc.
  - intros x Hx. rewrite !Ev by auto.
    destruct Ho as [E|[E|E]]; subst o; cbn.
    + symmetry. apply Z.add_assoc.
    + symmetry. apply Z.max_assoc.
    + symmetry. apply Z.min_assoc.
Qed.
Print Assumptions C05_associative_edges.

(** non-vacuity: an integer-valued pair over a 2-variable domain *)
Import ListNotations.
Definition ex_a : dd := N 2 [N 1 [T 3%Z; T 1%Z]; T 2%Z].
Definition ex_b : dd := N 1 [T 5%Z; T 0%Z].
Example C05_edge_identity_example :
  wf 2 ex_a /\ wf 2 ex_b /\ reducedb (fun _ => 2) FR 2 None ex_a = true /\
  apply2 (fun _ => 2) (scalar2 OPlus 1 1) FR FR FR 2 0 ex_a ex_b
  = apply2 (fun _ => 2) (scalar2 OPlus 1 1) FR FR FR 2 0 ex_b ex_a /\
  apply2 (fun _ => 2) (scalar2 OPlus 1 1) FR FR FR 2 0 ex_a ex_b <> ex_a /\
  apply2 (fun _ => 2) (scalar2 OLt 1 1) FR FR FR 2 0 ex_a ex_b <> T 0%Z.
Proof. vm_compute. repeat split; auto; discriminate. Qed.
