(** C05 (EV+ forests): the element-wise combination of two EV+ edges by any
    scalar function on Z + {+infinity} (the catalogue is [Scalar.ev_scalar2])
    evaluates pointwise, is reduced, and is the ONLY reduced edge that does --
    so an implementation whose result is reduced and pointwise correct returns
    exactly this edge. *)
From Coq Require Import List Arith ZArith Bool.
From Meddly Require Import Model.DD Model.EvDD Model.Scalar Proofs.DDFacts Proofs.EvP.

Theorem C05_evplus_binary_pointwise :
  forall (sz : nat -> nat), (forall k, 1 <= sz k) ->
  forall (fr : bool) L (o : binop) (e1 e2 : edge) x, valid sz x ->
  ev_eval L (ev_apply2 sz fr L (ev_scalar2 o) e1 e2) x = ev_scalar2 o (ev_eval L e1 x) (ev_eval L e2 x).
Proof. intros sz H fr L o e1 e2 x Hx. now apply ev_apply2_eval. Qed.
Print Assumptions C05_evplus_binary_pointwise.

Theorem C05_evplus_result_is_the_unique_reduced_edge :
  forall (sz : nat -> nat), (forall k, 1 <= sz k) ->
  forall (fr : bool) L (f : option Z -> option Z -> option Z) (e1 e2 e : edge),
  ev_reduced sz fr L e = true ->
  (forall x, valid sz x -> ev_eval L e x = f (ev_eval L e1 x) (ev_eval L e2 x)) ->
  e = ev_apply2 sz fr L f e1 e2.
Proof. intros sz H fr L f e1 e2 e. now apply ev_apply2_unique. Qed.
Print Assumptions C05_evplus_result_is_the_unique_reduced_edge.

(** the scalar catalogue: +infinity absorbs in sums, products and maxima and is
    the unit of minima *)
Theorem C05_evplus_infinity_laws : forall a,
  ev_scalar2 OPlus None a = None /\ ev_scalar2 OPlus a None = None /\
  ev_scalar2 OMult None a = None /\ ev_scalar2 OMax None a = None /\
  ev_scalar2 OMin None a = a /\ ev_scalar2 OMin a None = a.
Proof. intros [z|]; cbn; repeat split; reflexivity. Qed.
Print Assumptions C05_evplus_infinity_laws.
