(** C08 / C20 on diagrams: "all algorithms return the identical edge".
    For a set forest with rule rS (fully or quasi reduced), a relation forest
    with rule rR and a result forest with rule rOut, over any domain:
    the frontier iteration, the frontier-less iteration and saturation over
    separately supplied events (whose union the monolithic relation is) all
    terminate and build the SAME diagram. *)
From Coq Require Import List Arith ZArith Bool.
From Meddly Require Import Model.DD Model.Reach Proofs.SatDDP.

Theorem C08_saturation_and_bfs_build_the_same_diagram :
  forall (szS : nat -> nat) (K : nat) (rS rR rOut : rule),
  is_ir rS = false ->
  forall s evs ru t t',
  (forall x y, In x (states_of szS K) -> In y (states_of szS K) ->
     rel_mem K rR ru x y = existsb (fun e => rel_mem K rR e x y) evs) ->
  sat_dd szS K rS rR rOut s evs = Some t ->
  reach_dd szS K rS rR rOut s ru = Some t' ->
  t = t'.
Proof. intros szS K rS rR rOut H. exact (sat_dd_is_reach_dd szS K rS rR rOut H). Qed.
Print Assumptions C08_saturation_and_bfs_build_the_same_diagram.

Theorem C08_frontier_and_frontierless_build_the_same_diagram :
  forall (szS : nat -> nat) (K : nat) (rS rR rOut : rule),
  is_ir rS = false ->
  forall s r t t',
  reach_fs_dd szS K rS rR rOut s r = Some t ->
  reach_dd szS K rS rR rOut s r = Some t' ->
  t = t'.
Proof. intros szS K rS rR rOut H. exact (reach_fs_dd_is_reach_dd szS K rS rR rOut H). Qed.
Print Assumptions C08_frontier_and_frontierless_build_the_same_diagram.

Theorem C08_all_three_terminate :
  forall (szS : nat -> nat) (K : nat) (rS rR rOut : rule) s r evs,
  reach_dd szS K rS rR rOut s r <> None /\
  reach_fs_dd szS K rS rR rOut s r <> None /\
  sat_dd szS K rS rR rOut s evs <> None.
Proof.
  intros. split; [apply reach_dd_total|split; [apply reach_fs_dd_total|apply sat_dd_total]].
Qed.
Print Assumptions C08_all_three_terminate.
