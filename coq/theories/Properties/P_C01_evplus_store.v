(** (same statement as P_C02_evplus_audit_sound) C01 (store level, EV+ forests): if the executable audit of the dump
    of a fully- or quasi-reduced EV+ forest reports nothing (and the domain
    description is well formed), then every edge made of any value and a root
    handle unfolds to a reduced EV+ edge (normalised values, no forbidden
    redundancy, levels respected), and two such edges that denote the same
    function are the same edge: both +infinity, or the same value on the same
    handle.  Unbounded in nodes, levels and sizes. *)
From Coq Require Import List Arith ZArith Bool.
From Meddly Require Import Model.DD Model.EvDD Model.Audit Proofs.DDFacts Proofs.AuditP Proofs.AuditEvP.
Import ListNotations.

Theorem C01_evplus_store_sound :
  forall d : adump,
  d_lab d = LEVP -> d_rule d <> IR -> dom_ok d = true -> audit d = [] ->
  forall v1 h1 v2 h2, In h1 (d_roots d) -> In h2 (d_roots d) ->
  ev_reduced (szn d) (fr d) (topl d) (ev_root d (v1, h1)) = true /\
  ((forall x, valid (szn d) x ->
      ev_eval (topl d) (ev_root d (v1, h1)) x = ev_eval (topl d) (ev_root d (v2, h2)) x) ->
   edge_same (v1, h1) (v2, h2)).
Proof. exact audited_evstore_canonical. Qed.
Print Assumptions C01_evplus_store_sound.

(** non-vacuity: the EV+ function [8, +inf, 8] over one variable of size 3 as
    the library stores it (root edge value 8 on node 1; children 0:w, inf, 0:w) *)
Local Open Scope Z_scope.
Definition ex_ev : adump :=
  mkD [ mkA 1 1 1 0 0 true (-1) [(0,-1); (0,0); (0,-1)] [(0,(0,-1)); (2,(0,-1))] 3 ]
      [1] 1 1 1 false FR LEVP DOpt [] [3].
Example C01_evplus_store_sound_nonvacuous :
  d_lab ex_ev = LEVP /\ d_rule ex_ev <> IR /\ dom_ok ex_ev = true /\ audit ex_ev = [] /\ In 1 (d_roots ex_ev).
Proof. repeat split; try reflexivity; try discriminate. now left. Qed.

(** and a node whose smallest edge value is not 0 is reported *)
Example C01_evplus_store_rejects_unnormalised :
  audit (mkD [ mkA 1 1 1 0 0 true (-1) [(3,-1); (0,0); (5,-1)] [(0,(3,-1)); (2,(5,-1))] 3 ]
             [1] 1 1 1 false FR LEVP DOpt [] [3]) <> [].
Proof. vm_compute. discriminate. Qed.
