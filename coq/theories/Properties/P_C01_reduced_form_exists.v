(** C01/C02: every function over the domain has a diagram that obeys the
    reduction rule and denotes it (so, with C01_canonicity, exactly one). *)
From Coq Require Import List Arith ZArith Bool.
From Meddly Require Import Model.DD Proofs.DDFacts Proofs.Canon Proofs.Reduce.

Theorem C01_reduced_form_exists :
  forall (sz : nat -> nat) (r : rule),
  (forall k, 1 <= sz k) ->
  paired sz r ->
  forall L (g : (nat -> nat) -> Z), fext g ->
  is_ir r && Nat.odd L = false ->
  reducedb sz r L None (of_fun sz r L 0 g (fun _ => 0)) = true /\
  forall x, valid sz x ->
    eval r L (of_fun sz r L 0 g (fun _ => 0)) x = g (merge L x (fun _ => 0)).
Proof.
  intros sz r H1 H2 L g Hg Hc. split.
  - eapply reduced_from_irrel; [exact Hc|]. now apply of_fun_reduced.
  - intros x Hx. apply (of_fun_eval sz r g Hg L 0 _ x Hx).
    intros Hir. rewrite Hir in Hc. discriminate.
Qed.
Print Assumptions C01_reduced_form_exists.
