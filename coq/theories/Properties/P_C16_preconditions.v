(** C16, the precondition checks of binary operations as a decision table
    (Model/Precheck.v, run by the extracted model on every apply of every script): a call
    is accepted exactly when the three forests are over one domain, their set/relation
    shapes fit the operation and they are in the same variable order; otherwise the code
    is that of the first violated precondition (DOMAIN_MISMATCH, TYPE_MISMATCH,
    INVALID_OPERATION). *)
From Coq Require Import List Arith Bool String.
From Meddly Require Import Model.Precheck Proofs.PrecheckP.
Import ListNotations.
Local Open Scope string_scope.

Theorem C16_accepted_iff_preconditions_hold : forall sh a b r,
  precheck sh a b r = None <-> well_formed sh a b r.
Proof. exact precheck_accepts_iff_well_formed. Qed.
Print Assumptions C16_accepted_iff_preconditions_hold.

Theorem C16_different_domains_rejected : forall sh a b r,
  (fd_dom a <> fd_dom r \/ fd_dom b <> fd_dom r) -> precheck sh a b r = Some "DOMAIN_MISMATCH".
Proof. exact precheck_domain. Qed.
Print Assumptions C16_different_domains_rejected.

Theorem C16_shape_mismatch_rejected : forall sh a b r,
  fd_dom a = fd_dom r -> fd_dom b = fd_dom r -> shape_ok sh a b r = false ->
  precheck sh a b r = Some "TYPE_MISMATCH".
Proof. exact precheck_shape. Qed.
Print Assumptions C16_shape_mismatch_rejected.

Theorem C16_different_variable_orders_rejected : forall sh a b r,
  fd_dom a = fd_dom r -> fd_dom b = fd_dom r -> shape_ok sh a b r = true ->
  (fd_order a <> fd_order r \/ fd_order b <> fd_order r) ->
  precheck sh a b r = Some "INVALID_OPERATION".
Proof. exact precheck_order. Qed.
Print Assumptions C16_different_variable_orders_rejected.

Example C16_precheck_nonvacuous :
  let s := {| fd_dom := 1; fd_rel := false; fd_order := [1; 2; 3] |} in
  let s' := {| fd_dom := 1; fd_rel := false; fd_order := [2; 1; 3] |} in
  let m := {| fd_dom := 1; fd_rel := true; fd_order := [1; 2; 3] |} in
  precheck ShSame s s s = None /\ precheck ShImage s m s = None /\
  precheck ShSame s s' s = Some "INVALID_OPERATION" /\ precheck ShSame s m s = Some "TYPE_MISMATCH".
Proof. repeat split. Qed.
