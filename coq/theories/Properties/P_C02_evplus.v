(** (same statements as P_C01_evplus_canonicity) C01 / C02 / C03 for EV+ forests (sets, and relations under the fully- or
    quasi-reduced rule, which are diagrams over the interleaved levels):
    - two reduced EV+ edges (normalised edge values, no forbidden redundant
      node, no skipped level under the quasi-reduced rule) that denote the same
      function into Z + {+infinity} are identical;
    - the canonical builder returns a reduced edge that evaluates to the
      function it was given, so every such function has exactly one edge. *)
From Coq Require Import List Arith ZArith Bool.
From Meddly Require Import Model.DD Model.EvDD Proofs.DDFacts Proofs.EvP.

Theorem C02x_C01_evplus_canonicity :
  forall (sz : nat -> nat), (forall k, 1 <= sz k) ->
  forall (fr : bool) L (e1 e2 : edge),
  ev_reduced sz fr L e1 = true -> ev_reduced sz fr L e2 = true ->
  (forall x, valid sz x -> ev_eval L e1 x = ev_eval L e2 x) ->
  e1 = e2.
Proof. exact ev_canon. Qed.
Print Assumptions C02x_C01_evplus_canonicity.

Theorem C02x_C03_evplus_builder_evaluates_to_its_function :
  forall (sz : nat -> nat), (forall k, 1 <= sz k) ->
  forall (fr : bool) (g : (nat -> nat) -> option Z), gext g ->
  forall L x' x, valid sz x ->
  ev_eval L (ev_of_fun sz fr L g x') x = g (emerge L x x').
Proof. exact ev_of_fun_eval. Qed.
Print Assumptions C02x_C03_evplus_builder_evaluates_to_its_function.

Theorem C02x_C02_evplus_builder_is_reduced :
  forall (sz : nat -> nat), (forall k, 1 <= sz k) ->
  forall (fr : bool) (g : (nat -> nat) -> option Z) L x,
  ev_reduced sz fr L (ev_of_fun sz fr L g x) = true.
Proof. exact ev_of_fun_reduced. Qed.
Print Assumptions C02x_C02_evplus_builder_is_reduced.

(** the edge value of a reduced edge is the minimum of the function *)
Theorem C02x_C02_evplus_edge_value_is_minimum :
  forall (sz : nat -> nat), (forall k, 1 <= sz k) ->
  forall (fr : bool) L v t, ev_reduced sz fr L (Some v, t) = true ->
  (forall x w, ev_eval L (Some v, t) x = Some w -> (v <= w)%Z) /\
  (exists x, valid sz x /\ ev_eval L (Some v, t) x = Some v).
Proof.
  intros sz H fr L v t R. split.
  - exact (reduced_lower sz fr L v t R).
  - exact (reduced_attained sz H fr L v t R).
Qed.
Print Assumptions C02x_C02_evplus_edge_value_is_minimum.

(** non-vacuity: the function [8, +inf, 8] over one variable of size 3 *)
Import ListNotations.
Example C02x_C01_evplus_example :
  ev_of_fun (fun _ => 3) true 1
            (fun x => match x 1 with 1 => None | _ => Some 8%Z end) (fun _ => 0)
  = (Some 8%Z, EN 1 [Some 0%Z; None; Some 0%Z] [EO; EO; EO]).
Proof. reflexivity. Qed.
