(** C15 (lookup): looking up index i returns exactly the member whose entry in
    the index table is i; lookups succeed exactly for 0 <= i < n, where n is the
    number of members (= the number of non-zero entries of the set's table). *)
From Coq Require Import List Arith ZArith Bool.
From Meddly Require Import Model.DD Model.Enum Proofs.EnumP Proofs.IndexP.

Theorem C15_lookup_returns_the_member_with_that_index :
  forall (sz : nat -> nat) r L t j i,
  j < length (all_asg sz L) ->
  nth j (index_table sz r L t) None = Some i ->
  nth_error (members sz r L t) i = Some (nth j (all_asg sz L) (fun _ => 0)).
Proof. exact index_lookup. Qed.
Print Assumptions C15_lookup_returns_the_member_with_that_index.

Theorem C15_lookup_succeeds_exactly_inside_the_range :
  forall (sz : nat -> nat) r L t i,
  (get_element sz r L t i <> None) <-> (0 <= i < Z.of_nat (length (members sz r L t)))%Z.
Proof. exact get_element_range. Qed.
Print Assumptions C15_lookup_succeeds_exactly_inside_the_range.

Theorem C15_cardinality_is_member_count :
  forall (sz : nat -> nat) r L t,
  length (members sz r L t) = count_nz (table sz r L t).
Proof. exact members_count. Qed.
Print Assumptions C15_cardinality_is_member_count.
