(** C19, booleans: false <-> handle 0, true <-> handle -1. *)
From Coq Require Import ZArith String.
From Meddly Require Import Model.Bits Gen.Terminal Proofs.TerminalP.
Local Open Scope Z_scope.

Theorem C19_bool_roundtrip : forall v : bool,
  let h := if v then -1 else 0 in
  setFromHandle_BOOLEAN h = Ok (if v then 1 else 0) /\ (h = 0 <-> v = false).
Proof. exact bool_roundtrip. Qed.
Print Assumptions C19_bool_roundtrip.
