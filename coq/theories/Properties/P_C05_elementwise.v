(** C05: every element-wise binary operation computes the pointwise scalar
    result -- for an arbitrary scalar function [f] (hence for each catalogue
    operation [scalar2 o scale one]), operands and result under any mix of
    reduction rules; unary maps likewise. *)
From Coq Require Import List Arith ZArith Bool.
From Meddly Require Import Model.DD Model.Scalar Proofs.DDFacts Proofs.Canon Proofs.Reduce.

Theorem C05_binary_pointwise :
  forall (sz : nat -> nat), (forall k, 1 <= sz k) ->
  forall (f : Z -> Z -> Z) (ra rb rr : rule) L a b x,
  valid sz x -> wf L a -> wf L b ->
  (is_ir ra || is_ir rb || is_ir rr) && Nat.odd L = false ->
  eval rr L (apply2 sz f ra rb rr L 0 a b) x = f (eval ra L a x) (eval rb L b x).
Proof.
  intros sz H1 f ra rb rr L a b x Hx Ha Hb Hc.
  apply (apply2_eval sz ra rb rr); auto; intros E;
    destruct (is_ir ra), (is_ir rb), (is_ir rr), (Nat.odd L); cbn in *; discriminate.
Qed.
Print Assumptions C05_binary_pointwise.

Theorem C05_unary_pointwise :
  forall (sz : nat -> nat), (forall k, 1 <= sz k) ->
  forall (f : Z -> Z) (ra rr : rule) L a x,
  valid sz x -> wf L a ->
  (is_ir ra || is_ir rr) && Nat.odd L = false ->
  eval rr L (apply1 sz f ra rr L 0 a) x = f (eval ra L a x).
Proof.
  intros sz H1 f ra rr L a x Hx Ha Hc.
  apply (apply1_eval sz ra rr); auto; intros E;
    destruct (is_ir ra), (is_ir rr), (Nat.odd L); cbn in *; discriminate.
Qed.
Print Assumptions C05_unary_pointwise.
