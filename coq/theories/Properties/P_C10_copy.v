(** C10: copying into a forest with another reduction rule / range type yields
    the pointwise scalar conversion; the result is reduced in the target
    forest; copying there and back is the identity when the conversion is
    invertible on the values taken (by canonicity). *)
From Coq Require Import List Arith ZArith Bool.
From Meddly Require Import Model.DD Model.Scalar Proofs.DDFacts Proofs.Canon Proofs.Reduce.

Theorem C10_copy_pointwise :
  forall (sz : nat -> nat), (forall k, 1 <= sz k) ->
  forall (cv : Z -> Z) (ra rr : rule) L a x,
  valid sz x -> wf L a ->
  (is_ir ra || is_ir rr) && Nat.odd L = false ->
  eval rr L (copy sz cv ra rr L a) x = cv (eval ra L a x).
Proof.
  intros sz H1 cv ra rr L a x Hx Ha Hc. unfold copy.
  apply (apply1_eval sz ra rr); auto; intros E;
    destruct (is_ir ra), (is_ir rr), (Nat.odd L); cbn in *; discriminate.
Qed.
Print Assumptions C10_copy_pointwise.

Theorem C10_copy_roundtrip :
  forall (sz : nat -> nat) (ra rr : rule),
  (forall k, 1 <= sz k) ->
  paired sz ra -> paired sz rr ->
  (is_ir ra = true -> forall k, 2 <= sz k) ->
  forall (cv cv' : Z -> Z) L a,
  (is_ir ra || is_ir rr) && Nat.odd L = false ->
  reducedb sz ra L None a = true ->
  (forall x, valid sz x -> cv' (cv (eval ra L a x)) = eval ra L a x) ->
  copy sz cv' rr ra L (copy sz cv ra rr L a) = a.
Proof.
  intros sz ra rr H1 Hpa Hpr H2 cv cv' L a Hc Ra Hinv.
  assert (Hca : is_ir ra && Nat.odd L = false)
    by (destruct (is_ir ra), (is_ir rr), (Nat.odd L); cbn in *; auto).
  assert (Hcr : (is_ir rr || is_ir ra) && Nat.odd L = false)
    by (destruct (is_ir ra), (is_ir rr), (Nat.odd L); cbn in *; auto).
  apply (canon sz ra H1 Hpa H2 L None); [exact I| |exact Ra|].
  - eapply reduced_from_irrel; [exact Hca|]. unfold copy. now apply apply1_reduced.
  - intros x Hx _.
    change (eval ra L (copy sz cv' rr ra L (copy sz cv ra rr L a)) x = eval ra L a x).
    rewrite C10_copy_pointwise; auto.
    + rewrite C10_copy_pointwise; auto. eapply reduced_wf; eauto.
    + unfold copy. eapply reduced_wf. apply (apply1_reduced sz H1 ra rr cv Hpr L 0 a).
Qed.
Print Assumptions C10_copy_roundtrip.
