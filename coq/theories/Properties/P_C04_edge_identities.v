(** C04 + C01 (function level): the laws of the set algebra hold as edge
    identities, not only pointwise.  Whatever operands, operand forests and
    scalar functions produce the same pointwise result, the generic apply
    recursion returns the identical diagram in the result forest: the result
    is reduced (C02) and pointwise (C04), so canonicity (C01) applies.
    Corollaries: union and intersection commute, De Morgan, and difference
    is intersection with the complement -- as identical edges, for every
    domain, reduction rule mix and operand pair. *)
From Coq Require Import List Arith ZArith Bool.
From Meddly Require Import Model.DD Model.Scalar Proofs.DDFacts Proofs.Canon Proofs.Reduce.

Theorem C04_same_function_identical_edge :
  forall (sz : nat -> nat), (forall k, 1 <= sz k) ->
  forall (rr : rule), paired sz rr -> (is_ir rr = true -> forall k, 2 <= sz k) ->
  forall (f g : Z -> Z -> Z) (ra rb rc rd : rule) L a b c d,
  wf L a -> wf L b -> wf L c -> wf L d ->
  (is_ir ra || is_ir rb || is_ir rc || is_ir rd || is_ir rr) && Nat.odd L = false ->
  (forall x, valid sz x ->
     f (eval ra L a x) (eval rb L b x) = g (eval rc L c x) (eval rd L d x)) ->
  apply2 sz f ra rb rr L 0 a b = apply2 sz g rc rd rr L 0 c d.
Proof.
  intros sz H1 rr Hp H2 f g ra rb rc rd L a b c d Ha Hb Hc' Hd Hc E.
  assert (Hrr : is_ir rr && Nat.odd L = false)
    by (destruct (is_ir ra), (is_ir rb), (is_ir rc), (is_ir rd), (is_ir rr), (Nat.odd L);
        cbn in *; congruence).
  apply (canon sz rr H1 Hp H2 L None _ _ I).
  - eapply reduced_from_irrel; [exact Hrr|]. now apply apply2_reduced.
  - eapply reduced_from_irrel; [exact Hrr|]. now apply apply2_reduced.
  - intros x Hx _.
    transitivity (f (eval ra L a x) (eval rb L b x)).
    + apply (apply2_eval sz ra rb rr); auto; intros E';
        destruct (is_ir ra), (is_ir rb), (is_ir rc), (is_ir rd), (is_ir rr), (Nat.odd L);
        cbn in *; discriminate.
    + rewrite (E x Hx). symmetry.
      apply (apply2_eval sz rc rd rr); auto; intros E';
        destruct (is_ir ra), (is_ir rb), (is_ir rc), (is_ir rd), (is_ir rr), (Nat.odd L);
        cbn in *; discriminate.
Qed.
Print Assumptions C04_same_function_identical_edge.

(** union and intersection commute as edges, operands in any forests *)
Theorem C04_commutative_edges :
  forall (sz : nat -> nat), (forall k, 1 <= sz k) ->
  forall (rr : rule), paired sz rr -> (is_ir rr = true -> forall k, 2 <= sz k) ->
  forall (o : binop), o = OUnion \/ o = OInter ->
  forall (ra rb : rule) L a b, wf L a -> wf L b ->
  (is_ir ra || is_ir rb || is_ir rr) && Nat.odd L = false ->
  apply2 sz (scalar2 o 1 1) ra rb rr L 0 a b = apply2 sz (scalar2 o 1 1) rb ra rr L 0 b a.
Proof.
  intros sz H1 rr Hp H2 o Ho ra rb L a b Ha Hb Hc.
  apply C04_same_function_identical_edge; auto.
  - destruct (is_ir ra), (is_ir rb), (is_ir rr), (Nat.odd L); cbn in *; congruence.
  - intros x _. destruct Ho; subst o; unfold scalar2, b2z;
      destruct (truthy (eval ra L a x)), (truthy (eval rb L b x)); reflexivity.
Qed.
Print Assumptions C04_commutative_edges.

(** difference is intersection with the complement, as edges: a \ b built
    directly equals a * (complement of b) with the complement taken in any
    intermediate forest [rm] *)
Theorem C04_difference_via_complement :
  forall (sz : nat -> nat), (forall k, 1 <= sz k) ->
  forall (rr rm : rule), paired sz rr -> paired sz rm ->
  (is_ir rr = true -> forall k, 2 <= sz k) ->
  forall (ra rb : rule) L a b, wf L a -> wf L b ->
  (is_ir ra || is_ir rb || is_ir rm || is_ir rr) && Nat.odd L = false ->
  apply2 sz (scalar2 ODiff 1 1) ra rb rr L 0 a b
  = apply2 sz (scalar2 OInter 1 1) ra rm rr L 0 a (apply1 sz (compl 1) rb rm L 0 b).
Proof.
  intros sz H1 rr rm Hp Hpm H2 ra rb L a b Ha Hb Hc.
  assert (Hrm : is_ir rm && Nat.odd L = false)
    by (destruct (is_ir ra), (is_ir rb), (is_ir rm), (is_ir rr), (Nat.odd L); cbn in *; congruence).
  assert (Hwm : wf L (apply1 sz (compl 1) rb rm L 0 b)).
  { eapply (reduced_wf sz rm L None). eapply reduced_from_irrel; [exact Hrm|]. now apply apply1_reduced. }
  apply C04_same_function_identical_edge; auto.
  - destruct (is_ir ra), (is_ir rb), (is_ir rm), (is_ir rr), (Nat.odd L); cbn in *; congruence.
  - intros x Hx.
    assert (Em : eval rm L (apply1 sz (compl 1) rb rm L 0 b) x = compl 1 (eval rb L b x)).
    { apply (apply1_eval sz rb rm); auto; intros E';
        destruct (is_ir ra), (is_ir rb), (is_ir rm), (is_ir rr), (Nat.odd L); cbn in *; discriminate. }
    rewrite Em. unfold scalar2, compl, b2z.
    destruct (truthy (eval ra L a x)), (truthy (eval rb L b x)); reflexivity.
Qed.
Print Assumptions C04_difference_via_complement.

(** De Morgan as an edge identity: the complement of a union is the
    intersection of the complements, all in the result forest *)
Theorem C04_de_morgan_edges :
  forall (sz : nat -> nat), (forall k, 1 <= sz k) ->
  forall (rr : rule), paired sz rr -> (is_ir rr = true -> forall k, 2 <= sz k) ->
  forall L a b, wf L a -> wf L b -> is_ir rr && Nat.odd L = false ->
  apply1 sz (compl 1) rr rr L 0 (apply2 sz (scalar2 OUnion 1 1) rr rr rr L 0 a b)
  = apply2 sz (scalar2 OInter 1 1) rr rr rr L 0
      (apply1 sz (compl 1) rr rr L 0 a) (apply1 sz (compl 1) rr rr L 0 b).
Proof.
  intros sz H1 rr Hp H2 L a b Ha Hb Hc.
  assert (Hcx : forall x, cx rr L 0 x) by (intros x E'; rewrite Hc in E'; discriminate).
  assert (Hw1 : forall t, wf L (apply1 sz (compl 1) rr rr L 0 t)).
  { intros t. eapply (reduced_wf sz rr L None). eapply reduced_from_irrel; [exact Hc|]. now apply apply1_reduced. }
  assert (Hw2 : wf L (apply2 sz (scalar2 OUnion 1 1) rr rr rr L 0 a b)).
  { eapply (reduced_wf sz rr L None). eapply reduced_from_irrel; [exact Hc|]. now apply apply2_reduced. }
  apply (canon sz rr H1 Hp H2 L None _ _ I).
  - eapply reduced_from_irrel; [exact Hc|]. now apply apply1_reduced.
  - eapply reduced_from_irrel; [exact Hc|]. now apply apply2_reduced.
  - intros x Hx _.
    transitivity (compl 1 (scalar2 OUnion 1 1 (eval rr L a x) (eval rr L b x))).
    + etransitivity; [apply (apply1_eval sz rr rr); auto|].
      f_equal. apply (apply2_eval sz rr rr rr); auto.
    + symmetry. etransitivity; [apply (apply2_eval sz rr rr rr); auto|].
      assert (Ea : eval rr L (apply1 sz (compl 1) rr rr L 0 a) x = compl 1 (eval rr L a x))
        by (apply (apply1_eval sz rr rr); auto).
      assert (Eb : eval rr L (apply1 sz (compl 1) rr rr L 0 b) x = compl 1 (eval rr L b x))
        by (apply (apply1_eval sz rr rr); auto).
      change (evalL (is_ir rr) L) with (eval rr L). rewrite Ea, Eb.
      unfold scalar2, compl, b2z.
      destruct (truthy (eval rr L a x)), (truthy (eval rr L b x)); reflexivity.
Qed.
Print Assumptions C04_de_morgan_edges.

(** idempotence as an edge identity: the union (intersection) of a stored
    boolean-valued edge with itself is that very edge, not merely an
    equivalent diagram *)
Theorem C04_idempotent_edges :
  forall (sz : nat -> nat), (forall k, 1 <= sz k) ->
  forall (rr : rule), paired sz rr -> (is_ir rr = true -> forall k, 2 <= sz k) ->
  forall (o : binop), o = OUnion \/ o = OInter ->
  forall L a, is_ir rr && Nat.odd L = false ->
  reducedb sz rr L None a = true ->
  (forall x, valid sz x -> eval rr L a x = 0%Z \/ eval rr L a x = 1%Z) ->
  apply2 sz (scalar2 o 1 1) rr rr rr L 0 a a = a.
Proof.
  intros sz H1 rr Hp H2 o Ho L a Hc Hr Hb.
  assert (Hcx : forall x, cx rr L 0 x) by (intros x E'; rewrite Hc in E'; discriminate).
  assert (Hw : wf L a) by (eapply (reduced_wf sz rr L None); exact Hr).
  apply (canon sz rr H1 Hp H2 L None _ _ I).
  - eapply reduced_from_irrel; [exact Hc|]. now apply apply2_reduced.
  - exact Hr.
  - intros x Hx _.
    etransitivity; [apply (apply2_eval sz rr rr rr); auto|].
    change (evalL (is_ir rr) L) with (eval rr L).
    destruct (Hb x Hx) as [E|E]; rewrite E; destruct Ho; subst o; reflexivity.
Qed.
Print Assumptions C04_idempotent_edges.

(** non-vacuity: a concrete pair of sets over a 2-variable domain *)
Import ListNotations.
Definition ex_a : dd := N 2 [N 1 [T 0%Z; T 1%Z]; T 1%Z].
Definition ex_b : dd := N 1 [T 1%Z; T 0%Z].
Example C04_edge_identity_example :
  wf 2 ex_a /\ wf 2 ex_b /\
  apply2 (fun _ => 2) (scalar2 OUnion 1 1) FR FR FR 2 0 ex_a ex_b
  = apply2 (fun _ => 2) (scalar2 OUnion 1 1) FR FR FR 2 0 ex_b ex_a /\
  apply2 (fun _ => 2) (scalar2 OUnion 1 1) FR FR FR 2 0 ex_a ex_b <> ex_a /\
  apply2 (fun _ => 2) (scalar2 ODiff 1 1) FR FR FR 2 0 ex_a ex_b <> T 0%Z.
Proof. vm_compute. repeat split; auto; discriminate. Qed.
