(** C06: nothing dangles, and what the user holds keeps its function -- for the store
    machine with cache counts under either deletion policy (Model/OptStore.v), along
    EVERY history:
    - the diagram below any node of the table (and below every user reference) unfolds
      completely: no live node points to a reclaimed node;
    - a step never changes the diagram unfolded from an identifier that is still
      referenced after it; in particular every reference the user still holds denotes
      the same diagram as before the step, whatever was created, dropped, cached or
      reclaimed (including nodes revived under the optimistic policy). *)
From Coq Require Import List ZArith Bool Arith.
From Meddly Require Import Model.RefStore Model.OptStore Proofs.RefStoreP Proofs.OptStoreP Proofs.OptStoreHeld.
Import ListNotations.
Local Open Scope Z_scope.

Theorem C06_held_references_keep_their_diagram :
  forall opt ops o nm id fuel t,
  ovalid_run (os_init opt) ops ->
  let s := fold_left ostep ops (os_init opt) in
  ovalid s o ->
  lookup_name (os_names s) nm = Some id ->
  lookup_name (os_names (ostep s o)) nm = Some id ->
  unfold fuel (os_nodes s) id = Some t ->
  unfold fuel (os_nodes (ostep s o)) id = Some t.
Proof.
  intros opt ops o nm id fuel t Hv s Hvo.
  destruct (orun_inv_next ops (os_init opt) (oinit_inv opt) eq_refl Hv) as [HI Hn].
  now apply held_reference_keeps_its_diagram.
Qed.
Print Assumptions C06_held_references_keep_their_diagram.

Theorem C06_referenced_nodes_are_never_rewritten :
  forall opt ops o n,
  ovalid_run (os_init opt) ops ->
  let s := fold_left ostep ops (os_init opt) in
  ovalid s o ->
  In n (os_nodes s) -> (1 <= os_cnt (ostep s o) (sn_id n))%nat ->
  In n (os_nodes (ostep s o)).
Proof.
  intros opt ops o n Hv s Hvo.
  destruct (orun_inv_next ops (os_init opt) (oinit_inv opt) eq_refl Hv) as [HI Hn].
  now apply referenced_node_stable.
Qed.
Print Assumptions C06_referenced_nodes_are_never_rewritten.

Theorem C06_nothing_dangles :
  forall opt ops, ovalid_run (os_init opt) ops ->
  let s := fold_left ostep ops (os_init opt) in
  forall n, In n (os_nodes s) ->
  exists t, unfold (S (sn_lvl n)) (os_nodes s) (sn_id n) = Some t.
Proof.
  intros opt ops Hv s n Hn.
  destruct (orun_inv_next ops (os_init opt) (oinit_inv opt) eq_refl Hv) as [HI _].
  apply (unfold_total s HI).
  - intros m Hm Hid. destruct HI as [HC _ _ _].
    assert (m = n) by (apply (nodup_id_eq _ m n (ci_ids _ _ _ _ _ _ HC) Hm Hn Hid)). subst m. apply le_n.
  - right. now exists n.
Qed.
Print Assumptions C06_nothing_dangles.

(** non-vacuity: an optimistic history in which a node is kept by a cache entry, revived,
    and a parent built on it; the parent's diagram survives dropping the other names *)
Example C06_held_example :
  let ops := [ONew 1 1 [0; -1]; OCache 7 1; ODrop 1; ONew 2 1 [0; -1]; ONew 3 2 [1; 0]; ODrop 2] in
  let s := fold_left ostep ops (os_init true) in
  unfold 3 (os_nodes s) 2 = Some (SNode 2 [SNode 1 [SLeaf 0; SLeaf (-1)]; SLeaf 0]).
Proof. vm_compute. reflexivity. Qed.
