(** C14 for EV+ forests: the exchange file as numbered node records with edge values
    (Model/EvFile.v).  Writing any list of EV+ edges (values, +infinity, shared nodes,
    repeated roots, terminal roots) and reading the records back returns exactly the
    edges written, in the same order; in particular every function is preserved at every
    assignment. *)
From Meddly Require Import Model.DD Model.EvDD Model.EvFile Proofs.EvFileP.
From Coq Require Import List ZArith.
Import ListNotations.

Theorem C14_evplus_read_write_is_identity :
  forall es : list edge, read_efile (write_efile es) = es.
Proof. exact read_write_efile. Qed.
Print Assumptions C14_evplus_read_write_is_identity.

Theorem C14_evplus_functions_preserved :
  forall (es : list edge) L x,
  map (fun e => ev_eval L e x) (read_efile (write_efile es)) = map (fun e => ev_eval L e x) es.
Proof. exact read_write_efile_eval. Qed.
Print Assumptions C14_evplus_functions_preserved.

(** non-vacuity: two roots sharing a node, one with +infinity inside, one repeated *)
Example C14_evplus_file_example :
  let n := EN 1 [Some 0%Z; None] [EO; EO] in
  let es := [(Some 3%Z, EN 2 [Some 0%Z; Some 2%Z] [n; n]); (Some 1%Z, n); (None, EO); (Some 1%Z, n)] in
  length (fst (write_efile es)) = 2 /\ read_efile (write_efile es) = es.
Proof. vm_compute. split; reflexivity. Qed.
