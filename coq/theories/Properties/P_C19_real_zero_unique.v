(** C19 / C01, "zero is the unique transparent value": a float whose value
    after the documented rounding (last mantissa bit dropped) is +-0.0 must
    get the transparent handle 0 -- otherwise two different terminals denote
    the constant zero.  (On the pinned tree this was FALSE for the denormal
    patterns 0x00000001 and 0x80000001 -- finding F1, repaired by a fix:
    commit; the theorem is checked against the regenerated definitions on
    every run, so the defect shows up as a broken obligation if it returns.) *)
From Coq Require Import ZArith Bool Lia String.
From Meddly Require Import Model.Bits Gen.Terminal Proofs.BitsP Proofs.TerminalP.
Local Open Scope Z_scope.

Theorem C19_rounds_to_zero_gets_zero_handle : forall b,
  0 <= b < 2 ^ 32 -> float_nonzero (clear_lsb b) = false -> getRealHandle b = Ok 0.
Proof. exact rounds_to_zero_gets_zero_handle. Qed.
Print Assumptions C19_rounds_to_zero_gets_zero_handle.
