(** C01 (store level; same statement as P_C02_audit_sound): soundness of the executable audit that the
    correspondence check evaluates on the implementation's node dumps.

    If the audit of a multi-terminal forest's dump reports nothing (and the
    domain description in the dump is well formed), then every root edge
    unfolds to a diagram that satisfies the forest's reduction rule, and two
    root edges that denote the same function are the same node handle.
    Unbounded in the number of nodes, levels, sizes and roots; fully-, quasi-
    and identity-reduced forests; sets and relations. *)
From Coq Require Import List Arith ZArith Bool.
From Meddly Require Import Model.DD Model.Audit Proofs.DDFacts Proofs.Canon Proofs.AuditP.
Import ListNotations.

Theorem C01_store_sound :
  forall d : adump,
  d_lab d = LMT -> dom_ok d = true -> audit d = [] ->
  forall h1 h2, In h1 (d_roots d) -> In h2 (d_roots d) ->
  reducedb (szn d) (d_rule d) (topl d) None (root_tree d h1) = true /\
  ((forall x, valid (szn d) x ->
      eval (d_rule d) (topl d) (root_tree d h1) x = eval (d_rule d) (topl d) (root_tree d h2) x) ->
   h1 = h2).
Proof. exact audited_store_canonical. Qed.
Print Assumptions C01_store_sound.

(** the hypotheses are satisfiable: a two-level fully-reduced set forest
    holding the set { (x2,x1) = (0,1) }, and an identity-reduced relation
    forest holding one non-identity pair *)
Local Open Scope Z_scope.
Definition ex_fr : adump :=
  mkD [ mkA 1 1 1 0 0 true 1 [(0,0); (0,-1)] [(1,(0,-1))] 2;
        mkA 2 2 1 0 0 true 0 [(0,1); (0,0)] [(0,(0,1))] 2 ]
      [2] 2 2 2 false FR LMT DOpt [] [2; 2].
Example C01_store_sound_nonvacuous_fr :
  d_lab ex_fr = LMT /\ dom_ok ex_fr = true /\ audit ex_fr = [] /\ In 2 (d_roots ex_fr).
Proof. repeat split; try reflexivity. now left. Qed.

(* relation over one variable of size 2: the pair 0 -> 1 only.
   unprimed node 2 at level 1: [child 1 ; 0]; primed node 1 at level -1: [0 ; -1] *)
Definition ex_ir : adump :=
  mkD [ mkA 1 (-1) 1 0 0 true 1 [(0,0); (0,-1)] [(1,(0,-1))] 2;
        mkA 2 1 1 0 0 true 0 [(0,1); (0,0)] [(0,(0,1))] 2 ]
      [2] 2 2 2 true IR LMT DOpt [] [2; 2].
Example C01_store_sound_nonvacuous_ir :
  d_lab ex_ir = LMT /\ dom_ok ex_ir = true /\ audit ex_ir = [] /\ In 2 (d_roots ex_ir).
Proof. repeat split; try reflexivity. now left. Qed.

(** and the audit does reject: a duplicate of node 1 is reported *)
Example C01_store_rejects_duplicate :
  audit (mkD [ mkA 1 1 1 0 0 true 1 [(0,0); (0,-1)] [(1,(0,-1))] 2;
               mkA 3 1 1 0 0 true 1 [(0,0); (0,-1)] [(1,(0,-1))] 2;
               mkA 2 2 1 0 0 true (-1) [(0,1); (0,3)] [(0,(0,1)); (1,(0,3))] 2 ]
             [2] 3 3 3 false FR LMT DOpt [] [2; 2]) <> [].
Proof. vm_compute. discriminate. Qed.
