(** C13 (the swap step): exchanging two adjacent levels of a fully- or
    quasi-reduced set diagram -- the step every reordering strategy is composed
    of -- yields a diagram over the exchanged sizes that denotes the same
    function of the renamed variables: its value at x is the original's value
    at x with the two levels' values exchanged. *)
From Coq Require Import List Arith ZArith Bool.
From Meddly Require Import Model.DD Model.Swap Proofs.DDFacts Proofs.Reduce Proofs.SwapP Proofs.SwapR.
Import ListNotations.

Theorem C13_adjacent_swap_renames_the_variables :
  forall (sz : nat -> nat) (r : rule), is_ir r = false ->
  forall p L t x,
  S (S p) <= L -> reducedb sz r L None t = true -> valid (swap_sz sz p) x ->
  eval r L (swap_adj sz r p L t) x = eval r L t (swapx p x).
Proof.
  intros sz r Hr p L t x HL Hred Hx. unfold eval.
  apply (swap_adj_eval sz r Hr p L t x HL); [|exact Hx].
  now apply (reduced_wfl sz r L None).
Qed.
Print Assumptions C13_adjacent_swap_renames_the_variables.

(** the result obeys the forest's reduction rule over the exchanged sizes, and it
    is THE diagram of the renamed function there: the forest stays canonical *)
Theorem C13_adjacent_swap_keeps_the_forest_canonical :
  forall (sz : nat -> nat) (r : rule), is_ir r = false -> (forall k, 1 <= sz k) ->
  forall p L t,
  S (S p) <= L -> reducedb sz r L None t = true ->
  reducedb (swap_sz sz p) r L None (swap_adj sz r p L t) = true /\
  (forall u, reducedb (swap_sz sz p) r L None u = true ->
     (forall x, valid (swap_sz sz p) x -> eval r L u x = eval r L t (swapx p x)) ->
     u = swap_adj sz r p L t).
Proof.
  intros sz r Hr Hpos p L t HL Ht. split.
  - now apply swap_adj_reduced.
  - intros u Hu E. now apply (swap_adj_canonical sz r Hr Hpos p L t u).
Qed.
Print Assumptions C13_adjacent_swap_keeps_the_forest_canonical.

(** non-vacuity: f(x2,x1) = (x2 = 0 and x1 = 1) over sizes (x1:2, x2:3); after the
    swap the top level has size 2 and the diagram tests the old x1 first *)
Local Open Scope Z_scope.
Example C13_adjacent_swap_example :
  let sz := fun k => match k with 1%nat => 2%nat | 2%nat => 3%nat | _ => 1%nat end in
  let t := N 2 [N 1 [T 0; T 1]; T 0; T 0] in
  reducedb sz FR 2 None t = true /\
  swap_adj sz FR 0 2 t = N 2 [T 0; N 1 [T 1; T 0; T 0]].
Proof. split; vm_compute; reflexivity. Qed.
