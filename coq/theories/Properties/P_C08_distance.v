(** C08 (distance-valued variants): the iteration D := min(D, 1 + post D)
    (forward) or D := min(D, 1 + pre D) (backward) until nothing changes gives
    every state the length of a shortest path from the initial distance
    function and "unreachable" (None) exactly where there is no path; and any
    relaxation order that ends with no improvable edge gives the same. *)
From Coq Require Import List Arith ZArith Bool.
From Meddly Require Import Model.Reach Proofs.DistP.
Local Open Scope Z_scope.

Theorem C08_distance_bfs_is_shortest_path :
  forall (St : Type) (states : list St) (eqb : St -> St -> bool),
  (forall a b, eqb a b = true <-> a = b) ->
  forall (R : St -> St -> bool) fuel (D0 D : St -> option Z),
  dist_bfs St states (dpost St states R) eqb fuel D0 = Some D ->
  forall y, In y states -> shortest St states R D0 y (D y).
Proof.
  intros St states eqb He R fuel D0 D H.
  apply (dist_bfs_post_shortest St states eqb He R fuel D0 D0 D); auto.
  - intros y d _ Hd. exists d. split; [exact Hd|apply Z.le_refl].
  - intros y v Hy Hv. now apply DR0.
Qed.
Print Assumptions C08_distance_bfs_is_shortest_path.

Theorem C08_backward_distance_bfs_is_shortest_path :
  forall (St : Type) (states : list St) (eqb : St -> St -> bool),
  (forall a b, eqb a b = true <-> a = b) ->
  forall (R : St -> St -> bool) fuel (D0 D : St -> option Z),
  dist_bfs St states (dpre St states R) eqb fuel D0 = Some D ->
  forall y, In y states -> shortest St states (fun a b => R b a) D0 y (D y).
Proof. exact dist_bfs_pre_shortest. Qed.
Print Assumptions C08_backward_distance_bfs_is_shortest_path.

Theorem C08_any_relaxation_fixpoint_is_shortest_path :
  forall (St : Type) (states : list St) (R : St -> St -> bool) (D0 D : St -> option Z),
  (forall y d, In y states -> D0 y = Some d -> exists v, D y = Some v /\ v <= d) ->
  (forall y v, In y states -> D y = Some v -> DReach St states R D0 y v) ->
  (forall x y d, In x states -> In y states -> D x = Some d -> R x y = true ->
     exists v, D y = Some v /\ v <= d + 1) ->
  forall y, In y states -> shortest St states R D0 y (D y).
Proof. exact relax_closed_is_shortest. Qed.
Print Assumptions C08_any_relaxation_fixpoint_is_shortest_path.

Import ListNotations.
Example C08_distance_runs :
  exists D, dist_bfs nat [0; 1; 2]%nat
              (dpost nat [0; 1; 2]%nat (fun x y => Nat.eqb (S x) y)) Nat.eqb 5
              (fun x => if Nat.eqb x 0 then Some 0 else None) = Some D
            /\ map D [0; 1; 2]%nat = [Some 0; Some 1; Some 2].
Proof. eexists. split; [vm_compute; reflexivity|reflexivity]. Qed.
