(** C18: any request/recycle history whose responses are accepted by the
    monitor keeps the live chunks pairwise non-overlapping, each at least as
    large as requested and at a valid address; and a request is only accepted
    when its memory is disjoint from every chunk still live (memory is handed
    out again only after it was recycled). *)
From Coq Require Import List ZArith.
From Meddly Require Import Model.MemSpec Proofs.MemSpecP.
Import ListNotations.
Local Open Scope Z_scope.

Theorem C18_accepted_histories_are_safe : forall es s',
  accept_all [] es = Some s' ->
  Safe s' /\
  (forall c, In c s' -> 1 <= c_req c <= c_got c /\ 1 <= c_addr c) /\
  (forall c d, In c s' -> In d s' -> c_id c <> c_id d ->
     ~ (c_addr c < c_addr d + c_got d /\ c_addr d < c_addr c + c_got c)).
Proof.
  intros es s' H. assert (Hs : Safe s') by (eapply accept_all_safe; [constructor|exact H]).
  split; [exact Hs|]. split.
  - intros c Hc. exact (Safe_in s' Hs c Hc).
  - intros c d Hc Hd Hne. exact (Safe_pairwise s' Hs c d Hc Hd Hne).
Qed.
Print Assumptions C18_accepted_histories_are_safe.

Theorem C18_no_reuse_before_recycle : forall s id n addr got s',
  Safe s -> accept s (Req id n addr got) = Some s' ->
  forall d, In d s -> ~ (addr < c_addr d + c_got d /\ c_addr d < addr + got).
Proof. exact accept_req_fresh. Qed.
Print Assumptions C18_no_reuse_before_recycle.
