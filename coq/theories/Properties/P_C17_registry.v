(** C17: forest identifiers are monotone (never reused) within one
    initialisation, for every history of registry operations; destroying a
    forest detaches exactly the edges attached to it, and every other forest
    and every domain is left as it was. *)
From Coq Require Import List Arith.
From Meddly Require Import Model.Lifecycle Proofs.LifecycleP.

Theorem C17_forest_ids_monotone : forall os s,
  ~ In LInitialize os -> ls_next_fid s <= ls_next_fid (fold_left lstep os s).
Proof. exact fid_monotone_history. Qed.
Print Assumptions C17_forest_ids_monotone.

Theorem C17_new_id_is_fresh : forall s,
  ids_below s -> forall f, In f (ls_forests s) -> lf_id f <> ls_next_fid s.
Proof. exact fresh_fid. Qed.
Print Assumptions C17_new_id_is_fresh.

Theorem C17_destroy_detaches_exactly : forall s f e,
  In e (ls_edges s) ->
  exists e', In e' (ls_edges (lstep s (LDestroyForest f))) /\ le_id e' = le_id e /\
    le_forest e' = (match le_forest e with
                    | Some g => if Nat.eqb g f then None else Some g
                    | None => None
                    end).
Proof. exact destroy_detaches_exactly. Qed.
Print Assumptions C17_destroy_detaches_exactly.

Theorem C17_destroy_frame : forall s f g,
  In g (ls_forests s) -> lf_id g <> f ->
  In g (ls_forests (lstep s (LDestroyForest f))) /\
  ls_domains (lstep s (LDestroyForest f)) = ls_domains s.
Proof. exact destroy_frame. Qed.
Print Assumptions C17_destroy_frame.
