(** C20: saturation over a relation supplied as separate events returns the
    states reachable under the UNION of the events, however the events are
    grouped into levels: two groupings with the same events give the same
    set, and both agree with monolithic breadth-first reachability over the
    union relation. *)
From Coq Require Import List Arith Bool.
From Meddly Require Import Model.Reach Proofs.ReachP Proofs.SaturP.

Theorem C20_saturation_over_events_is_reachability_over_union :
  forall (St : Type) (states : list St) (events : list (St -> St -> bool)) fuel init S,
  saturate St states events fuel init = Some S ->
  forall y, In y states ->
  (S y = true <-> Reach St states (fun x y => existsb (fun e => e x y) events) init y).
Proof. exact saturate_lfp. Qed.
Print Assumptions C20_saturation_over_events_is_reachability_over_union.

Lemma reach_ext (St : Type) (states : list St) (R R' : St -> St -> bool) init y :
  (forall x z, R x z = R' x z) -> Reach St states R init y -> Reach St states R' init y.
Proof.
  intros E. induction 1 as [x Hx Hi|x z Hxr IH Hz HR]; [now apply Reach0|].
  apply (ReachS St states R' init x z IH Hz). rewrite <- E. exact HR.
Qed.

Theorem C20_grouping_is_irrelevant :
  forall (St : Type) (states : list St) (ev1 ev2 : list (St -> St -> bool)) f1 f2 init S1 S2,
  (forall e, In e ev1 <-> In e ev2) ->
  saturate St states ev1 f1 init = Some S1 ->
  saturate St states ev2 f2 init = Some S2 ->
  forall y, In y states -> S1 y = S2 y.
Proof.
  intros St states ev1 ev2 f1 f2 init S1 S2 Hev H1 H2 y Hy.
  pose proof (saturate_lfp St states ev1 f1 init S1 H1 y Hy) as A.
  pose proof (saturate_lfp St states ev2 f2 init S2 H2 y Hy) as B.
  assert (Hext : forall x z, union_rel St ev1 x z = union_rel St ev2 x z).
  { intros x z. unfold union_rel.
    destruct (existsb (fun e => e x z) ev1) eqn:E1; destruct (existsb (fun e => e x z) ev2) eqn:E2; auto.
    - apply existsb_exists in E1. destruct E1 as (e & He & Hv).
      assert (existsb (fun e => e x z) ev2 = true)
        by (apply existsb_exists; exists e; split; [apply Hev, He|exact Hv]). congruence.
    - apply existsb_exists in E2. destruct E2 as (e & He & Hv).
      assert (existsb (fun e => e x z) ev1 = true)
        by (apply existsb_exists; exists e; split; [apply Hev, He|exact Hv]). congruence. }
  assert (Hiff : S1 y = true <-> S2 y = true).
  { rewrite A, B. split; apply reach_ext; auto. }
  destruct (S1 y), (S2 y); auto; [symmetry; now apply Hiff|now apply Hiff].
Qed.
Print Assumptions C20_grouping_is_irrelevant.
