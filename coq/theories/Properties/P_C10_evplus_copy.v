(** C10 (EV+ sources and targets): the scalar conversions applied by COPY into
    and out of EV+ forests; copying an integer function into an EV+ forest and
    back returns the original values; +infinity has no multi-terminal
    counterpart (it becomes the transparent value 0), so the way there and back
    from EV+ is the identity exactly on the finite values. *)
From Coq Require Import ZArith Bool.
From Meddly Require Import Model.Scalar.
Local Open Scope Z_scope.

Theorem C10_int_to_evplus_and_back : forall a,
  conv_from_ev false 1 (conv_to_ev 1 a) = a.
Proof. intros a. unfold conv_from_ev, conv_to_ev. cbn. rewrite Z.quot_1_r. apply Z.mul_1_r. Qed.
Print Assumptions C10_int_to_evplus_and_back.

Theorem C10_evplus_to_int_and_back : forall v,
  conv_to_ev 1 (conv_from_ev false 1 v) = match v with Some z => Some z | None => Some 0 end.
Proof.
  intros [z|]; unfold conv_from_ev, conv_to_ev; cbn; [|reflexivity].
  now rewrite Z.mul_1_r, Z.quot_1_r.
Qed.
Print Assumptions C10_evplus_to_int_and_back.

Theorem C10_evplus_to_bool : forall v,
  conv_from_ev true 1 v = match v with Some z => if Z.eqb z 0 then 0 else 1 | None => 0 end.
Proof. intros [z|]; unfold conv_from_ev, b2z, truthy; cbn; [destruct (Z.eqb z 0)|]; reflexivity. Qed.
Print Assumptions C10_evplus_to_bool.
