(** C19 (edge values): a single-precision value survives encoding as an EV*
    edge and decoding (up to the sign of zero); zero -- and nothing else -- gets
    the transparent edge, so values that differ after rounding get different
    edges; every integer and +infinity survive encoding as an EV+ edge. *)
From Coq Require Import ZArith Bool Lia.
From Meddly Require Import Model.Scalar.
Local Open Scope Z_scope.

Theorem C19_evtimes_roundtrip : forall f,
  evt_decode (evt_encode f) = f \/ (float_is_zero f = true /\ evt_decode (evt_encode f) = 0).
Proof.
  intros f. unfold evt_decode, evt_encode. cbn. destruct (float_is_zero f) eqn:E; [right|left]; auto.
Qed.
Print Assumptions C19_evtimes_roundtrip.

Theorem C19_evtimes_zero_is_the_unique_transparent_edge : forall f,
  fst (evt_encode f) = true <-> float_is_zero f = true.
Proof. intros f. reflexivity. Qed.
Print Assumptions C19_evtimes_zero_is_the_unique_transparent_edge.

Theorem C19_evtimes_distinct_values_distinct_edges : forall f g,
  float_is_zero f = false -> evt_encode f = evt_encode g -> f = g.
Proof. intros f g _ H. unfold evt_encode in H. congruence. Qed.
Print Assumptions C19_evtimes_distinct_values_distinct_edges.

Theorem C19_evplus_roundtrip : forall v, evp_decode (evp_encode v) = v.
Proof. intros [z|]; reflexivity. Qed.
Print Assumptions C19_evplus_roundtrip.

Theorem C19_evplus_infinity_is_special : forall v,
  fst (evp_encode v) = true <-> v = None.
Proof. intros [z|]; cbn; split; congruence. Qed.
Print Assumptions C19_evplus_infinity_is_special.
