(** C12, deletion policy at the level of the node store (Model/OptStore.v vs
    Model/RefStore.v): for EVERY history of node creations, reference duplications and
    drops, as long as no cache entry exists the pessimistic and the optimistic machine go
    through exactly the same tables, counts and user references -- both are the simple
    machine of RefStore.v.  The policy can only show while a cache entry mentions an
    unreferenced node (and then, by P_C06_held_edges.v, never in the diagram of anything
    the user holds). *)
From Coq Require Import List ZArith Bool Arith.
From Meddly Require Import Model.RefStore Model.OptStore Proofs.StoreRefines.
Import ListNotations.

Theorem C12_policy_machine_is_the_simple_machine :
  forall opt ops,
  proj (fold_left ostep (map emb ops) (os_init opt)) = fold_left sstep ops st_init.
Proof. exact machines_agree. Qed.
Print Assumptions C12_policy_machine_is_the_simple_machine.

Theorem C12_deletion_policy_invisible_without_cache_entries :
  forall ops,
  proj (fold_left ostep (map emb ops) (os_init true)) =
  proj (fold_left ostep (map emb ops) (os_init false)).
Proof. intros ops. now rewrite !machines_agree. Qed.
Print Assumptions C12_deletion_policy_invisible_without_cache_entries.
