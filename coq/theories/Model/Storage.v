(** * C12 / C02: the packed node codec of src/storage/simple.cc.

    A node is given as its full list of children (0 = transparent).  It is
    stored either full -- truncated after the last non-transparent child -- or
    sparse -- the (index, child) pairs of the non-transparent children;
    [makeNode] chooses by the storage flag (FULL_ONLY, SPARSE_ONLY, or the
    smaller of the two).  Reading back always yields the same child list.
    Definitions only. *)
From Coq Require Import List ZArith Bool Arith.
Import ListNotations.
Local Open Scope Z_scope.

Inductive sflag := FullOnly | SparseOnly | FullOrSparse.

Inductive packed :=
| PFull (cs : list Z)                  (* truncated full node *)
| PSparse (es : list (nat * Z)).       (* index, child; ascending *)

(** truncate after the last non-zero entry *)
Fixpoint trunc (l : list Z) : list Z :=
  match l with
  | [] => []
  | x :: r => match trunc r with
              | [] => if x =? 0 then [] else [x]
              | t => x :: t
              end
  end.

Fixpoint sparse_from (i : nat) (l : list Z) : list (nat * Z) :=
  match l with
  | [] => []
  | x :: r => if x =? 0 then sparse_from (S i) r else (i, x) :: sparse_from (S i) r
  end.

(** slotsForNode with [h] header slots and [e] slots per edge value *)
Definition slots_for (h e : nat) (sz : nat) (sparse : bool) : nat :=
  (h + (if sparse then (2 + e) * sz else (1 + e) * sz))%nat.

Definition make_node (h e : nat) (opt : sflag) (cs : list Z) : packed :=
  let nnz := length (sparse_from 0 cs) in
  let ts := length (trunc cs) in
  match opt with
  | FullOnly => PFull (trunc cs)
  | SparseOnly => PSparse (sparse_from 0 cs)
  | FullOrSparse =>
      if (slots_for h e nnz true <? slots_for h e ts false)%nat
      then PSparse (sparse_from 0 cs) else PFull (trunc cs)
  end.

(** fillUnpacked into a full view of [n] children *)
Definition lookup_sparse (es : list (nat * Z)) (i : nat) : Z :=
  match find (fun p => Nat.eqb (fst p) i) es with
  | Some p => snd p
  | None => 0
  end.

Definition unpack_full (n : nat) (p : packed) : list Z :=
  match p with
  | PFull cs => map (fun i => nth i cs 0) (seq 0 n)
  | PSparse es => map (lookup_sparse es) (seq 0 n)
  end.
