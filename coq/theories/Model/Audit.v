(** * C02 / C06 / C07: the audit of a forest's node store, as an executable
    predicate over a dump of every active node obtained through the public
    node-inspection interface (plus the two guarded hooks: root registry and
    per-node cache count).  One clause per clause of the properties; the
    result is the list of (clause number, offending handle).
    Definitions only. *)
From Coq Require Import List ZArith Bool Arith.
From Meddly Require Import Model.DD.
Import ListNotations.
Local Open Scope Z_scope.

Inductive labeling := LMT | LEVP | LEVT.
Inductive delpol := DOpt | DPess | DNever.

Record anode := mkA {
  a_h : Z;                       (* handle (> 0) *)
  a_lvl : Z;                     (* MEDDLY level: k unprimed, -k primed *)
  a_in : Z;                      (* recorded incoming count *)
  a_cc : Z;                      (* recorded cache count (hook) *)
  a_ce : Z;                      (* compute-table entries mentioning it *)
  a_hok : bool;                  (* hash(full view)=hash(sparse view)=hashNode *)
  a_sg : Z;                      (* isSingletonNode: index, or -1 *)
  a_full : list (Z * Z);         (* full view: (edge value, child) per index *)
  a_sparse : list (Z * (Z * Z)); (* sparse view: index, (edge value, child) *)
  a_sz : Z                       (* size of the level *)
}.

Record adump := mkD {
  d_nodes : list anode;
  d_roots : list Z;
  d_count : Z;                   (* getCurrentNumNodes *)
  d_ut : Z;                      (* sum of unique-table entries *)
  d_active : Z;                  (* handles with isActiveNode *)
  d_rel : bool;
  d_rule : rule;
  d_lab : labeling;
  d_del : delpol;
  d_zombies : list (Z * (Z * Z)); (* inactive handle, (cache count, entries) *)
  d_lsz : list Z                 (* size of every linear level, level 1 first *)
}.

(** position of a level in the top-down order (larger = higher) *)
Definition lpos (rel : bool) (l : Z) : Z :=
  if rel then (if 0 <? l then 2 * l else if l <? 0 then -2 * l - 1 else 0) else l.

Definition down_level (rel : bool) (l : Z) : Z :=
  if rel then (if 0 <? l then - l else - l - 1) else l - 1.

Definition find_node (d : adump) (h : Z) : option anode :=
  find (fun n => a_h n =? h) (d_nodes d).

Definition level_of (d : adump) (h : Z) : Z :=
  if h <=? 0 then 0 else match find_node d h with Some n => a_lvl n | None => 0 end.

Definition pair_eqb (a b : Z * Z) : bool := (fst a =? fst b) && (snd a =? snd b).

Fixpoint list_eqb {A} (eqb : A -> A -> bool) (l1 l2 : list A) : bool :=
  match l1, l2 with
  | [], [] => true
  | x :: r1, y :: r2 => eqb x y && list_eqb eqb r1 r2
  | _, _ => false
  end.

(** the transparent edge: node 0 (edge value irrelevant for EV forests) *)
Definition transparent (e : Z * Z) : bool := snd e =? 0.

Definition edge_eqb (lab : labeling) (a b : Z * Z) : bool :=
  match lab with
  | LMT => snd a =? snd b
  | _ => if transparent a then transparent b else pair_eqb a b
  end.

Definition all_equal (lab : labeling) (es : list (Z * Z)) : bool :=
  match es with
  | [] => true
  | e :: r => forallb (edge_eqb lab e) r
  end.

(** non-transparent entries of the full view, with their indices *)
Fixpoint nonzero_from (i : Z) (es : list (Z * Z)) : list (Z * (Z * Z)) :=
  match es with
  | [] => []
  | e :: r => if transparent e then nonzero_from (i + 1) r
              else (i, e) :: nonzero_from (i + 1) r
  end.

Definition sparse_eqb (lab : labeling) (a b : Z * (Z * Z)) : bool :=
  (fst a =? fst b) && edge_eqb lab (snd a) (snd b).

(** is [h] a primed-level singleton node; returns its index *)
Definition singleton_index (n : anode) : option Z :=
  match nonzero_from 0 (a_full n) with
  | [(i, _)] => Some i
  | _ => None
  end.

Definition count_occ_Z (h : Z) (l : list Z) : Z :=
  Z.of_nat (length (filter (fun x => x =? h) l)).

Definition child_refs (d : adump) : list Z :=
  flat_map (fun n => map snd (a_full n)) (d_nodes d).

(** clause numbers:
    1 duplicate content at a level        2 entirely transparent node
    3 redundant node where forbidden      4 quasi-reduced forest skips a level
    5 illegal singleton edge (identity-reduced)
    6 child not strictly below / not live 7 full view <> sparse view
    8 hashes disagree                     9 node count <> live nodes <> unique table
    10 incoming count not exact           11 unreferenced node not reclaimed
    12 cache count <> number of entries   13 edge values not normalised
    14 full view has the wrong size       15 singleton flag disagrees with content
    16 recorded level size differs from the forest's level size
    17 node at level 0                    18 quasi-reduced root edge below the top level
    19 root edge to a handle that is neither a terminal nor a live node
    20 edge-valued forest: a terminal child other than the two terminals (0, -1) *)

Definition check_node (d : adump) (n : anode) : list (nat * Z) :=
  let rel := d_rel d in
  let lab := d_lab d in
  let h := a_h n in
  let fl := a_full n in
  let c2 := if forallb transparent fl then [(2%nat, h)] else [] in
  let redundant_forbidden :=
    match d_rule d with
    | FR => true
    | QR => false
    | IR => 0 <? a_lvl n
    end in
  let c3 := if redundant_forbidden && (Z.of_nat (length fl) =? a_sz n) && all_equal lab fl
            then [(3%nat, h)] else [] in
  let dl := down_level rel (a_lvl n) in
  let c4 := match d_rule d with
            | QR => if forallb (fun e => transparent e ||
                                  (if dl =? 0 then snd e <? 0
                                   else (0 <? snd e) && (level_of d (snd e) =? dl))) fl
                    then [] else [(4%nat, h)]
            | _ => []
            end in
  let c6 := if forallb (fun e => (snd e <=? 0) ||
                         (match find_node d (snd e) with
                          | Some c => lpos rel (a_lvl c) <? lpos rel (a_lvl n)
                          | None => false
                          end)) fl
            then [] else [(6%nat, h)] in
  let c7 := if list_eqb (sparse_eqb lab) (nonzero_from 0 fl) (a_sparse n)
            then [] else [(7%nat, h)] in
  let c8 := if a_hok n then [] else [(8%nat, h)] in
  let c12 := if a_cc n =? a_ce n then [] else [(12%nat, h)] in
  let c13 :=
    match lab with
    | LEVP =>
        let vals := map (fun e => fst (snd e)) (nonzero_from 0 fl) in
        let ok := match vals with
                  | [] => true
                  | v :: r => (fold_left Z.min r v =? 0)
                  end in
        if ok then [] else [(13%nat, h)]
    | _ => []
    end in
  let c14 := if Z.of_nat (length fl) =? a_sz n then [] else [(14%nat, h)] in
  let c16 := if a_sz n =? nth (Z.to_nat (lpos rel (a_lvl n) - 1)) (d_lsz d) 0 then [] else [(16%nat, h)] in
  let c15 := match singleton_index n with
             | Some i => if a_sg n =? i then [] else [(15%nat, h)]
             | None => if a_sg n =? -1 then [] else [(15%nat, h)]
             end in
  let c17 := if 0 <? lpos rel (a_lvl n) then [] else [(17%nat, h)] in
  let c20 := match lab with
             | LMT => []
             | _ => if forallb (fun e => -1 <=? snd e) fl then [] else [(20%nat, h)]
             end in
  c2 ++ c3 ++ c4 ++ c6 ++ c7 ++ c8 ++ c12 ++ c13 ++ c14 ++ c15 ++ c16 ++ c17 ++ c20.

(** clause 5: references to primed-level singleton nodes *)
Definition is_singleton_at (d : adump) (c : Z) (i : Z) : bool :=
  match find_node d c with
  | Some cn => (a_lvl cn <? 0) &&
               match singleton_index cn with Some j => j =? i | None => false end
  | None => false
  end.

Definition is_singleton (d : adump) (c : Z) : bool :=
  match find_node d c with
  | Some cn => (a_lvl cn <? 0) &&
               match singleton_index cn with Some _ => true | None => false end
  | None => false
  end.

Fixpoint check_singleton_edges (d : adump) (n : anode) (i : Z) (es : list (Z * Z)) : list (nat * Z) :=
  match es with
  | [] => []
  | e :: r =>
      let c := snd e in
      let bad :=
        (0 <? c) &&
        (if (0 <? a_lvl n) && (level_of d c =? - a_lvl n)
         then is_singleton_at d c i        (* from the unprimed level directly above *)
         else is_singleton d c)            (* from anywhere else *)
      in
      (if bad then [(5%nat, a_h n)] else []) ++ check_singleton_edges d n (i + 1) r
  end.

Definition check_ir (d : adump) : list (nat * Z) :=
  match d_rule d with
  | IR =>
      flat_map (fun n => check_singleton_edges d n 0 (a_full n)) (d_nodes d)
      ++ flat_map (fun r => if is_singleton d r then [(5%nat, r)] else []) (d_roots d)
  | _ => []
  end.

(** clause 1: duplicates *)
Fixpoint check_dups (lab : labeling) (ns : list anode) : list (nat * Z) :=
  match ns with
  | [] => []
  | n :: r =>
      (if existsb (fun m => (a_lvl m =? a_lvl n) &&
                            list_eqb (edge_eqb lab) (a_full m) (a_full n)) r
       then [(1%nat, a_h n)] else [])
      ++ check_dups lab r
  end.

(** clauses 10 and 11: reference counts (no node is under construction at a
    quiescent point) *)
Definition check_counts (d : adump) : list (nat * Z) :=
  let refs := child_refs d in
  flat_map (fun n =>
    let expect := count_occ_Z (a_h n) refs + count_occ_Z (a_h n) (d_roots d) in
    (if a_in n =? expect then [] else [(10%nat, a_h n)]) ++
    (if (a_in n =? 0) &&
        (match d_del d with DPess => true | _ => a_cc n =? 0 end)
     then [(11%nat, a_h n)] else [])) (d_nodes d).

Definition check_totals (d : adump) : list (nat * Z) :=
  let n := Z.of_nat (length (d_nodes d)) in
  (if (d_count d =? n) && (d_active d =? n) && (d_ut d =? n) then [] else [(9%nat, 0)])
  ++ flat_map (fun z => if fst (snd z) =? snd (snd z) then [] else [(12%nat, fst z)]) (d_zombies d).

(** clause 18: in a quasi-reduced forest a root edge is the transparent
    terminal or points to the top level *)
Definition check_roots (d : adump) : list (nat * Z) :=
  flat_map (fun r =>
    (if (r <=? 0) || (match find_node d r with Some _ => true | None => false end)
     then [] else [(19%nat, r)]) ++
    match d_rule d with
    | QR => if (r =? 0) || (lpos (d_rel d) (level_of d r) =? Z.of_nat (length (d_lsz d)))
            then [] else [(18%nat, r)]
    | _ => []
    end ++
    match d_lab d with
    | LMT => []
    | _ => if -1 <=? r then [] else [(20%nat, r)]
    end) (d_roots d).

(** the domain description in the dump is well formed: every level has at
    least one value; an identity-reduced forest is a relation forest whose
    primed and unprimed levels pair up with equal sizes of at least 2 *)
Fixpoint pairedb (l : list Z) : bool :=
  match l with
  | a :: b :: r => (a =? b) && pairedb r
  | _ => true
  end.

Definition dom_ok (d : adump) : bool :=
  forallb (fun z => 1 <=? z) (d_lsz d) &&
  match d_rule d with
  | IR => d_rel d && forallb (fun z => 2 <=? z) (d_lsz d)
          && Nat.even (length (d_lsz d)) && pairedb (d_lsz d)
  | _ => true
  end.

Definition audit (d : adump) : list (nat * Z) :=
  check_totals d ++ check_dups (d_lab d) (d_nodes d)
  ++ flat_map (check_node d) (d_nodes d) ++ check_ir d ++ check_counts d ++ check_roots d.
