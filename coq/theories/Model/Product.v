(** * C15 on sets too large to tabulate: product sets.

    A product set allows, at every level k, the values listed in [al k]
    (strictly increasing, below the level's size).  Its members in the
    lexicographic order of the domain are numbered by mixed-radix counting:
    the i-th member has, at level k, the value number (i / c_{k-1}) mod |al k|
    of [al k], where c_{k-1} is the number of members of the product of the
    levels below k.  [unrankN] computes it with binary numbers, so that the
    extracted model answers lookups in sets of 2^33 members.  Definitions only. *)
From Meddly Require Import Model.DD.
From Coq Require Import List Arith NArith Bool.
Import ListNotations.

Fixpoint prod_count (al : nat -> list nat) (L : nat) : nat :=
  match L with
  | O => 1
  | S L' => length (al (S L')) * prod_count al L'
  end.

Fixpoint unrank (al : nat -> list nat) (L : nat) (i : nat) : nat -> nat :=
  match L with
  | O => fun _ => O
  | S L' =>
      let c := prod_count al L' in
      upd (unrank al L' (i mod c)) (S L') (nth (i / c) (al (S L')) O)
  end.

Definition in_pset (al : nat -> list nat) (L : nat) (x : nat -> nat) : bool :=
  forallb (fun k => existsb (Nat.eqb (x k)) (al k)) (seq 1 L).

(** binary versions, for execution *)
Fixpoint prod_countN (al : nat -> list nat) (L : nat) : N :=
  match L with
  | O => 1%N
  | S L' => (N.of_nat (length (al (S L'))) * prod_countN al L')%N
  end.

Fixpoint unrankN (al : nat -> list nat) (L : nat) (i : N) : nat -> nat :=
  match L with
  | O => fun _ => O
  | S L' =>
      let c := prod_countN al L' in
      upd (unrankN al L' (i mod c)%N) (S L') (nth (N.to_nat (i / c)%N) (al (S L')) O)
  end.

(** position of a member, the inverse of [unrankN] *)
Fixpoint pos_in (v : nat) (l : list nat) : N :=
  match l with
  | [] => 0%N
  | a :: r => if Nat.eqb a v then 0%N else (1 + pos_in v r)%N
  end.

Fixpoint rankN (al : nat -> list nat) (L : nat) (x : nat -> nat) : N :=
  match L with
  | O => 0%N
  | S L' => (pos_in (x (S L')) (al (S L')) * prod_countN al L' + rankN al L' x)%N
  end.
