(** * C11 / C15: enumeration, counting and index sets -- specification-level
    model over the evaluation of a diagram.  Definitions only. *)
From Coq Require Import List Arith ZArith Bool.
From Meddly Require Import Model.DD Model.Build.
Import ListNotations.
Local Open Scope nat_scope.

Section Enum.
Variable sz : nat -> nat.

(** the assignments of levels 1..L that match a mask, in lexicographic order
    (level L most significant), with the value of the function; only the
    assignments whose value is not the default 0 are visited *)
Definition enum (r : rule) (L : nat) (t : dd) (mask : list mpos) : list ((nat -> nat) * Z) :=
  filter (fun p => negb (Z.eqb (snd p) 0))
    (map (fun x => (x, eval r L t x))
       (filter (fun x => matches L mask x) (all_asg sz L))).

Definition cardinality (r : rule) (L : nat) (t : dd) : nat := length (enum r L t []).

(** distinct non-terminal sub-diagrams *)
Fixpoint subnodes (t : dd) : list dd :=
  match t with
  | T _ => []
  | N k cs => t :: flat_map subnodes cs
  end.

Fixpoint dedup (l : list dd) : list dd :=
  match l with
  | [] => []
  | x :: r => if existsb (dd_eqb x) r then dedup r else x :: dedup r
  end.

Definition node_count (t : dd) : nat := length (dedup (subnodes t)).

Definition edge_count (t : dd) : nat :=
  fold_left Nat.add
    (map (fun n => match n with
                   | N _ cs => length (filter (fun c => negb (is_zero c)) cs)
                   | T _ => 0
                   end) (dedup (subnodes t))) 0.

(** ** index sets: members numbered 0,1,... in lexicographic order *)
Definition members (r : rule) (L : nat) (t : dd) : list (nat -> nat) :=
  map fst (enum r L t []).

(** rank of every assignment: Some i for the i-th member, None (= +infinity)
    for non-members; as a table in the order of [all_asg] *)
Fixpoint rank_table (vals : list Z) (next : nat) : list (option nat) :=
  match vals with
  | [] => []
  | v :: r => if Z.eqb v 0 then None :: rank_table r next
              else Some next :: rank_table r (S next)
  end.

Definition index_table (r : rule) (L : nat) (t : dd) : list (option nat) :=
  rank_table (table sz r L t) 0.

Definition get_element (r : rule) (L : nat) (t : dd) (i : Z) : option (nat -> nat) :=
  if (i <? 0)%Z then None else nth_error (members r L t) (Z.to_nat i).

End Enum.
