(** * C14: the exchange file as a list of node records.

    [write]: nodes are numbered bottom-up in the order they are first
    completed; a node already written is referenced by its record number
    (shared sub-diagrams are written once); children refer only to earlier
    records or to terminals.  [read]: rebuild the nodes record by record.
    (mdd_writer::finish / mdd_reader::readAfterForest, io_mdds.cc.)
    Definitions only. *)
From Coq Require Import List Arith ZArith Bool.
From Meddly Require Import Model.DD.
Import ListNotations.

Inductive ref := RT (v : Z) | RN (i : nat).

Record nrec := { nr_lvl : nat; nr_cs : list ref }.

(** index of a diagram among those already written *)
Fixpoint index_of (t : dd) (done : list dd) : option nat :=
  match done with
  | [] => None
  | d :: r => if dd_eqb d t then Some 0 else option_map S (index_of t r)
  end.

(** state of the writer: records so far and, in the same order, the diagrams
    they stand for *)
Definition wstate := (list nrec * list dd)%type.

Fixpoint write_dd (t : dd) (st : wstate) {struct t} : wstate * ref :=
  match t with
  | T v => (st, RT v)
  | N k cs =>
      match index_of t (snd st) with
      | Some i => (st, RN i)
      | None =>
          let '(st', refs) :=
            (fix go (l : list dd) (st : wstate) : wstate * list ref :=
               match l with
               | [] => (st, [])
               | c :: l' =>
                   let '(st1, r) := write_dd c st in
                   let '(st2, rs) := go l' st1 in
                   (st2, r :: rs)
               end) cs st in
          (* a child may have written this very node already only if it is a
             sub-diagram of itself, which is impossible; append the record *)
          ((fst st' ++ [{| nr_lvl := k; nr_cs := refs |}], snd st' ++ [t]),
           RN (length (snd st')))
      end
  end.

Fixpoint write_roots (ts : list dd) (st : wstate) : wstate * list ref :=
  match ts with
  | [] => (st, [])
  | t :: r =>
      let '(st1, x) := write_dd t st in
      let '(st2, xs) := write_roots r st1 in
      (st2, x :: xs)
  end.

Definition write_file (ts : list dd) : list nrec * list ref :=
  let '(st, rs) := write_roots ts ([], []) in (fst st, rs).

(** the reader *)
Definition resolve (tbl : list dd) (r : ref) : dd :=
  match r with
  | RT v => T v
  | RN i => nth i tbl zero
  end.

Definition read_records (recs : list nrec) : list dd :=
  fold_left (fun tbl r => tbl ++ [N (nr_lvl r) (map (resolve tbl) (nr_cs r))]) recs [].

Definition read_file (f : list nrec * list ref) : list dd :=
  let tbl := read_records (fst f) in map (resolve tbl) (snd f).
