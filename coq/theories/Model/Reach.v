(** * C08 / C09: one-step images and reachability, at the level of sets of
    states (boolean functions over a finite list of states), and their
    realisation on decision diagrams.  Definitions only.

    Mirrors: prepost_set_mtrel (POST_IMAGE / PRE_IMAGE), reachset_no_frontier
    and reachset_frontier in src/operations/reach_trad.cc (iterate image and
    union until nothing changes / until the frontier is empty). *)
From Coq Require Import List Arith ZArith Bool.
From Meddly Require Import Model.DD Model.Scalar.
Import ListNotations.
Local Open Scope nat_scope.

Section States.
Variable St : Type.
Variable states : list St.
Variable R : St -> St -> bool.

Definition img (S : St -> bool) : St -> bool :=
  fun y => existsb (fun x => S x && R x y) states.

Definition preimg (S : St -> bool) : St -> bool :=
  fun x => existsb (fun y => S y && R x y) states.

Definition same_set (S S' : St -> bool) : bool :=
  forallb (fun y => Bool.eqb (S y) (S' y)) states.

Definition empty_set (S : St -> bool) : bool :=
  forallb (fun y => negb (S y)) states.

(** REACHABLE_TRAD_NOFS: S := S U post(S) until S does not change *)
Fixpoint bfs (fuel : nat) (S : St -> bool) : option (St -> bool) :=
  match fuel with
  | O => None
  | Datatypes.S f =>
      let S' := fun y => S y || img S y in
      if same_set S S' then Some S else bfs f S'
  end.

(** REACHABLE_TRAD_FS: keep a frontier F; S := S U post(F); F := new states;
    until F is empty *)
Fixpoint bfs_front (fuel : nat) (S F : St -> bool) : option (St -> bool) :=
  match fuel with
  | O => None
  | Datatypes.S f =>
      if empty_set F then Some S
      else
        let S' := fun y => S y || img F y in
        let F' := fun y => S' y && negb (S y) in
        bfs_front f S' F'
  end.

End States.

(** ** realisation on diagrams: a set forest over K variables with sizes
    [szS], a relation forest over the same variables (linear level 2k = the
    "from" value of variable k, 2k-1 = the "to" value) *)

Definition rel_sz (szS : nat -> nat) : nat -> nat := fun p => szS ((p + 1) / 2).

Definition pair_asg (x y : nat -> nat) : nat -> nat :=
  fun p => if Nat.even p then x (p / 2) else y ((p + 1) / 2).

Section OnDD.
Variable szS : nat -> nat.
Variable K : nat.
Variables rS rR : rule.        (* rules of the set forest and of the relation forest *)

Definition set_mem (s : dd) (x : nat -> nat) : bool := truthy (eval rS K s x).
Definition rel_mem (r : dd) (x y : nat -> nat) : bool :=
  truthy (eval rR (2 * K) r (pair_asg x y)).

Definition states_of : list (nat -> nat) := all_asg szS K.

Definition dd_of_set (rOut : rule) (S : (nat -> nat) -> bool) : dd :=
  of_fun szS rOut K 0 (fun x => b2z 1 (S x)) (fun _ => 0).

Definition post_dd (rOut : rule) (s r : dd) : dd :=
  dd_of_set rOut (img (nat -> nat) states_of (rel_mem r) (set_mem s)).

Definition pre_dd (rOut : rule) (s r : dd) : dd :=
  dd_of_set rOut (preimg (nat -> nat) states_of (rel_mem r) (set_mem s)).

Definition reach_dd (rOut : rule) (s r : dd) : option dd :=
  match bfs (nat -> nat) states_of (rel_mem r) (S (length states_of)) (set_mem s) with
  | Some Sr => Some (dd_of_set rOut Sr)
  | None => None
  end.

Definition rreach_dd (rOut : rule) (s r : dd) : option dd :=
  match bfs (nat -> nat) states_of (fun x y => rel_mem r y x) (S (length states_of)) (set_mem s) with
  | Some Sr => Some (dd_of_set rOut Sr)
  | None => None
  end.

(** cross product of two sets: the relation {(x,y) | x in a, y in b};
    [rB] is the rule of the second operand's forest *)
Definition unprimed_of (z : nat -> nat) : nat -> nat := fun k => z (2 * k).
Definition primed_of (z : nat -> nat) : nat -> nat := fun k => z (2 * k - 1).

Definition cross_dd (rB rOut : rule) (a b : dd) : dd :=
  of_fun (rel_sz szS) rOut (2 * K) 0
    (fun z => b2z 1 (truthy (eval rS K a (unprimed_of z)) && truthy (eval rB K b (primed_of z))))
    (fun _ => 0).

(** vector-matrix products over integer-valued functions *)
Definition vm_fun (v : dd) (m : dd) (y : nat -> nat) : Z :=
  fold_left Z.add
    (map (fun x => (eval rS K v x * eval rR (2 * K) m (pair_asg x y))%Z) states_of) 0%Z.

Definition mv_fun (m : dd) (v : dd) (x : nat -> nat) : Z :=
  fold_left Z.add
    (map (fun y => (eval rR (2 * K) m (pair_asg x y) * eval rS K v y)%Z) states_of) 0%Z.

Definition vm_dd (rOut : rule) (v m : dd) : dd := of_fun szS rOut K 0 (vm_fun v m) (fun _ => 0).
Definition mv_dd (rOut : rule) (m v : dd) : dd := of_fun szS rOut K 0 (mv_fun m v) (fun _ => 0).

End OnDD.

(** ** distance-valued variants: a "set" maps every state to a distance or to
    "unreachable" (None: +infinity for EV+, a negative terminal for MT). *)
Section Dist.
Variable St : Type.
Variable states : list St.
Variable R : St -> St -> bool.

Definition dmin (a b : option Z) : option Z :=
  match a, b with
  | None, x | x, None => x
  | Some u, Some v => Some (Z.min u v)
  end.

(** one plus the minimum distance over the predecessors *)
Definition dpost (D : St -> option Z) : St -> option Z :=
  fun y => fold_left (fun acc x =>
                        if R x y then dmin acc (option_map (fun d => (d + 1)%Z) (D x)) else acc)
                     states None.

Definition dpre (D : St -> option Z) : St -> option Z :=
  fun x => fold_left (fun acc y =>
                        if R x y then dmin acc (option_map (fun d => (d + 1)%Z) (D y)) else acc)
                     states None.

Definition oz_eqb (a b : option Z) : bool :=
  match a, b with
  | None, None => true
  | Some u, Some v => Z.eqb u v
  | _, _ => false
  end.

Definition same_dist (D D' : St -> option Z) : bool :=
  forallb (fun y => oz_eqb (D y) (D' y)) states.

(** iterate D := min(D, post D) until nothing changes; the table of the
    current distances is materialised at every round (as the library
    materialises a diagram) so that a round costs |states|^2 *)
Definition tabulate (eqb : St -> St -> bool) (D : St -> option Z) : St -> option Z :=
  let tb := map (fun y => (y, D y)) states in
  fun y => match find (fun p => eqb (fst p) y) tb with
           | Some p => snd p
           | None => D y
           end.

Fixpoint dist_bfs (step : (St -> option Z) -> St -> option Z)
         (eqb : St -> St -> bool) (fuel : nat) (D : St -> option Z) : option (St -> option Z) :=
  match fuel with
  | O => None
  | Datatypes.S f =>
      let D' := tabulate eqb (fun y => dmin (D y) (step D y)) in
      if same_dist D D' then Some D else dist_bfs step eqb f D'
  end.

End Dist.

(** ** saturation, at the level of sets of states.

    The transition relation is partitioned into events grouped by the level of
    their top variable ([lv]: one relation per level, top level first).
    Saturating at a level means: saturate all lower levels, fire the level's
    own events once, and repeat until nothing changes -- the nested fixed
    point that the saturation operations in src/operations/sat_*.cc compute
    node by node.  [fire_seq] is the general form: any sequence of firings of
    single events restricted to arbitrary subsets of the current set. *)
Section Saturation.
Variable St : Type.
Variable states : list St.

Definition union_rel (evs : list (St -> St -> bool)) : St -> St -> bool :=
  fun x y => existsb (fun e => e x y) evs.

Fixpoint sat_loop (sub : (St -> bool) -> option (St -> bool)) (E : St -> St -> bool)
         (n : nat) (S : St -> bool) : option (St -> bool) :=
  match n with
  | O => None
  | Datatypes.S n' =>
      match sub S with
      | None => None
      | Some S1 =>
          let S2 := fun y => S1 y || img St states E S1 y in
          if same_set St states S S2 then Some S else sat_loop sub E n' S2
      end
  end.

Fixpoint saturate (lv : list (St -> St -> bool)) (fuel : nat) (S : St -> bool)
  : option (St -> bool) :=
  match lv with
  | [] => Some S
  | E :: lower => sat_loop (saturate lower fuel) E fuel S
  end.

(** one firing: event [e], restricted to the sources selected by [sel] *)
Definition fire (e : St -> St -> bool) (sel : St -> bool) (S : St -> bool) : St -> bool :=
  fun y => S y || img St states e (fun x => S x && sel x) y.

Definition fire_seq (sched : list ((St -> St -> bool) * (St -> bool))) (S : St -> bool)
  : St -> bool :=
  fold_left (fun S p => fire (fst p) (snd p) S) sched S.

End Saturation.

(** REACHABLE_TRAD_FS on diagrams *)
Definition reach_fs_dd (szS : nat -> nat) (K : nat) (rS rR rOut : rule) (s r : dd) : option dd :=
  match bfs_front (nat -> nat) (states_of szS K) (rel_mem K rR r) (S (length (states_of szS K)))
                  (set_mem K rS s) (set_mem K rS s) with
  | Some Sr => Some (dd_of_set szS K rOut Sr)
  | None => None
  end.

(** saturation realised on diagrams: the initial set [s], the events (one
    relation diagram per level group, all in the relation forest with rule
    [rR]); the result is built in a forest with rule [rOut] *)
Definition sat_dd (szS : nat -> nat) (K : nat) (rS rR rOut : rule) (s : dd) (evs : list dd)
  : option dd :=
  match saturate (nat -> nat) (states_of szS K) (map (rel_mem K rR) evs)
                 (S (length (states_of szS K))) (set_mem K rS s) with
  | Some Sr => Some (dd_of_set szS K rOut Sr)
  | None => None
  end.

(** ** executable variants that materialise the current set at every round.

    [bfs], [bfs_front] and [saturate] above build a closure per round, so
    evaluating the set of round n costs |states|^n.  The variants below store
    the set of each round as a table (as the library stores a diagram); they are
    proved to return the same sets (TabP.v) and the same diagrams. *)
Section Tabulated.
Variable St : Type.
Variable states : list St.
Variable eqb : St -> St -> bool.

Definition tab_set (S : St -> bool) : St -> bool :=
  let tb := map (fun x => (x, S x)) states in
  fun y => match find (fun p => eqb (fst p) y) tb with
           | Some p => snd p
           | None => S y
           end.

Fixpoint bfs_t (R : St -> St -> bool) (fuel : nat) (S : St -> bool) : option (St -> bool) :=
  match fuel with
  | O => None
  | Datatypes.S f =>
      let S' := tab_set (fun y => S y || img St states R S y) in
      if same_set St states S S' then Some S else bfs_t R f S'
  end.

Fixpoint bfs_front_t (R : St -> St -> bool) (fuel : nat) (S F : St -> bool) : option (St -> bool) :=
  match fuel with
  | O => None
  | Datatypes.S f =>
      if empty_set St states F then Some S
      else
        let S' := tab_set (fun y => S y || img St states R F y) in
        let F' := tab_set (fun y => S' y && negb (S y)) in
        bfs_front_t R f S' F'
  end.

Fixpoint sat_loop_t (sub : (St -> bool) -> option (St -> bool)) (E : St -> St -> bool)
         (n : nat) (S : St -> bool) : option (St -> bool) :=
  match n with
  | O => None
  | Datatypes.S n' =>
      match sub S with
      | None => None
      | Some S1 =>
          let S2 := tab_set (fun y => S1 y || img St states E S1 y) in
          if same_set St states S S2 then Some S else sat_loop_t sub E n' S2
      end
  end.

Fixpoint saturate_t (lv : list (St -> St -> bool)) (fuel : nat) (S : St -> bool)
  : option (St -> bool) :=
  match lv with
  | [] => Some S
  | E :: lower => sat_loop_t (saturate_t lower fuel) E fuel S
  end.

End Tabulated.

(** assignments are compared on the levels 1..K *)
Definition asg_eqb (K : nat) (x y : nat -> nat) : bool :=
  forallb (fun k => Nat.eqb (x k) (y k)) (seq 1 K).

Section FastDD.
Variable szS : nat -> nat.
Variable K : nat.
Variables rS rR rOut : rule.
Notation sts := (states_of szS K).
Notation fuel := (S (length (states_of szS K))).

Definition opt_dd (o : option ((nat -> nat) -> bool)) : option dd :=
  match o with Some Sr => Some (dd_of_set szS K rOut Sr) | None => None end.

Definition reach_dd_fast (s r : dd) : option dd :=
  opt_dd (bfs_t _ sts (asg_eqb K) (rel_mem K rR r) fuel (set_mem K rS s)).

Definition rreach_dd_fast (s r : dd) : option dd :=
  opt_dd (bfs_t _ sts (asg_eqb K) (fun x y => rel_mem K rR r y x) fuel (set_mem K rS s)).

Definition reach_fs_dd_fast (s r : dd) : option dd :=
  opt_dd (bfs_front_t _ sts (asg_eqb K) (rel_mem K rR r) fuel (set_mem K rS s) (set_mem K rS s)).

Definition sat_dd_fast (s : dd) (evs : list dd) : option dd :=
  opt_dd (saturate_t _ sts (asg_eqb K) (map (rel_mem K rR) evs) fuel (set_mem K rS s)).

End FastDD.
