(** * C13: variable reordering at the function level.

    After reordering, the variable that was at old level j is at new level
    [src j]; the sizes of the levels are permuted accordingly ([sz'] is the
    size function after reordering).  The reordered diagram is the canonical
    diagram of the same function of the renamed variables.
    Definitions only. *)
From Coq Require Import List Arith ZArith Bool.
From Meddly Require Import Model.DD.
Import ListNotations.

Definition permute_dd (sz' : nat -> nat) (r : rule) (L : nat) (src : nat -> nat) (t : dd) : dd :=
  of_fun sz' r L 0 (fun x' => eval r L t (fun j => x' (src j))) (fun _ => 0).

(** the adjacent-variable swap used by every reordering strategy: levels
    k and k+1 exchange their variables *)
Definition swap_src (k : nat) : nat -> nat :=
  fun j => if Nat.eqb j k then S k else if Nat.eqb j (S k) then k else j.

(** inversions of an order (list of variables by level) w.r.t. a target *)
Fixpoint position (v : nat) (l : list nat) : nat :=
  match l with
  | [] => 0
  | x :: r => if Nat.eqb x v then 0 else S (position v r)
  end.

Fixpoint swap_at (k : nat) (l : list nat) : list nat :=
  match k, l with
  | O, a :: b :: r => b :: a :: r
  | S k', a :: r => a :: swap_at k' r
  | _, _ => l
  end.

(** bubble the order towards the target by adjacent swaps of inverted
    neighbours (lowest inversion first); fuel = number of swaps allowed *)
Fixpoint first_inversion (target : list nat) (l : list nat) (i : nat) : option nat :=
  match l with
  | a :: ((b :: _) as r) =>
      if Nat.ltb (position b target) (position a target) then Some i
      else first_inversion target r (S i)
  | _ => None
  end.

Fixpoint sort_by_swaps (fuel : nat) (target l : list nat) : list nat * list nat :=
  match fuel with
  | O => (l, [])
  | S f =>
      match first_inversion target l 0 with
      | None => (l, [])
      | Some k => let (l', ks) := sort_by_swaps f target (swap_at k l) in (l', k :: ks)
      end
  end.
