(** * C06: the width-changing counter array of src/arrays.h
    (counter_array: incoming counts and cache counts of node headers).
    Storage is 8, 16 or 32 bits per element; an increment that wraps to 0
    widens the array (expand8to16 / expand16to32) and stores 256 / 65536;
    counts_09bit / counts_17bit track how many elements need the wider
    storage so that shrink() may narrow it again.  Definitions only. *)
From Coq Require Import List ZArith Bool.
Import ListNotations.
Local Open Scope Z_scope.

Record ctr := mkC { cw : Z; cdat : list Z; c09 : Z; c17 : Z }.

Definition ctr_init : ctr := mkC 8 [] 0 0.

Fixpoint upd_nth (i : nat) (v : Z) (l : list Z) : list Z :=
  match l, i with
  | [], _ => []
  | _ :: r, O => v :: r
  | x :: r, S i' => x :: upd_nth i' v r
  end.

Definition cget (c : ctr) (i : nat) : Z := nth i (cdat c) 0.

Definition cincr (c : ctr) (i : nat) : ctr :=
  let v := cget c i in
  if cw c =? 8 then
    let v' := (v + 1) mod 256 in
    if v' =? 0 then mkC 16 (upd_nth i 256 (cdat c)) 1 (c17 c)      (* expand8to16 *)
    else mkC 8 (upd_nth i v' (cdat c)) (c09 c) (c17 c)
  else if cw c =? 16 then
    let v' := (v + 1) mod 65536 in
    let n09 := if v' =? 256 then c09 c + 1 else c09 c in
    if v' =? 0 then mkC 32 (upd_nth i 65536 (cdat c)) n09 1         (* expand16to32 *)
    else mkC 16 (upd_nth i v' (cdat c)) n09 (c17 c)
  else
    let v' := (v + 1) mod 4294967296 in
    let n09 := if v' =? 256 then c09 c + 1 else c09 c in
    let n17 := if v' =? 65536 then c17 c + 1 else c17 c in
    mkC 32 (upd_nth i v' (cdat c)) n09 n17.

Definition cdecr (c : ctr) (i : nat) : ctr :=
  let v := cget c i in
  if cw c =? 8 then mkC 8 (upd_nth i ((v - 1) mod 256) (cdat c)) (c09 c) (c17 c)
  else if cw c =? 16 then
    let n09 := if v =? 256 then c09 c - 1 else c09 c in
    mkC 16 (upd_nth i ((v - 1) mod 65536) (cdat c)) n09 (c17 c)
  else
    let n09 := if v =? 256 then c09 c - 1 else c09 c in
    let n17 := if v =? 65536 then c17 c - 1 else c17 c in
    mkC 32 (upd_nth i ((v - 1) mod 4294967296) (cdat c)) n09 n17.

(** both resize functions re-allocate with the narrowest storage that the
    counters counts_09bit / counts_17bit allow (shrink16to8 / shrink32to16 /
    shrink32to8 are called from expand() as well as from shrink()) *)
Definition cnarrow (c : ctr) (d : list Z) : ctr :=
  if cw c =? 8 then mkC 8 d (c09 c) (c17 c)
  else if cw c =? 16 then
    (if 0 <? c09 c then mkC 16 d (c09 c) (c17 c)
     else mkC 8 (map (fun v => v mod 256) d) (c09 c) (c17 c))          (* shrink16to8 *)
  else
    (if 0 <? c17 c then mkC 32 d (c09 c) (c17 c)
     else if 0 <? c09 c then mkC 16 (map (fun v => v mod 65536) d) (c09 c) (c17 c)  (* shrink32to16 *)
     else mkC 8 (map (fun v => v mod 256) d) (c09 c) (c17 c)).         (* shrink32to8 *)

(** expand(ns): new elements are zero *)
Definition cexpand (c : ctr) (ns : nat) : ctr :=
  if (length (cdat c) <? ns)%nat
  then cnarrow c (cdat c ++ repeat 0 (ns - length (cdat c)))
  else c.

(** shrink(ns): truncate *)
Definition cshrink (c : ctr) (ns : nat) : ctr :=
  if (ns <? length (cdat c))%nat then cnarrow c (firstn ns (cdat c)) else c.

(** ** histories *)
Inductive cop := CInc (i : nat) | CDec (i : nat) | CExp (ns : nat) | CShr (ns : nat).

Definition cstep (c : ctr) (o : cop) : ctr :=
  match o with
  | CInc i => cincr c i | CDec i => cdecr c i
  | CExp ns => cexpand c ns | CShr ns => cshrink c ns
  end.

(** the specification: unbounded counts *)
Definition astep (a : list Z) (o : cop) : list Z :=
  match o with
  | CInc i => upd_nth i (nth i a 0 + 1) a
  | CDec i => upd_nth i (nth i a 0 - 1) a
  | CExp ns => a ++ repeat 0 (ns - length a)
  | CShr ns => firstn ns a
  end.

(** what the client (node_headers) guarantees: indices in range, no decrement
    of a zero count, counts below 2^32-1, only unused handles are dropped *)
Definition legal (a : list Z) (o : cop) : Prop :=
  match o with
  | CInc i => (i < length a)%nat /\ nth i a 0 < 4294967295
  | CDec i => (i < length a)%nat /\ 0 < nth i a 0
  | CExp _ => True
  | CShr ns => Forall (fun v => v = 0) (skipn ns a)
  end.

Fixpoint legal_all (a : list Z) (os : list cop) : Prop :=
  match os with
  | [] => True
  | o :: r => legal a o /\ legal_all (astep a o) r
  end.
