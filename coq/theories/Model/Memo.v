(** * C07: the apply recursion with a compute table.

    [apply2_memo] is [DD.apply2] threaded through a cache of earlier results.
    The cache may be purged arbitrarily at any time: [evict] is an arbitrary
    function returning a sub-collection of the entries (stale removal, size
    limits, unchained overwrite, explicit clears are all instances).
    Definitions only. *)
From Coq Require Import List Arith ZArith Bool.
From Meddly Require Import Model.DD.
Import ListNotations.
Local Open Scope nat_scope.

Definition key := (nat * nat * dd * dd)%type.
Definition cache := list (key * dd).

Definition key_eqb (k1 k2 : key) : bool :=
  let '(l1, f1, a1, b1) := k1 in
  let '(l2, f2, a2, b2) := k2 in
  Nat.eqb l1 l2 && Nat.eqb f1 f2 && dd_eqb a1 a2 && dd_eqb b1 b2.

Fixpoint lookup (k : key) (c : cache) : option dd :=
  match c with
  | [] => None
  | (k', r) :: rest => if key_eqb k k' then Some r else lookup k rest
  end.

Section Memo.
Variable sz : nat -> nat.
Variable f : Z -> Z -> Z.
Variables ra rb rr : rule.
Variable evict : nat -> cache -> cache.

Definition mstate := (cache * nat)%type.

Definition tick (st : mstate) : mstate := (evict (snd st) (fst st), S (snd st)).

Definition remember (k : key) (r : dd) (st : mstate) : mstate :=
  tick ((k, r) :: fst st, snd st).

Fixpoint apply2_memo (L from : nat) (a b : dd) (st : mstate) {struct L} : dd * mstate :=
  match lookup (L, from, a, b) (fst st) with
  | Some r => (r, tick st)
  | None =>
      match L with
      | O => let r := T (f (tval a) (tval b)) in (r, remember (L, from, a, b) r st)
      | S L' =>
          let ca := unpack sz ra (S L') from a in
          let cb := unpack sz rb (S L') from b in
          let res :=
            fold_left
              (fun (acc : list dd * mstate) (i : nat) =>
                 let '(r, st2) := apply2_memo L' i (nth i ca zero) (nth i cb zero) (snd acc) in
                 (fst acc ++ [r], st2))
              (seq 0 (sz (S L'))) ([], st) in
          let r := mk rr (S L') from (fst res) in
          (r, remember (L, from, a, b) r (snd res))
      end
  end.

End Memo.
