(** * C13: swapping two adjacent levels of a multi-terminal set diagram, as the
    in-place reordering does it (mtmdd_forest::swapAdjacentVariables: the node
    at the upper level is rebuilt with children[j][i] = old children[i][j]).
    Levels [S p] (lower) and [S (S p)] (upper) are exchanged; the sizes of the
    two levels are exchanged with them.  Definitions only. *)
From Coq Require Import List Arith ZArith Bool.
From Meddly Require Import Model.DD.
Import ListNotations.
Local Open Scope nat_scope.

Definition swap_idx (p : nat) (j : nat) : nat :=
  if Nat.eqb j (S p) then S (S p) else if Nat.eqb j (S (S p)) then S p else j.

Definition swapx (p : nat) (x : nat -> nat) : nat -> nat := fun j => x (swap_idx p j).

Section Swap.
Variable sz : nat -> nat.

Definition swap_sz (p : nat) : nat -> nat := fun j => sz (swap_idx p j).

Fixpoint swap_adj (r : rule) (p : nat) (L : nat) (t : dd) : dd :=
  match L with
  | O => t
  | S L' =>
      if Nat.eqb L' (S p) then
        (* the top level is the upper one of the pair *)
        let row := fun i => unpack sz r (S p) 0 (nth i (unpack sz r (S (S p)) 0 t) zero) in
        mk r (S (S p)) 0
           (map (fun j => mk r (S p) 0 (map (fun i => nth j (row i) zero) (seq 0 (sz (S (S p))))))
                (seq 0 (sz (S p))))
      else if Nat.ltb (S p) L' then
        mk r (S L') 0 (map (swap_adj r p L') (unpack sz r (S L') 0 t))
      else t
  end.

End Swap.
