(** * C16: the documented precondition checks of a binary operation, as a decision table.

    apply(op, a, b, r) is rejected -- before anything is computed -- when the three
    forests are not over one domain (DOMAIN_MISMATCH; thrown when the operation is
    built), when their set/relation shapes do not fit the operation (TYPE_MISMATCH;
    also at build time), and, at EVERY call, when they are not in the same variable
    order (INVALID_OPERATION; binary_operation::checkForestCompatibility).  The first
    failing check in this order decides the code.  Definitions only. *)
From Coq Require Import List Arith Bool String.
Import ListNotations.
Local Open Scope string_scope.

Record fdesc := { fd_dom : nat; fd_rel : bool; fd_order : list nat }.

Inductive opshape :=
| ShSame        (* element-wise and set operations: all three alike *)
| ShCross       (* set x set -> relation *)
| ShImage       (* set, relation -> set: images, reachability, vector-matrix *)
| ShMatVec.     (* relation, set -> set *)

Definition shape_ok (sh : opshape) (a b r : fdesc) : bool :=
  match sh with
  | ShSame => Bool.eqb (fd_rel a) (fd_rel r) && Bool.eqb (fd_rel b) (fd_rel r)
  | ShCross => negb (fd_rel a) && negb (fd_rel b) && fd_rel r
  | ShImage => negb (fd_rel a) && fd_rel b && negb (fd_rel r)
  | ShMatVec => fd_rel a && negb (fd_rel b) && negb (fd_rel r)
  end.

Fixpoint order_eqb (x y : list nat) : bool :=
  match x, y with
  | [], [] => true
  | u :: x', v :: y' => Nat.eqb u v && order_eqb x' y'
  | _, _ => false
  end.

Definition precheck (sh : opshape) (a b r : fdesc) : option string :=
  if negb (Nat.eqb (fd_dom a) (fd_dom r) && Nat.eqb (fd_dom b) (fd_dom r)) then Some "DOMAIN_MISMATCH"
  else if negb (shape_ok sh a b r) then Some "TYPE_MISMATCH"
  else if negb (order_eqb (fd_order a) (fd_order r) && order_eqb (fd_order b) (fd_order r))
       then Some "INVALID_OPERATION"
  else None.
