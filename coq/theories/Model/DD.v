(** * Multi-terminal decision diagrams as trees: the function-level model.

    Definitions only (no proofs) so that the model still extracts and runs
    when a proof breaks.

    Levels are *linear*: for a set forest over K variables the levels are
    1..K (MEDDLY level k).  For a relation forest they are 1..2K:
    linear level 2k is MEDDLY's unprimed level k, linear level 2k-1 is
    MEDDLY's primed level -k (MXD_levels::downLevel: k -> -k -> k-1 ...).

    Mirrors: dd_edge::evaluate (set_eval / fully_rel_eval / ident_rel_eval),
    forest::createReducedNode (multi-terminal branch), unpacked_node::
    initFromNode / initRedundant / initIdentity.                              *)

From Coq Require Import List Arith ZArith Bool.
Import ListNotations.
Local Open Scope nat_scope.

Inductive dd : Type :=
| T (v : Z)
| N (k : nat) (cs : list dd).

Inductive rule := FR | QR | IR.

Definition rule_eqb (a b : rule) : bool :=
  match a, b with FR, FR | QR, QR | IR, IR => true | _, _ => false end.

Definition is_ir (r : rule) : bool := match r with IR => true | _ => false end.

Definition zero : dd := T 0%Z.

Definition is_zero (t : dd) : bool :=
  match t with T 0%Z => true | _ => false end.

Fixpoint dd_eqb (a b : dd) {struct a} : bool :=
  match a, b with
  | T v, T w => Z.eqb v w
  | N k cs, N j ds =>
      Nat.eqb k j &&
      (fix go (l1 l2 : list dd) {struct l1} : bool :=
         match l1, l2 with
         | [], [] => true
         | x :: l1', y :: l2' => dd_eqb x y && go l1' l2'
         | _, _ => false
         end) cs ds
  | _, _ => false
  end.

Definition all_same (cs : list dd) : bool :=
  match cs with
  | [] => true
  | c :: r => forallb (dd_eqb c) r
  end.

(** "child [i] is the only non-transparent child" *)
Definition singleton_at (i : nat) (cs : list dd) : bool :=
  negb (is_zero (nth i cs zero)) &&
  forallb (fun j => Nat.eqb j i || is_zero (nth j cs zero)) (seq 0 (length cs)).

(** some index is the only non-transparent child *)
Definition singleton_any (cs : list dd) : bool :=
  existsb (fun i => singleton_at i cs) (seq 0 (length cs)).

Definition upd (x : nat -> nat) (k v : nat) : nat -> nat :=
  fun j => if Nat.eqb j k then v else x j.

Section Sized.

(** size of the variable at each linear level *)
Variable sz : nat -> nat.

Definition ident_list (n i : nat) (t : dd) : list dd :=
  map (fun j => if Nat.eqb j i then t else zero) (seq 0 n).

(** What an edge to [t], seen from level [L] with incoming index [from], looks
    like as a list of children: unpacked_node::initFromNode when [t] is at
    level [L], initIdentity for a skipped primed level of an identity-reduced
    forest, initRedundant otherwise. *)
Definition expand (r : rule) (L : nat) (from : nat) (t : dd) : list dd :=
  if is_ir r && Nat.odd L then ident_list (sz L) from t else repeat t (sz L).

Definition unpack (r : rule) (L : nat) (from : nat) (t : dd) : list dd :=
  match t with
  | N k cs => if Nat.eqb k L then cs else expand r L from t
  | T _ => expand r L from t
  end.

(** forest::createReducedNode, multi-terminal case, on a full child list. *)
Definition mk (r : rule) (L : nat) (from : nat) (cs : list dd) : dd :=
  if forallb is_zero cs then zero
  else match r with
       | FR => if all_same cs then hd zero cs else N L cs
       | QR => N L cs
       | IR => if Nat.odd L
               then (if singleton_at from cs then nth from cs zero else N L cs)
               else (if all_same cs then hd zero cs else N L cs)
       end.

(** ** Evaluation *)

(** set_eval / fully_rel_eval: follow the pointers. *)
Fixpoint evalS (t : dd) (x : nat -> nat) : Z :=
  match t with
  | T v => v
  | N k cs =>
      (fix pick (cs : list dd) (i : nat) {struct cs} : Z :=
         match cs, i with
         | [], _ => 0%Z
         | c :: _, O => evalS c x
         | _ :: cs', S i' => pick cs' i'
         end) cs (x k)
  end.

(** ident_rel_eval generalised: walk the levels from [L] down; a skipped
    primed level of an identity-reduced forest requires to = from. *)
Definition skip_ok (ir : bool) (L : nat) (x : nat -> nat) : bool :=
  negb (ir && Nat.odd L) || Nat.eqb (x L) (x (S L)).

Fixpoint evalL (ir : bool) (L : nat) (t : dd) (x : nat -> nat) : Z :=
  match L with
  | O => match t with T v => v | N _ _ => 0%Z end
  | S L' =>
      match t with
      | N k cs =>
          if Nat.eqb k (S L') then evalL ir L' (nth (x k) cs zero) x
          else if skip_ok ir (S L') x then evalL ir L' t x else 0%Z
      | T _ => if skip_ok ir (S L') x then evalL ir L' t x else 0%Z
      end
  end.

Definition eval (r : rule) (L : nat) (t : dd) (x : nat -> nat) : Z :=
  evalL (is_ir r) L t x.

(** ** Reducedness (the node-level clauses of the reduction rules) *)

(** [from]: [Some i] = referenced by child [i] of the node directly above;
    [None] = referenced from further above (or a root). *)
Definition node_rule_ok (r : rule) (L : nat) (from : option nat) (cs : list dd) : bool :=
  match r with
  | FR => negb (all_same cs)
  | QR => true
  | IR => if Nat.odd L
          then match from with
               | Some i => negb (singleton_at i cs)
               | None => negb (singleton_any cs)
               end
          else negb (all_same cs)
  end.

(** may an edge skip level [L] and point to [t] below? *)
Definition skip_allowed (r : rule) (t : dd) : bool :=
  match r with QR => is_zero t | _ => true end.

Fixpoint reducedb (r : rule) (L : nat) (from : option nat) (t : dd) : bool :=
  match L with
  | O => match t with T _ => true | N _ _ => false end
  | S L' =>
      let below := skip_allowed r t && reducedb r L' None t in
      match t with
      | N k cs =>
          if Nat.eqb k (S L')
          then Nat.eqb (length cs) (sz k)
               && negb (forallb is_zero cs)
               && node_rule_ok r k from cs
               && (fix go (i : nat) (l : list dd) {struct l} : bool :=
                     match l with
                     | [] => true
                     | c :: l' => reducedb r L' (Some i) c && go (S i) l'
                     end) 0 cs
          else below
      | T _ => below
      end
  end.

(** ** Building the canonical diagram of a function *)

Fixpoint of_fun (r : rule) (L : nat) (from : nat)
         (g : (nat -> nat) -> Z) (x : nat -> nat) : dd :=
  match L with
  | O => T (g x)
  | S L' =>
      mk r (S L') from
         (map (fun i => of_fun r L' i g (upd x (S L') i)) (seq 0 (sz (S L'))))
  end.

(** ** Generic element-wise operations (full expansion by level)

    [apply2 f ra rb rr L from a b]: operands in forests with rules [ra], [rb],
    result in a forest with rule [rr].  Mirrors the structure of the generic
    apply templates (unpack both operands at the top level, recurse on the
    children, reduce), without their shortcuts; the compute table is the
    subject of C07. *)

Definition tval (t : dd) : Z := match t with T v => v | N _ _ => 0%Z end.

Fixpoint apply2 (f : Z -> Z -> Z) (ra rb rr : rule) (L : nat) (from : nat)
         (a b : dd) : dd :=
  match L with
  | O => T (f (tval a) (tval b))
  | S L' =>
      let ca := unpack ra (S L') from a in
      let cb := unpack rb (S L') from b in
      mk rr (S L') from
         (map (fun i => apply2 f ra rb rr L' i (nth i ca zero) (nth i cb zero))
              (seq 0 (sz (S L'))))
  end.

Fixpoint apply1 (f : Z -> Z) (ra rr : rule) (L : nat) (from : nat) (a : dd) : dd :=
  match L with
  | O => T (f (tval a))
  | S L' =>
      let ca := unpack ra (S L') from a in
      mk rr (S L') from
         (map (fun i => apply1 f ra rr L' i (nth i ca zero))
              (seq 0 (sz (S L'))))
  end.

(** copy between forests = apply1 with the scalar conversion *)
Definition copy (conv : Z -> Z) (ra rr : rule) (L : nat) (a : dd) : dd :=
  apply1 conv ra rr L 0 a.

End Sized.

(** ** Assignments and tables *)

(** all assignments of levels [1..L] in lexicographic order, level [L] most
    significant; each as a function (levels above [L] read as 0). *)
Fixpoint all_asg (sz : nat -> nat) (L : nat) : list (nat -> nat) :=
  match L with
  | O => [fun _ => O]
  | S L' =>
      flat_map (fun i => map (fun x => upd x (S L') i) (all_asg sz L'))
               (seq 0 (sz (S L')))
  end.

Definition table (sz : nat -> nat) (r : rule) (L : nat) (t : dd) : list Z :=
  map (eval r L t) (all_asg sz L).
