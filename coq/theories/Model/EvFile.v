(** * C14 for EV+ forests: the exchange file as a list of node records whose edges
    carry values.  Same discipline as Model/IOFile.v: nodes are numbered bottom-up in
    the order they are first completed, a node already written is referenced by its
    record number, children refer to earlier records or to the terminal node; every
    edge (of a node, and every root) is written with its value ([None] = +infinity).
    Definitions only. *)
From Coq Require Import List Arith ZArith Bool.
From Meddly Require Import Model.DD Model.EvDD.
Import ListNotations.

Inductive eref := ERT | ERN (i : nat).

Record enrec := { er_lvl : nat; er_vs : list (option Z); er_cs : list eref }.

Fixpoint eindex_of (t : evdd) (done : list evdd) : option nat :=
  match done with
  | [] => None
  | d :: r => if evdd_eqb d t then Some 0 else option_map S (eindex_of t r)
  end.

Definition ewstate := (list enrec * list evdd)%type.

Fixpoint write_ev (t : evdd) (st : ewstate) {struct t} : ewstate * eref :=
  match t with
  | EO => (st, ERT)
  | EN k vs cs =>
      match eindex_of t (snd st) with
      | Some i => (st, ERN i)
      | None =>
          let '(st', refs) :=
            (fix go (l : list evdd) (st : ewstate) : ewstate * list eref :=
               match l with
               | [] => (st, [])
               | c :: l' =>
                   let '(st1, r) := write_ev c st in
                   let '(st2, rs) := go l' st1 in
                   (st2, r :: rs)
               end) cs st in
          ((fst st' ++ [{| er_lvl := k; er_vs := vs; er_cs := refs |}], snd st' ++ [t]),
           ERN (length (snd st')))
      end
  end.

(** roots are edges: value and node *)
Fixpoint write_eroots (es : list edge) (st : ewstate) : ewstate * list (option Z * eref) :=
  match es with
  | [] => (st, [])
  | e :: r =>
      let '(st1, x) := write_ev (snd e) st in
      let '(st2, xs) := write_eroots r st1 in
      (st2, (fst e, x) :: xs)
  end.

Definition write_efile (es : list edge) : list enrec * list (option Z * eref) :=
  let '(st, rs) := write_eroots es ([], []) in (fst st, rs).

Definition eresolve (tbl : list evdd) (r : eref) : evdd :=
  match r with
  | ERT => EO
  | ERN i => nth i tbl EO
  end.

Definition read_erecords (recs : list enrec) : list evdd :=
  fold_left (fun tbl r => tbl ++ [EN (er_lvl r) (er_vs r) (map (eresolve tbl) (er_cs r))]) recs [].

Definition read_efile (f : list enrec * list (option Z * eref)) : list edge :=
  let tbl := read_erecords (fst f) in map (fun p => (fst p, eresolve tbl (snd p))) (snd f).
