(** * Construction of functions from minterms, constants and variables
    (minterm::buildFunction, minterm_coll::buildFunctionMax/Min,
    forest::createConstant, forest::createEdgeForVar) -- model and
    specification.  Definitions only. *)
From Coq Require Import List Arith ZArith Bool.
From Meddly Require Import Model.DD.
Import ListNotations.
Local Open Scope nat_scope.

(** one position of a minterm, per linear level:
    [PVal n] fixed value, [PAny] = DONT_CARE, [PSame] = DONT_CHANGE (primed
    levels only: equal to the unprimed value one level up) *)
Inductive mpos := PVal (n : nat) | PAny | PSame.

Definition minterm := (list mpos * Z)%type.   (* positions for levels 1..L, value *)

Definition pos_at (m : list mpos) (p : nat) : mpos := nth (p - 1) m PAny.

Definition pos_ok (m : list mpos) (p : nat) (x : nat -> nat) : bool :=
  match pos_at m p with
  | PVal n => Nat.eqb (x p) n
  | PAny => true
  | PSame => Nat.eqb (x p) (x (S p))
  end.

Definition matches (L : nat) (m : list mpos) (x : nat -> nat) : bool :=
  forallb (fun p => pos_ok m p x) (seq 1 L).

(** combine the values of all matching minterms; default if there is none *)
Definition combine (comb : Z -> Z -> Z) (dv : Z) (vs : list Z) : Z :=
  match vs with
  | [] => dv
  | v :: r => fold_left comb r v
  end.

Definition build_spec (comb : Z -> Z -> Z) (dv : Z) (L : nat)
           (ms : list minterm) (x : nat -> nat) : Z :=
  combine comb dv (map snd (filter (fun m => matches L (fst m) x) ms)).

(** does the minterm survive choosing value [i] at level [p], given that the
    level above was given [from]? *)
Definition keep (p from i : nat) (m : minterm) : bool :=
  match pos_at (fst m) p with
  | PVal n => Nat.eqb i n
  | PAny => true
  | PSame => Nat.eqb i from
  end.

Section Sized.
Variable sz : nat -> nat.

(** recursive partition by level, as in the library's builders (without the
    path shortcuts) *)
Fixpoint build (comb : Z -> Z -> Z) (dv : Z) (r : rule) (L from : nat)
         (ms : list minterm) : dd :=
  match L with
  | O => T (combine comb dv (map snd ms))
  | S L' =>
      mk r (S L') from
         (map (fun i => build comb dv r L' i (filter (keep (S L') from i) ms))
              (seq 0 (sz (S L'))))
  end.

(** constant function, as a canonical diagram *)
Definition const_dd (r : rule) (L : nat) (v : Z) : dd :=
  of_fun sz r L 0 (fun _ => v) (fun _ => 0).

(** f(x) = terms[x p] *)
Definition var_dd (r : rule) (L : nat) (p : nat) (terms : list Z) : dd :=
  of_fun sz r L 0 (fun x => nth (x p) terms 0%Z) (fun _ => 0).

End Sized.
