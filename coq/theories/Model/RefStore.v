(** * C06 / C02: the node store as a state machine -- unique table
    (hash-consing), recorded incoming counts, and pessimistic reclamation.

    Mirrors forest::createReducedNode (duplicate lookup in the unique table,
    all-transparent nodes become the transparent edge), node_headers::linkNode /
    unlinkNode, and the recursive reclamation of a node whose incoming count
    drops to zero (forest::deleteNode: unlink every child).  References come
    from three places: child slots of live nodes, named references held by the
    user (each name holds exactly one reference), and nothing else.
    Node identifiers are positive; children [<= 0] are terminals (0 = the
    transparent one) and hold no count.  Definitions only. *)
From Coq Require Import List ZArith Bool Arith.
Import ListNotations.
Local Open Scope Z_scope.

Record snode := { sn_id : Z; sn_lvl : nat; sn_cs : list Z }.

Record store := {
  st_nodes : list snode;            (* live nodes *)
  st_cnt : Z -> nat;                (* recorded incoming count per identifier *)
  st_names : list (nat * Z);        (* user references: name, node (or terminal) *)
  st_next : Z                       (* next fresh identifier *)
}.

Definition st_init : store :=
  {| st_nodes := []; st_cnt := fun _ => O; st_names := []; st_next := 1 |}.

Definition find_node (ns : list snode) (id : Z) : option snode :=
  find (fun n => sn_id n =? id) ns.

Definition cs_eqb (a b : list Z) : bool :=
  (Nat.eqb (length a) (length b)) && forallb (fun p => fst p =? snd p) (combine a b).

Definition find_dup (ns : list snode) (lvl : nat) (cs : list Z) : option snode :=
  find (fun n => Nat.eqb (sn_lvl n) lvl && cs_eqb (sn_cs n) cs) ns.

Definition upd_cnt (f : Z -> nat) (id : Z) (v : nat) : Z -> nat :=
  fun x => if x =? id then v else f x.

Definition bump (f : Z -> nat) (id : Z) : Z -> nat :=
  if 0 <? id then upd_cnt f id (S (f id)) else f.

Definition remove_node (ns : list snode) (id : Z) : list snode :=
  filter (fun n => negb (sn_id n =? id)) ns.

Definition lookup_name (names : list (nat * Z)) (nm : nat) : option Z :=
  match find (fun p => Nat.eqb (fst p) nm) names with
  | Some p => Some (snd p)
  | None => None
  end.

Definition remove_name (names : list (nat * Z)) (nm : nat) : list (nat * Z) :=
  filter (fun p => negb (Nat.eqb (fst p) nm)) names.

(** drop one reference to [id]; a node whose count reaches zero is reclaimed
    and its children are unlinked in turn.  Recursion on a bound [L] of the
    node's level (children lie strictly below their parent). *)
Fixpoint unlink (L : nat) (id : Z) (ns : list snode) (cnt : Z -> nat)
  : list snode * (Z -> nat) :=
  if id <=? 0 then (ns, cnt)
  else
    match cnt id with
    | O => (ns, cnt)                                   (* not referenced: nothing to drop *)
    | S O =>
        match find_node ns id with
        | None => (ns, upd_cnt cnt id O)
        | Some n =>
            let ns' := remove_node ns id in
            let cnt' := upd_cnt cnt id O in
            match L with
            | O => (ns', cnt')
            | S L' =>
                fold_left (fun st c => unlink L' c (fst st) (snd st)) (sn_cs n) (ns', cnt')
            end
        end
    | S c => (ns, upd_cnt cnt id c)
    end.

Inductive sop :=
| SNew (nm : nat) (lvl : nat) (cs : list Z)     (* children already resolved to identifiers *)
| SDup (nm' nm : nat)
| SDrop (nm : nat).

Definition top_level (ns : list snode) : nat := fold_right (fun n m => Nat.max (sn_lvl n) m) O ns.

Definition sstep (s : store) (o : sop) : store :=
  match o with
  | SNew nm lvl cs =>
      if forallb (fun c => c =? 0) cs then
        {| st_nodes := st_nodes s; st_cnt := st_cnt s;
           st_names := (nm, 0) :: st_names s; st_next := st_next s |}
      else
        match find_dup (st_nodes s) lvl cs with
        | Some n =>
            {| st_nodes := st_nodes s; st_cnt := bump (st_cnt s) (sn_id n);
               st_names := (nm, sn_id n) :: st_names s; st_next := st_next s |}
        | None =>
            let id := st_next s in
            let cnt1 := fold_left bump cs (st_cnt s) in
            {| st_nodes := {| sn_id := id; sn_lvl := lvl; sn_cs := cs |} :: st_nodes s;
               st_cnt := upd_cnt cnt1 id 1%nat;
               st_names := (nm, id) :: st_names s; st_next := id + 1 |}
        end
  | SDup nm' nm =>
      match lookup_name (st_names s) nm with
      | Some id =>
          {| st_nodes := st_nodes s; st_cnt := bump (st_cnt s) id;
             st_names := (nm', id) :: st_names s; st_next := st_next s |}
      | None => s
      end
  | SDrop nm =>
      match lookup_name (st_names s) nm with
      | Some id =>
          let names' := remove_name (st_names s) nm in
          let r := unlink (top_level (st_nodes s)) id (st_nodes s) (st_cnt s) in
          {| st_nodes := fst r; st_cnt := snd r; st_names := names'; st_next := st_next s |}
      | None => s
      end
  end.

(** what the harness observes after every step: the recorded count of every
    named node, and the number of live nodes *)
Definition observe (s : store) : list (nat * nat) * nat :=
  (map (fun p => (fst p, if 0 <? snd p then st_cnt s (snd p) else O)) (st_names s),
   length (st_nodes s)).
