(** * Fixed-width integer operations used by the generated (translated) leaf
    code.  Values are mathematical integers (Z); every C++ conversion or
    operation whose result type has a fixed width is followed by an explicit
    wrap.  Floats are represented by their 32-bit IEEE pattern (0 <= b < 2^32).
    Definitions only. *)
From Coq Require Import ZArith Bool String.
Local Open Scope Z_scope.

Inductive res := Ok (v : Z) | Err (code : string).

Definition wrapu (w : Z) (x : Z) : Z := x mod 2 ^ w.
Definition wraps (w : Z) (x : Z) : Z :=
  let m := x mod 2 ^ w in if m <? 2 ^ (w - 1) then m else m - 2 ^ w.

(* conversions to C++ types *)
Definition cast_int (x : Z) : Z := wraps 32 x.        (* int, node_handle *)
Definition cast_long (x : Z) : Z := wraps 64 x.       (* long *)
Definition cast_uint (x : Z) : Z := wrapu 32 x.       (* unsigned *)
Definition cast_ulong (x : Z) : Z := wrapu 64 x.      (* unsigned long, size_t *)

(* reading the int member of a union whose float member holds pattern b *)
Definition int_of_bits (b : Z) : Z := wraps 32 b.
(* reading the float member of a union whose int member holds h *)
Definition bits_of_int (h : Z) : Z := wrapu 32 h.

(* "if (f)" for a float with pattern b: +0.0 and -0.0 are false *)
Definition float_nonzero (b : Z) : bool := negb (Z.land b 2147483647 =? 0).

Definition int_nonzero (x : Z) : bool := negb (x =? 0).

Definition res_bind (r : res) (f : Z -> res) : res :=
  match r with Ok v => f v | Err c => Err c end.
