(** * C11 for edge-valued functions: enumeration of a partial function.

    An EV+ edge denotes a function into the integers and +infinity ([None]).
    Iterating it visits exactly the assignments whose value is not +infinity,
    each once, in lexicographic order, with the value, restricted by the mask.
    [enum_opt] is run by the extracted model on the function of the edge.
    Definitions only. *)
From Meddly Require Import Model.DD Model.Build.
From Coq Require Import List Arith ZArith Bool.
Import ListNotations.

Definition enum_opt (sz : nat -> nat) (g : (nat -> nat) -> option Z) (L : nat) (mask : list mpos)
  : list ((nat -> nat) * Z) :=
  flat_map (fun x => match g x with
                     | Some v => if matches L mask x then [(x, v)] else []
                     | None => []
                     end) (all_asg sz L).
