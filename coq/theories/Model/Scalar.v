(** * Scalar meaning of the catalogue of element-wise operations.

    Values are integers; a real value v is represented by v*scale (scale = 64
    in the correspondence runs, where generated reals are multiples of 1/64 and
    products/quotients are kept exact by the generator); booleans are 0/1.
    Mirrors the [apply] members of the operation structs in
    src/operations/arith_*.cc, compare.cc, union.cc, intersection.cc,
    difference.cc, complement.cc.  Definitions only. *)
From Coq Require Import ZArith Bool.
Local Open Scope Z_scope.

Inductive binop :=
| OUnion | OInter | ODiff
| OPlus | OMinus | OMult | ODiv | OMod
| OMax | OMin | ODistMin
| OEq | ONe | OLt | OLe | OGt | OGe.

Definition truthy (a : Z) : bool := negb (Z.eqb a 0).

Definition b2z (one : Z) (b : bool) : Z := if b then one else 0.

(** [scale]: representation scale of the operands (1 for integers, 64 for
    reals); [one]: representation of "true"/1 in the result forest. *)
Definition scalar2 (o : binop) (scale one : Z) (a b : Z) : Z :=
  match o with
  | OUnion => b2z one (truthy a || truthy b)
  | OInter => b2z one (truthy a && truthy b)
  | ODiff  => b2z one (truthy a && negb (truthy b))
  | OPlus  => a + b
  | OMinus => a - b
  | OMult  => Z.quot (a * b) scale
  | ODiv   => Z.quot (a * scale) b
  | OMod   => Z.rem a b
  | OMax   => Z.max a b
  | OMin   => Z.min a b
  | ODistMin =>
      if a <? 0 then (if b <? 0 then Z.min a b else b)
      else (if b <? 0 then a else Z.min a b)
  | OEq => b2z one (a =? b)
  | ONe => b2z one (negb (a =? b))
  | OLt => b2z one (a <? b)
  | OLe => b2z one (a <=? b)
  | OGt => b2z one (a >? b)
  | OGe => b2z one (a >=? b)
  end.

(** does the operation raise DIVIDE_BY_ZERO at this pair of scalars? *)
Definition scalar2_undefined (o : binop) (a b : Z) : bool :=
  match o with
  | ODiv | OMod => b =? 0
  | _ => false
  end.

Definition compl (one : Z) (a : Z) : Z := b2z one (negb (truthy a)).

(** scalar conversions performed by COPY between range types.
    [sa]/[sr]: scale of source / target (1 or 64); target boolean: non-zero
    becomes true. *)
Definition conv (to_bool : bool) (sa sr : Z) (a : Z) : Z :=
  if to_bool then b2z 1 (truthy a)
  else Z.quot (a * sr) sa.

(** ** EV+ forests: values are integers or +infinity ([None]).

    Mirrors the EV+ instantiations of the arithmetic templates
    (src/operations/arith_*.cc with EdgeOp_plus) and of compare.cc: +infinity
    absorbs in sums, products and maxima, is the unit of minima, and the
    undefined cases raise SUBTRACT_INFINITY, DIVIDE_BY_ZERO and
    INFINITY_DIV_INFINITY. *)
Inductive everr := ESubInf | EDivZero | EInfDivInf.

Definition ev_undefined (o : binop) (a b : option Z) : option everr :=
  match o, a, b with
  | OMinus, _, None => Some ESubInf
  | (ODiv | OMod), _, Some 0 => Some EDivZero
  | (ODiv | OMod), None, None => Some EInfDivInf
  | _, _, _ => None
  end.

Definition ev_scalar2 (o : binop) (a b : option Z) : option Z :=
  match o, a, b with
  | OMin, None, x | OMin, x, None => x
  | OMin, Some u, Some v => Some (Z.min u v)
  | ODiv, Some _, None => Some 0
  | OMod, Some u, None => Some u
  | _, Some u, Some v => Some (scalar2 o 1 1 u v)
  | _, _, _ => None
  end.

(** comparisons between EV+ values; the result lives in a multi-terminal
    forest whose "true" is [one] *)
Definition ev_compare (o : binop) (one : Z) (a b : option Z) : Z :=
  let lt := match a, b with
            | Some u, Some v => u <? v
            | Some _, None => true
            | None, _ => false
            end in
  let eq := match a, b with
            | Some u, Some v => u =? v
            | None, None => true
            | _, _ => false
            end in
  match o with
  | OEq => b2z one eq
  | ONe => b2z one (negb eq)
  | OLt => b2z one lt
  | OLe => b2z one (lt || eq)
  | OGt => b2z one (negb (lt || eq))
  | OGe => b2z one (negb lt)
  | _ => 0
  end.

(** COPY into an EV+ forest from a multi-terminal one (value to the integer
    [v/sa], truncated), and out of an EV+ forest (+infinity, which the target
    cannot represent, becomes the target's transparent value 0) *)
Definition conv_to_ev (sa : Z) (a : Z) : option Z := Some (Z.quot a sa).

Definition conv_from_ev (to_bool : bool) (sr : Z) (a : option Z) : Z :=
  match a with
  | None => 0
  | Some v => if to_bool then b2z 1 (truthy v) else v * sr
  end.

(** ** edge values of EV* and EV+ forests (forest::getEdgeForValue /
    getValueForEdge).  A single-precision value is its 32-bit pattern; the
    value handed to an EV* forest is first rounded to single precision (done by
    the caller of this model: the pattern [f] is the rounded value). *)
Definition float_is_zero (f : Z) : bool := Z.eqb (Z.land f 2147483647) 0.

(** (transparent?, stored pattern) *)
Definition evt_encode (f : Z) : bool * Z := (float_is_zero f, f).
Definition evt_decode (e : bool * Z) : Z := if fst e then 0 else snd e.

(** EV+: (infinite?, stored value) *)
Definition evp_encode (v : option Z) : bool * Z :=
  match v with None => (true, 0) | Some z => (false, z) end.
Definition evp_decode (e : bool * Z) : option Z := if fst e then None else Some (snd e).
