(** * C07 (mechanism level): compute-table entries, cache counts and handle
    recycling, as a state machine.

    Node handles are recycled; every creation of a node on a handle gets a new
    generation stamp.  A compute-table entry mentions handles (operands and
    result).  node_headers keeps, per handle, the number of entries that
    mention it (cacheNode / uncacheNode), and a handle is handed out again only
    when its node is gone AND that count is zero (recycleNodeHandle /
    getFreeNodeHandle).  An entry is stale when one of its handles holds no node;
    stale entries are never returned and are dropped when met (or swept).
    Definitions only. *)
From Coq Require Import List Arith Bool.
Import ListNotations.

Record hinfo := { h_alive : bool; h_stamp : nat; h_cc : nat }.

(** an entry: the handles it mentions, each with the stamp it had when the
    entry was made (the stamps are ghost state: the implementation stores the
    handles only) *)
Definition entry := list (nat * nat).

Record ctstate := {
  ct_h : nat -> hinfo;          (* per handle *)
  ct_entries : list entry;
  ct_clock : nat                (* next stamp *)
}.

Definition ct_init : ctstate :=
  {| ct_h := fun _ => {| h_alive := false; h_stamp := 0; h_cc := 0 |};
     ct_entries := []; ct_clock := 1 |}.

Definition upd (f : nat -> hinfo) (h : nat) (v : hinfo) : nat -> hinfo :=
  fun x => if Nat.eqb x h then v else f x.

Definition handles (e : entry) : list nat := map fst e.

Definition cc_add (f : nat -> hinfo) (hs : list nat) : nat -> hinfo :=
  fold_left (fun g h => upd g h {| h_alive := h_alive (g h); h_stamp := h_stamp (g h); h_cc := S (h_cc (g h)) |}) hs f.

Definition cc_sub (f : nat -> hinfo) (hs : list nat) : nat -> hinfo :=
  fold_left (fun g h => upd g h {| h_alive := h_alive (g h); h_stamp := h_stamp (g h); h_cc := pred (h_cc (g h)) |}) hs f.

Definition is_stale (f : nat -> hinfo) (e : entry) : bool :=
  negb (forallb (fun h => h_alive (f h)) (handles e)).

Inductive ctop :=
| TNew (h : nat)                 (* a node is created on handle h *)
| TKill (h : nat)                (* the node on handle h is reclaimed *)
| TAdd (hs : list nat)           (* an entry mentioning hs is added *)
| TSweep.                        (* stale entries are removed *)

(** the guard of handle allocation: the handle holds no node and no entry
    mentions it *)
Definition can_alloc (s : ctstate) (h : nat) : bool :=
  negb (h_alive (ct_h s h)) && Nat.eqb (h_cc (ct_h s h)) 0.

Definition ctstep (s : ctstate) (o : ctop) : ctstate :=
  match o with
  | TNew h =>
      if can_alloc s h then
        {| ct_h := upd (ct_h s) h {| h_alive := true; h_stamp := ct_clock s; h_cc := 0 |};
           ct_entries := ct_entries s; ct_clock := S (ct_clock s) |}
      else s
  | TKill h =>
      {| ct_h := upd (ct_h s) h {| h_alive := false; h_stamp := h_stamp (ct_h s h); h_cc := h_cc (ct_h s h) |};
         ct_entries := ct_entries s; ct_clock := ct_clock s |}
  | TAdd hs =>
      if forallb (fun h => h_alive (ct_h s h)) hs then
        {| ct_h := cc_add (ct_h s) hs;
           ct_entries := map (fun h => (h, h_stamp (ct_h s h))) hs :: ct_entries s;
           ct_clock := ct_clock s |}
      else s
  | TSweep =>
      let dead := filter (is_stale (ct_h s)) (ct_entries s) in
      {| ct_h := fold_left (fun g e => cc_sub g (handles e)) dead (ct_h s);
         ct_entries := filter (fun e => negb (is_stale (ct_h s) e)) (ct_entries s);
         ct_clock := ct_clock s |}
  end.

(** a lookup can return the entry [e] only if it is stored and not stale *)
Definition ct_hit (s : ctstate) (e : entry) : Prop :=
  In e (ct_entries s) /\ is_stale (ct_h s) e = false.
