(** * EV+ (edge-valued, additive) decision diagrams over linear levels.

    A node at level [k] has, for every value of the variable, an edge value
    ([None] = +infinity) and a child.  An edge is a value and a node;
    [(None, EO)] is the +infinity edge (the transparent edge of EV+ forests).
    A function value is the sum of the edge values along the path.
    Mirrors evmdd_pluslong: normalisation in createReducedNode (the smallest
    finite edge value of a node is 0, the excess moves to the incoming edge; a
    node whose edges are all +infinity is replaced by the +infinity edge) and
    the fully-/quasi-reduced rules.  Definitions only. *)
From Coq Require Import List Arith ZArith Bool.
From Meddly Require Import Model.DD.
Import ListNotations.
Local Open Scope nat_scope.

Inductive evdd : Type :=
| EO                                                    (* the terminal node *)
| EN (k : nat) (vs : list (option Z)) (cs : list evdd). (* values and children, by index *)

Definition edge := (option Z * evdd)%type.
Definition einf : edge := (None, EO).

Definition oz_eqb (a b : option Z) : bool :=
  match a, b with
  | None, None => true
  | Some u, Some v => Z.eqb u v
  | _, _ => false
  end.

Fixpoint ozl_eqb (l1 l2 : list (option Z)) : bool :=
  match l1, l2 with
  | [], [] => true
  | a :: r1, b :: r2 => oz_eqb a b && ozl_eqb r1 r2
  | _, _ => false
  end.

Fixpoint evdd_eqb (a b : evdd) {struct a} : bool :=
  match a, b with
  | EO, EO => true
  | EN k vs cs, EN j ws ds =>
      Nat.eqb k j && ozl_eqb vs ws &&
      (fix go (l1 l2 : list evdd) {struct l1} : bool :=
         match l1, l2 with
         | [], [] => true
         | x :: l1', y :: l2' => evdd_eqb x y && go l1' l2'
         | _, _ => false
         end) cs ds
  | _, _ => false
  end.

Definition edge_eqb (e1 e2 : edge) : bool :=
  oz_eqb (fst e1) (fst e2) && evdd_eqb (snd e1) (snd e2).

(** minimum of the finite values ([None] when there is none) *)
Definition omin (a b : option Z) : option Z :=
  match a, b with
  | None, x | x, None => x
  | Some u, Some v => Some (Z.min u v)
  end.

Definition omin_list (vs : list (option Z)) : option Z := fold_right omin None vs.

(** the edges of a node, and "all edges are the same edge" *)
Definition nth_edge (vs : list (option Z)) (cs : list evdd) (i : nat) : edge :=
  (nth i vs None, nth i cs EO).

Definition all_same_edges (n : nat) (vs : list (option Z)) (cs : list evdd) : bool :=
  forallb (fun i => edge_eqb (nth_edge vs cs i) (nth_edge vs cs 0)) (seq 0 n).

Section Sized.
Variable sz : nat -> nat.

(** ** evaluation (by level, as dd_edge::evaluate walks down) *)
Fixpoint ev_eval (L : nat) (e : edge) (x : nat -> nat) : option Z :=
  match fst e with
  | None => None
  | Some v =>
      match L with
      | O => Some v
      | S L' =>
          match snd e with
          | EN k vs cs =>
              if Nat.eqb k (S L') then
                match ev_eval L' (nth_edge vs cs (x (S L'))) x with
                | Some w => Some (v + w)%Z
                | None => None
                end
              else ev_eval L' e x
          | EO => ev_eval L' e x
          end
      end
  end.

(** ** the reduction rules ([fr]: fully reduced; otherwise quasi reduced) *)
Fixpoint ev_reduced (fr : bool) (L : nat) (e : edge) : bool :=
  match fst e with
  | None => evdd_eqb (snd e) EO
  | Some _ =>
      match L with
      | O => evdd_eqb (snd e) EO
      | S L' =>
          match snd e with
          | EN k vs cs =>
              if Nat.eqb k (S L') then
                Nat.eqb (length vs) (sz (S L')) && Nat.eqb (length cs) (sz (S L')) &&
                oz_eqb (omin_list vs) (Some 0%Z) &&
                (if fr then negb (all_same_edges (sz (S L')) vs cs) else true) &&
                forallb (fun i => ev_reduced fr L' (nth_edge vs cs i)) (seq 0 (sz (S L')))
              else fr && ev_reduced fr L' e
          | EO => fr && ev_reduced fr L' e
          end
      end
  end.

(** ** building a reduced node from the edges to its children *)
Definition ev_mk (fr : bool) (k : nat) (es : list edge) : edge :=
  let vs := map fst es in
  match omin_list vs with
  | None => einf
  | Some m =>
      let vs' := map (option_map (fun v => (v - m)%Z)) vs in
      let cs := map snd es in
      if fr && all_same_edges (length es) vs' cs then (Some m, nth 0 cs EO)
      else (Some m, EN k vs' cs)
  end.

(** the canonical edge of a function [g] of the levels [1..L] *)
Fixpoint ev_of_fun (fr : bool) (L : nat) (g : (nat -> nat) -> option Z) (x : nat -> nat) : edge :=
  match L with
  | O => match g x with None => einf | Some v => (Some v, EO) end
  | S L' =>
      ev_mk fr (S L')
            (map (fun i => ev_of_fun fr L' g (upd x (S L') i)) (seq 0 (sz (S L'))))
  end.

(** the table of an edge, in the order of [all_asg] *)
Definition ev_table (L : nat) (e : edge) : list (option Z) :=
  map (ev_eval L e) (all_asg sz L).

End Sized.

(** ** element-wise operations on EV+ edges: the canonical edge of the
    pointwise combination (the scalar function [f] is e.g. [Scalar.ev_scalar2 o]) *)
Definition ev_apply2 (sz : nat -> nat) (fr : bool) (L : nat)
           (f : option Z -> option Z -> option Z) (e1 e2 : edge) : edge :=
  ev_of_fun sz fr L (fun x => f (ev_eval L e1 x) (ev_eval L e2 x)) (fun _ => 0).

Definition ev_apply1 (sz : nat -> nat) (fr : bool) (L : nat)
           (f : option Z -> option Z) (e : edge) : edge :=
  ev_of_fun sz fr L (fun x => f (ev_eval L e x)) (fun _ => 0).
