(** * C17: the registry of domains, forests and root edges as a state machine.
    (forest::registerForest / unregisterForest / unregisterDDEdges / ~forest,
    domain forest lists, initializer_list init/cleanup.)   Definitions only. *)
From Coq Require Import List Arith Bool.
Import ListNotations.

Record lforest := { lf_id : nat; lf_dom : nat }.
Record ledge := { le_id : nat; le_forest : option nat }.    (* None = detached *)

Record lstate := {
  ls_running : bool;
  ls_next_fid : nat;                (* all_forests.size() *)
  ls_domains : list nat;
  ls_forests : list lforest;
  ls_edges : list ledge
}.

Definition ls_init : lstate :=
  {| ls_running := true; ls_next_fid := 1; ls_domains := []; ls_forests := []; ls_edges := [] |}.

Inductive lop :=
| LCreateDomain (d : nat)
| LCreateForest (d : nat)
| LDestroyForest (f : nat)
| LDestroyDomain (d : nat)
| LNewEdge (e : nat) (f : nat)
| LDropEdge (e : nat)
| LCleanup
| LInitialize.

Definition detach_forest (f : nat) (es : list ledge) : list ledge :=
  map (fun e => match le_forest e with
                | Some g => if Nat.eqb g f then {| le_id := le_id e; le_forest := None |} else e
                | None => e
                end) es.

Definition forests_of_domain (d : nat) (fs : list lforest) : list nat :=
  map lf_id (filter (fun f => Nat.eqb (lf_dom f) d) fs).

Definition lstep (s : lstate) (o : lop) : lstate :=
  match o with
  | LCreateDomain d =>
      {| ls_running := ls_running s; ls_next_fid := ls_next_fid s;
         ls_domains := d :: ls_domains s; ls_forests := ls_forests s; ls_edges := ls_edges s |}
  | LCreateForest d =>
      {| ls_running := ls_running s; ls_next_fid := S (ls_next_fid s);
         ls_domains := ls_domains s;
         ls_forests := {| lf_id := ls_next_fid s; lf_dom := d |} :: ls_forests s;
         ls_edges := ls_edges s |}
  | LDestroyForest f =>
      {| ls_running := ls_running s; ls_next_fid := ls_next_fid s;
         ls_domains := ls_domains s;
         ls_forests := filter (fun g => negb (Nat.eqb (lf_id g) f)) (ls_forests s);
         ls_edges := detach_forest f (ls_edges s) |}
  | LDestroyDomain d =>
      {| ls_running := ls_running s; ls_next_fid := ls_next_fid s;
         ls_domains := filter (fun x => negb (Nat.eqb x d)) (ls_domains s);
         ls_forests := filter (fun g => negb (Nat.eqb (lf_dom g) d)) (ls_forests s);
         ls_edges := fold_left (fun es f => detach_forest f es)
                               (forests_of_domain d (ls_forests s)) (ls_edges s) |}
  | LNewEdge e f =>
      {| ls_running := ls_running s; ls_next_fid := ls_next_fid s;
         ls_domains := ls_domains s; ls_forests := ls_forests s;
         ls_edges := {| le_id := e; le_forest := Some f |} :: ls_edges s |}
  | LDropEdge e =>
      {| ls_running := ls_running s; ls_next_fid := ls_next_fid s;
         ls_domains := ls_domains s; ls_forests := ls_forests s;
         ls_edges := filter (fun x => negb (Nat.eqb (le_id x) e)) (ls_edges s) |}
  | LCleanup =>
      {| ls_running := false; ls_next_fid := ls_next_fid s; ls_domains := []; ls_forests := [];
         ls_edges := map (fun e => {| le_id := le_id e; le_forest := None |}) (ls_edges s) |}
  | LInitialize =>
      {| ls_running := true; ls_next_fid := 1; ls_domains := []; ls_forests := [];
         ls_edges := ls_edges s |}
  end.
