(** * C06: the node store with cache counts and a deletion policy.

    Extends the machine of Model/RefStore.v by the second counter of
    node_headers (the cache count: number of compute-table entries that
    mention the node; forest::cacheNode / uncacheNode) and by the two
    deletion policies (node_headers::lastUnlink / lastUncache):

    - pessimistic: a node whose incoming count drops to zero is deleted at
      once (its children are unlinked in turn); while its cache count is still
      positive its handle is merely kept from reuse (a "zombie");
    - optimistic: such a node stays in the unique table as long as a cache
      entry mentions it -- it keeps its references to its children and a later
      request for the same content finds and revives it -- and is deleted
      (children unlinked) when its cache count drops to zero as well.

    Cache entries are modelled as named tokens, one count each.
    Definitions only. *)
From Coq Require Import List ZArith Bool Arith.
From Meddly Require Import Model.RefStore.
Import ListNotations.
Local Open Scope Z_scope.

Record ostore := {
  os_opt : bool;                    (* optimistic deletion? *)
  os_nodes : list snode;            (* nodes in the unique table *)
  os_cnt : Z -> nat;                (* incoming counts *)
  os_cc : Z -> nat;                 (* cache counts *)
  os_names : list (nat * Z);        (* user references *)
  os_toks : list (nat * Z);         (* cache entries: token, node *)
  os_next : Z
}.

Definition os_init (opt : bool) : ostore :=
  {| os_opt := opt; os_nodes := []; os_cnt := fun _ => O; os_cc := fun _ => O;
     os_names := []; os_toks := []; os_next := 1 |}.

(** remove node [id] from the table and give up its child references with [ul] *)
Definition reclaim_with (ul : Z -> list snode -> (Z -> nat) -> list snode * (Z -> nat))
           (id : Z) (ns : list snode) (cnt : Z -> nat) : list snode * (Z -> nat) :=
  match find_node ns id with
  | None => (ns, cnt)
  | Some n => fold_left (fun st c => ul c (fst st) (snd st)) (sn_cs n) (remove_node ns id, cnt)
  end.

(** drop one reference to [id]; [keep id] says that a cache entry pins the node
    (optimistic policy only).  Recursion on a bound [L] of the node's level. *)
Fixpoint unlink_k (keep : Z -> bool) (L : nat) (id : Z) (ns : list snode) (cnt : Z -> nat)
  : list snode * (Z -> nat) :=
  if id <=? 0 then (ns, cnt)
  else
    match cnt id with
    | O => (ns, cnt)
    | S O =>
        let cnt' := upd_cnt cnt id O in
        if keep id then (ns, cnt')
        else
          match L with
          | O => (remove_node ns id, cnt')
          | S L' => reclaim_with (unlink_k keep L') id ns cnt'
          end
    | S c => (ns, upd_cnt cnt id c)
    end.

Definition keep_of (opt : bool) (cc : Z -> nat) (id : Z) : bool :=
  opt && negb (Nat.eqb (cc id) 0).

Definition in_table (ns : list snode) (id : Z) : bool :=
  match find_node ns id with Some _ => true | None => false end.

Inductive oop :=
| ONew (nm : nat) (lvl : nat) (cs : list Z)
| ODup (nm' nm : nat)
| ODrop (nm : nat)
| OCache (tk : nat) (nm : nat)          (* a cache entry starts to mention nm's node *)
| OUncache (tk : nat).                  (* that entry is removed *)

Definition with_table (s : ostore) (r : list snode * (Z -> nat)) (names : list (nat * Z)) : ostore :=
  {| os_opt := os_opt s; os_nodes := fst r; os_cnt := snd r; os_cc := os_cc s;
     os_names := names; os_toks := os_toks s; os_next := os_next s |}.

Definition ostep (s : ostore) (o : oop) : ostore :=
  match o with
  | ONew nm lvl cs =>
      if forallb (fun c => c =? 0) cs then
        with_table s (os_nodes s, os_cnt s) ((nm, 0) :: os_names s)
      else
        match find_dup (os_nodes s) lvl cs with
        | Some n =>
            (* found in the unique table; under the optimistic policy possibly an
               unreferenced node, which this revives *)
            with_table s (os_nodes s, bump (os_cnt s) (sn_id n)) ((nm, sn_id n) :: os_names s)
        | None =>
            let id := os_next s in
            let cnt1 := fold_left bump cs (os_cnt s) in
            {| os_opt := os_opt s;
               os_nodes := {| sn_id := id; sn_lvl := lvl; sn_cs := cs |} :: os_nodes s;
               os_cnt := upd_cnt cnt1 id 1%nat; os_cc := os_cc s;
               os_names := (nm, id) :: os_names s; os_toks := os_toks s; os_next := id + 1 |}
        end
  | ODup nm' nm =>
      match lookup_name (os_names s) nm with
      | Some id => with_table s (os_nodes s, bump (os_cnt s) id) ((nm', id) :: os_names s)
      | None => s
      end
  | ODrop nm =>
      match lookup_name (os_names s) nm with
      | Some id =>
          with_table s (unlink_k (keep_of (os_opt s) (os_cc s)) (top_level (os_nodes s)) id
                                 (os_nodes s) (os_cnt s))
                     (remove_name (os_names s) nm)
      | None => s
      end
  | OCache tk nm =>
      match lookup_name (os_names s) nm with
      | Some id =>
          if 0 <? id then
            {| os_opt := os_opt s; os_nodes := os_nodes s; os_cnt := os_cnt s;
               os_cc := upd_cnt (os_cc s) id (S (os_cc s id));
               os_names := os_names s; os_toks := (tk, id) :: os_toks s; os_next := os_next s |}
          else s
      | None => s
      end
  | OUncache tk =>
      match lookup_name (os_toks s) tk with
      | Some id =>
          let cc' := upd_cnt (os_cc s) id (pred (os_cc s id)) in
          let toks' := remove_name (os_toks s) tk in
          let last := Nat.eqb (cc' id) 0 in
          (* lastUncache: an active node that nothing references is deleted now.
             Written as dropping a (phantom) last reference so that the recursion
             over the children is the one of [unlink_k]. *)
          let r := if last && in_table (os_nodes s) id && Nat.eqb (os_cnt s id) 0
                   then unlink_k (keep_of (os_opt s) cc') (top_level (os_nodes s)) id
                                 (os_nodes s) (upd_cnt (os_cnt s) id 1%nat)
                   else (os_nodes s, os_cnt s) in
          {| os_opt := os_opt s; os_nodes := fst r; os_cnt := snd r; os_cc := cc';
             os_names := os_names s; os_toks := toks'; os_next := os_next s |}
      | None => s
      end
  end.

(** the handle of [id] may be handed out again *)
Definition handle_free (s : ostore) (id : Z) : bool :=
  negb (in_table (os_nodes s) id) && Nat.eqb (os_cc s id) 0.

(** what the harness observes after every step: the incoming count of every
    named node, the cache count of the node behind every token and whether that
    node is still in the table, and the number of nodes in the table *)
Definition oobserve (s : ostore)
  : list (nat * nat) * list (nat * (nat * bool)) * nat :=
  (map (fun p => (fst p, if 0 <? snd p then os_cnt s (snd p) else O)) (os_names s),
   map (fun p => (fst p, (os_cc s (snd p), in_table (os_nodes s) (snd p)))) (os_toks s),
   length (os_nodes s)).
