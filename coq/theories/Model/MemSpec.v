(** * C18: abstract allocator specification and the acceptance monitor.

    A history is a list of events as observed at the memory_manager interface:
    [Req id n addr got] -- requestChunk(n) returned handle [addr] and size
    [got]; [Rec id] -- the chunk obtained by request [id] was recycled.
    [accept] validates one event against the set of live chunks.
    Definitions only. *)
From Coq Require Import List ZArith Bool Arith.
Import ListNotations.
Local Open Scope Z_scope.

Record chunk := { c_id : nat; c_addr : Z; c_req : Z; c_got : Z }.

Inductive event :=
| Req (id : nat) (n addr got : Z)
| Rec (id : nat).

Definition state := list chunk.      (* the live chunks *)

Definition disjointb (a g a' g' : Z) : bool := (a + g <=? a') || (a' + g' <=? a).

Definition has_id (id : nat) (s : state) : bool :=
  existsb (fun c => Nat.eqb (c_id c) id) s.

Definition drop_id (id : nat) (s : state) : state :=
  filter (fun c => negb (Nat.eqb (c_id c) id)) s.

Definition accept (s : state) (e : event) : option state :=
  match e with
  | Req id n addr got =>
      if (1 <=? n) && (n <=? got) && (1 <=? addr)
         && forallb (fun c => disjointb addr got (c_addr c) (c_got c)) s
         && negb (has_id id s)
      then Some ({| c_id := id; c_addr := addr; c_req := n; c_got := got |} :: s)
      else None
  | Rec id => if has_id id s then Some (drop_id id s) else None
  end.

Fixpoint accept_all (s : state) (es : list event) : option state :=
  match es with
  | [] => Some s
  | e :: r => match accept s e with Some s' => accept_all s' r | None => None end
  end.

(** ** deterministic replica of the free-list manager (freelists.cc)
    [fl]: per size 0..15 a LIFO list of recycled handles; [top]: entriesSize *)
Record fl_state := { fl_lists : list (list Z); fl_top : Z }.

Definition fl_init : fl_state := {| fl_lists := repeat [] 16; fl_top := 1 |}.

Definition fl_max : Z := 15.

Definition set_nth {A} (n : nat) (x : A) (l : list A) : list A :=
  firstn n l ++ x :: skipn (S n) l.

(** returns the new state and the handle (0 = null, for n < 1); None = error *)
Definition fl_request (s : fl_state) (n : Z) : option (fl_state * Z) :=
  if fl_max <? n then None
  else if n <? 1 then Some (s, 0)
  else
    let i := Z.to_nat n in
    match nth i (fl_lists s) [] with
    | h :: rest => Some ({| fl_lists := set_nth i rest (fl_lists s); fl_top := fl_top s |}, h)
    | [] => Some ({| fl_lists := fl_lists s; fl_top := fl_top s + n |}, fl_top s)
    end.

Definition fl_recycle (s : fl_state) (h n : Z) : fl_state :=
  let i := Z.to_nat n in
  {| fl_lists := set_nth i (h :: nth i (fl_lists s) []) (fl_lists s); fl_top := fl_top s |}.
