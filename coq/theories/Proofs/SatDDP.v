(** * C08 / C20 on diagrams: saturation over separately supplied event
    relations and breadth-first reachability over any diagram of their union
    return the IDENTICAL diagram (not merely the same set). *)
From Coq Require Import List Arith ZArith Bool Lia.
From Meddly Require Import Model.DD Model.Scalar Model.Reach Proofs.DDFacts Proofs.Canon
     Proofs.Reduce Proofs.ReachP Proofs.SaturP Proofs.ImageP.
Import ListNotations.
Local Open Scope nat_scope.

(** ** sets that respect an equivalence on states *)
Section Resp.
Variable St : Type.
Variable states : list St.
Variable eqv : St -> St -> Prop.

Definition resp (S : St -> bool) : Prop := forall y y', eqv y y' -> S y = S y'.
Definition resp2 (R : St -> St -> bool) : Prop := forall x y y', eqv y y' -> R x y = R x y'.

Lemma img_resp R S : resp2 R -> resp (img St states R S).
Proof.
  intros HR y y' E. unfold img. induction states as [|x l IH]; cbn; [reflexivity|].
  now rewrite IH, (HR x y y' E).
Qed.

Lemma bfs_resp R : resp2 R -> forall fuel S0 S,
  resp S0 -> bfs St states R fuel S0 = Some S -> resp S.
Proof.
  intros HR. induction fuel as [|fuel IH]; intros S0 S H0; cbn; [discriminate|].
  destruct (same_set St states S0 _).
  - intros H; injection H as <-. exact H0.
  - apply IH. intros y y' E. now rewrite (H0 y y' E), (img_resp R S0 HR y y' E).
Qed.

Lemma bfs_front_resp R : resp2 R -> forall fuel S0 F S,
  resp S0 -> resp F -> bfs_front St states R fuel S0 F = Some S -> resp S.
Proof.
  intros HR. induction fuel as [|fuel IH]; intros S0 F S H0 HF; cbn; [discriminate|].
  destruct (empty_set St states F).
  - intros H; injection H as <-. exact H0.
  - apply IH.
    + intros y y' E. now rewrite (H0 y y' E), (img_resp R F HR y y' E).
    + intros y y' E. now rewrite (H0 y y' E), (img_resp R F HR y y' E).
Qed.

Lemma sat_loop_resp E (sub : (St -> bool) -> option (St -> bool)) :
  resp2 E ->
  (forall S0 S, resp S0 -> sub S0 = Some S -> resp S) ->
  forall n S0 S, resp S0 -> sat_loop St states sub E n S0 = Some S -> resp S.
Proof.
  intros HE Hsub. induction n as [|n IH]; intros S0 S H0; cbn; [discriminate|].
  destruct (sub S0) as [S1|] eqn:E1; [|discriminate].
  pose proof (Hsub S0 S1 H0 E1) as H1.
  destruct (same_set St states S0 _).
  - intros H; injection H as <-. exact H0.
  - apply IH. intros y y' Ey. now rewrite (H1 y y' Ey), (img_resp E S1 HE y y' Ey).
Qed.

Lemma saturate_resp : forall lv, (forall e, In e lv -> resp2 e) ->
  forall fuel S0 S, resp S0 -> saturate St states lv fuel S0 = Some S -> resp S.
Proof.
  induction lv as [|E lower IH]; intros Hlv fuel S0 S H0; cbn -[sat_loop].
  - intros H; injection H as <-. exact H0.
  - apply sat_loop_resp; auto.
    + apply Hlv. now left.
    + intros S1 S2. apply IH. intros e He. apply Hlv. now right.
Qed.

End Resp.

Section SatDD.
Variable szS : nat -> nat.
Hypothesis sz_pos : forall k, 1 <= szS k.
Variable K : nat.
Variables rS rR rOut : rule.
Hypothesis set_not_ir : is_ir rS = false.

Notation states := (states_of szS K).
Definition eqK (y y' : nat -> nat) : Prop := forall k, 1 <= k <= K -> y k = y' k.

(** every in-range assignment has a representative in the enumeration *)
Lemma all_asg_complete : forall L y,
  (forall k, 1 <= k <= L -> y k < szS k) ->
  exists y0, In y0 (all_asg szS L) /\ forall k, 1 <= k <= L -> y0 k = y k.
Proof.
  induction L as [|L IH]; intros y Hy.
  - exists (fun _ => 0). split; [now left|]. intros k Hk. lia.
  - destruct (IH y) as (x0 & Hin & Hx0); [intros k Hk; apply Hy; lia|].
    exists (upd x0 (S L) (y (S L))). split.
    + cbn [all_asg]. apply in_flat_map. exists (y (S L)). split.
      * apply in_seq. pose proof (Hy (S L)). lia.
      * apply in_map_iff. exists x0. auto.
    + intros k Hk. unfold upd. destruct (Nat.eqb_spec k (S L)); [now subst|]. apply Hx0. lia.
Qed.

Lemma of_fun_ext r : forall L from (g g' : (nat -> nat) -> Z) x,
  (forall y, (forall k, L < k -> y k = x k) -> (forall k, 1 <= k <= L -> y k < szS k) ->
     g y = g' y) ->
  of_fun szS r L from g x = of_fun szS r L from g' x.
Proof.
  induction L as [|L IH]; intros from g g' x H; cbn [of_fun].
  - f_equal. apply H; [reflexivity|intros k Hk; lia].
  - f_equal. apply map_ext_in. intros i Hi. apply in_seq in Hi. apply IH.
    intros y Hab Hlt. apply H.
    + intros k Hk. rewrite Hab by lia. apply upd_other. lia.
    + intros k Hk. destruct (Nat.eq_dec k (S L)) as [->|Hne]; [|apply Hlt; lia].
      rewrite Hab by lia. rewrite upd_same. lia.
Qed.

Lemma set_mem_resp s : resp (nat -> nat) eqK (set_mem K rS s).
Proof.
  intros y y' E. unfold set_mem, eval. f_equal. apply evalL_ext.
  intros k Hk. apply E. unfold dep in Hk. rewrite set_not_ir in Hk. cbn in Hk. exact Hk.
Qed.

Lemma rel_mem_resp2 r : resp2 (nat -> nat) eqK (rel_mem K rR r).
Proof. intros x y y' E. now apply rel_mem_ext. Qed.

Lemma dd_of_set_ext (S S' : (nat -> nat) -> bool) :
  resp (nat -> nat) eqK S -> resp (nat -> nat) eqK S' ->
  (forall y, In y states -> S y = S' y) ->
  dd_of_set szS K rOut S = dd_of_set szS K rOut S'.
Proof.
  intros HS HS' Hag. unfold dd_of_set. apply of_fun_ext.
  intros y _ Hy. f_equal.
  destruct (all_asg_complete K y Hy) as (y0 & Hin & Hy0).
  rewrite <- (HS y0 y Hy0), <- (HS' y0 y Hy0). now apply Hag.
Qed.

Lemma Reach_rel_ext (R R' : (nat -> nat) -> (nat -> nat) -> bool) init y :
  (forall x z, In x states -> In z states -> R x z = R' x z) ->
  Reach (nat -> nat) states R init y -> Reach (nat -> nat) states R' init y.
Proof.
  intros E. induction 1 as [x Hx Hi|x z Hxr IH Hz HR]; [now apply Reach0|].
  apply (ReachS _ _ R' init x z IH Hz). rewrite <- E; auto. apply (Reach_in _ _ _ _ _ Hxr).
Qed.

(** saturation over the events [evs] and breadth-first reachability over a
    diagram [ru] of their union build the same diagram *)
Theorem sat_dd_is_reach_dd : forall s evs ru t t',
  (forall x y, In x states -> In y states ->
     rel_mem K rR ru x y = existsb (fun e => rel_mem K rR e x y) evs) ->
  sat_dd szS K rS rR rOut s evs = Some t ->
  reach_dd szS K rS rR rOut s ru = Some t' ->
  t = t'.
Proof.
  intros s evs ru t t' Hun Hs Hb. unfold sat_dd in Hs. unfold reach_dd in Hb.
  destruct (saturate _ _ _ _ _) as [S1|] eqn:E1; [|discriminate]. injection Hs as <-.
  destruct (bfs _ _ _ _ _) as [S2|] eqn:E2; [|discriminate]. injection Hb as <-.
  apply dd_of_set_ext.
  - apply (saturate_resp _ states eqK (map (rel_mem K rR) evs)) with (fuel := S (length states)) (S0 := set_mem K rS s); auto.
    + intros e He. apply in_map_iff in He. destruct He as (r & <- & _). apply rel_mem_resp2.
    + apply set_mem_resp.
  - apply (bfs_resp _ states eqK (rel_mem K rR ru) (rel_mem_resp2 ru) (S (length states)) (set_mem K rS s)); auto.
    apply set_mem_resp.
  - intros y Hy.
    pose proof (saturate_lfp _ states _ _ _ _ E1 y Hy) as A.
    pose proof (bfs_lfp _ states (rel_mem K rR ru) _ (set_mem K rS s) (set_mem K rS s) S2
                 (fun _ _ h => h) (fun z Hz Hi => Reach0 _ states _ _ z Hz Hi) E2 y Hy) as B.
    assert (Hrel : forall x z, In x states -> In z states ->
              union_rel (nat -> nat) (map (rel_mem K rR) evs) x z = rel_mem K rR ru x z).
    { intros x z Hx Hz. rewrite (Hun x z Hx Hz). unfold union_rel.
      clear. induction evs as [|e l IH]; cbn; [reflexivity|]. now rewrite IH. }
    assert (Hiff : S1 y = true <-> S2 y = true).
    { rewrite A, B. split; apply Reach_rel_ext; auto.
      intros x z Hx Hz. symmetry. now apply Hrel. }
    destruct (S1 y), (S2 y); auto; [symmetry; now apply Hiff|now apply Hiff].
Qed.

(** the frontier variant builds the same diagram as the frontier-less one *)
Theorem reach_fs_dd_is_reach_dd : forall s r t t',
  reach_fs_dd szS K rS rR rOut s r = Some t ->
  reach_dd szS K rS rR rOut s r = Some t' ->
  t = t'.
Proof.
  intros s r t t' Hf Hb. unfold reach_fs_dd in Hf. unfold reach_dd in Hb.
  destruct (bfs_front _ _ _ _ _ _) as [S1|] eqn:E1; [|discriminate]. injection Hf as <-.
  destruct (bfs _ _ _ _ _) as [S2|] eqn:E2; [|discriminate]. injection Hb as <-.
  apply dd_of_set_ext.
  - apply (bfs_front_resp _ states eqK (rel_mem K rR r) (rel_mem_resp2 r) (S (length states))
             (set_mem K rS s) (set_mem K rS s)); auto; apply set_mem_resp.
  - apply (bfs_resp _ states eqK (rel_mem K rR r) (rel_mem_resp2 r) (S (length states)) (set_mem K rS s)); auto.
    apply set_mem_resp.
  - intros y Hy.
    pose proof (bfs_front_lfp _ states (rel_mem K rR r) _ (set_mem K rS s) (set_mem K rS s)
                 (set_mem K rS s) S1 (fun _ _ h => h)
                 (fun z Hz Hi => Reach0 _ states _ _ z Hz Hi) (fun _ _ h => h)
                 (fun x z _ _ Hx Hfx _ => ltac:(congruence)) E1 y Hy) as A.
    pose proof (bfs_lfp _ states (rel_mem K rR r) _ (set_mem K rS s) (set_mem K rS s) S2
                 (fun _ _ h => h) (fun z Hz Hi => Reach0 _ states _ _ z Hz Hi) E2 y Hy) as B.
    assert (Hiff : S1 y = true <-> S2 y = true) by (rewrite A, B; tauto).
    destruct (S1 y), (S2 y); auto; [symmetry; now apply Hiff|now apply Hiff].
Qed.

Theorem reach_dd_total s r : reach_dd szS K rS rR rOut s r <> None.
Proof.
  unfold reach_dd.
  pose proof (bfs_terminates (nat -> nat) states (rel_mem K rR r) (S (length states)) (set_mem K rS s)) as H.
  destruct (bfs _ _ _ _ _); [discriminate|]. exfalso. apply H; [|reflexivity].
  pose proof (card_le (nat -> nat) states (set_mem K rS s)). lia.
Qed.

Theorem reach_fs_dd_total s r : reach_fs_dd szS K rS rR rOut s r <> None.
Proof.
  unfold reach_fs_dd.
  destruct (empty_set (nat -> nat) states (set_mem K rS s)) eqn:E.
  - cbn. rewrite E. discriminate.
  - pose proof (bfs_front_terminates (nat -> nat) states (rel_mem K rR r) (S (length states))
                  (set_mem K rS s) (set_mem K rS s)) as H.
    destruct (bfs_front _ _ _ _ _ _); [discriminate|]. exfalso. apply H; [|reflexivity].
    (* a non-empty initial set has at least one member among the states *)
    assert (1 <= card (nat -> nat) states (set_mem K rS s));
      [|pose proof (card_le (nat -> nat) states (set_mem K rS s)); lia].
    unfold card. unfold empty_set in E. clear H. revert E.
    generalize (set_mem K rS s). generalize states.
    induction l as [|x l IH]; intros S0 E; cbn in *; [discriminate|].
    destruct (S0 x); cbn in *; [lia|]. now apply IH.
Qed.

(** and saturation on diagrams always returns a diagram *)
Theorem sat_dd_total s evs : sat_dd szS K rS rR rOut s evs <> None.
Proof.
  unfold sat_dd.
  pose proof (saturate_terminates (nat -> nat) states (map (rel_mem K rR) evs) (set_mem K rS s)) as H.
  destruct (saturate _ _ _ _ _); [discriminate|contradiction].
Qed.

End SatDD.
