(** C09: the image diagrams evaluate to the relational definition. *)
From Coq Require Import List Arith ZArith Bool Lia.
From Meddly Require Import Model.DD Model.Scalar Model.Reach Proofs.DDFacts Proofs.Canon Proofs.Reduce Proofs.ReachP.
Import ListNotations.
Local Open Scope nat_scope.

Section ImageP.
Variable szS : nat -> nat.
Hypothesis sz_pos : forall k, 1 <= szS k.
Variable K : nat.
Variables rS rR rOut : rule.

Lemma pair_asg_ext x y y' :
  (forall k, 1 <= k <= K -> y k = y' k) ->
  forall p, 1 <= p <= dep (is_ir rR) (2 * K) -> pair_asg x y p = pair_asg x y' p.
Proof.
  intros H p Hp. unfold pair_asg. destruct (Nat.even p) eqn:E; [reflexivity|].
  apply H. assert (dep (is_ir rR) (2 * K) = 2 * K).
  { unfold dep. replace (Nat.odd (2 * K)) with false; [now rewrite andb_false_r|].
    symmetry. rewrite <- Nat.negb_even. rewrite Nat.even_mul. reflexivity. }
  assert (Ho : Nat.odd p = true) by (rewrite <- Nat.negb_even, E; reflexivity).
  apply Nat.odd_spec in Ho. destruct Ho as [q ->].
  replace (2 * q + 1 + 1) with (2 * (q + 1)) by lia.
  rewrite Nat.mul_comm, Nat.div_mul by lia. lia.
Qed.

Lemma rel_mem_ext r x y y' :
  (forall k, 1 <= k <= K -> y k = y' k) -> rel_mem K rR r x y = rel_mem K rR r x y'.
Proof.
  intros H. unfold rel_mem, eval. f_equal. apply evalL_ext. now apply pair_asg_ext.
Qed.

Lemma img_ext s r y y' :
  (forall k, 1 <= k <= K -> y k = y' k) ->
  img (nat -> nat) (states_of szS K) (rel_mem K rR r) (set_mem K rS s) y
  = img (nat -> nat) (states_of szS K) (rel_mem K rR r) (set_mem K rS s) y'.
Proof.
  intros H. unfold img. induction (states_of szS K) as [|x l IH]; cbn; [reflexivity|].
  now rewrite IH, (rel_mem_ext r x y y' H).
Qed.

Theorem post_dd_eval s r y :
  valid szS y -> is_ir rOut && Nat.odd K = false ->
  eval rOut K (post_dd szS K rS rR rOut s r) y
  = b2z 1 (img (nat -> nat) (states_of szS K) (rel_mem K rR r) (set_mem K rS s) y).
Proof.
  intros Hy Hc. unfold post_dd, dd_of_set, eval.
  rewrite (of_fun_eval szS rOut).
  - f_equal. apply img_ext. intros k Hk. unfold merge.
    destruct (Nat.leb_spec 1 k); destruct (Nat.leb_spec k K); cbn; try lia; reflexivity.
  - intros a b Hab. f_equal. apply img_ext. intros k _. apply Hab.
  - exact Hy.
  - intros E. rewrite E in Hc. discriminate.
Qed.

(** ... which is the relational definition *)
Theorem post_dd_relational s r y :
  valid szS y -> is_ir rOut && Nat.odd K = false ->
  (eval rOut K (post_dd szS K rS rR rOut s r) y = 1%Z <->
   exists x, In x (states_of szS K) /\ set_mem K rS s x = true /\ rel_mem K rR r x y = true).
Proof.
  intros Hy Hc. rewrite post_dd_eval by assumption.
  rewrite <- (img_spec (nat -> nat) (states_of szS K) (rel_mem K rR r)).
  unfold b2z. destruct (img _ _ _ _ y); split; intros H; try reflexivity; try discriminate; auto.
Qed.

(** ** pre-image *)
Lemma pair_asg_ext1 x x' y :
  (forall k, 1 <= k <= K -> x k = x' k) ->
  forall p, 1 <= p <= dep (is_ir rR) (2 * K) -> pair_asg x y p = pair_asg x' y p.
Proof.
  intros H p Hp. unfold pair_asg. destruct (Nat.even p) eqn:E; [|reflexivity].
  apply H. assert (Hd : dep (is_ir rR) (2 * K) = 2 * K).
  { unfold dep. replace (Nat.odd (2 * K)) with false; [now rewrite andb_false_r|].
    symmetry. rewrite <- Nat.negb_even. rewrite Nat.even_mul. reflexivity. }
  rewrite Hd in Hp. apply Nat.even_spec in E. destruct E as [q ->].
  rewrite Nat.mul_comm, Nat.div_mul by lia. lia.
Qed.

Lemma rel_mem_ext1 r x x' y :
  (forall k, 1 <= k <= K -> x k = x' k) -> rel_mem K rR r x y = rel_mem K rR r x' y.
Proof.
  intros H. unfold rel_mem, eval. f_equal. apply evalL_ext. now apply pair_asg_ext1.
Qed.

Lemma preimg_ext s r x x' :
  (forall k, 1 <= k <= K -> x k = x' k) ->
  preimg (nat -> nat) (states_of szS K) (rel_mem K rR r) (set_mem K rS s) x
  = preimg (nat -> nat) (states_of szS K) (rel_mem K rR r) (set_mem K rS s) x'.
Proof.
  intros H. unfold preimg. induction (states_of szS K) as [|y l IH]; cbn; [reflexivity|].
  now rewrite IH, (rel_mem_ext1 r x x' y H).
Qed.

Theorem pre_dd_eval s r x :
  valid szS x -> is_ir rOut && Nat.odd K = false ->
  eval rOut K (pre_dd szS K rS rR rOut s r) x
  = b2z 1 (preimg (nat -> nat) (states_of szS K) (rel_mem K rR r) (set_mem K rS s) x).
Proof.
  intros Hx Hc. unfold pre_dd, dd_of_set, eval.
  rewrite (of_fun_eval szS rOut).
  - f_equal. apply preimg_ext. intros k Hk. unfold merge.
    destruct (Nat.leb_spec 1 k); destruct (Nat.leb_spec k K); cbn; try lia; reflexivity.
  - intros a b Hab. f_equal. apply preimg_ext. intros k _. apply Hab.
  - exact Hx.
  - intros E. rewrite E in Hc. discriminate.
Qed.

Theorem pre_dd_relational s r x :
  valid szS x -> is_ir rOut && Nat.odd K = false ->
  (eval rOut K (pre_dd szS K rS rR rOut s r) x = 1%Z <->
   exists y, In y (states_of szS K) /\ set_mem K rS s y = true /\ rel_mem K rR r x y = true).
Proof.
  intros Hx Hc. rewrite pre_dd_eval by assumption.
  unfold preimg. unfold b2z.
  destruct (existsb _ _) eqn:E.
  - split; [intros _|reflexivity]. apply existsb_exists in E. destruct E as (y & Hy & H).
    apply andb_true_iff in H. exists y. tauto.
  - split; [discriminate|]. intros (y & Hy & H1 & H2).
    assert (existsb (fun y0 => set_mem K rS s y0 && rel_mem K rR r x y0) (states_of szS K) = true).
    { apply existsb_exists. exists y. split; [exact Hy|now rewrite H1, H2]. }
    congruence.
Qed.

(** ** vector-matrix products: the sum over the shared index *)
Lemma vm_fun_ext v m y y' :
  (forall k, 1 <= k <= K -> y k = y' k) -> vm_fun szS K rS rR v m y = vm_fun szS K rS rR v m y'.
Proof.
  intros H. unfold vm_fun. f_equal. apply map_ext. intros x. f_equal.
  unfold eval. apply evalL_ext. now apply pair_asg_ext.
Qed.

Lemma mv_fun_ext m v x x' :
  (forall k, 1 <= k <= K -> x k = x' k) -> mv_fun szS K rS rR m v x = mv_fun szS K rS rR m v x'.
Proof.
  intros H. unfold mv_fun. f_equal. apply map_ext. intros y. f_equal.
  unfold eval. apply evalL_ext. now apply pair_asg_ext1.
Qed.

Theorem vm_dd_eval v m y :
  valid szS y -> is_ir rOut && Nat.odd K = false ->
  eval rOut K (vm_dd szS K rS rR rOut v m) y
  = fold_left Z.add
      (map (fun x => (eval rS K v x * eval rR (2 * K) m (pair_asg x y))%Z) (states_of szS K)) 0%Z.
Proof.
  intros Hy Hc. unfold vm_dd, eval at 1.
  rewrite (of_fun_eval szS rOut).
  - change (vm_fun szS K rS rR v m (merge K y (fun _ => 0)) = vm_fun szS K rS rR v m y).
    apply vm_fun_ext. intros k Hk. unfold merge.
    destruct (Nat.leb_spec 1 k); destruct (Nat.leb_spec k K); cbn; try lia; reflexivity.
  - intros a b Hab. apply vm_fun_ext. intros k _. apply Hab.
  - exact Hy.
  - intros E. rewrite E in Hc. discriminate.
Qed.

Theorem mv_dd_eval m v x :
  valid szS x -> is_ir rOut && Nat.odd K = false ->
  eval rOut K (mv_dd szS K rS rR rOut m v) x
  = fold_left Z.add
      (map (fun y => (eval rR (2 * K) m (pair_asg x y) * eval rS K v y)%Z) (states_of szS K)) 0%Z.
Proof.
  intros Hx Hc. unfold mv_dd, eval at 1.
  rewrite (of_fun_eval szS rOut).
  - change (mv_fun szS K rS rR m v (merge K x (fun _ => 0)) = mv_fun szS K rS rR m v x).
    apply mv_fun_ext. intros k Hk. unfold merge.
    destruct (Nat.leb_spec 1 k); destruct (Nat.leb_spec k K); cbn; try lia; reflexivity.
  - intros a b Hab. apply mv_fun_ext. intros k _. apply Hab.
  - exact Hx.
  - intros E. rewrite E in Hc. discriminate.
Qed.

End ImageP.
