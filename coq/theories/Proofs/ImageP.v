(** C09: the image diagrams evaluate to the relational definition. *)
From Coq Require Import List Arith ZArith Bool Lia.
From Meddly Require Import Model.DD Model.Scalar Model.Reach Proofs.DDFacts Proofs.Canon Proofs.Reduce Proofs.ReachP.
Import ListNotations.
Local Open Scope nat_scope.

Section ImageP.
Variable szS : nat -> nat.
Hypothesis sz_pos : forall k, 1 <= szS k.
Variable K : nat.
Variables rS rR rOut : rule.

Lemma pair_asg_ext x y y' :
  (forall k, 1 <= k <= K -> y k = y' k) ->
  forall p, 1 <= p <= dep (is_ir rR) (2 * K) -> pair_asg x y p = pair_asg x y' p.
Proof.
  intros H p Hp. unfold pair_asg. destruct (Nat.even p) eqn:E; [reflexivity|].
  apply H. assert (dep (is_ir rR) (2 * K) = 2 * K).
  { unfold dep. replace (Nat.odd (2 * K)) with false; [now rewrite andb_false_r|].
    symmetry. rewrite <- Nat.negb_even. rewrite Nat.even_mul. reflexivity. }
  assert (Ho : Nat.odd p = true) by (rewrite <- Nat.negb_even, E; reflexivity).
  apply Nat.odd_spec in Ho. destruct Ho as [q ->].
  replace (2 * q + 1 + 1) with (2 * (q + 1)) by lia.
  rewrite Nat.mul_comm, Nat.div_mul by lia. lia.
Qed.

Lemma rel_mem_ext r x y y' :
  (forall k, 1 <= k <= K -> y k = y' k) -> rel_mem K rR r x y = rel_mem K rR r x y'.
Proof.
  intros H. unfold rel_mem, eval. f_equal. apply evalL_ext. now apply pair_asg_ext.
Qed.

Lemma img_ext s r y y' :
  (forall k, 1 <= k <= K -> y k = y' k) ->
  img (nat -> nat) (states_of szS K) (rel_mem K rR r) (set_mem K rS s) y
  = img (nat -> nat) (states_of szS K) (rel_mem K rR r) (set_mem K rS s) y'.
Proof.
  intros H. unfold img. induction (states_of szS K) as [|x l IH]; cbn; [reflexivity|].
  now rewrite IH, (rel_mem_ext r x y y' H).
Qed.

Theorem post_dd_eval s r y :
  valid szS y -> is_ir rOut && Nat.odd K = false ->
  eval rOut K (post_dd szS K rS rR rOut s r) y
  = b2z 1 (img (nat -> nat) (states_of szS K) (rel_mem K rR r) (set_mem K rS s) y).
Proof.
  intros Hy Hc. unfold post_dd, dd_of_set, eval.
  rewrite (of_fun_eval szS rOut).
  - f_equal. apply img_ext. intros k Hk. unfold merge.
    destruct (Nat.leb_spec 1 k); destruct (Nat.leb_spec k K); cbn; try lia; reflexivity.
  - intros a b Hab. f_equal. apply img_ext. intros k _. apply Hab.
  - exact Hy.
  - intros E. rewrite E in Hc. discriminate.
Qed.

(** ... which is the relational definition *)
Theorem post_dd_relational s r y :
  valid szS y -> is_ir rOut && Nat.odd K = false ->
  (eval rOut K (post_dd szS K rS rR rOut s r) y = 1%Z <->
   exists x, In x (states_of szS K) /\ set_mem K rS s x = true /\ rel_mem K rR r x y = true).
Proof.
  intros Hy Hc. rewrite post_dd_eval by assumption.
  rewrite <- (img_spec (nat -> nat) (states_of szS K) (rel_mem K rR r)).
  unfold b2z. destruct (img _ _ _ _ y); split; intros H; try reflexivity; try discriminate; auto.
Qed.

End ImageP.
