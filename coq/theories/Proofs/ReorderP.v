(** C13: the reordered diagram denotes the same function of the renamed
    variables and is reduced. *)
From Coq Require Import List Arith ZArith Bool Lia.
From Meddly Require Import Model.DD Model.Reorder Proofs.DDFacts Proofs.Canon Proofs.Reduce.
Import ListNotations.
Local Open Scope nat_scope.

Section ReorderP.
Variable sz' : nat -> nat.
Hypothesis sz_pos : forall k, 1 <= sz' k.

Theorem permute_dd_eval r L src t x' :
  valid sz' x' -> is_ir r && Nat.odd L = false ->
  (forall j, 1 <= j <= dep (is_ir r) L -> 1 <= src j <= L) ->
  eval r L (permute_dd sz' r L src t) x' = eval r L t (fun j => x' (src j)).
Proof.
  intros Hx Hc Hsrc. unfold permute_dd, eval at 1.
  rewrite (of_fun_eval sz' r).
  - unfold eval. apply evalL_ext. intros j Hj. unfold merge.
    destruct (Hsrc j Hj) as [H1 H2].
    destruct (Nat.leb_spec 1 (src j)); destruct (Nat.leb_spec (src j) L); cbn; try lia; reflexivity.
  - intros a b Hab. unfold eval. apply evalL_ext. intros j _. apply Hab.
  - exact Hx.
  - intros E. rewrite E in Hc. discriminate.
Qed.

Theorem permute_dd_reduced r (Hp : paired sz' r) L src t :
  is_ir r && Nat.odd L = false ->
  reducedb sz' r L None (permute_dd sz' r L src t) = true.
Proof.
  intros Hc. eapply reduced_from_irrel; [exact Hc|]. unfold permute_dd. now apply of_fun_reduced.
Qed.

End ReorderP.
