(** C13: the swap result is reduced (over the exchanged sizes). *)
From Coq Require Import List Arith ZArith Bool Lia.
From Meddly Require Import Model.DD Model.Swap Proofs.DDFacts Proofs.Canon Proofs.Reduce Proofs.SwapP.
Import ListNotations.
Local Open Scope nat_scope.

Section SwapR.
Variable sz : nat -> nat.
Variable r : rule.
Hypothesis not_ir : is_ir r = false.
Hypothesis sz_pos : forall k, 1 <= sz k.
Variable p : nat.
Notation sz' := (swap_sz sz p).

Lemma sz'_pos : forall k, 1 <= sz' k.
Proof. intros k. unfold swap_sz. apply sz_pos. Qed.

Lemma nir L : is_ir r && Nat.odd L = false.
Proof. now rewrite not_ir. Qed.

(** reducedness only looks at the sizes of the levels at or below the diagram's *)
Lemma reducedb_ext_sz (s1 s2 : nat -> nat) : forall L from t,
  (forall k, k <= L -> s1 k = s2 k) ->
  reducedb s1 r L from t = true -> reducedb s2 r L from t = true.
Proof.
  induction L as [|L IH]; intros from t Hs H; [exact H|].
  destruct (Nat.eq_dec (top t) (S L)) as [E|E].
  - destruct t as [v|k cs]; cbn in E; [lia|]. subst k.
    apply (reduced_node s1 r) in H. apply (reduced_node s2 r). destruct H as (H1 & H2 & H3 & H4).
    split; [rewrite H1; apply Hs; lia|]. split; [exact H2|]. split; [exact H3|].
    intros i Hi. apply IH; auto.
  - apply (reduced_skip s1 r) in H; [|exact E]. apply (reduced_skip s2 r); [exact E|].
    destruct H as [H1 H2]. split; [exact H1|]. apply IH; auto.
Qed.

(** the children read off a reduced diagram are reduced *)
Lemma reduced_unpack L t i :
  reducedb sz r (S L) None t = true -> i < sz (S L) ->
  reducedb sz r L (Some i) (nth i (unpack sz r (S L) 0 t) zero) = true.
Proof.
  intros H Hi.
  assert (Hex : reducedb sz r L None t = true ->
                reducedb sz r L (Some i) (nth i (expand sz r (S L) 0 t) zero) = true).
  { intros Hr. unfold expand. rewrite not_ir. cbn. rewrite nth_repeat_lt by exact Hi.
    eapply (reduced_from_irrel sz r); [apply nir|exact Hr]. }
  destruct (Nat.eq_dec (top t) (S L)) as [E|E].
  - destruct t as [v|k cs]; cbn in E; [lia|]. subst k. cbn [unpack]. rewrite Nat.eqb_refl.
    apply (reduced_node sz r) in H. destruct H as (Hl & _ & _ & Hc). apply Hc. now rewrite Hl.
  - apply (reduced_skip sz r) in H; [|exact E]. destruct H as [_ Hr].
    destruct t as [v|k cs]; cbn [unpack]; [now apply Hex|].
    cbn in E. destruct (Nat.eqb_spec k (S L)); [contradiction|now apply Hex].
Qed.

Lemma paired_nir (s : nat -> nat) : paired s r.
Proof. unfold paired. rewrite not_ir. discriminate. Qed.

Theorem swap_adj_reduced : forall L t,
  S (S p) <= L -> reducedb sz r L None t = true ->
  reducedb sz' r L None (swap_adj sz r p L t) = true.
Proof.
  induction L as [|L IH]; intros t HL H; [lia|]. cbn [swap_adj].
  destruct (Nat.eqb_spec L (S p)) as [->|Hne].
  - eapply (reduced_from_irrel sz' r); [apply nir|].
    apply (mk_reduced sz' sz'_pos r (paired_nir sz') (S p) 0).
    + rewrite map_length, seq_length. unfold swap_sz, swap_idx.
      destruct (Nat.eqb_spec (S (S p)) (S p)); [lia|]. now rewrite Nat.eqb_refl.
    + rewrite map_length, seq_length. intros j Hj. rewrite nth_map_seq by exact Hj.
      eapply (reduced_from_irrel sz' r); [apply nir|].
      apply (mk_reduced sz' sz'_pos r (paired_nir sz') p 0).
      * rewrite map_length, seq_length. unfold swap_sz, swap_idx. now rewrite Nat.eqb_refl.
      * rewrite map_length, seq_length. intros i Hi. rewrite nth_map_seq by exact Hi.
        apply (reducedb_ext_sz sz sz' p (Some i)).
        -- intros k Hk. unfold swap_sz, swap_idx.
           destruct (Nat.eqb_spec k (S p)); [lia|]. destruct (Nat.eqb_spec k (S (S p))); [lia|reflexivity].
        -- eapply (reduced_from_irrel sz r); [apply nir|].
           apply (reduced_unpack p _ j); [|exact Hj].
           eapply (reduced_from_irrel sz r); [apply nir|].
           now apply (reduced_unpack (S p) t i).
  - destruct (Nat.ltb_spec (S p) L) as [Hlt|Hge]; [|lia].
    assert (Hszl : sz' (S L) = sz (S L)).
    { unfold swap_sz, swap_idx. destruct (Nat.eqb_spec (S L) (S p)); [lia|].
      destruct (Nat.eqb_spec (S L) (S (S p))); [lia|reflexivity]. }
    pose proof (unpack_len sz r not_ir L t (reduced_wfl sz r (S L) None t H)) as Hlen.
    eapply (reduced_from_irrel sz' r); [apply nir|].
    apply (mk_reduced sz' sz'_pos r (paired_nir sz') L 0).
    + now rewrite map_length, Hszl.
    + rewrite map_length. intros i Hi.
      rewrite (nth_indep _ zero (swap_adj sz r p L zero)) by (now rewrite map_length).
      rewrite (map_nth (swap_adj sz r p L)).
      eapply (reduced_from_irrel sz' r); [apply nir|]. apply IH; [lia|].
      eapply (reduced_from_irrel sz r); [apply nir|]. apply (reduced_unpack L t i H). now rewrite <- Hlen.
Qed.

End SwapR.

(** hence it is THE diagram of the renamed function in the reordered forest *)
Theorem swap_adj_canonical (sz : nat -> nat) (r : rule) :
  is_ir r = false -> (forall k, 1 <= sz k) ->
  forall p L t u,
  S (S p) <= L -> reducedb sz r L None t = true ->
  reducedb (swap_sz sz p) r L None u = true ->
  (forall x, valid (swap_sz sz p) x -> eval r L u x = eval r L t (swapx p x)) ->
  u = swap_adj sz r p L t.
Proof.
  intros Hr Hpos p L t u HL Ht Hu E.
  apply (canon (swap_sz sz p) r (sz'_pos sz Hpos p)
               (fun Hi => ltac:(rewrite Hr in Hi; discriminate))
               (fun Hi => ltac:(rewrite Hr in Hi; discriminate))
               L None u (swap_adj sz r p L t) I Hu).
  - now apply swap_adj_reduced.
  - intros x Hx _. change (eval r L u x = eval r L (swap_adj sz r p L t) x).
    rewrite (E x Hx). unfold eval. symmetry.
    apply (swap_adj_eval sz r Hr p L t x HL); [|exact Hx].
    now apply (reduced_wfl sz r L None).
Qed.
