(** C18: every history accepted by the monitor keeps the live chunks pairwise
    disjoint, inside the arena, at least as large as requested; memory is
    handed out again only after a recycle that covers it. *)
From Coq Require Import List ZArith Bool Arith Lia.
From Meddly Require Import Model.MemSpec.
Import ListNotations.
Local Open Scope Z_scope.

Definition overlap (c d : chunk) : Prop :=
  c_addr c < c_addr d + c_got d /\ c_addr d < c_addr c + c_got c.

Definition chunk_ok (c : chunk) : Prop := 1 <= c_req c <= c_got c /\ 1 <= c_addr c.

Inductive Safe : state -> Prop :=
| Safe_nil : Safe []
| Safe_cons c s :
    chunk_ok c -> Safe s ->
    (forall d, In d s -> ~ overlap c d) ->
    (forall d, In d s -> c_id d <> c_id c) ->
    Safe (c :: s).

Lemma disjointb_spec a g a' g' :
  0 < g -> 0 < g' -> disjointb a g a' g' = true <-> ~ (a < a' + g' /\ a' < a + g).
Proof.
  intros Hg Hg'. unfold disjointb. rewrite orb_true_iff, !Z.leb_le. lia.
Qed.

Lemma has_id_false id s : has_id id s = false -> forall d, In d s -> c_id d <> id.
Proof.
  unfold has_id. intros H d Hd E.
  assert (existsb (fun c => Nat.eqb (c_id c) id) s = true); [|congruence].
  apply existsb_exists. exists d. split; [exact Hd|now apply Nat.eqb_eq].
Qed.

Lemma Safe_in s : Safe s -> forall c, In c s -> chunk_ok c.
Proof.
  induction 1 as [|c s Hc Hs IH Hov Hid]; intros d Hd; [destruct Hd|].
  destruct Hd as [<-|Hd]; auto.
Qed.

Lemma Safe_drop id s : Safe s -> Safe (drop_id id s).
Proof.
  induction 1 as [|c s Hc Hs IH Hov Hid]; cbn; [constructor|].
  destruct (Nat.eqb (c_id c) id); cbn; [exact IH|].
  constructor; auto.
  - intros d Hd. apply Hov. unfold drop_id in Hd. apply filter_In in Hd. tauto.
  - intros d Hd. apply Hid. unfold drop_id in Hd. apply filter_In in Hd. tauto.
Qed.

Theorem accept_safe s e s' : Safe s -> accept s e = Some s' -> Safe s'.
Proof.
  intros Hs. destruct e as [id n addr got|id]; cbn.
  - destruct (1 <=? n) eqn:E1; [|discriminate].
    destruct (n <=? got) eqn:E2; [|discriminate].
    destruct (1 <=? addr) eqn:E3; [|discriminate].
    destruct (forallb _ s) eqn:E4; [|discriminate].
    destruct (has_id id s) eqn:E5; [discriminate|]. cbn.
    intros E; injection E as <-.
    apply Z.leb_le in E1, E2, E3.
    constructor; auto.
    + split; cbn; lia.
    + intros d Hd. rewrite forallb_forall in E4. specialize (E4 d Hd).
      pose proof (Safe_in s Hs d Hd) as [Hd1 Hd2].
      apply disjointb_spec in E4; [|lia|lia]. unfold overlap. cbn. exact E4.
    + intros d Hd. cbn. now apply (has_id_false id s E5).
  - destruct (has_id id s); [|discriminate]. intros E; injection E as <-. now apply Safe_drop.
Qed.

Theorem accept_all_safe : forall es s s', Safe s -> accept_all s es = Some s' -> Safe s'.
Proof.
  induction es as [|e es IH]; intros s s' Hs; cbn.
  - intros E; injection E as <-. exact Hs.
  - destruct (accept s e) as [s1|] eqn:E; [|discriminate].
    apply IH. eapply accept_safe; eauto.
Qed.

(** pairwise disjointness, spelled out *)
Theorem Safe_pairwise s : Safe s ->
  forall c d, In c s -> In d s -> c_id c <> c_id d -> ~ overlap c d.
Proof.
  induction 1 as [|c0 s Hc Hs IH Hov Hid]; intros c d Hc' Hd' Hne; [destruct Hc'|].
  destruct Hc' as [<-|Hc']; destruct Hd' as [<-|Hd'].
  - congruence.
  - now apply Hov.
  - intros [A B]. apply (Hov c Hc'). split; assumption.
  - now apply IH.
Qed.

(** a request is accepted only if its memory is disjoint from every chunk
    that is still live: memory is handed out again only after a recycle *)
Theorem accept_req_fresh s id n addr got s' :
  Safe s -> accept s (Req id n addr got) = Some s' ->
  forall d, In d s -> ~ (addr < c_addr d + c_got d /\ c_addr d < addr + got).
Proof.
  intros Hs H d Hd.
  assert (Hs' := accept_safe _ _ _ Hs H). cbn in H.
  destruct (1 <=? n) eqn:E1; [|discriminate].
  destruct (n <=? got) eqn:E2; [|discriminate].
  destruct (1 <=? addr) eqn:E3; [|discriminate].
  destruct (forallb _ s) eqn:E4; [|discriminate].
  rewrite forallb_forall in E4. specialize (E4 d Hd).
  apply Z.leb_le in E1, E2, E3.
  pose proof (Safe_in s Hs d Hd) as [Hd1 Hd2].
  apply disjointb_spec in E4; [exact E4|lia|lia].
Qed.
