(** * EV+ diagrams: evaluation of the canonical builder, reducedness of its
    results, and canonicity (C01/C02/C03 for EV+ set forests and for
    fully-/quasi-reduced EV+ relation forests, which are set forests over the
    interleaved levels). *)
From Coq Require Import List Arith ZArith Bool Lia.
From Meddly Require Import Model.DD Model.EvDD Proofs.DDFacts.
Import ListNotations.
Local Open Scope nat_scope.

(** ** induction principle and decidable equality *)
Section EvInd.
  Variable P : evdd -> Prop.
  Hypothesis HO : P EO.
  Hypothesis HN : forall k vs cs, Forall P cs -> P (EN k vs cs).
  Fixpoint evdd_ind' (t : evdd) : P t :=
    match t with
    | EO => HO
    | EN k vs cs =>
        HN k vs cs
           ((fix go (l : list evdd) : Forall P l :=
               match l with
               | [] => Forall_nil P
               | c :: l' => Forall_cons c (evdd_ind' c) (go l')
               end) cs)
    end.
End EvInd.

Lemma oz_eqb_eq a b : oz_eqb a b = true <-> a = b.
Proof.
  destruct a, b; cbn; try (split; (reflexivity || discriminate)).
  rewrite Z.eqb_eq. split; congruence.
Qed.

Lemma ozl_eqb_eq : forall l1 l2, ozl_eqb l1 l2 = true <-> l1 = l2.
Proof.
  induction l1 as [|a l1 IH]; intros [|b l2]; cbn; try (split; (reflexivity || discriminate)).
  rewrite andb_true_iff, oz_eqb_eq, IH. split; [intros [-> ->]; reflexivity|].
  intros E; injection E; auto.
Qed.

Fixpoint evl_eqb (l1 l2 : list evdd) : bool :=
  match l1, l2 with
  | [], [] => true
  | x :: r1, y :: r2 => evdd_eqb x y && evl_eqb r1 r2
  | _, _ => false
  end.

Lemma evdd_eqb_N k vs cs j ws ds :
  evdd_eqb (EN k vs cs) (EN j ws ds) = Nat.eqb k j && ozl_eqb vs ws && evl_eqb cs ds.
Proof. cbn [evdd_eqb]. f_equal. Qed.

Lemma evdd_eqb_eq : forall a b, evdd_eqb a b = true <-> a = b.
Proof.
  induction a as [|k vs cs IH] using evdd_ind'; intros [|j ws ds].
  - cbn. split; reflexivity.
  - cbn. split; discriminate.
  - cbn. split; discriminate.
  - rewrite evdd_eqb_N, !andb_true_iff, Nat.eqb_eq, ozl_eqb_eq.
    assert (Hl : evl_eqb cs ds = true <-> cs = ds).
    { revert ds. induction IH as [|c cs Hc _ IHl]; intros [|d ds]; cbn;
        try (split; (reflexivity || discriminate)).
      rewrite andb_true_iff, Hc, IHl. split; [intros [-> ->]; reflexivity|].
      intros E; injection E; auto. }
    rewrite Hl. split; [intros [[-> ->] ->]; reflexivity|]. intros E; injection E; auto.
Qed.

Lemma edge_eqb_eq e1 e2 : edge_eqb e1 e2 = true <-> e1 = e2.
Proof.
  unfold edge_eqb. rewrite andb_true_iff, oz_eqb_eq, evdd_eqb_eq.
  destruct e1, e2; cbn. split; [intros [-> ->]; reflexivity|]. intros E; injection E; auto.
Qed.

(** ** minima of edge values *)
Lemma omin_list_lower : forall vs m, omin_list vs = Some m ->
  forall i v, nth i vs None = Some v -> (m <= v)%Z.
Proof.
  induction vs as [|a vs IH]; intros m Hm i v Hv; [destruct i; discriminate|].
  change (omin a (omin_list vs) = Some m) in Hm. destruct i as [|i]; cbn in Hv.
  - subst a. destruct (omin_list vs) as [u|]; cbn in Hm; inversion Hm; subst; lia.
  - destruct (omin_list vs) as [u|] eqn:Eu.
    + specialize (IH u eq_refl i v Hv). destruct a as [w|]; cbn in Hm; inversion Hm; subst; lia.
    + clear IH. exfalso. revert i Hv. clear Hm.
      induction vs as [|b vs IHv]; intros i Hv; [destruct i; discriminate|].
      change (omin b (omin_list vs) = None) in Eu. destruct b as [w|]; [destruct (omin_list vs); discriminate|].
      destruct i; cbn in Hv; [discriminate|]. apply (IHv Eu i Hv).
Qed.

Lemma omin_list_attained : forall vs m, omin_list vs = Some m ->
  exists i, i < length vs /\ nth i vs None = Some m.
Proof.
  induction vs as [|a vs IH]; intros m Hm; [discriminate|].
  change (omin a (omin_list vs) = Some m) in Hm.
  destruct (omin_list vs) as [u|] eqn:Eu.
  - destruct a as [w|]; cbn in Hm; injection Hm as <-.
    + destruct (Z.min_spec w u) as [[_ ->]|[_ ->]].
      * exists 0. cbn. split; [lia|reflexivity].
      * destruct (IH u eq_refl) as (i & Hi & Hn). exists (S i). cbn. split; [lia|exact Hn].
    + destruct (IH u eq_refl) as (i & Hi & Hn). exists (S i). cbn. split; [lia|exact Hn].
  - destruct a as [w|]; cbn in Hm; [|discriminate]. injection Hm as <-.
    exists 0. cbn. split; [lia|reflexivity].
Qed.

Lemma omin_list_none : forall vs, omin_list vs = None -> forall i, nth i vs None = None.
Proof.
  induction vs as [|a vs IH]; intros H i; [destruct i; reflexivity|].
  change (omin a (omin_list vs) = None) in H.
  destruct a as [w|]; [destruct (omin_list vs); discriminate|]. cbn in H.
  destruct i; cbn; [reflexivity|]. now apply IH.
Qed.

Lemma omin_list_shift : forall vs m, omin_list vs = Some m ->
  omin_list (map (option_map (fun v => (v - m)%Z)) vs) = Some 0%Z.
Proof.
  intros vs m Hm.
  assert (G : forall d, omin_list (map (option_map (fun v => (v - d)%Z)) vs)
                        = option_map (fun v => (v - d)%Z) (omin_list vs)).
  { intros d. clear Hm. induction vs as [|a vs IH]; [reflexivity|].
    change (omin (option_map (fun v => (v - d)%Z) a) (omin_list (map (option_map (fun v => (v - d)%Z)) vs))
            = option_map (fun v => (v - d)%Z) (omin a (omin_list vs))). rewrite IH.
    destruct a as [w|], (omin_list vs) as [u|]; cbn; try reflexivity.
    f_equal. lia. }
  rewrite G, Hm. cbn. f_equal. lia.
Qed.

Section Ev.
Variable sz : nat -> nat.
Hypothesis sz_pos : forall k, 1 <= sz k.

Notation ev_eval := (ev_eval).
Notation valid := (valid sz).

Definition etop (t : evdd) : nat := match t with EO => 0 | EN k _ _ => k end.

(** ** evaluation lemmas *)
Lemma ev_eval_inf L t x : ev_eval L (None, t) x = None.
Proof. destruct L; reflexivity. Qed.

Lemma ev_eval_node L v vs cs x :
  ev_eval (S L) (Some v, EN (S L) vs cs) x =
  match ev_eval L (nth_edge vs cs (x (S L))) x with
  | Some w => Some (v + w)%Z
  | None => None
  end.
Proof. cbn [EvDD.ev_eval fst snd]. now rewrite Nat.eqb_refl. Qed.

Lemma ev_eval_skip L v t x : etop t <> S L ->
  ev_eval (S L) (Some v, t) x = ev_eval L (Some v, t) x.
Proof.
  intros H. cbn [EvDD.ev_eval fst snd]. destruct t as [|k vs cs]; [reflexivity|].
  cbn in H. destruct (Nat.eqb_spec k (S L)); [contradiction|reflexivity].
Qed.

Lemma ev_eval_ext : forall L e x y,
  (forall k, 1 <= k <= L -> x k = y k) -> ev_eval L e x = ev_eval L e y.
Proof.
  induction L as [|L IH]; intros [[v|] t] x y H; try reflexivity.
  destruct (Nat.eq_dec (etop t) (S L)) as [E|E].
  - destruct t as [|k vs cs]; cbn in E; [lia|]. subst k. rewrite !ev_eval_node.
    rewrite <- (H (S L)) by lia. rewrite (IH _ x y); [reflexivity|]. intros k Hk. apply H. lia.
  - rewrite !ev_eval_skip by exact E. apply IH. intros k Hk. apply H. lia.
Qed.

(** the value on the edge is an offset *)
Lemma ev_eval_shift : forall L v d t x,
  ev_eval L (Some (v + d)%Z, t) x = option_map (fun w => (w + d)%Z) (ev_eval L (Some v, t) x).
Proof.
  induction L as [|L IH]; intros v d t x; [reflexivity|].
  destruct (Nat.eq_dec (etop t) (S L)) as [E|E].
  - destruct t as [|k vs cs]; cbn in E; [lia|]. subst k. rewrite !ev_eval_node.
    destruct (ev_eval L _ x); cbn; [f_equal; lia|reflexivity].
  - rewrite !ev_eval_skip by exact E. apply IH.
Qed.

Lemma ev_reduced_val : forall fr L v w t,
  ev_reduced sz fr L (Some v, t) = ev_reduced sz fr L (Some w, t).
Proof.
  induction L as [|L IH]; intros v w t; [reflexivity|].
  cbn [ev_reduced fst snd]. destruct t as [|k vs cs]; [now rewrite (IH v w)|].
  destruct (Nat.eqb k (S L)); [reflexivity|]. now rewrite (IH v w).
Qed.

Lemma ev_reduced_inf fr L t : ev_reduced sz fr L (None, t) = true -> t = EO.
Proof. destruct L; cbn; intros H; now apply evdd_eqb_eq in H. Qed.

Lemma ev_reduced_einf fr L : ev_reduced sz fr L einf = true.
Proof. destruct L; reflexivity. Qed.

(** unfolding reducedness at a node / at a skipped level *)
Lemma ev_reduced_node fr L v vs cs :
  ev_reduced sz fr (S L) (Some v, EN (S L) vs cs) = true <->
  length vs = sz (S L) /\ length cs = sz (S L) /\ omin_list vs = Some 0%Z /\
  (fr = true -> all_same_edges (sz (S L)) vs cs = false) /\
  (forall i, i < sz (S L) -> ev_reduced sz fr L (nth_edge vs cs i) = true).
Proof.
  cbn [ev_reduced fst snd]. rewrite Nat.eqb_refl, !andb_true_iff, !Nat.eqb_eq, oz_eqb_eq, forallb_forall.
  split.
  - intros ((((A & B) & C) & D) & E). repeat split; auto.
    + intros ->. now apply negb_true_iff in D.
    + intros i Hi. apply E, in_seq. lia.
  - intros (A & B & C & D & E). repeat split; auto.
    + destruct fr; [rewrite D; reflexivity|reflexivity].
    + intros i Hi. apply in_seq in Hi. apply E. lia.
Qed.

Lemma ev_reduced_skip fr L v t : etop t <> S L ->
  ev_reduced sz fr (S L) (Some v, t) = fr && ev_reduced sz fr L (Some v, t).
Proof.
  intros H. cbn [ev_reduced fst snd]. destruct t as [|k vs cs]; [reflexivity|].
  cbn in H. destruct (Nat.eqb_spec k (S L)); [contradiction|reflexivity].
Qed.

(** nodes of a reduced edge lie at or below its level *)
Lemma ev_reduced_top : forall fr L v t, ev_reduced sz fr L (Some v, t) = true -> etop t <= L.
Proof.
  induction L as [|L IH]; intros v t H.
  - cbn in H. apply evdd_eqb_eq in H. subst t. cbn. lia.
  - destruct (Nat.eq_dec (etop t) (S L)) as [E|E]; [lia|].
    rewrite ev_reduced_skip in H by exact E. apply andb_true_iff in H.
    destruct H as [_ H]. apply IH in H. lia.
Qed.

(** ** the edge value of a reduced edge is the minimum of its function *)
Lemma reduced_lower : forall fr L v t, ev_reduced sz fr L (Some v, t) = true ->
  forall x w, ev_eval L (Some v, t) x = Some w -> (v <= w)%Z.
Proof.
  induction L as [|L IH]; intros v t H x w Hw.
  - cbn in Hw. injection Hw as <-. lia.
  - destruct (Nat.eq_dec (etop t) (S L)) as [E|E].
    + destruct t as [|k vs cs]; cbn in E; [lia|]. subst k.
      apply ev_reduced_node in H. destruct H as (A & B & C & _ & Hch).
      rewrite ev_eval_node in Hw.
      destruct (ev_eval L (nth_edge vs cs (x (S L))) x) as [u|] eqn:Eu; [|discriminate].
      injection Hw as <-.
      unfold nth_edge in Eu. destruct (nth (x (S L)) vs None) as [c|] eqn:Ec; [|now rewrite ev_eval_inf in Eu].
      assert (Hi : x (S L) < sz (S L)).
      { destruct (Nat.lt_ge_cases (x (S L)) (sz (S L))); [assumption|].
        rewrite nth_overflow in Ec by lia. discriminate. }
      pose proof (Hch _ Hi) as Hr. unfold nth_edge in Hr. rewrite Ec in Hr.
      pose proof (IH _ _ Hr x u Eu). pose proof (omin_list_lower vs 0%Z C _ _ Ec). lia.
    + rewrite ev_reduced_skip in H by exact E. apply andb_true_iff in H. destruct H as [_ H].
      rewrite ev_eval_skip in Hw by exact E. now apply (IH _ _ H x).
Qed.

Lemma reduced_attained : forall fr L v t, ev_reduced sz fr L (Some v, t) = true ->
  exists x, valid x /\ ev_eval L (Some v, t) x = Some v.
Proof.
  induction L as [|L IH]; intros v t H.
  - exists (fun _ => 0). split; [intros k; apply sz_pos|reflexivity].
  - destruct (Nat.eq_dec (etop t) (S L)) as [E|E].
    + destruct t as [|k vs cs]; cbn in E; [lia|]. subst k.
      apply ev_reduced_node in H. destruct H as (A & B & C & _ & Hch).
      destruct (omin_list_attained vs 0%Z C) as (i & Hi & Hn).
      rewrite A in Hi. pose proof (Hch i Hi) as Hr. unfold nth_edge in Hr. rewrite Hn in Hr.
      destruct (IH _ _ Hr) as (x & Hx & Hev).
      exists (upd x (S L) i). split; [now apply upd_valid|].
      rewrite ev_eval_node, upd_same. unfold nth_edge. rewrite Hn.
      rewrite (ev_eval_ext L _ (upd x (S L) i) x), Hev; [f_equal; lia|].
      intros k Hk. apply upd_other. lia.
    + rewrite ev_reduced_skip in H by exact E. apply andb_true_iff in H. destruct H as [_ H].
      destruct (IH _ _ H) as (x & Hx & Hev). exists x. split; [exact Hx|].
      now rewrite ev_eval_skip.
Qed.

(** ** canonicity *)
Lemma list_eq_nth {A} (d : A) (l1 l2 : list A) :
  length l1 = length l2 -> (forall i, i < length l1 -> nth i l1 d = nth i l2 d) -> l1 = l2.
Proof.
  revert l2. induction l1 as [|a l1 IH]; intros [|b l2] Hl H; cbn in *; try lia; [reflexivity|].
  f_equal; [apply (H 0); lia|]. apply IH; [lia|]. intros i Hi. apply (H (S i)). lia.
Qed.

Theorem ev_canon : forall fr L e1 e2,
  ev_reduced sz fr L e1 = true -> ev_reduced sz fr L e2 = true ->
  (forall x, valid x -> ev_eval L e1 x = ev_eval L e2 x) ->
  e1 = e2.
Proof.
  induction L as [|L IH]; intros [[v1|] t1] [[v2|] t2] R1 R2 E.
  - (* level 0, both finite *)
    cbn in R1, R2. apply evdd_eqb_eq in R1, R2. subst.
    specialize (E (fun _ => 0) (fun k => sz_pos k)). cbn in E. congruence.
  - specialize (E (fun _ => 0) (fun k => sz_pos k)). cbn in E. discriminate.
  - specialize (E (fun _ => 0) (fun k => sz_pos k)). cbn in E. discriminate.
  - apply ev_reduced_inf in R1, R2. now subst.
  - (* level S L, both finite *)
    assert (Hv : v1 = v2).
    { destruct (reduced_attained _ _ _ _ R1) as (x1 & Hx1 & E1).
      destruct (reduced_attained _ _ _ _ R2) as (x2 & Hx2 & E2).
      pose proof (reduced_lower _ _ _ _ R2 x1 v1) as A. rewrite <- (E x1 Hx1) in A. specialize (A E1).
      pose proof (reduced_lower _ _ _ _ R1 x2 v2) as B. rewrite (E x2 Hx2) in B. specialize (B E2).
      lia. }
    subst v2. f_equal.
    (* the functions of the children, for a node at the top level *)
    assert (Hchild : forall v vs cs t',
              (forall x, valid x -> ev_eval (S L) (Some v, EN (S L) vs cs) x = ev_eval (S L) (Some v, t') x) ->
              forall i, i < sz (S L) -> forall x, valid x ->
              ev_eval L (nth_edge vs cs i) x
              = match ev_eval (S L) (Some v, t') (upd x (S L) i) with
                | Some w => Some (w - v)%Z | None => None end).
    { intros v vs cs t' Hf i Hi x Hx.
      rewrite <- (Hf (upd x (S L) i)) by (now apply upd_valid).
      rewrite ev_eval_node, upd_same.
      rewrite (ev_eval_ext L _ (upd x (S L) i) x) by (intros k Hk; apply upd_other; lia).
      destruct (ev_eval L (nth_edge vs cs i) x); [f_equal; lia|reflexivity]. }
    destruct (Nat.eq_dec (etop t1) (S L)) as [T1|T1]; destruct (Nat.eq_dec (etop t2) (S L)) as [T2|T2].
    + (* both are nodes at this level *)
      destruct t1 as [|k1 vs1 cs1]; cbn in T1; [lia|]. destruct t2 as [|k2 vs2 cs2]; cbn in T2; [lia|].
      subst k1 k2.
      pose proof R1 as R1'. pose proof R2 as R2'.
      apply ev_reduced_node in R1'. destruct R1' as (A1 & B1 & _ & _ & C1).
      apply ev_reduced_node in R2'. destruct R2' as (A2 & B2 & _ & _ & C2).
      assert (Hedges : forall i, i < sz (S L) -> nth_edge vs1 cs1 i = nth_edge vs2 cs2 i).
      { intros i Hi. apply (IH _ _ (C1 i Hi) (C2 i Hi)). intros x Hx.
        rewrite (Hchild v1 vs1 cs1 (EN (S L) vs2 cs2) E i Hi x Hx).
        rewrite (Hchild v1 vs2 cs2 (EN (S L) vs2 cs2) (fun _ _ => eq_refl) i Hi x Hx). reflexivity. }
      f_equal.
      * apply (list_eq_nth None); [congruence|]. intros i Hi. rewrite A1 in Hi.
        pose proof (Hedges i Hi) as He. unfold nth_edge in He. congruence.
      * apply (list_eq_nth EO); [congruence|]. intros i Hi. rewrite B1 in Hi.
        pose proof (Hedges i Hi) as He. unfold nth_edge in He. congruence.
    + (* the first is a node here, the second skips the level: the node would be redundant *)
      exfalso. destruct t1 as [|k1 vs1 cs1]; cbn in T1; [lia|]. subst k1.
      rewrite ev_reduced_skip in R2 by exact T2. apply andb_true_iff in R2. destruct R2 as [Hfr R2].
      pose proof R1 as R1'. apply ev_reduced_node in R1'. destruct R1' as (A1 & B1 & _ & D1 & C1).
      specialize (D1 Hfr). apply Bool.not_true_iff_false in D1. apply D1.
      unfold all_same_edges. apply forallb_forall. intros i Hi. apply in_seq in Hi. apply edge_eqb_eq.
      assert (H0 : 0 < sz (S L)) by apply sz_pos.
      apply (IH _ _ (C1 i ltac:(lia)) (C1 0 H0)). intros x Hx.
      rewrite (Hchild v1 vs1 cs1 t2 E i ltac:(lia) x Hx), (Hchild v1 vs1 cs1 t2 E 0 H0 x Hx).
      rewrite !ev_eval_skip by exact T2.
      rewrite (ev_eval_ext L _ (upd x (S L) i) (upd x (S L) 0)); [reflexivity|].
      intros k Hk. rewrite !upd_other by lia. reflexivity.
    + exfalso. destruct t2 as [|k2 vs2 cs2]; cbn in T2; [lia|]. subst k2.
      rewrite ev_reduced_skip in R1 by exact T1. apply andb_true_iff in R1. destruct R1 as [Hfr R1].
      pose proof R2 as R2'. apply ev_reduced_node in R2'. destruct R2' as (A2 & B2 & _ & D2 & C2).
      specialize (D2 Hfr). apply Bool.not_true_iff_false in D2. apply D2.
      unfold all_same_edges. apply forallb_forall. intros i Hi. apply in_seq in Hi. apply edge_eqb_eq.
      assert (H0 : 0 < sz (S L)) by apply sz_pos.
      assert (E' : forall x, valid x -> ev_eval (S L) (Some v1, EN (S L) vs2 cs2) x = ev_eval (S L) (Some v1, t1) x)
        by (intros x Hx; symmetry; now apply E).
      apply (IH _ _ (C2 i ltac:(lia)) (C2 0 H0)). intros x Hx.
      rewrite (Hchild v1 vs2 cs2 t1 E' i ltac:(lia) x Hx), (Hchild v1 vs2 cs2 t1 E' 0 H0 x Hx).
      rewrite !ev_eval_skip by exact T1.
      rewrite (ev_eval_ext L _ (upd x (S L) i) (upd x (S L) 0)); [reflexivity|].
      intros k Hk. rewrite !upd_other by lia. reflexivity.
    + (* both skip *)
      rewrite ev_reduced_skip in R1 by exact T1. rewrite ev_reduced_skip in R2 by exact T2.
      apply andb_true_iff in R1, R2. destruct R1 as [_ R1], R2 as [_ R2].
      assert (Heq : (Some v1, t1) = (Some v1, t2)); [|congruence].
      apply (IH _ _ R1 R2). intros x Hx. specialize (E x Hx).
      now rewrite !ev_eval_skip in E by assumption.
  - (* finite vs infinite: the finite one takes a finite value somewhere *)
    exfalso. destruct (reduced_attained _ _ _ _ R1) as (x & Hx & Ex).
    rewrite (E x Hx), ev_eval_inf in Ex. discriminate.
  - exfalso. destruct (reduced_attained _ _ _ _ R2) as (x & Hx & Ex).
    rewrite <- (E x Hx), ev_eval_inf in Ex. discriminate.
  - apply ev_reduced_inf in R1, R2. now subst.
Qed.

End Ev.

(** ** the builder *)
Section EvBuild.
Variable sz : nat -> nat.
Hypothesis sz_pos : forall k, 1 <= sz k.
Notation valid := (valid sz).

Definition etop_le (L : nat) (e : edge) : Prop := etop (snd e) <= L.

Lemma nth_edge_map (es : list edge) i :
  nth_edge (map fst es) (map snd es) i = nth i es einf.
Proof.
  unfold nth_edge. change None with (fst einf) at 1. change EO with (snd einf).
  rewrite !map_nth. symmetry. apply surjective_pairing.
Qed.

Lemma nth_edge_shift (es : list edge) m i :
  nth_edge (map (option_map (fun v => (v - m)%Z)) (map fst es)) (map snd es) i
  = (option_map (fun v => (v - m)%Z) (fst (nth i es einf)), snd (nth i es einf)).
Proof.
  unfold nth_edge. f_equal.
  - change None with (option_map (fun v => (v - m)%Z) (fst einf)) at 1.
    rewrite map_map. now rewrite (map_nth (fun e => option_map (fun v => (v - m)%Z) (fst e))).
  - change EO with (snd einf). now rewrite map_nth.
Qed.

Lemma all_same_spec n vs cs :
  all_same_edges n vs cs = true <-> forall i, i < n -> nth_edge vs cs i = nth_edge vs cs 0.
Proof.
  unfold all_same_edges. rewrite forallb_forall. split.
  - intros H i Hi. apply edge_eqb_eq, H, in_seq. lia.
  - intros H i Hi. apply in_seq in Hi. apply edge_eqb_eq, H. lia.
Qed.

Theorem ev_mk_eval fr L (es : list edge) x :
  length es = sz (S L) -> x (S L) < sz (S L) ->
  (forall i, i < sz (S L) -> etop_le L (nth i es einf)) ->
  ev_eval (S L) (ev_mk fr (S L) es) x = ev_eval L (nth (x (S L)) es einf) x.
Proof.
  intros Hlen Hx Htop. unfold ev_mk.
  destruct (omin_list (map fst es)) as [m|] eqn:Em.
  - destruct (fr && all_same_edges (length es) _ _) eqn:Esame.
    + (* redundant: skip the level *)
      apply andb_true_iff in Esame. destruct Esame as [_ Hs].
      rewrite all_same_spec in Hs.
      assert (H0 : 0 < length es) by (rewrite Hlen; apply sz_pos).
      pose proof (Hs (x (S L)) ltac:(lia)) as Hi. rewrite !nth_edge_shift in Hi.
      injection Hi as Hv Hc.
      (* the first edge has value m *)
      assert (Hm0 : fst (nth 0 es einf) = Some m).
      { destruct (omin_list_attained _ _ Em) as (j & Hj & Hn). rewrite map_length in Hj.
        pose proof (Hs j Hj) as Hjj. rewrite !nth_edge_shift in Hjj. injection Hjj as Hvj _.
        change None with (fst einf) in Hn. rewrite map_nth in Hn.
        assert (Hvj' : Some (m - m)%Z = option_map (fun v : Z => (v - m)%Z) (fst (nth 0 es einf))).
        { rewrite <- Hvj. unfold edge in *. rewrite Hn. reflexivity. }
        destruct (fst (nth 0 es einf)) as [u|]; cbn in Hvj'; [|discriminate].
        injection Hvj' as Hvj'. f_equal. lia. }
      rewrite Hm0 in Hv. cbn in Hv.
      destruct (fst (nth (x (S L)) es einf)) as [u|] eqn:Eu; cbn in Hv; [|discriminate].
      injection Hv as Hv. assert (u = m) by lia. subst u.
      change EO with (snd einf). rewrite map_nth.
      rewrite ev_eval_skip.
      * destruct (nth (x (S L)) es einf) as [a b] eqn:Ee. cbn in *. subst a. now rewrite Hc.
      * pose proof (Htop 0 ltac:(rewrite <- Hlen; exact H0)) as Ht. unfold etop_le, edge in *. lia.
    + rewrite ev_eval_node, nth_edge_shift.
      destruct (nth (x (S L)) es einf) as [[u|] c]; cbn [fst snd option_map].
      * replace (Some (u - m)%Z) with (Some (u + (- m))%Z) by (f_equal; lia).
        rewrite ev_eval_shift. destruct (ev_eval L (Some u, c) x); cbn; [f_equal; lia|reflexivity].
      * now rewrite !ev_eval_inf.
  - (* every edge is +infinity *)
    pose proof (omin_list_none _ Em (x (S L))) as Hn.
    change None with (fst einf) in Hn at 1. rewrite map_nth in Hn.
    unfold edge in *. destruct (nth (x (S L)) es einf) as [a c]. cbn in Hn. rewrite Hn.
    now rewrite !ev_eval_inf.
Qed.

Lemma ev_mk_top fr k es : (forall i, etop (snd (nth i es einf)) <= k) -> etop (snd (ev_mk fr k es)) <= k.
Proof.
  intros H. unfold ev_mk. destruct (omin_list (map fst es)); [|cbn; lia].
  destruct (fr && _); cbn; [|lia].
  change EO with (snd einf). rewrite map_nth. apply H.
Qed.

Lemma ev_of_fun_top fr g : forall L x, etop (snd (ev_of_fun sz fr L g x)) <= L.
Proof.
  induction L as [|L IH]; intros x; cbn [ev_of_fun].
  - destruct (g x); cbn; lia.
  - apply ev_mk_top. intros i.
    destruct (Nat.lt_ge_cases i (sz (S L))) as [Hi|Hi].
    + rewrite (nth_indep _ einf (ev_of_fun sz fr L g (upd x (S L) 0))) by (now rewrite map_length, seq_length).
      rewrite (map_nth (fun j => ev_of_fun sz fr L g (upd x (S L) j))). pose proof (IH (upd x (S L) (nth i (seq 0 (sz (S L))) 0))). lia.
    + rewrite nth_overflow by (now rewrite map_length, seq_length). cbn. lia.
Qed.

Lemma nth_map_seq_e (f : nat -> edge) n i : i < n -> nth i (map f (seq 0 n)) einf = f i.
Proof.
  intros Hi. rewrite (nth_indep _ einf (f 0)) by (now rewrite map_length, seq_length).
  rewrite (map_nth f), seq_nth by exact Hi. reflexivity.
Qed.

Definition gext (g : (nat -> nat) -> option Z) : Prop :=
  forall x y, (forall k, x k = y k) -> g x = g y.

Definition emerge (L : nat) (x x' : nat -> nat) : nat -> nat :=
  fun k => if (1 <=? k) && (k <=? L) then x k else x' k.

Theorem ev_of_fun_eval fr g : gext g ->
  forall L x' x, valid x ->
  ev_eval L (ev_of_fun sz fr L g x') x = g (emerge L x x').
Proof.
  intros Hg. induction L as [|L IH]; intros x' x Hx.
  - cbn [ev_of_fun]. rewrite (Hg (emerge 0 x x') x') by (intros k; unfold emerge; destruct k; reflexivity).
    destruct (g x'); reflexivity.
  - cbn [ev_of_fun]. rewrite ev_mk_eval.
    + rewrite nth_map_seq_e by apply Hx. rewrite IH by exact Hx. apply Hg.
      intros k. unfold emerge, upd.
      destruct (Nat.leb_spec 1 k); destruct (Nat.leb_spec k L); destruct (Nat.leb_spec k (S L));
        destruct (Nat.eqb_spec k (S L)); cbn; try lia; try reflexivity. now subst.
    + now rewrite map_length, seq_length.
    + apply Hx.
    + intros i Hi. unfold etop_le. rewrite nth_map_seq_e by exact Hi. apply ev_of_fun_top.
Qed.

(** the results are reduced *)
Theorem ev_mk_reduced fr L (es : list edge) :
  length es = sz (S L) ->
  (forall i, i < sz (S L) -> ev_reduced sz fr L (nth i es einf) = true) ->
  ev_reduced sz fr (S L) (ev_mk fr (S L) es) = true.
Proof.
  intros Hlen Hch. unfold ev_mk.
  destruct (omin_list (map fst es)) as [m|] eqn:Em; [|apply ev_reduced_einf].
  assert (Hshift : forall i, i < sz (S L) ->
            ev_reduced sz fr L (option_map (fun v => (v - m)%Z) (fst (nth i es einf)), snd (nth i es einf)) = true).
  { intros i Hi. specialize (Hch i Hi). destruct (nth i es einf) as [[u|] c]; cbn [fst snd option_map].
    - now rewrite (ev_reduced_val sz fr L _ u).
    - exact Hch. }
  destruct (fr && all_same_edges (length es) _ _) eqn:Esame.
  - apply andb_true_iff in Esame. destruct Esame as [Hfr Hs]. subst fr.
    assert (H0 : 0 < sz (S L)) by apply sz_pos.
    change EO with (snd einf). rewrite map_nth.
    pose proof (Hch 0 H0) as R0. unfold edge in *.
    destruct (nth 0 es einf) as [[u|] c] eqn:E0; cbn [snd].
    + pose proof (ev_reduced_top sz true L u c R0) as Ht.
      rewrite ev_reduced_skip by lia. cbn. now rewrite (ev_reduced_val sz true L m u).
    + apply ev_reduced_inf in R0. subst c.
      rewrite ev_reduced_skip by (cbn; lia). cbn. clear. induction L as [|L IHL]; [reflexivity|exact IHL].
  - apply ev_reduced_node. repeat split.
    + now rewrite !map_length.
    + now rewrite map_length.
    + now apply omin_list_shift.
    + intros ->. cbn in Esame. now rewrite Hlen in Esame.
    + intros i Hi. rewrite nth_edge_shift. now apply Hshift.
Qed.

Theorem ev_of_fun_reduced fr g : forall L x, ev_reduced sz fr L (ev_of_fun sz fr L g x) = true.
Proof.
  induction L as [|L IH]; intros x; cbn [ev_of_fun].
  - destruct (g x); reflexivity.
  - apply ev_mk_reduced; [now rewrite map_length, seq_length|].
    intros i Hi. rewrite nth_map_seq_e by exact Hi. apply IH.
Qed.

End EvBuild.

(** ** element-wise operations on EV+ edges *)
Section EvApply.
Variable sz : nat -> nat.
Hypothesis sz_pos : forall k, 1 <= sz k.

Lemma emerge_levels L x x' k : 1 <= k <= L -> emerge L x x' k = x k.
Proof.
  intros Hk. unfold emerge.
  destruct (Nat.leb_spec 1 k); destruct (Nat.leb_spec k L); cbn; try lia; reflexivity.
Qed.

Theorem ev_apply2_eval fr L f e1 e2 x : valid sz x ->
  ev_eval L (ev_apply2 sz fr L f e1 e2) x = f (ev_eval L e1 x) (ev_eval L e2 x).
Proof.
  intros Hx. unfold ev_apply2. rewrite (ev_of_fun_eval sz sz_pos fr); [|  |exact Hx].
  - rewrite (ev_eval_ext L e1 (emerge L x (fun _ => 0)) x), (ev_eval_ext L e2 (emerge L x (fun _ => 0)) x);
      [reflexivity| |]; intros k Hk; now apply emerge_levels.
  - intros a b Hab. rewrite (ev_eval_ext L e1 a b), (ev_eval_ext L e2 a b); auto.
Qed.

Theorem ev_apply2_reduced fr L f e1 e2 :
  ev_reduced sz fr L (ev_apply2 sz fr L f e1 e2) = true.
Proof. apply (ev_of_fun_reduced sz sz_pos). Qed.

(** any reduced edge that is the pointwise combination IS this edge *)
Theorem ev_apply2_unique fr L f e1 e2 e :
  ev_reduced sz fr L e = true ->
  (forall x, valid sz x -> ev_eval L e x = f (ev_eval L e1 x) (ev_eval L e2 x)) ->
  e = ev_apply2 sz fr L f e1 e2.
Proof.
  intros Hr He. apply (ev_canon sz sz_pos fr L); [exact Hr|apply ev_apply2_reduced|].
  intros x Hx. now rewrite ev_apply2_eval, He.
Qed.

Theorem ev_apply1_eval fr L f e x : valid sz x ->
  ev_eval L (ev_apply1 sz fr L f e) x = f (ev_eval L e x).
Proof.
  intros Hx. unfold ev_apply1. rewrite (ev_of_fun_eval sz sz_pos fr); [| |exact Hx].
  - rewrite (ev_eval_ext L e (emerge L x (fun _ => 0)) x); [reflexivity|].
    intros k Hk. now apply emerge_levels.
  - intros a b Hab. rewrite (ev_eval_ext L e a b); auto.
Qed.

End EvApply.
