(** * C08 / C09 (distance-valued variants): the iteration
    D := min(D, 1 + post D) until nothing changes returns, for every state, the
    length of a shortest path from the initial distance function (the minimum
    over all paths of the start state's initial distance plus the number of
    steps), and "unreachable" exactly where no path exists.  More generally
    ([relax_closed_is_shortest]) ANY distance function that is dominated by the
    initial one, only takes values witnessed by paths, and cannot be improved
    by relaxing an edge is the shortest-distance function -- whatever order
    the relaxations were performed in (breadth-first rounds or saturation). *)
From Coq Require Import List Arith ZArith Bool Lia.
From Meddly Require Import Model.Reach.
Import ListNotations.
Local Open Scope Z_scope.

Section DistP.
Variable St : Type.
Variable states : list St.
Variable eqb : St -> St -> bool.
Hypothesis eqb_spec : forall a b, eqb a b = true <-> a = b.

(** [DReach R D0 y d]: some path under [R] ends in [y] with total length [d]
    (initial distance of its first state plus its number of steps) *)
Inductive DReach (R : St -> St -> bool) (D0 : St -> option Z) : St -> Z -> Prop :=
| DR0 x d : In x states -> D0 x = Some d -> DReach R D0 x d
| DRS x y d : DReach R D0 x d -> In y states -> R x y = true -> DReach R D0 y (d + 1).

Definition shortest (R : St -> St -> bool) (D0 : St -> option Z) (y : St) (o : option Z) : Prop :=
  match o with
  | Some v => DReach R D0 y v /\ forall d, DReach R D0 y d -> v <= d
  | None => forall d, ~ DReach R D0 y d
  end.

Lemma DReach_in R D0 y d : DReach R D0 y d -> In y states.
Proof. induction 1; assumption. Qed.

Theorem relax_closed_is_shortest : forall R (D0 D : St -> option Z),
  (forall y d, In y states -> D0 y = Some d -> exists v, D y = Some v /\ v <= d) ->
  (forall y v, In y states -> D y = Some v -> DReach R D0 y v) ->
  (forall x y d, In x states -> In y states -> D x = Some d -> R x y = true ->
     exists v, D y = Some v /\ v <= d + 1) ->
  forall y, In y states -> shortest R D0 y (D y).
Proof.
  intros R D0 D Hdom Hsound Hrelax.
  assert (Hkey : forall y d, DReach R D0 y d -> exists v, D y = Some v /\ v <= d).
  { induction 1 as [x d Hx Hd|x y d Hxr IH Hy HR].
    - now apply Hdom.
    - destruct IH as (u & Hu & Hle).
      destruct (Hrelax x y u (DReach_in _ _ _ _ Hxr) Hy Hu HR) as (v & Hv & Hle').
      exists v. split; [exact Hv|lia]. }
  intros y Hy. unfold shortest. destruct (D y) as [v|] eqn:E.
  - split; [now apply Hsound|]. intros d Hd. destruct (Hkey y d Hd) as (v' & Hv' & Hle).
    rewrite E in Hv'. injection Hv' as <-. exact Hle.
  - intros d Hd. destruct (Hkey y d Hd) as (v' & Hv' & _). rewrite E in Hv'. discriminate.
Qed.

(** ** the one-step relaxation *)
Definition ole (a b : option Z) : Prop :=
  match a, b with
  | _, None => True
  | Some u, Some v => u <= v
  | None, Some _ => False
  end.

Lemma ole_refl a : ole a a.
Proof. destruct a; cbn; auto; lia. Qed.

Lemma ole_trans a b c : ole a b -> ole b c -> ole a c.
Proof. destruct a, b, c; cbn; auto; try lia; tauto. Qed.

Lemma dmin_le_l a b : ole (dmin a b) a.
Proof. destruct a, b; cbn; auto; lia. Qed.

Lemma dmin_le_r a b : ole (dmin a b) b.
Proof. destruct a, b; cbn; auto; lia. Qed.

Lemma dmin_cases a b : dmin a b = a \/ dmin a b = b.
Proof.
  destruct a as [u|], b as [v|]; cbn; auto.
  destruct (Z.min_spec u v) as [[_ ->]|[_ ->]]; auto.
Qed.

Section Step.
Variable R : St -> St -> bool.
Variable D : St -> option Z.
Variable y : St.

Let f := fun (acc : option Z) (x : St) =>
  if R x y then dmin acc (option_map (fun d => d + 1) (D x)) else acc.

Lemma fold_le_acc : forall l acc, ole (fold_left f l acc) acc.
Proof.
  induction l as [|x l IH]; intros acc; cbn; [apply ole_refl|].
  eapply ole_trans; [apply IH|]. unfold f. destruct (R x y); [apply dmin_le_l|apply ole_refl].
Qed.

Lemma fold_le_elem : forall l acc x d,
  In x l -> R x y = true -> D x = Some d -> ole (fold_left f l acc) (Some (d + 1)).
Proof.
  induction l as [|a l IH]; intros acc x d Hx HR Hd; [destruct Hx|]. cbn.
  destruct Hx as [->|Hx].
  - eapply ole_trans; [apply fold_le_acc|]. unfold f. rewrite HR, Hd. cbn. apply dmin_le_r.
  - now apply (IH _ x d).
Qed.

Lemma fold_witness : forall l acc v,
  fold_left f l acc = Some v ->
  acc = Some v \/ exists x, In x l /\ R x y = true /\ D x = Some (v - 1).
Proof.
  induction l as [|a l IH]; intros acc v H; cbn in H; [now left|].
  destruct (IH _ _ H) as [Ha|(x & Hx & HR & Hd)].
  - unfold f in Ha. destruct (R a y) eqn:ER; [|now left].
    destruct (dmin_cases acc (option_map (fun d => d + 1) (D a))) as [Hc|Hc]; rewrite Hc in Ha.
    + now left.
    + right. exists a. split; [now left|]. split; [exact ER|].
      destruct (D a) as [d|]; cbn in Ha; [|discriminate]. injection Ha as <-. f_equal. lia.
  - right. exists x. split; [now right|auto].
Qed.

Lemma dpost_sound v : dpost St states R D y = Some v ->
  exists x, In x states /\ R x y = true /\ D x = Some (v - 1).
Proof.
  intros H. destruct (fold_witness states None v H) as [Hn|Hw]; [discriminate|exact Hw].
Qed.

Lemma dpost_le x d : In x states -> R x y = true -> D x = Some d ->
  exists v, dpost St states R D y = Some v /\ v <= d + 1.
Proof.
  intros Hx HR Hd. pose proof (fold_le_elem states None x d Hx HR Hd) as H.
  unfold dpost. fold f. destruct (fold_left f states None) as [v|]; cbn in H; [|contradiction].
  exists v. split; [reflexivity|exact H].
Qed.
End Step.

Lemma tabulate_id D y : tabulate St states eqb D y = D y.
Proof.
  unfold tabulate. destruct (find _ _) as [p|] eqn:E; [|reflexivity].
  apply find_some in E. destruct E as [Hin He]. apply eqb_spec in He.
  apply in_map_iff in Hin. destruct Hin as (z & <- & _). cbn in *. now subst.
Qed.

Lemma oz_eqb_eq a b : oz_eqb a b = true -> a = b.
Proof.
  destruct a, b; cbn; try discriminate; auto. intros H. apply Z.eqb_eq in H. now subst.
Qed.

(** ** the breadth-first distance iteration *)
Theorem dist_bfs_post_shortest : forall R fuel D0 Dc D,
  (forall y d, In y states -> D0 y = Some d -> exists v, Dc y = Some v /\ v <= d) ->
  (forall y v, In y states -> Dc y = Some v -> DReach R D0 y v) ->
  dist_bfs St states (dpost St states R) eqb fuel Dc = Some D ->
  forall y, In y states -> shortest R D0 y (D y).
Proof.
  intros R. induction fuel as [|fuel IH]; intros D0 Dc D Hdom Hsound; cbn; [discriminate|].
  destruct (same_dist St states Dc _) eqn:Es.
  - intros H; injection H as <-.
    apply relax_closed_is_shortest; auto.
    intros x y d Hx Hy Hd HR.
    unfold same_dist in Es. rewrite forallb_forall in Es.
    pose proof (oz_eqb_eq _ _ (Es y Hy)) as Ey. rewrite tabulate_id in Ey.
    destruct (dpost_le R Dc y x d Hx HR Hd) as (v & Hv & Hle).
    rewrite Hv in Ey. destruct (Dc y) as [u|] eqn:Eu; cbn in Ey; [|discriminate].
    exists u. split; [reflexivity|]. injection Ey as Ey. lia.
  - apply IH.
    + intros y d Hy Hd. destruct (Hdom y d Hy Hd) as (v & Hv & Hle).
      rewrite tabulate_id, Hv.
      pose proof (dmin_le_l (Some v) (dpost St states R Dc y)) as Hm.
      destruct (dmin (Some v) (dpost St states R Dc y)) as [w|]; cbn in Hm; [|contradiction].
      exists w. split; [reflexivity|lia].
    + intros y v Hy Hv. rewrite tabulate_id in Hv.
      destruct (dmin_cases (Dc y) (dpost St states R Dc y)) as [Hc|Hc]; rewrite Hc in Hv.
      * now apply Hsound.
      * destruct (dpost_sound R Dc y v Hv) as (x & Hx & HR & Hd).
        replace v with (v - 1 + 1) by lia. eapply DRS; eauto.
Qed.

(** backward: the same statement for the reversed relation *)
Lemma dpre_is_dpost_rev R D : dpre St states R D = dpost St states (fun a b => R b a) D.
Proof. reflexivity. Qed.

Theorem dist_bfs_pre_shortest : forall R fuel D0 D,
  dist_bfs St states (dpre St states R) eqb fuel D0 = Some D ->
  forall y, In y states -> shortest (fun a b => R b a) D0 y (D y).
Proof.
  intros R fuel D0 D H.
  apply (dist_bfs_post_shortest (fun a b => R b a) fuel D0 D0 D); auto.
  - intros y d _ Hd. exists d. split; [exact Hd|lia].
  - intros y v Hy Hv. now apply DR0.
Qed.

End DistP.
