(** * C07 (mechanism level): for every history of node creations on recycled
    handles, reclamations, entry insertions and sweeps,
    - each handle's cache count equals the number of stored entries that mention
      it (with multiplicity);
    - every handle mentioned by a stored entry still carries the generation
      stamp it had when the entry was made -- handles are not recycled while an
      entry mentions them -- so an entry that can be returned (not stale) names
      exactly the nodes it was computed for. *)
From Coq Require Import List Arith Bool Lia.
From Meddly Require Import Model.CTStore.
Import ListNotations.

Definition occ (l : list nat) (h : nat) : nat := count_occ Nat.eq_dec l h.

Definition mentions (es : list entry) (h : nat) : nat := occ (concat (map handles es)) h.

Record Inv (s : ctstate) : Prop := {
  inv_cc : forall h, h_cc (ct_h s h) = mentions (ct_entries s) h;
  inv_stamp : forall e h st, In e (ct_entries s) -> In (h, st) e -> h_stamp (ct_h s h) = st;
  inv_clock : forall h, h_stamp (ct_h s h) < ct_clock s
}.

Lemma occ_app l1 l2 h : occ (l1 ++ l2) h = occ l1 h + occ l2 h.
Proof. apply count_occ_app. Qed.

Lemma mentions_cons e es h : mentions (e :: es) h = occ (handles e) h + mentions es h.
Proof. unfold mentions. cbn. apply occ_app. Qed.

Lemma occ_pos l h : 1 <= occ l h <-> In h l.
Proof. unfold occ. rewrite (count_occ_In Nat.eq_dec). lia. Qed.

Lemma mentions_in es h : 1 <= mentions es h <-> exists e, In e es /\ In h (handles e).
Proof.
  unfold mentions. rewrite occ_pos, in_concat. split.
  - intros (l & Hl & Hh). apply in_map_iff in Hl. destruct Hl as (e & <- & He). eauto.
  - intros (e & He & Hh). exists (handles e). split; [now apply in_map|exact Hh].
Qed.

(** the count updates touch the count field only *)
Lemma cc_add_spec : forall hs f h,
  h_cc (cc_add f hs h) = h_cc (f h) + occ hs h /\
  h_alive (cc_add f hs h) = h_alive (f h) /\ h_stamp (cc_add f hs h) = h_stamp (f h).
Proof.
  induction hs as [|a hs IH]; intros f h; [cbn; repeat split; lia|].
  cbn [cc_add fold_left]. fold (cc_add (upd f a {| h_alive := h_alive (f a); h_stamp := h_stamp (f a); h_cc := S (h_cc (f a)) |}) hs).
  destruct (IH (upd f a {| h_alive := h_alive (f a); h_stamp := h_stamp (f a); h_cc := S (h_cc (f a)) |}) h) as (A & B & C).
  rewrite A, B, C. unfold upd, occ. cbn [count_occ].
  destruct (Nat.eqb_spec h a) as [->|Hne].
  - destruct (Nat.eq_dec a a); [|contradiction]. cbn. repeat split; lia.
  - destruct (Nat.eq_dec a h); [congruence|]. repeat split; lia.
Qed.

Lemma cc_sub_spec : forall hs f h,
  occ hs h <= h_cc (f h) ->
  h_cc (cc_sub f hs h) = h_cc (f h) - occ hs h /\
  h_alive (cc_sub f hs h) = h_alive (f h) /\ h_stamp (cc_sub f hs h) = h_stamp (f h).
Proof.
  induction hs as [|a hs IH]; intros f h Hle; [cbn; repeat split; lia|].
  cbn [cc_sub fold_left]. fold (cc_sub (upd f a {| h_alive := h_alive (f a); h_stamp := h_stamp (f a); h_cc := pred (h_cc (f a)) |}) hs).
  unfold occ in Hle. cbn [count_occ] in Hle.
  set (g := upd f a {| h_alive := h_alive (f a); h_stamp := h_stamp (f a); h_cc := pred (h_cc (f a)) |}).
  assert (Hg : h_cc (g h) = (if Nat.eqb h a then pred (h_cc (f h)) else h_cc (f h)) /\
               h_alive (g h) = h_alive (f h) /\ h_stamp (g h) = h_stamp (f h)).
  { unfold g, upd. destruct (Nat.eqb_spec h a) as [->|]; cbn; auto. }
  destruct Hg as (G1 & G2 & G3).
  destruct (IH g h) as (A & B & C).
  { rewrite G1. destruct (Nat.eqb_spec h a) as [->|Hne].
    - destruct (Nat.eq_dec a a); [|contradiction]. fold (occ hs a) in Hle. lia.
    - destruct (Nat.eq_dec a h); [congruence|]. exact Hle. }
  rewrite A, B, C, G1, G2, G3. unfold occ. cbn [count_occ].
  destruct (Nat.eqb_spec h a) as [->|Hne].
  - destruct (Nat.eq_dec a a); [|contradiction]. fold (occ hs a) in *. repeat split; lia.
  - destruct (Nat.eq_dec a h); [congruence|]. repeat split; lia.
Qed.

Lemma sweep_spec : forall dead f h,
  mentions dead h <= h_cc (f h) ->
  h_cc (fold_left (fun g e => cc_sub g (handles e)) dead f h) = h_cc (f h) - mentions dead h /\
  h_alive (fold_left (fun g e => cc_sub g (handles e)) dead f h) = h_alive (f h) /\
  h_stamp (fold_left (fun g e => cc_sub g (handles e)) dead f h) = h_stamp (f h).
Proof.
  induction dead as [|e dead IH]; intros f h Hle; [cbn; repeat split; lia|].
  rewrite mentions_cons in Hle. cbn [fold_left].
  destruct (cc_sub_spec (handles e) f h ltac:(lia)) as (A & B & C).
  destruct (IH (cc_sub f (handles e)) h ltac:(lia)) as (A' & B' & C').
  rewrite A', B', C', A, B, C, mentions_cons. repeat split; lia.
Qed.

Lemma mentions_filter_split (p : entry -> bool) es h :
  mentions es h = mentions (filter p es) h + mentions (filter (fun e => negb (p e)) es) h.
Proof.
  induction es as [|e es IH]; [reflexivity|]. cbn [filter].
  destruct (p e); cbn [negb]; rewrite !mentions_cons, IH; lia.
Qed.

Lemma init_inv : Inv ct_init.
Proof. constructor; cbn; auto. intros e h st []. Qed.

Theorem step_inv s o : Inv s -> Inv (ctstep s o).
Proof.
  intros HI. destruct o as [h|h|hs|]; cbn [ctstep].
  - (* a node is created on h: only if nothing mentions h *)
    destruct (can_alloc s h) eqn:Ec; [|exact HI].
    unfold can_alloc in Ec. apply andb_true_iff in Ec. destruct Ec as [_ Ecc]. apply Nat.eqb_eq in Ecc.
    constructor; cbn [ct_h ct_entries ct_clock].
    + intros x. unfold upd. destruct (Nat.eqb_spec x h) as [->|]; cbn; [|apply (inv_cc _ HI)].
      rewrite <- (inv_cc _ HI h). exact (eq_sym Ecc).
    + intros e x st He Hx. unfold upd. destruct (Nat.eqb_spec x h) as [->|]; [|now apply (inv_stamp _ HI e)].
      exfalso. assert (1 <= mentions (ct_entries s) h).
      { apply mentions_in. exists e. split; [exact He|]. unfold handles. change h with (fst (h, st)). now apply in_map. }
      rewrite <- (inv_cc _ HI h) in H. lia.
    + intros x. unfold upd. destruct (Nat.eqb_spec x h); cbn; [lia|]. pose proof (inv_clock _ HI x). lia.
  - (* a node is reclaimed: the handle keeps its count and stamp *)
    constructor; cbn [ct_h ct_entries ct_clock].
    + intros x. unfold upd. destruct (Nat.eqb_spec x h) as [->|]; cbn; apply (inv_cc _ HI).
    + intros e x st He Hx. unfold upd. destruct (Nat.eqb_spec x h) as [->|]; cbn; now apply (inv_stamp _ HI e).
    + intros x. unfold upd. destruct (Nat.eqb_spec x h) as [->|]; cbn; apply (inv_clock _ HI).
  - (* an entry is added *)
    destruct (forallb (fun h => h_alive (ct_h s h)) hs); [|exact HI].
    constructor; cbn [ct_h ct_entries ct_clock].
    + intros x. destruct (cc_add_spec hs (ct_h s) x) as (A & _ & _). rewrite A, mentions_cons, (inv_cc _ HI x).
      unfold handles. rewrite map_map. cbn [fst]. rewrite map_id. lia.
    + intros e x st [<-|He] Hx.
      * apply in_map_iff in Hx. destruct Hx as (y & E & _). injection E as <- <-.
        destruct (cc_add_spec hs (ct_h s) y) as (_ & _ & C). exact C.
      * destruct (cc_add_spec hs (ct_h s) x) as (_ & _ & C). rewrite C. now apply (inv_stamp _ HI e).
    + intros x. destruct (cc_add_spec hs (ct_h s) x) as (_ & _ & C). rewrite C. apply (inv_clock _ HI).
  - (* sweep *)
    assert (Hle : forall x, mentions (filter (is_stale (ct_h s)) (ct_entries s)) x <= h_cc (ct_h s x)).
    { intros x. rewrite (inv_cc _ HI x), (mentions_filter_split (is_stale (ct_h s)) (ct_entries s) x). lia. }
    constructor; cbn [ct_h ct_entries ct_clock].
    + intros x. destruct (sweep_spec _ (ct_h s) x (Hle x)) as (A & _ & _). rewrite A, (inv_cc _ HI x).
      rewrite (mentions_filter_split (is_stale (ct_h s)) (ct_entries s) x). lia.
    + intros e x st He Hx. apply filter_In in He. destruct He as [He _].
      destruct (sweep_spec _ (ct_h s) x (Hle x)) as (_ & _ & C). rewrite C. now apply (inv_stamp _ HI e).
    + intros x. destruct (sweep_spec _ (ct_h s) x (Hle x)) as (_ & _ & C). rewrite C. apply (inv_clock _ HI).
Qed.

Theorem run_inv : forall os s, Inv s -> Inv (fold_left ctstep os s).
Proof. induction os as [|o os IH]; intros s HI; cbn; [exact HI|]. apply IH, step_inv, HI. Qed.

(** an entry that a lookup may return names, on every handle, the very node
    (generation) it was computed for, and that node is still there *)
Theorem hit_is_genuine s e : Inv s -> ct_hit s e ->
  forall h st, In (h, st) e -> h_alive (ct_h s h) = true /\ h_stamp (ct_h s h) = st.
Proof.
  intros HI [He Hs] h st Hh. split.
  - unfold is_stale in Hs. apply negb_false_iff in Hs. rewrite forallb_forall in Hs.
    apply Hs. unfold handles. change h with (fst (h, st)). now apply in_map.
  - now apply (inv_stamp _ HI e).
Qed.
