(** * C06: reference counts, cache counts and the two deletion policies.

    Invariant of the machine of Model/OptStore.v for every history of node
    creations (with unique-table lookup, which under the optimistic policy may
    revive an unreferenced node), reference duplications and drops, and cache
    entries added and removed:
    - the incoming count of every identifier is exactly the number of child
      slots of nodes in the table plus the number of user references to it,
      and its cache count is exactly the number of cache entries mentioning it;
    - a node is in the table iff it is referenced, or (optimistic policy only)
      a cache entry still mentions it;
    - children are in the table and strictly below their parent; no two nodes
      in the table have the same content.
    Consequences: pessimistic -- in the table iff referenced; optimistic -- an
    unreferenced node is removed exactly when its last cache entry goes; a
    handle is free iff nothing references or mentions the node; when no user
    reference and no cache entry is left, the table is empty. *)
From Coq Require Import List ZArith Bool Arith Lia.
From Meddly Require Import Model.RefStore Model.OptStore Proofs.RefStoreP.
Import ListNotations.
Local Open Scope Z_scope.

Section Core.
Variable keep : Z -> bool.
Variable names : list (nat * Z).
Variable next : Z.

Record CInv (P : list Z) (ns : list snode) (cnt : Z -> nat) : Prop := {
  ci_ids : NoDup (map sn_id ns);
  ci_range : forall n, In n ns -> 0 < sn_id n < next;
  ci_below : forall n c, In n ns -> In c (sn_cs n) -> 0 < c ->
             exists m, In m ns /\ sn_id m = c /\ (sn_lvl m < sn_lvl n)%nat;
  ci_exact : forall id, 0 < id ->
             cnt id = (node_refs ns id + name_refs names id + cnt_occ P id)%nat;
  ci_live : forall id, 0 < id -> (live ns id <-> (1 <= cnt id)%nat \/ keep id = true);
  ci_unique : forall n m, In n ns -> In m ns ->
              sn_lvl n = sn_lvl m -> sn_cs n = sn_cs m -> n = m;
  ci_names : NoDup (map fst names)
}.

Lemma CInv_drop_terminal P ns cnt c : c <= 0 -> CInv (c :: P) ns cnt -> CInv P ns cnt.
Proof.
  intros Hc H. destruct H as [A B C D E F G]. constructor; auto.
  intros id Hid. rewrite (D id Hid). rewrite cnt_occ_cons_neq by lia. reflexivity.
Qed.

Lemma CInv_drop_terminals l P ns cnt :
  (forall c, In c l -> c <= 0) -> CInv (l ++ P) ns cnt -> CInv P ns cnt.
Proof.
  induction l as [|c l IH]; intros Hl H; [exact H|].
  apply IH; [intros c' Hc'; apply Hl; now right|].
  apply (CInv_drop_terminal _ _ _ c); [apply Hl; now left|exact H].
Qed.

(** removing a node whose last reference is being dropped leaves its child
    references pending *)
Lemma remove_inv id P ns cnt n :
  CInv (id :: P) ns cnt -> 0 < id -> cnt id = 1%nat -> keep id = false ->
  In n ns -> sn_id n = id ->
  CInv (sn_cs n ++ P) (remove_node ns id) (upd_cnt cnt id 0%nat).
Proof.
  intros HI Hpos Ec Hk Hn Hid.
  pose proof (ci_exact _ _ _ HI id Hpos) as Hex. rewrite cnt_occ_cons_eq, Ec in Hex.
  constructor.
  - apply remove_node_ids, (ci_ids _ _ _ HI).
  - intros m Hm. apply in_remove_node in Hm. now apply (ci_range _ _ _ HI).
  - intros m c Hm Hc Hcp. apply in_remove_node in Hm. destruct Hm as [Hm Hne].
    destruct (ci_below _ _ _ HI m c Hm Hc Hcp) as (q & Hq & Hqid & Hlt).
    exists q. split; [|auto]. apply in_remove_node. split; [exact Hq|].
    intros E. assert (1 <= node_refs ns id)%nat; [|lia].
    apply node_refs_in. exists m. split; [exact Hm|]. now rewrite <- E, Hqid.
  - intros j Hj. unfold upd_cnt. rewrite cnt_occ_app.
    destruct (Z.eqb_spec j id) as [->|Hne].
    + rewrite (node_refs_remove _ id n id (ci_ids _ _ _ HI) Hn Hid) in Hex. lia.
    + rewrite (ci_exact _ _ _ HI j Hj), cnt_occ_cons_neq by congruence.
      rewrite (node_refs_remove _ id n j (ci_ids _ _ _ HI) Hn Hid). lia.
  - intros j Hj. unfold upd_cnt. destruct (Z.eqb_spec j id) as [->|Hne].
    + split.
      * intros (m & Hm & Hmid). apply in_remove_node in Hm. tauto.
      * intros [H|H]; [lia|congruence].
    + rewrite <- (ci_live _ _ _ HI j Hj). split; intros (m & Hm & Hmid); exists m.
      * apply in_remove_node in Hm. tauto.
      * split; [|exact Hmid]. apply in_remove_node. split; [exact Hm|congruence].
  - intros a b Ha Hb. apply in_remove_node in Ha, Hb. apply (ci_unique _ _ _ HI); tauto.
  - apply (ci_names _ _ _ HI).
Qed.

Lemma unlink_k_inv : forall L id P ns cnt,
  CInv (id :: P) ns cnt -> lvl_le ns L id ->
  let r := unlink_k keep L id ns cnt in
  CInv P (fst r) (snd r) /\ (forall n, In n (fst r) -> In n ns).
Proof.
  induction L as [|L IH]; intros id P ns cnt HI Hl; cbn [unlink_k];
    (destruct (Z.leb_spec id 0) as [Hle|Hpos];
     [cbn; split; [eapply CInv_drop_terminal; eauto|auto]|]);
    pose proof (ci_exact _ _ _ HI id Hpos) as Hex; rewrite cnt_occ_cons_eq in Hex;
    (destruct (cnt id) as [|[|c]] eqn:Ec; [lia| |]).
  - (* level bound 0, last reference *)
    destruct (keep id) eqn:Hk.
    + cbn [fst snd]. split; [|auto].
      constructor; try apply HI.
      * intros j Hj. unfold upd_cnt. destruct (Z.eqb_spec j id) as [->|Hne]; [lia|].
        rewrite (ci_exact _ _ _ HI j Hj), cnt_occ_cons_neq by congruence. reflexivity.
      * intros j Hj. unfold upd_cnt. destruct (Z.eqb_spec j id) as [->|Hne].
        -- split; [intros _; now right|intros _]. apply (ci_live _ _ _ HI id Hpos). left. lia.
        -- apply (ci_live _ _ _ HI j Hj).
    + assert (Hlive : live ns id) by (apply (ci_live _ _ _ HI id Hpos); left; lia).
      destruct Hlive as (n & Hn & Hid).
      cbn [fst snd]. split; [|intros m Hm; now apply in_remove_node in Hm].
      assert (Hnoc : forall c, In c (sn_cs n) -> c <= 0).
      { intros c Hc. destruct (Z.leb_spec c 0); [assumption|].
        destruct (ci_below _ _ _ HI n c Hn Hc ltac:(lia)) as (m & _ & _ & Hlt).
        pose proof (Hl n Hn Hid). lia. }
      apply (CInv_drop_terminals (sn_cs n)); [exact Hnoc|].
      now apply remove_inv.
  - (* level bound 0, other references remain *)
    cbn [fst snd]. split; [|auto].
    constructor; try apply HI.
    + intros j Hj. unfold upd_cnt. destruct (Z.eqb_spec j id) as [->|Hne]; [lia|].
      rewrite (ci_exact _ _ _ HI j Hj), cnt_occ_cons_neq by congruence. reflexivity.
    + intros j Hj. unfold upd_cnt. destruct (Z.eqb_spec j id) as [->|Hne].
      * split; [intros _; left; lia|intros _]. apply (ci_live _ _ _ HI id Hpos). left. lia.
      * apply (ci_live _ _ _ HI j Hj).
  - (* level bound S L, last reference *)
    destruct (keep id) eqn:Hk.
    + cbn [fst snd]. split; [|auto].
      constructor; try apply HI.
      * intros j Hj. unfold upd_cnt. destruct (Z.eqb_spec j id) as [->|Hne]; [lia|].
        rewrite (ci_exact _ _ _ HI j Hj), cnt_occ_cons_neq by congruence. reflexivity.
      * intros j Hj. unfold upd_cnt. destruct (Z.eqb_spec j id) as [->|Hne].
        -- split; [intros _; now right|intros _]. apply (ci_live _ _ _ HI id Hpos). left. lia.
        -- apply (ci_live _ _ _ HI j Hj).
    + assert (Hlive : live ns id) by (apply (ci_live _ _ _ HI id Hpos); left; lia).
      destruct (find_node_live _ _ Hlive) as (n & Hf).
      destruct (find_node_some _ _ _ Hf) as [Hn Hid].
      unfold reclaim_with. rewrite Hf.
      pose proof (remove_inv id P ns cnt n HI Hpos Ec Hk Hn Hid) as H1.
      assert (Hcl : forall c, In c (sn_cs n) -> lvl_le ns L c).
      { intros c Hc m Hm Hmid. destruct (Z.leb_spec c 0) as [Hc0|Hc0].
        - pose proof (ci_range _ _ _ HI m Hm). lia.
        - destruct (ci_below _ _ _ HI n c Hn Hc Hc0) as (q & Hq & Hqid & Hlt).
          assert (q = m) by (apply (nodup_id_eq _ q m (ci_ids _ _ _ HI) Hq Hm); congruence).
          subst q. pose proof (Hl n Hn Hid). lia. }
      assert (Hfold : forall l P' ns' cnt', CInv (l ++ P') ns' cnt' ->
                (forall m, In m ns' -> In m ns) ->
                (forall c, In c l -> In c (sn_cs n)) ->
                let r := fold_left (fun st c => unlink_k keep L c (fst st) (snd st)) l (ns', cnt') in
                CInv P' (fst r) (snd r) /\ (forall m, In m (fst r) -> In m ns)).
      { induction l as [|c l IHl]; intros P' ns' cnt' HI' Hsub Hcs; cbn [fold_left fst snd].
        - cbn. split; [exact HI'|exact Hsub].
        - cbn [app] in HI'.
          assert (Hlc : lvl_le ns' L c).
          { intros m Hm Hmid. apply (Hcl c (Hcs c (or_introl eq_refl)) m (Hsub m Hm) Hmid). }
          destruct (IH c (l ++ P') ns' cnt' HI' Hlc) as [HIc Hsubc].
          destruct (unlink_k keep L c ns' cnt') as [ns2 cnt2] eqn:Er. cbn [fst snd] in *.
          apply IHl.
          + exact HIc.
          + intros m Hm. apply Hsub, Hsubc, Hm.
          + intros c' Hc'. apply Hcs. now right. }
      apply Hfold.
      * exact H1.
      * intros m Hm. now apply in_remove_node in Hm.
      * auto.
  - (* level bound S L, other references remain *)
    cbn [fst snd]. split; [|auto].
    constructor; try apply HI.
    + intros j Hj. unfold upd_cnt. destruct (Z.eqb_spec j id) as [->|Hne]; [lia|].
      rewrite (ci_exact _ _ _ HI j Hj), cnt_occ_cons_neq by congruence. reflexivity.
    + intros j Hj. unfold upd_cnt. destruct (Z.eqb_spec j id) as [->|Hne].
      * split; [intros _; left; lia|intros _]. apply (ci_live _ _ _ HI id Hpos). left. lia.
      * apply (ci_live _ _ _ HI j Hj).
Qed.

End Core.

(** ** the whole state *)
Record OInv (s : ostore) : Prop := {
  oi_core : CInv (keep_of (os_opt s) (os_cc s)) (os_names s) (os_next s) []
                 (os_nodes s) (os_cnt s);
  oi_cc : forall id, 0 < id -> os_cc s id = name_refs (os_toks s) id;
  oi_toks : NoDup (map fst (os_toks s));
  oi_tokpos : forall p, In p (os_toks s) -> 0 < snd p
}.

Definition ovalid (s : ostore) (o : oop) : Prop :=
  match o with
  | ONew nm lvl cs =>
      ~ In nm (map fst (os_names s)) /\
      forall c, In c cs -> 0 < c ->
        exists m, In m (os_nodes s) /\ sn_id m = c /\ (sn_lvl m < lvl)%nat
  | ODup nm' nm => ~ In nm' (map fst (os_names s))
  | ODrop nm => True
  | OCache tk nm => ~ In tk (map fst (os_toks s))
  | OUncache tk => True
  end.

Lemma keep_of_true opt cc id : keep_of opt cc id = true <-> opt = true /\ (1 <= cc id)%nat.
Proof.
  unfold keep_of. rewrite andb_true_iff, negb_true_iff, Nat.eqb_neq.
  split; intros [H1 H2]; (split; [exact H1|lia]).
Qed.

Lemma in_table_live ns id : in_table ns id = true <-> live ns id.
Proof.
  unfold in_table. split.
  - destruct (find_node ns id) as [n|] eqn:E; [|discriminate]. intros _.
    destruct (find_node_some _ _ _ E). now exists n.
  - intros H. destruct (find_node_live _ _ H) as (n & ->). reflexivity.
Qed.

(** changing [keep] on identifiers where the live clause still holds *)
Lemma CInv_keep k1 k2 names next P ns cnt :
  CInv k1 names next P ns cnt ->
  (forall id, 0 < id -> (live ns id <-> (1 <= cnt id)%nat \/ k2 id = true)) ->
  CInv k2 names next P ns cnt.
Proof. intros [A B C D E F G] H. constructor; auto. Qed.

Lemma referenced_in_table k names next P ns cnt id :
  CInv k names next P ns cnt -> 0 < id ->
  (1 <= node_refs ns id + name_refs names id)%nat -> live ns id.
Proof.
  intros HI Hid H. apply (ci_live _ _ _ _ _ _ HI id Hid). left.
  rewrite (ci_exact _ _ _ _ _ _ HI id Hid). lia.
Qed.

Theorem ostep_inv s o : OInv s -> 0 < os_next s -> ovalid s o ->
  OInv (ostep s o) /\ 0 < os_next (ostep s o) /\ os_opt (ostep s o) = os_opt s.
Proof.
  intros [HI Hcc Htk Htp] Hnext Hv. destruct o as [nm lvl cs|nm' nm|nm|tk nm|tk]; cbn [ostep].
  - (* new node *)
    destruct Hv as [Hfresh Hch].
    destruct (forallb (fun c => c =? 0) cs) eqn:Ez.
    + split; [|split; [exact Hnext|reflexivity]].
      constructor; cbn [with_table os_opt os_nodes os_cnt os_cc os_names os_toks os_next fst snd]; auto.
      destruct HI as [A B C D E F G]. constructor; auto.
      * intros id Hid. rewrite (D id Hid). unfold name_refs. cbn [map snd].
        rewrite cnt_occ_cons_neq by lia. reflexivity.
      * cbn. constructor; assumption.
    + destruct (find_dup (os_nodes s) lvl cs) as [n|] eqn:Ed.
      * (* found in the unique table (possibly revived) *)
        split; [|split; [exact Hnext|reflexivity]].
        unfold find_dup in Ed. apply find_some in Ed. destruct Ed as [Hn _].
        pose proof (ci_range _ _ _ _ _ _ HI n Hn) as Hr.
        constructor; cbn [with_table os_opt os_nodes os_cnt os_cc os_names os_toks os_next fst snd]; auto.
        constructor; try apply HI.
        -- intros id Hid. unfold bump. destruct (Z.ltb_spec 0 (sn_id n)); [|lia].
           unfold upd_cnt, name_refs. cbn [map snd]. destruct (Z.eqb_spec id (sn_id n)) as [->|Hne].
           ++ rewrite cnt_occ_cons_eq, (ci_exact _ _ _ _ _ _ HI (sn_id n) Hid). unfold name_refs. lia.
           ++ rewrite cnt_occ_cons_neq by congruence. apply (ci_exact _ _ _ _ _ _ HI id Hid).
        -- intros id Hid. unfold bump. destruct (Z.ltb_spec 0 (sn_id n)); [|lia].
           unfold upd_cnt. destruct (Z.eqb_spec id (sn_id n)) as [->|Hne].
           ++ split; [intros _; left; lia|intros _; now exists n].
           ++ apply (ci_live _ _ _ _ _ _ HI id Hid).
        -- cbn. constructor; [exact Hfresh|apply (ci_names _ _ _ _ _ _ HI)].
      * (* a new node *)
        split; [|split; [cbn; lia|reflexivity]].
        set (id := os_next s).
        assert (Hnone : forall j, (os_next s <= j) ->
                  node_refs (os_nodes s) j = 0%nat /\ name_refs (os_names s) j = 0%nat /\
                  ~ live (os_nodes s) j).
        { intros j Hj.
          assert (Hnl : ~ live (os_nodes s) j).
          { intros (m & Hm & Hmid). pose proof (ci_range _ _ _ _ _ _ HI m Hm). lia. }
          destruct (node_refs (os_nodes s) j + name_refs (os_names s) j)%nat eqn:E0;
            [split; [lia|split; [lia|exact Hnl]]|].
          exfalso. apply Hnl. apply (referenced_in_table _ _ _ _ _ _ j HI); lia. }
        assert (Hcs_lt : forall c, In c cs -> c < id).
        { intros c Hc. destruct (Z.ltb_spec 0 c) as [Hp|Hp]; [|unfold id; lia].
          destruct (Hch c Hc Hp) as (m & Hm & Hmid & _).
          pose proof (ci_range _ _ _ _ _ _ HI m Hm). unfold id. lia. }
        constructor; cbn [os_opt os_nodes os_cnt os_cc os_names os_toks os_next]; auto.
        constructor.
        -- cbn. constructor; [|apply (ci_ids _ _ _ _ _ _ HI)]. intros Hin.
           apply in_map_iff in Hin. destruct Hin as (m & Hmid & Hm).
           pose proof (ci_range _ _ _ _ _ _ HI m Hm). unfold id in Hmid. lia.
        -- intros m [<-|Hm]; cbn; [unfold id; lia|].
           pose proof (ci_range _ _ _ _ _ _ HI m Hm). lia.
        -- intros m c [<-|Hm] Hc Hcp; cbn in *.
           ++ destruct (Hch c Hc Hcp) as (q & Hq & Hqid & Hlt). exists q. auto.
           ++ destruct (ci_below _ _ _ _ _ _ HI m c Hm Hc Hcp) as (q & Hq & Hqid & Hlt). exists q. auto.
        -- intros j Hj. unfold upd_cnt, name_refs. cbn [map snd]. rewrite node_refs_cons. cbn [sn_cs].
           destruct (Z.eqb_spec j id) as [->|Hne].
           ++ rewrite cnt_occ_cons_eq. destruct (Hnone id ltac:(unfold id; lia)) as (H1 & H2 & _).
              unfold name_refs in H2. rewrite H1, H2.
              assert (cnt_occ cs id = 0%nat).
              { destruct (cnt_occ cs id) eqn:E0; [reflexivity|].
                assert (In id cs) by (apply cnt_occ_pos; lia). specialize (Hcs_lt id H). lia. }
              change (cnt_occ [] id) with 0%nat. lia.
           ++ rewrite cnt_occ_cons_neq by congruence. rewrite fold_incr by exact Hj.
              rewrite (ci_exact _ _ _ _ _ _ HI j Hj). unfold name_refs. cbn. lia.
        -- intros j Hj. unfold upd_cnt. destruct (Z.eqb_spec j id) as [->|Hne].
           ++ split; [intros _; left; lia|intros _]. eexists. split; [now left|reflexivity].
           ++ rewrite fold_incr by exact Hj. split.
              ** intros (m & [<-|Hm] & Hmid); [cbn in Hmid; congruence|].
                 assert (Hl : live (os_nodes s) j) by now exists m.
                 apply (ci_live _ _ _ _ _ _ HI j Hj) in Hl. destruct Hl; [left; lia|now right].
              ** intros [H|H].
                 --- destruct (Nat.eq_dec (cnt_occ cs j) 0) as [E0|E0].
                     +++ assert (Hl : live (os_nodes s) j)
                           by (apply (ci_live _ _ _ _ _ _ HI j Hj); left; lia).
                         destruct Hl as (m & Hm & Hmid). exists m. split; [now right|exact Hmid].
                     +++ assert (In j cs) by (apply cnt_occ_pos; lia).
                         destruct (Hch j H0 Hj) as (m & Hm & Hmid & _). exists m. split; [now right|exact Hmid].
                 --- assert (Hl : live (os_nodes s) j)
                       by (apply (ci_live _ _ _ _ _ _ HI j Hj); now right).
                     destruct Hl as (m & Hm & Hmid). exists m. split; [now right|exact Hmid].
        -- intros a b [<-|Ha] [<-|Hb] Hl Hc; cbn in *; auto.
           ++ exfalso. unfold find_dup in Ed. pose proof (find_none _ _ Ed b Hb) as Hf. cbn in Hf.
              rewrite <- Hl, Nat.eqb_refl in Hf. cbn in Hf.
              assert (cs_eqb (sn_cs b) cs = true) by (apply cs_eqb_eq; congruence). congruence.
           ++ exfalso. unfold find_dup in Ed. pose proof (find_none _ _ Ed a Ha) as Hf. cbn in Hf.
              rewrite Hl, Nat.eqb_refl in Hf. cbn in Hf.
              assert (cs_eqb (sn_cs a) cs = true) by (apply cs_eqb_eq; congruence). congruence.
           ++ now apply (ci_unique _ _ _ _ _ _ HI).
        -- cbn. constructor; [exact Hfresh|apply (ci_names _ _ _ _ _ _ HI)].
  - (* duplicate a reference *)
    destruct (lookup_name (os_names s) nm) as [id|] eqn:El;
      [|split; [constructor; assumption|split; [assumption|reflexivity]]].
    split; [|split; [exact Hnext|reflexivity]]. pose proof (lookup_name_in _ _ _ El) as Hin.
    constructor; cbn [with_table os_opt os_nodes os_cnt os_cc os_names os_toks os_next fst snd]; auto.
    constructor; try apply HI.
    + intros j Hj. unfold bump, name_refs. cbn [map snd].
      destruct (Z.ltb_spec 0 id) as [Hp|Hp].
      * unfold upd_cnt. destruct (Z.eqb_spec j id) as [->|Hne].
        -- rewrite cnt_occ_cons_eq, (ci_exact _ _ _ _ _ _ HI id Hj). unfold name_refs. lia.
        -- rewrite cnt_occ_cons_neq by congruence. apply (ci_exact _ _ _ _ _ _ HI j Hj).
      * rewrite cnt_occ_cons_neq by lia. apply (ci_exact _ _ _ _ _ _ HI j Hj).
    + intros j Hj. unfold bump.
      destruct (Z.ltb_spec 0 id) as [Hp|Hp]; [|apply (ci_live _ _ _ _ _ _ HI j Hj)].
      unfold upd_cnt. destruct (Z.eqb_spec j id) as [->|Hne]; [|apply (ci_live _ _ _ _ _ _ HI j Hj)].
      split; [intros _; left; lia|intros _].
      apply (referenced_in_table _ _ _ _ _ _ id HI Hp).
      assert (1 <= name_refs (os_names s) id)%nat; [|lia].
      unfold name_refs. apply cnt_occ_pos. change id with (snd (nm, id)). now apply in_map.
    + cbn. constructor; [exact Hv|apply (ci_names _ _ _ _ _ _ HI)].
  - (* drop a reference *)
    destruct (lookup_name (os_names s) nm) as [id|] eqn:El;
      [|split; [constructor; assumption|split; [assumption|reflexivity]]].
    pose proof (lookup_name_in _ _ _ El) as Hin.
    assert (H0 : CInv (keep_of (os_opt s) (os_cc s)) (remove_name (os_names s) nm) (os_next s)
                      [id] (os_nodes s) (os_cnt s)).
    { constructor; try apply HI.
      - intros j Hj. rewrite (ci_exact _ _ _ _ _ _ HI j Hj).
        rewrite (name_refs_remove _ nm id j (ci_names _ _ _ _ _ _ HI) Hin).
        cbn [cnt_occ]. unfold cnt_occ. cbn. lia.
      - apply remove_name_nodup, (ci_names _ _ _ _ _ _ HI). }
    destruct (unlink_k_inv _ _ _ (top_level (os_nodes s)) id [] _ _ H0) as [HIr _].
    + intros n Hn _. now apply top_level_ge.
    + split; [|split; [exact Hnext|reflexivity]].
      constructor; cbn [with_table os_opt os_nodes os_cnt os_cc os_names os_toks os_next]; auto.
  - (* a cache entry is added *)
    destruct (lookup_name (os_names s) nm) as [id|] eqn:El;
      [|split; [constructor; assumption|split; [assumption|reflexivity]]].
    destruct (Z.ltb_spec 0 id) as [Hp|Hp];
      [|split; [constructor; assumption|split; [assumption|reflexivity]]].
    pose proof (lookup_name_in _ _ _ El) as Hin.
    assert (Hlive : live (os_nodes s) id).
    { apply (referenced_in_table _ _ _ _ _ _ id HI Hp).
      assert (1 <= name_refs (os_names s) id)%nat; [|lia].
      unfold name_refs. apply cnt_occ_pos. change id with (snd (nm, id)). now apply in_map. }
    split; [|split; [exact Hnext|reflexivity]].
    constructor; cbn [os_opt os_nodes os_cnt os_cc os_names os_toks os_next].
    + apply (CInv_keep _ _ _ _ _ _ _ HI). intros j Hj.
      rewrite (ci_live _ _ _ _ _ _ HI j Hj), !keep_of_true. unfold upd_cnt.
      destruct (Z.eqb_spec j id) as [->|Hne]; [|tauto].
      apply (ci_live _ _ _ _ _ _ HI id Hp) in Hlive. rewrite keep_of_true in Hlive.
      split; [|tauto]. intros [H|[H1 H2]]; [now left|right; split; [exact H1|lia]].
    + intros j Hj. unfold upd_cnt, name_refs. cbn [map snd].
      destruct (Z.eqb_spec j id) as [->|Hne].
      * rewrite cnt_occ_cons_eq, (Hcc id Hj). reflexivity.
      * rewrite cnt_occ_cons_neq by congruence. apply (Hcc j Hj).
    + cbn. constructor; [exact Hv|exact Htk].
    + intros p [<-|Hp']; [exact Hp|now apply Htp].
  - (* a cache entry is removed *)
    destruct (lookup_name (os_toks s) tk) as [id|] eqn:El;
      [|split; [constructor; assumption|split; [assumption|reflexivity]]].
    pose proof (lookup_name_in _ _ _ El) as Hin.
    assert (Hp : 0 < id) by (apply (Htp (tk, id) Hin)).
    set (cc' := upd_cnt (os_cc s) id (pred (os_cc s id))).
    assert (Hcc' : forall j, 0 < j -> cc' j = name_refs (remove_name (os_toks s) tk) j).
    { intros j Hj. unfold cc', upd_cnt.
      pose proof (name_refs_remove _ tk id j Htk Hin) as Hr.
      destruct (Z.eqb_spec j id) as [->|Hne].
      - rewrite (Hcc id Hj), Hr, cnt_occ_cons_eq. cbn. lia.
      - rewrite (Hcc j Hj), Hr, cnt_occ_cons_neq by congruence. cbn. lia. }
    assert (Hccid : (1 <= os_cc s id)%nat).
    { rewrite (Hcc id Hp). unfold name_refs. apply cnt_occ_pos.
      change id with (snd (tk, id)). now apply in_map. }
    split; [|split; [|reflexivity]].
    2:{ cbn [os_next]. exact Hnext. }
    constructor; cbn [os_opt os_nodes os_cnt os_cc os_names os_toks os_next]; auto.
    2:{ apply remove_name_nodup, Htk. }
    2:{ intros p Hp'. apply Htp. unfold remove_name in Hp'. apply filter_In in Hp'. tauto. }
    fold cc'.
    destruct (Nat.eqb (cc' id) 0 && in_table (os_nodes s) id && Nat.eqb (os_cnt s id) 0) eqn:Econd.
    + (* the node is deleted now *)
      apply andb_true_iff in Econd. destruct Econd as [Econd Ecnt].
      apply andb_true_iff in Econd. destruct Econd as [Elast Etab].
      apply Nat.eqb_eq in Elast, Ecnt. apply in_table_live in Etab.
      assert (H1 : CInv (keep_of (os_opt s) cc') (os_names s) (os_next s) [id]
                        (os_nodes s) (upd_cnt (os_cnt s) id 1%nat)).
      { constructor; try apply HI.
        - intros j Hj. unfold upd_cnt. destruct (Z.eqb_spec j id) as [->|Hne].
          + pose proof (ci_exact _ _ _ _ _ _ HI id Hj) as Hex. rewrite Ecnt in Hex.
            rewrite cnt_occ_cons_eq. cbn in Hex |- *. lia.
          + rewrite (ci_exact _ _ _ _ _ _ HI j Hj), cnt_occ_cons_neq by congruence. reflexivity.
        - intros j Hj. rewrite (ci_live _ _ _ _ _ _ HI j Hj), !keep_of_true. unfold upd_cnt.
          destruct (Z.eqb_spec j id) as [->|Hne].
          + apply (ci_live _ _ _ _ _ _ HI id Hp) in Etab. rewrite keep_of_true in Etab. split; [intros _; left; lia|intros _; exact Etab].
          + unfold cc', upd_cnt. destruct (Z.eqb_spec j id); [contradiction|]. tauto. }
      destruct (unlink_k_inv _ _ _ (top_level (os_nodes s)) id [] _ _ H1) as [HIr _].
      * intros n Hn _. now apply top_level_ge.
      * exact HIr.
    + (* nothing else happens: the node is referenced, or was deleted before (zombie) *)
      cbn [fst snd]. apply (CInv_keep _ _ _ _ _ _ _ HI). intros j Hj.
      rewrite (ci_live _ _ _ _ _ _ HI j Hj), !keep_of_true.
      unfold cc', upd_cnt. destruct (Z.eqb_spec j id) as [->|Hne]; [|tauto].
      split.
      * intros [H|[H1 H2]]; [now left|].
        destruct (Nat.eq_dec (pred (os_cc s id)) 0) as [E0|E0]; [|right; split; [exact H1|lia]].
        left.
        assert (Hl : live (os_nodes s) id).
        { apply (ci_live _ _ _ _ _ _ HI id Hp). right. apply keep_of_true. split; assumption. }
        apply in_table_live in Hl.
        unfold cc', upd_cnt in Econd. rewrite Z.eqb_refl in Econd.
        rewrite E0, Hl in Econd. cbn in Econd. apply Nat.eqb_neq in Econd. lia.
      * intros [H|[H1 H2]]; [now left|right; split; [exact H1|lia]].
Qed.

Fixpoint ovalid_run (s : ostore) (ops : list oop) : Prop :=
  match ops with
  | [] => True
  | o :: r => ovalid s o /\ ovalid_run (ostep s o) r
  end.

Lemma oinit_inv opt : OInv (os_init opt).
Proof.
  constructor; cbn [os_init os_opt os_nodes os_cnt os_cc os_names os_toks os_next].
  - constructor.
    + constructor.
    + intros n [].
    + intros n c [].
    + intros j _. reflexivity.
    + intros j _. split; [intros (n & [] & _)|]. intros [H|H]; [lia|].
      apply keep_of_true in H. lia.
    + intros n m [].
    + constructor.
  - intros j _. reflexivity.
  - constructor.
  - intros p [].
Qed.

Theorem orun_inv : forall ops s, OInv s -> 0 < os_next s -> ovalid_run s ops ->
  OInv (fold_left ostep ops s) /\ os_opt (fold_left ostep ops s) = os_opt s.
Proof.
  induction ops as [|o ops IH]; intros s HI Hn Hv; cbn [fold_left]; [split; [exact HI|reflexivity]|].
  destruct Hv as [Hvo Hvr]. destruct (ostep_inv s o HI Hn Hvo) as (HI' & Hn' & Ho).
  destruct (IH _ HI' Hn' Hvr) as [A B]. split; [exact A|congruence].
Qed.

(** ** consequences *)

(** pessimistic: a node is in the table iff something references it *)
Theorem pessimistic_live s id : OInv s -> os_opt s = false -> 0 < id ->
  (in_table (os_nodes s) id = true <-> (1 <= os_cnt s id)%nat).
Proof.
  intros [HI _ _ _] Ho Hid. rewrite in_table_live, (ci_live _ _ _ _ _ _ HI id Hid), keep_of_true, Ho.
  split; [intros [H|[H _]]; [exact H|discriminate]|now left].
Qed.

(** optimistic: a node is in the table iff something references it or a cache
    entry mentions it *)
Theorem optimistic_live s id : OInv s -> os_opt s = true -> 0 < id ->
  (in_table (os_nodes s) id = true <-> (1 <= os_cnt s id)%nat \/ (1 <= os_cc s id)%nat).
Proof.
  intros [HI _ _ _] Ho Hid. rewrite in_table_live, (ci_live _ _ _ _ _ _ HI id Hid), keep_of_true, Ho.
  tauto.
Qed.

(** a handle is free iff the node is neither in the table nor mentioned by a
    cache entry; a free handle has both counts zero under either policy *)
Theorem free_handle_unreferenced s id : OInv s -> 0 < id ->
  handle_free s id = true -> os_cnt s id = 0%nat /\ os_cc s id = 0%nat.
Proof.
  intros [HI _ _ _] Hid H. unfold handle_free in H. apply andb_true_iff in H. destruct H as [H1 H2].
  apply negb_true_iff in H1. apply Nat.eqb_eq in H2. split; [|exact H2].
  destruct (os_cnt s id) eqn:E; [reflexivity|]. exfalso.
  assert (Hl : live (os_nodes s) id) by (apply (ci_live _ _ _ _ _ _ HI id Hid); left; lia).
  apply in_table_live in Hl. congruence.
Qed.

(** and conversely a node with both counts zero has been removed *)
Theorem unreferenced_handle_free s id : OInv s -> 0 < id ->
  os_cnt s id = 0%nat -> os_cc s id = 0%nat -> handle_free s id = true.
Proof.
  intros [HI _ _ _] Hid H1 H2. unfold handle_free. rewrite H2, Nat.eqb_refl, andb_true_r.
  apply negb_true_iff. destruct (in_table (os_nodes s) id) eqn:E; [|reflexivity]. exfalso.
  apply in_table_live in E. apply (ci_live _ _ _ _ _ _ HI id Hid) in E.
  destruct E as [E|E]; [lia|]. apply keep_of_true in E. lia.
Qed.

(** no leak: without user references and cache entries the table is empty *)
Theorem ono_leak s : OInv s ->
  (forall p, In p (os_names s) -> snd p <= 0) -> os_toks s = [] -> os_nodes s = [].
Proof.
  intros [HI Hcc _ _] Hnames Htoks. destruct (os_nodes s) as [|n0 ns0] eqn:En; [reflexivity|]. exfalso.
  rewrite <- En in HI.
  assert (Hmax : exists m, In m (os_nodes s) /\ forall q, In q (os_nodes s) -> (sn_lvl q <= sn_lvl m)%nat).
  { rewrite En. clear. revert n0. induction ns0 as [|a l IH]; intros n0.
    - exists n0. split; [now left|]. intros q [<-|[]]. lia.
    - destruct (IH a) as (m & Hm & Hle).
      destruct (Nat.le_gt_cases (sn_lvl n0) (sn_lvl m)) as [H|H].
      + exists m. split; [now right|]. intros q [<-|Hq]; [exact H|now apply Hle].
      + exists n0. split; [now left|]. intros q [<-|Hq]; [lia|]. specialize (Hle q Hq). lia. }
  destruct Hmax as (m & Hm & Hle).
  pose proof (ci_range _ _ _ _ _ _ HI m Hm) as Hr.
  assert (Hc : (1 <= os_cnt s (sn_id m))%nat).
  { assert (Hl : live (os_nodes s) (sn_id m)) by now exists m.
    apply (ci_live _ _ _ _ _ _ HI (sn_id m)) in Hl; [|lia]. destruct Hl as [H|H]; [exact H|].
    apply keep_of_true in H. rewrite (Hcc (sn_id m)), Htoks in H by lia. cbn in H. lia. }
  rewrite (ci_exact _ _ _ _ _ _ HI (sn_id m)) in Hc by lia.
  assert (Hn0 : name_refs (os_names s) (sn_id m) = 0%nat).
  { destruct (name_refs (os_names s) (sn_id m)) eqn:E0; [reflexivity|]. exfalso.
    assert (Hin : In (sn_id m) (map snd (os_names s))) by (apply cnt_occ_pos; unfold name_refs in E0; lia).
    apply in_map_iff in Hin. destruct Hin as (p & Hp & Hpin). specialize (Hnames p Hpin). lia. }
  rewrite Hn0 in Hc. cbn in Hc.
  assert (Hnr : (1 <= node_refs (os_nodes s) (sn_id m))%nat) by lia.
  apply node_refs_in in Hnr. destruct Hnr as (p & Hp & Hpc).
  destruct (ci_below _ _ _ _ _ _ HI p (sn_id m) Hp Hpc ltac:(lia)) as (m' & Hm' & Hid' & Hlt).
  assert (m' = m) by (apply (nodup_id_eq _ m' m (ci_ids _ _ _ _ _ _ HI) Hm' Hm Hid')). subst m'.
  specialize (Hle p Hp). lia.
Qed.

(** non-vacuity and the difference between the policies, computed: a node is
    cached, its last reference dropped, the same content requested again *)
Definition demo (opt : bool) : list oop :=
  [ONew 1 1 [0; -1]; OCache 7 1; ODrop 1; ONew 2 1 [0; -1]].

Example demo_pessimistic :
  let s := fold_left ostep (demo false) (os_init false) in
  map sn_id (os_nodes s) = [2] /\ os_cc s 1 = 1%nat /\ handle_free s 1 = false.
Proof. vm_compute. repeat split. Qed.

Example demo_optimistic :
  let s := fold_left ostep (demo true) (os_init true) in
  map sn_id (os_nodes s) = [1] /\ os_cnt s 1 = 1%nat /\ os_cc s 1 = 1%nat.
Proof. vm_compute. repeat split. Qed.
