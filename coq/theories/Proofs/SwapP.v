(** C13: the adjacent-level swap denotes the same function of the renamed
    variables: evaluating the swapped diagram at [x] gives the original
    diagram's value at [x] with the two levels' values exchanged (fully- and
    quasi-reduced set forests, any sizes). *)
From Coq Require Import List Arith ZArith Bool Lia.
From Meddly Require Import Model.DD Model.Swap Proofs.DDFacts Proofs.Canon Proofs.Reduce.
Import ListNotations.
Local Open Scope nat_scope.

Section SwapP.
Variable sz : nat -> nat.
Variable r : rule.
Hypothesis not_ir : is_ir r = false.
Variable p : nat.

Notation sz' := (swap_sz sz p).

Lemma swap_idx_invol j : swap_idx p (swap_idx p j) = j.
Proof.
  unfold swap_idx.
  destruct (Nat.eqb_spec j (S p)) as [->|H1].
  - destruct (Nat.eqb_spec (S (S p)) (S p)); [lia|]. now rewrite Nat.eqb_refl.
  - destruct (Nat.eqb_spec j (S (S p))) as [->|H2].
    + now rewrite Nat.eqb_refl.
    + destruct (Nat.eqb_spec j (S p)); [contradiction|].
      destruct (Nat.eqb_spec j (S (S p))); [contradiction|reflexivity].
Qed.

Lemma valid_swapx x : valid sz' x -> valid sz (swapx p x).
Proof.
  intros H j. unfold swapx. specialize (H (swap_idx p j)). unfold swap_sz in H.
  now rewrite swap_idx_invol in H.
Qed.

Lemma cx_triv L from x : cx r L from x.
Proof. unfold cx. rewrite not_ir. cbn. discriminate. Qed.

Lemma swapx_below x j : j <= p -> swapx p x j = x j.
Proof.
  intros Hj. unfold swapx, swap_idx.
  destruct (Nat.eqb_spec j (S p)); [lia|]. destruct (Nat.eqb_spec j (S (S p))); [lia|reflexivity].
Qed.

Lemma swapx_above x j : S (S p) < j -> swapx p x j = x j.
Proof.
  intros Hj. unfold swapx, swap_idx.
  destruct (Nat.eqb_spec j (S p)); [lia|]. destruct (Nat.eqb_spec j (S (S p))); [lia|reflexivity].
Qed.

Lemma dep_nir L : dep (is_ir r) L = L.
Proof. unfold dep. now rewrite not_ir. Qed.

(** well-formed with the right number of children at every node *)
Fixpoint wfl (L : nat) (t : dd) : Prop :=
  match L with
  | O => top t = 0
  | S L' =>
      match t with
      | T _ => True
      | N k cs => if Nat.eqb k (S L') then length cs = sz (S L') /\ Forall (wfl L') cs else wfl L' t
      end
  end.

Lemma wfl_wf : forall L t, wfl L t -> wf L t.
Proof.
  induction L as [|L IH]; intros t H; [exact H|]. destruct t as [v|k cs]; [exact I|].
  cbn in *. destruct (Nat.eqb k (S L)).
  - destruct H as [_ H]. eapply Forall_impl; [|exact H]. intros c Hc. now apply IH.
  - now apply IH.
Qed.

Lemma wfl_zero L : wfl L zero.
Proof. destruct L; cbn; auto. Qed.

Lemma unpack_len L t : wfl (S L) t -> length (unpack sz r (S L) 0 t) = sz (S L).
Proof.
  intros H. destruct t as [v|k cs]; cbn [unpack].
  - unfold expand. rewrite not_ir. cbn. apply repeat_length.
  - cbn in H. destruct (Nat.eqb k (S L)); [tauto|].
    unfold expand. rewrite not_ir. cbn. apply repeat_length.
Qed.

Lemma wfl_unpack L t i : wfl (S L) t -> wfl L (nth i (unpack sz r (S L) 0 t) zero).
Proof.
  intros H.
  assert (Hex : forall t', wfl L t' -> wfl L (nth i (expand sz r (S L) 0 t') zero)).
  { intros t' H'. unfold expand. rewrite not_ir. cbn.
    destruct (Nat.lt_ge_cases i (sz (S L))) as [Hi|Hi].
    - now rewrite nth_repeat_lt.
    - rewrite nth_overflow; [apply wfl_zero|]. now rewrite repeat_length. }
  destruct t as [v|k cs]; cbn [unpack].
  - apply Hex. destruct L; cbn; auto.
  - cbn in H. destruct (Nat.eqb_spec k (S L)).
    + destruct H as [_ H]. rewrite Forall_forall in H.
      destruct (Nat.lt_ge_cases i (length cs)) as [Hi|Hi].
      * apply H, nth_In, Hi.
      * rewrite nth_overflow by exact Hi. apply wfl_zero.
    + apply Hex. exact H.
Qed.

Lemma swap_top : forall L t, wfl L t -> top (swap_adj sz r p L t) <= L.
Proof.
  induction L as [|L IH]; intros t Hw; [apply wf_top; now apply wfl_wf|]. cbn [swap_adj].
  destruct (Nat.eqb_spec L (S p)) as [->|Hne].
  - apply mk_top. intros j.
    destruct (Nat.lt_ge_cases j (sz (S p))) as [Hj|Hj].
    + rewrite nth_map_seq by exact Hj. apply mk_top. intros i.
      destruct (Nat.lt_ge_cases i (sz (S (S p)))) as [Hi|Hi].
      * rewrite nth_map_seq by exact Hi. apply wf_top, wfl_wf. apply wfl_unpack. now apply wfl_unpack.
      * rewrite nth_overflow by (now rewrite map_length, seq_length). cbn. lia.
    + rewrite nth_overflow by (now rewrite map_length, seq_length). cbn. lia.
  - destruct (Nat.ltb_spec (S p) L) as [Hlt|Hge]; [|apply wf_top; now apply wfl_wf].
    apply mk_top. intros i.
    destruct (Nat.lt_ge_cases i (length (unpack sz r (S L) 0 t))) as [Hi|Hi].
    + rewrite (nth_indep _ zero (swap_adj sz r p L zero)) by (now rewrite map_length).
      rewrite (map_nth (swap_adj sz r p L)). apply IH. now apply wfl_unpack.
    + rewrite nth_overflow by (now rewrite map_length). cbn. lia.
Qed.

Theorem swap_adj_eval : forall L t x,
  S (S p) <= L -> wfl L t -> valid sz' x ->
  evalL (is_ir r) L (swap_adj sz r p L t) x = evalL (is_ir r) L t (swapx p x).
Proof.
  induction L as [|L IH]; intros t x HL Hw Hx; [lia|]. cbn [swap_adj].
  pose proof (valid_swapx x Hx) as Hx'. pose proof (wfl_wf _ _ Hw) as Hwf.
  destruct (Nat.eqb_spec L (S p)) as [->|Hne].
  - (* the pair is at the top *)
    assert (Hj : x (S (S p)) < sz (S p)).
    { specialize (Hx (S (S p))). unfold swap_sz, swap_idx in Hx.
      destruct (Nat.eqb_spec (S (S p)) (S p)); [lia|]. now rewrite Nat.eqb_refl in Hx. }
    assert (Hi : x (S p) < sz (S (S p))).
    { specialize (Hx (S p)). unfold swap_sz, swap_idx in Hx. now rewrite Nat.eqb_refl in Hx. }
    rewrite (mk_eval sz' r (S p) 0 _ x Hx).
    + rewrite nth_map_seq by exact Hj.
      rewrite (mk_eval sz' r p 0 _ x Hx).
      * rewrite nth_map_seq by exact Hi.
        rewrite <- (unpack_eval sz r (S p) 0 t (swapx p x) Hx' (wf_top _ _ Hwf) (cx_triv _ _ _)).
        assert (E1 : swapx p x (S (S p)) = x (S p)).
        { unfold swapx, swap_idx. destruct (Nat.eqb_spec (S (S p)) (S p)); [lia|]. now rewrite Nat.eqb_refl. }
        assert (E2 : swapx p x (S p) = x (S (S p))).
        { unfold swapx, swap_idx. now rewrite Nat.eqb_refl. }
        rewrite E1.
        set (c := nth (x (S p)) (unpack sz r (S (S p)) 0 t) zero).
        assert (Hwc : wf (S p) c) by (apply wfl_wf, wfl_unpack; exact Hw).
        rewrite <- (unpack_eval sz r p 0 c (swapx p x) Hx' (wf_top _ _ Hwc) (cx_triv _ _ _)).
        rewrite E2. apply evalL_ext. intros k Hk. rewrite dep_nir in Hk. symmetry. apply swapx_below. lia.
      * rewrite map_length, seq_length. unfold swap_sz, swap_idx. now rewrite Nat.eqb_refl.
      * intros i. destruct (Nat.lt_ge_cases i (sz (S (S p)))) as [Hi'|Hi'].
        -- rewrite nth_map_seq by exact Hi'. apply wf_top, wfl_wf. apply wfl_unpack. now apply wfl_unpack.
        -- rewrite nth_overflow by (now rewrite map_length, seq_length). cbn. lia.
      * apply cx_triv.
    + rewrite map_length, seq_length. unfold swap_sz, swap_idx.
      destruct (Nat.eqb_spec (S (S p)) (S p)); [lia|]. now rewrite Nat.eqb_refl.
    + intros j. destruct (Nat.lt_ge_cases j (sz (S p))) as [Hj'|Hj'].
      * rewrite nth_map_seq by exact Hj'. apply mk_top. intros i.
        destruct (Nat.lt_ge_cases i (sz (S (S p)))) as [Hi'|Hi'].
        -- rewrite nth_map_seq by exact Hi'. apply wf_top, wfl_wf. apply wfl_unpack. now apply wfl_unpack.
        -- rewrite nth_overflow by (now rewrite map_length, seq_length). cbn. lia.
      * rewrite nth_overflow by (now rewrite map_length, seq_length). cbn. lia.
    + apply cx_triv.
  - (* the pair lies below the top level *)
    destruct (Nat.ltb_spec (S p) L) as [Hlt|Hge]; [|lia].
    assert (Hsame : swapx p x (S L) = x (S L)) by (apply swapx_above; lia).
    assert (Hszl : sz' (S L) = sz (S L)).
    { unfold swap_sz, swap_idx. destruct (Nat.eqb_spec (S L) (S p)); [lia|].
      destruct (Nat.eqb_spec (S L) (S (S p))); [lia|reflexivity]. }
    rewrite <- (unpack_eval sz r L 0 t (swapx p x) Hx' (wf_top _ _ Hwf) (cx_triv _ _ _)). rewrite Hsame.
    pose proof (unpack_len L t Hw) as Hlen.
    assert (Hin : x (S L) < length (unpack sz r (S L) 0 t)).
    { rewrite Hlen, <- Hszl. apply Hx. }
    rewrite (mk_eval sz' r L 0 _ x Hx).
    + rewrite (nth_indep _ zero (swap_adj sz r p L zero)) by (now rewrite map_length).
      rewrite (map_nth (swap_adj sz r p L)). apply IH; [lia|now apply wfl_unpack|exact Hx].
    + now rewrite map_length, Hszl.
    + intros i. destruct (Nat.lt_ge_cases i (length (unpack sz r (S L) 0 t))) as [Hi|Hi].
      * rewrite (nth_indep _ zero (swap_adj sz r p L zero)) by (now rewrite map_length).
        rewrite (map_nth (swap_adj sz r p L)). apply swap_top. now apply wfl_unpack.
      * rewrite nth_overflow by (now rewrite map_length). cbn. lia.
    + apply cx_triv.
Qed.

(** reduced diagrams are well formed in this sense *)
Lemma reduced_wfl : forall L from t, reducedb sz r L from t = true -> wfl L t.
Proof.
  induction L as [|L IH]; intros from t H.
  - destruct t; cbn in *; [reflexivity|discriminate].
  - destruct (Nat.eq_dec (top t) (S L)) as [E|E].
    + destruct t as [v|k cs]; cbn in E; [lia|]. subst k.
      apply (reduced_node sz r) in H. destruct H as (Hlen & _ & _ & Hc).
      cbn. rewrite Nat.eqb_refl. split; [exact Hlen|]. apply Forall_forall. intros c Hin.
      destruct (In_nth _ _ zero Hin) as (i & Hi & <-). eapply IH. apply Hc, Hi.
    + apply (reduced_skip sz r) in H; [|exact E]. destruct H as [_ H].
      destruct t as [v|k cs]; cbn; [exact I|].
      cbn in E. destruct (Nat.eqb_spec k (S L)); [contradiction|]. eapply IH, H.
Qed.

End SwapP.
