(** * C08 / C20: saturation and chaotic iteration.

    (1) [closed_sound_is_lfp]: a set that contains the initial states, contains
        only reachable states and is closed under the relation IS the set of
        reachable states.
    (2) [fire_seq_sound] / [chaotic_lfp]: any sequence of firings of single
        events on arbitrary parts of the current set stays inside the
        reachable states of the union of the events; if the final set is
        closed under every event it is exactly that reachable set -- the
        order, grouping and multiplicity of the firings are irrelevant.
    (3) [saturate_lfp]: the level-wise nested fixed point (saturation) returns
        exactly the states reachable under the union of all the levels'
        events. *)
From Coq Require Import List Arith Bool Lia.
From Meddly Require Import Model.Reach Proofs.ReachP.
Import ListNotations.
Local Open Scope nat_scope.

Section SaturP.
Variable St : Type.
Variable states : list St.

Notation Reach := (Reach St states).
Notation img := (img St states).
Notation same_set := (same_set St states).

Lemma Reach_in R init y : Reach R init y -> In y states.
Proof. induction 1; assumption. Qed.

Theorem closed_sound_is_lfp : forall (R : St -> St -> bool) (init S : St -> bool),
  (forall y, In y states -> init y = true -> S y = true) ->
  (forall y, In y states -> S y = true -> Reach R init y) ->
  (forall x y, In x states -> In y states -> S x = true -> R x y = true -> S y = true) ->
  forall y, In y states -> (S y = true <-> Reach R init y).
Proof.
  intros R init S Hinit Hsound Hclosed y Hy. split; [now apply Hsound|].
  induction 1 as [x Hx Hi|x z Hxr IHx Hz HR].
  - now apply Hinit.
  - apply (Hclosed x z); [apply (Reach_in _ _ _ Hxr)|exact Hz|apply IHx, (Reach_in _ _ _ Hxr)|exact HR].
Qed.

Lemma union_rel_spec evs x y :
  union_rel St evs x y = true <-> exists e, In e evs /\ e x y = true.
Proof. unfold union_rel. apply existsb_exists. Qed.

(** ** chaotic iteration *)

(** "S lies inside every set that contains S0 and is closed under the events" *)
Definition below_closed (evs : list (St -> St -> bool)) (S0 S : St -> bool) : Prop :=
  forall T : St -> Prop,
    (forall y, In y states -> S0 y = true -> T y) ->
    (forall e x y, In e evs -> In x states -> In y states -> T x -> e x y = true -> T y) ->
    forall y, In y states -> S y = true -> T y.

Lemma below_closed_refl evs S : below_closed evs S S.
Proof. intros T H0 _ y Hy Hs. now apply H0. Qed.

Lemma below_closed_trans evs S0 S1 S2 :
  below_closed evs S0 S1 -> below_closed evs S1 S2 -> below_closed evs S0 S2.
Proof.
  intros H1 H2 T H0 Hc y Hy Hs. apply (H2 T); auto.
  intros z Hz Hs1. apply (H1 T); auto.
Qed.

Lemma below_closed_weaken evs evs' S0 S :
  (forall e, In e evs -> In e evs') -> below_closed evs S0 S -> below_closed evs' S0 S.
Proof.
  intros Hsub H T H0 Hc. apply H; auto.
  intros e x y He. apply Hc. now apply Hsub.
Qed.

Lemma fire_below evs e sel S :
  In e evs -> below_closed evs S (fire St states e sel S).
Proof.
  intros He T H0 Hc y Hy Hs. unfold fire in Hs. apply orb_true_iff in Hs.
  destruct Hs as [Hs|Hs]; [now apply H0|].
  apply img_spec in Hs. destruct Hs as (x & Hx & Hsx & Hr).
  apply andb_true_iff in Hsx. destruct Hsx as [Hsx _].
  apply (Hc e x y); auto.
Qed.

Lemma fire_seq_below evs : forall sched S,
  (forall p, In p sched -> In (fst p) evs) ->
  below_closed evs S (fire_seq St states sched S).
Proof.
  induction sched as [|p sched IH]; intros S Hev; cbn.
  - apply below_closed_refl.
  - eapply below_closed_trans.
    + apply (fire_below evs (fst p) (snd p) S). apply Hev. now left.
    + apply IH. intros q Hq. apply Hev. now right.
Qed.

Lemma fire_seq_grows : forall sched S y,
  S y = true -> fire_seq St states sched S y = true.
Proof.
  induction sched as [|p sched IH]; intros S y Hs; cbn; [exact Hs|].
  apply IH. unfold fire. now rewrite Hs.
Qed.

Lemma below_closed_reach evs init S :
  below_closed evs init S ->
  forall y, In y states -> S y = true -> Reach (union_rel St evs) init y.
Proof.
  intros H y Hy Hs. apply (H (fun y => Reach (union_rel St evs) init y)); auto.
  - intros z Hz Hi. now apply Reach0.
  - intros e x z He Hx Hz Hr Hexz. eapply ReachS; eauto.
    apply union_rel_spec. now exists e.
Qed.

Theorem fire_seq_sound : forall evs sched init,
  (forall p, In p sched -> In (fst p) evs) ->
  forall y, In y states -> fire_seq St states sched init y = true ->
  Reach (union_rel St evs) init y.
Proof.
  intros evs sched init Hev. apply below_closed_reach. now apply fire_seq_below.
Qed.

Theorem chaotic_lfp : forall evs sched init,
  (forall p, In p sched -> In (fst p) evs) ->
  let S := fire_seq St states sched init in
  (forall e x y, In e evs -> In x states -> In y states ->
     S x = true -> e x y = true -> S y = true) ->
  forall y, In y states -> (S y = true <-> Reach (union_rel St evs) init y).
Proof.
  intros evs sched init Hev S Hclosed.
  apply closed_sound_is_lfp.
  - intros y _ Hi. now apply fire_seq_grows.
  - now apply fire_seq_sound.
  - intros x y Hx Hy Hs Hr. apply union_rel_spec in Hr. destruct Hr as (e & He & Hr).
    apply (Hclosed e x y); auto.
Qed.

(** ** the nested fixed point *)

Definition sat_ok (lv : list (St -> St -> bool)) (S0 S : St -> bool) : Prop :=
  (forall y, In y states -> S0 y = true -> S y = true) /\
  below_closed lv S0 S /\
  (forall e x y, In e lv -> In x states -> In y states ->
     S x = true -> e x y = true -> S y = true).

Lemma sat_loop_ok E lower (sub : (St -> bool) -> option (St -> bool)) :
  (forall S0 S, sub S0 = Some S -> sat_ok lower S0 S) ->
  forall n S0 S, sat_loop St states sub E n S0 = Some S -> sat_ok (E :: lower) S0 S.
Proof.
  intros Hsub. induction n as [|n IH]; intros S0 S; cbn; [discriminate|].
  destruct (sub S0) as [S1|] eqn:E1; [|discriminate].
  destruct (Hsub S0 S1 E1) as (G1 & B1 & C1).
  destruct (same_set S0 (fun y => S1 y || img E S1 y)) eqn:Es.
  - intros H; injection H as <-. rewrite same_set_spec in Es.
    assert (Heq : forall y, In y states -> S1 y = S0 y).
    { intros y Hy. destruct (S0 y) eqn:E0.
      - now apply G1.
      - specialize (Es y Hy). rewrite E0 in Es. symmetry in Es.
        apply orb_false_iff in Es. tauto. }
    split; [auto|]. split; [apply below_closed_refl|].
    intros e x y [<-|He] Hx Hy Hs Hr.
    + rewrite (Es y Hy). apply orb_true_iff. right. apply img_spec.
      exists x. rewrite (Heq x Hx). auto.
    + rewrite <- (Heq y Hy). apply (C1 e x y); auto; now rewrite (Heq x Hx).
  - intros H. destruct (IH _ _ H) as (G2 & B2 & C2).
    assert (Bstep : below_closed (E :: lower) S0 (fun y => S1 y || img E S1 y)).
    { intros T H0 Hc y Hy Hs.
      assert (HT1 : forall z, In z states -> S1 z = true -> T z).
      { apply (B1 T); auto. intros e x z He. apply Hc. now right. }
      apply orb_true_iff in Hs. destruct Hs as [Hs|Hs]; [now apply HT1|].
      apply img_spec in Hs. destruct Hs as (x & Hx & Hsx & Hr).
      apply (Hc E x y); auto. now left. }
    split; [|split].
    + intros y Hy H0. apply G2; auto. rewrite (G1 y Hy H0). reflexivity.
    + eapply below_closed_trans; eauto.
    + exact C2.
Qed.

Lemma saturate_ok : forall lv fuel S0 S,
  saturate St states lv fuel S0 = Some S -> sat_ok lv S0 S.
Proof.
  induction lv as [|E lower IH]; intros fuel S0 S; cbn.
  - intros H; injection H as <-. split; [auto|]. split; [apply below_closed_refl|].
    intros e x y [].
  - apply sat_loop_ok. intros S0' S'. apply IH.
Qed.

Theorem saturate_lfp : forall lv fuel init S,
  saturate St states lv fuel init = Some S ->
  forall y, In y states -> (S y = true <-> Reach (union_rel St lv) init y).
Proof.
  intros lv fuel init S H. destruct (saturate_ok lv fuel init S H) as (G & B & C).
  apply closed_sound_is_lfp; auto.
  - now apply below_closed_reach.
  - intros x y Hx Hy Hs Hr. apply union_rel_spec in Hr. destruct Hr as (e & He & Hr).
    apply (C e x y); auto.
Qed.

(** ** termination: |states|+1 rounds suffice at every level *)
Notation card := (card St states).

Lemma filter_mono (S S' : St -> bool) : forall l,
  (forall y, In y l -> S y = true -> S' y = true) ->
  length (filter S l) <= length (filter S' l) /\
  (forallb (fun y => Bool.eqb (S y) (S' y)) l = false ->
   length (filter S l) < length (filter S' l)).
Proof.
  induction l as [|x l IH]; intros Hsub; cbn; [split; [lia|discriminate]|].
  destruct (IH (fun y Hy => Hsub y (or_intror Hy))) as [Hle Hlt].
  pose proof (Hsub x (or_introl eq_refl)) as Hx.
  destruct (S x) eqn:E1.
  - rewrite (Hx eq_refl). cbn. split; [lia|]. intros H. specialize (Hlt H). lia.
  - destruct (S' x) eqn:E2; cbn; split; try lia.
    intros H. specialize (Hlt H). lia.
Qed.

Lemma card_grows_in (S S' : St -> bool) :
  (forall y, In y states -> S y = true -> S' y = true) ->
  same_set S S' = false -> card S < card S'.
Proof. intros Hsub H. apply (proj2 (filter_mono S S' states Hsub)). exact H. Qed.

Lemma sat_loop_terminates E lower (sub : (St -> bool) -> option (St -> bool)) :
  (forall S0, sub S0 <> None) ->
  (forall S0 S, sub S0 = Some S -> sat_ok lower S0 S) ->
  forall n S0, length states - card S0 < n -> sat_loop St states sub E n S0 <> None.
Proof.
  intros Htot Hsub. induction n as [|n IH]; intros S0 Hn; [lia|]. cbn.
  destruct (sub S0) as [S1|] eqn:E1; [|exfalso; now apply (Htot S0)].
  destruct (Hsub S0 S1 E1) as (G1 & _ & _).
  destruct (same_set S0 (fun y => S1 y || img E S1 y)) eqn:Es; [discriminate|].
  apply IH.
  assert (card S0 < card (fun y => S1 y || img E S1 y)).
  { apply card_grows_in; [|exact Es]. intros y Hy H0. now rewrite (G1 y Hy H0). }
  pose proof (card_le St states (fun y => S1 y || img E S1 y)). lia.
Qed.

Theorem saturate_terminates : forall lv S0,
  saturate St states lv (S (length states)) S0 <> None.
Proof.
  induction lv as [|E lower IH]; intros S0; cbn -[sat_loop]; [discriminate|].
  apply (sat_loop_terminates E lower); auto.
  - intros S1 S2. apply saturate_ok.
  - pose proof (card_le St states S0). lia.
Qed.

(** the frontier iteration terminates as well: every round with a non-empty
    new frontier adds a state *)
Lemma bfs_front_terminates R : forall fuel S0 F,
  length states - card S0 + 2 <= fuel -> bfs_front St states R fuel S0 F <> None.
Proof.
  induction fuel as [|fuel IH]; intros S0 F Hf; [lia|]. cbn.
  destruct (empty_set St states F) eqn:E; [discriminate|].
  set (S' := fun y => S0 y || img R F y).
  set (F' := fun y => S' y && negb (S0 y)).
  destruct (empty_set St states F') eqn:E'.
  - destruct fuel as [|fuel]; [lia|]. cbn. unfold F', S' in E'. rewrite E'. discriminate.
  - apply IH.
    assert (card S0 < card S').
    { apply card_grows_in.
      - intros y _ Hy. unfold S'. now rewrite Hy.
      - destruct (same_set S0 S') eqn:Es; [|reflexivity].
        rewrite same_set_spec in Es.
        assert (Hemp : empty_set St states F' = true); [|congruence].
        apply empty_set_spec. intros y Hy. unfold F'. rewrite <- (Es y Hy).
        destruct (S0 y); reflexivity. }
    pose proof (card_le St states S'). lia.
Qed.

(** saturation and the breadth-first iteration over the union agree on every state *)
Corollary saturate_agrees_with_bfs : forall lv fuel fuel' init S S',
  saturate St states lv fuel init = Some S ->
  bfs St states (union_rel St lv) fuel' init = Some S' ->
  forall y, In y states -> S y = S' y.
Proof.
  intros lv fuel fuel' init S S' H1 H2 y Hy.
  pose proof (saturate_lfp lv fuel init S H1 y Hy) as A.
  pose proof (bfs_lfp St states (union_rel St lv) fuel' init init S'
               (fun _ _ h => h) (fun z Hz Hi => Reach0 St states _ init z Hz Hi) H2 y Hy) as B.
  destruct (S y), (S' y); auto; [symmetry; apply B, A; reflexivity | apply A, B; reflexivity].
Qed.

End SaturP.
