(** * C18 (free-list manager): the deterministic replica of freelists.cc, which
    the correspondence check compares with the implementation response by
    response, only ever produces responses that the acceptance monitor accepts:
    for every history of requests and recycles of live chunks, every chunk it
    hands out is disjoint from all live chunks (and all live chunks stay
    pairwise disjoint by [accept_all_safe]). *)
From Coq Require Import List ZArith Bool Arith Lia.
From Meddly Require Import Model.MemSpec Proofs.MemSpecP.
Import ListNotations.
Local Open Scope Z_scope.

(** the joint system: the replica answers, the monitor checks *)
Inductive cop := CReq (id : nat) (n : Z) | CRec (id : nat).

Definition find_chunk (id : nat) (s : state) : option chunk :=
  find (fun c => Nat.eqb (c_id c) id) s.

Definition sys_step (st : fl_state * state) (o : cop) : option (fl_state * state) :=
  let (fl, live) := st in
  match o with
  | CReq id n =>
      match fl_request fl n with
      | Some (fl', h) =>
          match accept live (Req id n h n) with
          | Some live' => Some (fl', live')
          | None => None
          end
      | None => None
      end
  | CRec id =>
      match find_chunk id live with
      | Some c =>
          match accept live (Rec id) with
          | Some live' => Some (fl_recycle fl (c_addr c) (c_got c), live')
          | None => None
          end
      | None => None
      end
  end.

(** what the client guarantees: sizes within the manager's range, fresh
    identifiers, only live chunks are recycled *)
Definition legal (st : fl_state * state) (o : cop) : Prop :=
  match o with
  | CReq id n => 1 <= n <= fl_max /\ has_id id (snd st) = false
  | CRec id => has_id id (snd st) = true
  end.

Definition L (fl : fl_state) (i : nat) : list Z := nth i (fl_lists fl) [].

Definition dis (h n h' n' : Z) : Prop := h + n <= h' \/ h' + n' <= h.

Record Inv (fl : fl_state) (live : state) : Prop := {
  i_len : length (fl_lists fl) = 16%nat;
  i_top : 1 <= fl_top fl;
  i_live : forall c, In c live ->
           c_got c = c_req c /\ 1 <= c_req c <= fl_max /\ 1 <= c_addr c /\ c_addr c + c_got c <= fl_top fl;
  i_free : forall i a h, (i < 16)%nat -> nth_error (L fl i) a = Some h ->
           (1 <= i)%nat /\ 1 <= h /\ h + Z.of_nat i <= fl_top fl /\
           forall c, In c live -> dis h (Z.of_nat i) (c_addr c) (c_got c);
  i_pair : forall i j a b h h', (i < 16)%nat -> (j < 16)%nat ->
           nth_error (L fl i) a = Some h -> nth_error (L fl j) b = Some h' ->
           (i <> j \/ a <> b) -> dis h (Z.of_nat i) h' (Z.of_nat j)
}.

Lemma nth_set_nth {A} (d : A) i j x (l : list A) : (i < length l)%nat ->
  nth j (set_nth i x l) d = if Nat.eqb j i then x else nth j l d.
Proof.
  intros Hi. unfold set_nth. destruct (Nat.eqb_spec j i) as [->|Hne].
  - rewrite app_nth2 by (rewrite firstn_length; lia).
    rewrite firstn_length, Nat.min_l by lia. now rewrite Nat.sub_diag.
  - destruct (Nat.lt_ge_cases j i) as [Hlt|Hge].
    + rewrite app_nth1 by (rewrite firstn_length; lia).
      rewrite <- (firstn_skipn i l) at 2. rewrite app_nth1 by (rewrite firstn_length; lia). reflexivity.
    + rewrite app_nth2 by (rewrite firstn_length; lia).
      rewrite firstn_length, Nat.min_l by lia.
      destruct (j - i)%nat as [|m] eqn:Em; [lia|]. cbn [nth].
      rewrite <- (firstn_skipn (S i) l) at 2.
      rewrite app_nth2 by (rewrite firstn_length; lia).
      rewrite firstn_length, Nat.min_l by lia. f_equal. lia.
Qed.

Lemma length_set_nth {A} i (x : A) l : (i < length l)%nat -> length (set_nth i x l) = length l.
Proof.
  intros Hi. unfold set_nth. rewrite app_length, firstn_length, Nat.min_l by lia.
  cbn [length]. rewrite skipn_length. lia.
Qed.

Lemma find_chunk_in id s c : find_chunk id s = Some c -> In c s /\ c_id c = id.
Proof.
  unfold find_chunk. intros H. apply find_some in H. destruct H as [H1 H2].
  split; [exact H1|now apply Nat.eqb_eq].
Qed.

Lemma has_id_find id s : has_id id s = true -> exists c, find_chunk id s = Some c.
Proof.
  unfold has_id, find_chunk. intros H. apply existsb_exists in H. destruct H as (c & Hc & He).
  destruct (find (fun c0 => Nat.eqb (c_id c0) id) s) as [x|] eqn:E; [now exists x|].
  pose proof (find_none _ _ E c Hc) as Hn. cbn in Hn. congruence.
Qed.

Lemma in_drop_id id s c : In c (drop_id id s) -> In c s /\ c_id c <> id.
Proof.
  unfold drop_id. rewrite filter_In. intros [H1 H2]. split; [exact H1|].
  apply negb_true_iff, Nat.eqb_neq in H2. exact H2.
Qed.

Theorem sys_step_ok fl live o :
  Inv fl live -> Safe live -> legal (fl, live) o ->
  exists fl' live', sys_step (fl, live) o = Some (fl', live') /\ Inv fl' live' /\ Safe live'.
Proof.
  intros HI Hs Hl. destruct o as [id n|id]; cbn [sys_step legal snd] in *.
  - (* request *)
    destruct Hl as [Hn Hfresh]. unfold fl_request.
    destruct (Z.ltb_spec fl_max n) as [|_]; [lia|]. destruct (Z.ltb_spec n 1) as [|_]; [lia|].
    assert (Hi16 : (Z.to_nat n < 16)%nat) by (unfold fl_max in Hn; lia).
    assert (Hzn : Z.of_nat (Z.to_nat n) = n) by lia.
    fold (L fl (Z.to_nat n)).
    destruct (L fl (Z.to_nat n)) as [|h rest] eqn:EL.
    + (* fresh memory at the top *)
      assert (Hacc : accept live (Req id n (fl_top fl) n) =
                     Some ({| c_id := id; c_addr := fl_top fl; c_req := n; c_got := n |} :: live)).
      { cbn [accept]. pose proof (i_top _ _ HI).
        destruct (Z.leb_spec 1 n); [|lia]. destruct (Z.leb_spec n n); [|lia].
        destruct (Z.leb_spec 1 (fl_top fl)); [|lia]. cbn [andb].
        assert (Hd : forallb (fun c => disjointb (fl_top fl) n (c_addr c) (c_got c)) live = true).
        { apply forallb_forall. intros c Hc. destruct (i_live _ _ HI c Hc) as (_ & _ & _ & Ht).
          unfold disjointb. apply orb_true_iff. right. apply Z.leb_le. exact Ht. }
        rewrite Hd, Hfresh. reflexivity. }
      rewrite Hacc. eexists _, _. split; [reflexivity|]. split.
      * constructor; cbn [fl_lists fl_top].
        -- apply (i_len _ _ HI).
        -- pose proof (i_top _ _ HI). lia.
        -- intros c [<-|Hc]; cbn.
           ++ pose proof (i_top _ _ HI). unfold fl_max in *. lia.
           ++ destruct (i_live _ _ HI c Hc) as (A & B & C & D). repeat split; try lia.
        -- intros i a h0 Hi Hh. unfold L in Hh. cbn [fl_lists] in Hh.
           destruct (i_free _ _ HI i a h0 Hi Hh) as (A & B & C & D).
           repeat split; try lia. intros c [<-|Hc]; cbn; [left; lia|now apply D].
        -- intros i j a b h0 h1 Hi Hj Ha Hb Hne. unfold L in Ha, Hb. cbn [fl_lists] in Ha, Hb.
           now apply (i_pair _ _ HI i j a b).
      * eapply accept_safe; [exact Hs|exact Hacc].
    + (* a recycled chunk of exactly this size *)
      assert (Hh0 : nth_error (L fl (Z.to_nat n)) 0 = Some h) by (rewrite EL; reflexivity).
      destruct (i_free _ _ HI _ _ _ Hi16 Hh0) as (A & B & C & D). rewrite Hzn in C, D.
      assert (Hacc : accept live (Req id n h n) =
                     Some ({| c_id := id; c_addr := h; c_req := n; c_got := n |} :: live)).
      { cbn [accept].
        destruct (Z.leb_spec 1 n); [|lia]. destruct (Z.leb_spec n n); [|lia].
        destruct (Z.leb_spec 1 h); [|lia]. cbn [andb].
        assert (Hd : forallb (fun c => disjointb h n (c_addr c) (c_got c)) live = true).
        { apply forallb_forall. intros c Hc. unfold disjointb. apply orb_true_iff.
          destruct (D c Hc) as [Hd1|Hd1]; [left|right]; now apply Z.leb_le. }
        rewrite Hd, Hfresh. reflexivity. }
      rewrite Hacc. eexists _, _. split; [reflexivity|]. split.
      * assert (Hlen : (Z.to_nat n < length (fl_lists fl))%nat) by (rewrite (i_len _ _ HI); exact Hi16).
        assert (HL' : forall i, L {| fl_lists := set_nth (Z.to_nat n) rest (fl_lists fl); fl_top := fl_top fl |} i
                               = if Nat.eqb i (Z.to_nat n) then rest else L fl i).
        { intros i. unfold L. cbn [fl_lists]. now apply nth_set_nth. }
        constructor; cbn [fl_top].
        -- cbn [fl_lists]. rewrite length_set_nth by exact Hlen. apply (i_len _ _ HI).
        -- apply (i_top _ _ HI).
        -- intros c [<-|Hc]; cbn; [unfold fl_max in *; lia|]. apply (i_live _ _ HI c Hc).
        -- intros i a h0 Hi Hh. rewrite HL' in Hh.
           assert (Hold : exists a', nth_error (L fl i) a' = Some h0 /\ (i <> Z.to_nat n \/ a' <> 0%nat)).
           { destruct (Nat.eqb_spec i (Z.to_nat n)) as [->|Hne].
             - exists (S a). rewrite EL. cbn. split; [exact Hh|right; lia].
             - exists a. split; [exact Hh|now left]. }
           destruct Hold as (a' & Ha' & Hne).
           destruct (i_free _ _ HI i a' h0 Hi Ha') as (A' & B' & C' & D').
           repeat split; try lia. intros c [<-|Hc]; cbn; [|now apply D'].
           pose proof (i_pair _ _ HI i (Z.to_nat n) a' 0%nat h0 h Hi Hi16 Ha' Hh0 Hne) as Hp.
           rewrite Hzn in Hp. exact Hp.
        -- intros i j a b h0 h1 Hi Hj Ha Hb Hne. rewrite HL' in Ha, Hb.
           set (a' := if Nat.eqb i (Z.to_nat n) then S a else a).
           set (b' := if Nat.eqb j (Z.to_nat n) then S b else b).
           assert (Ha' : nth_error (L fl i) a' = Some h0).
           { unfold a'. destruct (Nat.eqb_spec i (Z.to_nat n)) as [->|]; [rewrite EL; exact Ha|exact Ha]. }
           assert (Hb' : nth_error (L fl j) b' = Some h1).
           { unfold b'. destruct (Nat.eqb_spec j (Z.to_nat n)) as [->|]; [rewrite EL; exact Hb|exact Hb]. }
           apply (i_pair _ _ HI i j a' b' h0 h1 Hi Hj Ha' Hb').
           unfold a', b'. destruct Hne as [Hne|Hne]; [now left|].
           destruct (Nat.eq_dec i j) as [->|Hij]; [|now left]. right.
           destruct (Nat.eqb j (Z.to_nat n)); lia.
      * eapply accept_safe; [exact Hs|exact Hacc].
  - (* recycle *)
    destruct (has_id_find _ _ Hl) as (c & Hc). rewrite Hc.
    destruct (find_chunk_in _ _ _ Hc) as [Hcin Hcid].
    cbn [accept]. rewrite Hl. eexists _, _. split; [reflexivity|].
    destruct (i_live _ _ HI c Hcin) as (Eg & Hr & Ha1 & Htop).
    assert (Hi16 : (Z.to_nat (c_got c) < 16)%nat) by (unfold fl_max in Hr; lia).
    assert (Hzn : Z.of_nat (Z.to_nat (c_got c)) = c_got c) by lia.
    assert (Hlen : (Z.to_nat (c_got c) < length (fl_lists fl))%nat) by (rewrite (i_len _ _ HI); exact Hi16).
    set (k := Z.to_nat (c_got c)) in *.
    assert (Hk1 : (1 <= k)%nat) by (unfold k; lia).
    assert (HL' : forall i, L (fl_recycle fl (c_addr c) (c_got c)) i
                           = if Nat.eqb i k then c_addr c :: L fl k else L fl i).
    { intros i. unfold L, fl_recycle. cbn [fl_lists]. fold k. now apply nth_set_nth. }
    (* the recycled chunk is disjoint from every other live chunk *)
    assert (Hother : forall e, In e (drop_id id live) -> dis (c_addr c) (c_got c) (c_addr e) (c_got e)).
    { intros e He. apply in_drop_id in He. destruct He as [He Hne].
      pose proof (Safe_pairwise live Hs c e Hcin He ltac:(congruence)) as Hno.
      unfold overlap in Hno. unfold dis. lia. }
    assert (Htop' : fl_top (fl_recycle fl (c_addr c) (c_got c)) = fl_top fl) by reflexivity.
    split.
    + constructor; rewrite ?Htop'.
      * unfold fl_recycle. cbn [fl_lists]. fold k. rewrite length_set_nth by exact Hlen. apply (i_len _ _ HI).
      * apply (i_top _ _ HI).
      * intros e He. apply in_drop_id in He. apply (i_live _ _ HI e (proj1 He)).
      * intros i a h0 Hi Hh. rewrite HL' in Hh.
        destruct (Nat.eqb_spec i k) as [->|Hne].
        -- destruct a as [|a]; cbn in Hh.
           ++ injection Hh as <-. rewrite Hzn. split; [exact Hk1|]. split; [lia|]. split; [lia|exact Hother].
           ++ destruct (i_free _ _ HI k a h0 Hi16 Hh) as (A' & B' & C' & D').
              repeat split; try lia. intros e He. apply in_drop_id in He. apply D', He.
        -- destruct (i_free _ _ HI i a h0 Hi Hh) as (A' & B' & C' & D').
           repeat split; try lia. intros e He. apply in_drop_id in He. apply D', He.
      * intros i j a b h0 h1 Hi Hj Ha Hb Hne. rewrite HL' in Ha, Hb.
        (* positions in the old lists, or the new block *)
        assert (Hnew : forall i a h0, (i < 16)%nat ->
                  nth_error (if Nat.eqb i k then c_addr c :: L fl k else L fl i) a = Some h0 ->
                  (i = k /\ a = 0%nat /\ h0 = c_addr c) \/
                  (exists a', nth_error (L fl i) a' = Some h0 /\ a' = (if Nat.eqb i k then a - 1 else a)%nat /\
                              (Nat.eqb i k = true -> (1 <= a)%nat))).
        { intros i0 a0 x Hi0 Hx. destruct (Nat.eqb_spec i0 k) as [->|Hn0].
          - destruct a0 as [|a0]; cbn in Hx.
            + left. injection Hx as <-. auto.
            + right. exists a0. split; [exact Hx|]. split; [lia|intros _; lia].
          - right. exists a0. split; [exact Hx|]. split; [reflexivity|intros E; discriminate]. }
        destruct (Hnew i a h0 Hi Ha) as [(-> & -> & ->)|(a' & Ha' & Ea & Pa)];
          destruct (Hnew j b h1 Hj Hb) as [(-> & -> & ->)|(b' & Hb' & Eb & Pb)].
        -- exfalso. destruct Hne; lia.
        -- destruct (i_free _ _ HI j b' h1 Hj Hb') as (_ & _ & _ & D'). rewrite Hzn.
           specialize (D' c Hcin). unfold dis in *. lia.
        -- destruct (i_free _ _ HI i a' h0 Hi Ha') as (_ & _ & _ & D'). rewrite Hzn.
           specialize (D' c Hcin). unfold dis in *. lia.
        -- apply (i_pair _ _ HI i j a' b' h0 h1 Hi Hj Ha' Hb').
           destruct Hne as [Hne|Hne]; [now left|].
           destruct (Nat.eq_dec i j) as [->|Hij]; [|now left]. right. subst a' b'.
           destruct (Nat.eqb j k) eqn:Ejk; [|exact Hne].
           specialize (Pa eq_refl). specialize (Pb eq_refl). lia.
    + now apply Safe_drop.
Qed.

(** every legal history runs to the end with every response accepted *)
Fixpoint legal_run (st : fl_state * state) (os : list cop) : Prop :=
  match os with
  | [] => True
  | o :: r => legal st o /\ forall st', sys_step st o = Some st' -> legal_run st' r
  end.

Lemma L_init i : L fl_init i = [].
Proof. unfold L, fl_init. cbn [fl_lists]. apply nth_repeat. Qed.

Lemma Inv_init : Inv fl_init [].
Proof.
  constructor.
  - reflexivity.
  - cbn. lia.
  - intros c [].
  - intros i a h Hi Hh. exfalso. rewrite L_init in Hh. destruct a; discriminate.
  - intros i j a b h h' Hi Hj Ha. exfalso. rewrite L_init in Ha. destruct a; discriminate.
Qed.

Theorem freelist_never_rejected : forall os fl live,
  Inv fl live -> Safe live -> legal_run (fl, live) os ->
  exists fl' live', fold_left (fun st o => match st with
                                           | Some s => sys_step s o
                                           | None => None end) os (Some (fl, live))
                    = Some (fl', live') /\ Inv fl' live' /\ Safe live'.
Proof.
  induction os as [|o os IH]; intros fl live HI Hs Hl; cbn [fold_left].
  - eexists _, _. split; [reflexivity|auto].
  - destruct Hl as [Hlo Hlr].
    destruct (sys_step_ok fl live o HI Hs Hlo) as (fl1 & live1 & E & HI1 & Hs1).
    rewrite E. apply IH; auto.
Qed.
