From Meddly Require Import Model.DD Model.Build Model.Enum Proofs.DDFacts Proofs.EnumP Proofs.IndexP.
From Coq Require Import List Arith NArith ZArith Bool Lia.
From Meddly Require Import Model.Product.
Import ListNotations.
Local Open Scope nat_scope.

(** strictly increasing, all below n *)
Fixpoint incr_below (lo n : nat) (l : list nat) : Prop :=
  match l with
  | [] => True
  | a :: r => lo <= a /\ a < n /\ incr_below (S a) n r
  end.

Lemma filter_seq_incr : forall l lo n, incr_below lo (lo + n) l ->
  filter (fun i => existsb (Nat.eqb i) l) (seq lo n) = l.
Proof.
  intros l lo n. revert l lo. induction n as [|n IH]; intros l lo H.
  - destruct l as [|a r]; [reflexivity|]. cbn in H. lia.
  - cbn [seq filter]. destruct l as [|a r].
    + cbn. clear. generalize (S lo). induction n as [|n IHn]; intros s; cbn; [reflexivity|apply IHn].
    + cbn [incr_below] in H. destruct H as (H1 & H2 & H3).
      destruct (Nat.eq_dec a lo) as [->|Hne].
      * cbn [existsb]. rewrite Nat.eqb_refl. cbn [orb]. f_equal.
        (* the rest of the list lies above lo *)
        assert (Hr : incr_below (S lo) (S lo + n) r) by (replace (S lo + n) with (lo + S n) by lia; exact H3).
        transitivity (filter (fun i => existsb (Nat.eqb i) r) (seq (S lo) n)); [|exact (IH r (S lo) Hr)].
        apply filter_ext_in. intros i Hi. apply in_seq in Hi. cbn [existsb].
        destruct (Nat.eqb_spec i lo); [lia|reflexivity].
      * assert (Hlo : existsb (Nat.eqb lo) (a :: r) = false).
        { clear IH. cbn [existsb]. destruct (Nat.eqb_spec lo a); [lia|]. cbn [orb].
          assert (G : forall r s, lo < s -> incr_below s (lo + S n) r -> existsb (Nat.eqb lo) r = false).
          { clear. induction r as [|b r IHr]; intros s Hs Hr; [reflexivity|]. cbn in Hr |- *.
            destruct Hr as (A & B & C). destruct (Nat.eqb_spec lo b); [lia|]. cbn.
            apply (IHr (S b)); [lia|exact C]. }
          apply (G r (S a)); [lia|exact H3]. }
        rewrite Hlo. apply IH. cbn [incr_below]. split; [lia|]. split; [lia|].
        replace (S lo + n) with (lo + S n) by lia. exact H3.
Qed.

Lemma seq_add_map s c : seq s c = map (fun r => s + r) (seq 0 c).
Proof.
  revert s. induction c as [|c IH]; intros s; cbn [seq map]; [reflexivity|].
  f_equal; [lia|]. rewrite (IH (S s)), <- (seq_shift c 0), map_map. apply map_ext. intros r. lia.
Qed.

Lemma seq_mul : forall n c, seq 0 (n * c) = flat_map (fun q => map (fun r => q * c + r) (seq 0 c)) (seq 0 n).
Proof.
  induction n as [|n IH]; intros c; [reflexivity|].
  rewrite seq_S, flat_map_app. cbn [flat_map]. rewrite app_nil_r, <- IH.
  replace (S n * c) with (n * c + c) by lia. rewrite seq_app. f_equal.
  cbn [Nat.add]. apply seq_add_map.
Qed.

Lemma flat_map_map_out {A B C} (f : B -> C) (g : A -> list B) (l : list A) :
  map f (flat_map g l) = flat_map (fun x => map f (g x)) l.
Proof. induction l as [|a l IH]; cbn; [reflexivity|]. now rewrite map_app, IH. Qed.

Lemma flat_map_map_in {A B C} (f : A -> B) (g : B -> list C) (l : list A) :
  flat_map g (map f l) = flat_map (fun x => g (f x)) l.
Proof. induction l as [|a l IH]; cbn; [reflexivity|]. now rewrite IH. Qed.

Lemma flat_map_ext_in {A B} (f g : A -> list B) (l : list A) :
  (forall x, In x l -> f x = g x) -> flat_map f l = flat_map g l.
Proof.
  induction l as [|a l IH]; intros H; cbn; [reflexivity|].
  rewrite (H a (or_introl eq_refl)), IH; [reflexivity|]. intros x Hx. apply H. now right.
Qed.

Lemma map_nth_seq (A : list nat) d : map (fun q => nth q A d) (seq 0 (length A)) = A.
Proof.
  induction A as [|a A IH]; [reflexivity|]. cbn [length seq map nth]. f_equal.
  rewrite <- seq_shift, map_map. exact IH.
Qed.

Section ProductP.
Variable sz : nat -> nat.
Variable al : nat -> list nat.

Definition al_ok (L : nat) : Prop := forall k, 1 <= k <= L -> incr_below 0 (sz k) (al k).

Lemma in_pset_S L x :
  in_pset al (S L) x = in_pset al L x && existsb (Nat.eqb (x (S L))) (al (S L)).
Proof.
  unfold in_pset. rewrite seq_S, forallb_app. cbn [forallb]. now rewrite andb_true_r.
Qed.

Lemma in_pset_upd L x k v : L < k -> in_pset al L (upd x k v) = in_pset al L x.
Proof.
  intros H. unfold in_pset. generalize (seq 1 L) (fun j => proj1 (in_seq L 1 j)).
  intros l Hl. induction l as [|j l IHl]; [reflexivity|]. cbn [forallb].
  rewrite upd_other by (specialize (Hl j (or_introl eq_refl)); lia).
  f_equal. apply IHl. intros j' Hj'. apply Hl. now right.
Qed.

(** the members of the product set, in the order of [all_asg], are the
    mixed-radix numerals *)
Theorem product_members : forall L, al_ok L ->
  filter (in_pset al L) (all_asg sz L) = map (unrank al L) (seq 0 (prod_count al L)).
Proof.
  induction L as [|L IH]; intros Hok.
  - reflexivity.
  - cbn [all_asg prod_count].
    assert (HokL : al_ok L) by (intros k Hk; apply Hok; lia).
    specialize (IH HokL).
    set (c := prod_count al L) in *.
    set (A := al (S L)).
    (* left: filter distributes over the outer enumeration *)
    assert (G : forall l, filter (in_pset al (S L))
               (flat_map (fun i => map (fun x => upd x (S L) i) (all_asg sz L)) l)
             = flat_map (fun v => map (fun r => upd (unrank al L r) (S L) v) (seq 0 c))
                 (filter (fun i => existsb (Nat.eqb i) A) l)).
    { induction l as [|i l IHl]; [reflexivity|].
      cbn [flat_map filter]. rewrite filter_app, IHl. clear IHl.
      assert (Hi : filter (in_pset al (S L)) (map (fun x => upd x (S L) i) (all_asg sz L))
                   = if existsb (Nat.eqb i) A then map (fun r => upd (unrank al L r) (S L) i) (seq 0 c) else []).
      { rewrite filter_map_commute.
        rewrite (filter_ext _ (fun x => in_pset al L x && existsb (Nat.eqb i) A)).
        2:{ intros x. rewrite in_pset_S, upd_same, in_pset_upd by lia. reflexivity. }
        destruct (existsb (Nat.eqb i) A).
        - rewrite (filter_ext _ (in_pset al L)) by (intros x; apply andb_true_r).
          rewrite IH, map_map. reflexivity.
        - rewrite (filter_ext _ (fun _ => false)) by (intros x; apply andb_false_r).
          clear. induction (all_asg sz L); [reflexivity|assumption]. }
      rewrite Hi. destruct (existsb (Nat.eqb i) A); reflexivity. }
    rewrite G. clear G.
    rewrite (filter_seq_incr A 0 (sz (S L))) by (apply Hok; lia).
    (* right: split the numerals into quotient and remainder *)
    destruct (Nat.eq_dec c 0) as [Hc0|Hc0].
    { rewrite Hc0, Nat.mul_0_r. cbn [seq map]. clear. induction A as [|a A IHA]; [reflexivity|exact IHA]. }
    rewrite seq_mul, flat_map_map_out.
    rewrite <- (map_nth_seq A 0) at 1. rewrite flat_map_map_in.
    apply flat_map_ext_in. intros q Hq. apply in_seq in Hq.
    rewrite map_map. apply map_ext_in. intros r Hr. apply in_seq in Hr.
    cbn [unrank]. fold c. fold A.
    replace ((q * c + r) mod c) with r.
    2:{ rewrite Nat.add_comm, Nat.mod_add by exact Hc0. symmetry. apply Nat.mod_small. lia. }
    replace ((q * c + r) / c) with q.
    2:{ rewrite Nat.add_comm, Nat.div_add by exact Hc0. rewrite Nat.div_small by lia. reflexivity. }
    reflexivity.
Qed.

End ProductP.

(** ** binary versions agree *)
Section Binary.
Variable al : nat -> list nat.

Lemma prod_countN_nat : forall L, prod_countN al L = N.of_nat (prod_count al L).
Proof.
  induction L as [|L IH]; [reflexivity|]. cbn [prod_countN prod_count].
  now rewrite IH, Nat2N.inj_mul.
Qed.

Lemma unrankN_nat : forall L i, unrankN al L i = unrank al L (N.to_nat i).
Proof.
  induction L as [|L IH]; intros i; [reflexivity|]. cbn [unrankN unrank].
  rewrite IH, prod_countN_nat, N2Nat.inj_mod, N2Nat.inj_div, Nat2N.id. reflexivity.
Qed.

Lemma rankN_upd : forall L x k v, L < k -> rankN al L (upd x k v) = rankN al L x.
Proof.
  induction L as [|L IH]; intros x k v H; [reflexivity|]. cbn [rankN].
  rewrite IH by lia. rewrite upd_other by lia. reflexivity.
Qed.

Lemma pos_in_nth : forall l lo n q, incr_below lo n l -> q < length l ->
  pos_in (nth q l 0) l = N.of_nat q.
Proof.
  induction l as [|a l IH]; intros lo n q Hl Hq; cbn in Hq; [lia|].
  cbn [incr_below] in Hl. destruct Hl as (H1 & H2 & H3).
  destruct q as [|q]; cbn [nth pos_in].
  - now rewrite Nat.eqb_refl.
  - assert (Hgt : a < nth q l 0).
    { clear IH. revert q Hq. generalize (S a) (Nat.lt_succ_diag_r a) H3. clear.
      induction l as [|b l IHl]; intros s Hs Hl q Hq; cbn in Hq; [lia|].
      cbn in Hl. destruct Hl as (A & B & C). destruct q as [|q]; cbn [nth]; [lia|].
      apply (IHl (S b)); [lia|exact C|lia]. }
    destruct (Nat.eqb_spec a (nth q l 0)); [lia|].
    rewrite (IH (S a) n q H3) by lia. lia.
Qed.

(** numbering and lookup are inverse *)
Theorem rank_unrank : forall L (sz : nat -> nat) i,
  al_ok sz al L -> (i < prod_countN al L)%N -> rankN al L (unrankN al L i) = i.
Proof.
  induction L as [|L IH]; intros sz i Hok Hi.
  - cbn in *. lia.
  - cbn [rankN unrankN]. cbn [prod_countN] in Hi.
    set (c := prod_countN al L) in *.
    assert (Hc : c <> 0%N) by (intros E; rewrite E in Hi; lia).
    rewrite upd_same, rankN_upd by lia.
    rewrite (IH sz) by (try (intros k Hk; apply Hok; lia); apply N.mod_lt; exact Hc).
    assert (Hq : N.to_nat (i / c) < length (al (S L))).
    { assert (i / c < N.of_nat (length (al (S L))))%N by (apply N.div_lt_upper_bound; lia). lia. }
    rewrite (pos_in_nth _ 0 (sz (S L))) by (try (apply Hok; lia); exact Hq).
    rewrite N2Nat.id. rewrite N.mul_comm. symmetry. apply N.div_mod. exact Hc.
Qed.

End Binary.

Lemma nth_error_seq : forall n s k, k < n -> nth_error (seq s n) k = Some (s + k).
Proof.
  induction n as [|n IH]; intros s k H; [lia|]. destruct k as [|k]; cbn [seq nth_error].
  - f_equal. lia.
  - rewrite IH by lia. f_equal. lia.
Qed.

(** ** lookups in a product set *)
Section Lookup.
Variable sz : nat -> nat.
Variable al : nat -> list nat.
Variable r : rule.
Variable L : nat.
Variable t : dd.
Hypothesis Hal : al_ok sz al L.
(** [t] denotes the product set *)
Hypothesis Ht : forall x, In x (all_asg sz L) -> negb (Z.eqb (eval r L t x) 0) = in_pset al L x.

Lemma product_set_members :
  members sz r L t = map (unrank al L) (seq 0 (prod_count al L)).
Proof.
  rewrite members_filter. rewrite <- (product_members sz al L Hal).
  apply filter_ext_in. exact Ht.
Qed.

Theorem product_cardinality : N.of_nat (length (members sz r L t)) = prod_countN al L.
Proof. now rewrite product_set_members, map_length, seq_length, prod_countN_nat. Qed.

Theorem product_get_element i :
  get_element sz r L t i =
  if ((0 <=? i) && (i <? Z.of_N (prod_countN al L)))%Z then Some (unrankN al L (Z.to_N i)) else None.
Proof.
  unfold get_element. rewrite product_set_members, prod_countN_nat.
  destruct (Z.ltb_spec i 0) as [Hn|Hp].
  - destruct (Z.leb_spec 0 i); [lia|reflexivity].
  - destruct (Z.leb_spec 0 i); [|lia]. cbn [andb].
    destruct (Z.ltb_spec i (Z.of_N (N.of_nat (prod_count al L)))) as [Hlt|Hge].
    + rewrite nth_error_map.
      rewrite nth_error_seq by lia.
      cbn [option_map Nat.add]. rewrite unrankN_nat. f_equal. f_equal. lia.
    + apply nth_error_None. rewrite map_length, seq_length. lia.
Qed.

End Lookup.
