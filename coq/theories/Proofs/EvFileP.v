(** C14 for EV+ forests: reading back what was written returns the edges written. *)
From Coq Require Import List Arith ZArith Bool Lia.
From Meddly Require Import Model.DD Model.EvDD Model.EvFile Proofs.EvP.
Import ListNotations.

Definition ereplay (recs : list enrec) (tbl0 : list evdd) : list evdd :=
  fold_left (fun tbl r => tbl ++ [EN (er_lvl r) (er_vs r) (map (eresolve tbl) (er_cs r))]) recs tbl0.

Definition egood (st : ewstate) : Prop := ereplay (fst st) [] = snd st.

Definition eref_ok (tbl : list evdd) (r : eref) (t : evdd) : Prop :=
  eresolve tbl r = t /\ match r with ERN i => i < length tbl | ERT => True end.

Lemma eindex_of_sound t done i : eindex_of t done = Some i -> nth i done EO = t /\ i < length done.
Proof.
  revert i; induction done as [|d r IH]; intros i H; cbn in H; [discriminate|].
  destruct (evdd_eqb d t) eqn:E.
  - injection H as <-. apply evdd_eqb_eq in E. cbn. split; [exact E|lia].
  - destruct (eindex_of t r) as [j|]; cbn in H; [|discriminate]. injection H as <-.
    destruct (IH j eq_refl). cbn. split; [assumption|lia].
Qed.

Lemma ereplay_app recs1 recs2 tbl : ereplay (recs1 ++ recs2) tbl = ereplay recs2 (ereplay recs1 tbl).
Proof. unfold ereplay. apply fold_left_app. Qed.

Lemma eresolve_prefix tbl ext r t : eref_ok tbl r t -> eref_ok (tbl ++ ext) r t.
Proof.
  intros [H1 H2]. unfold eref_ok. destruct r as [|i]; cbn [eresolve] in *.
  - split; [exact H1|exact I].
  - split; [rewrite app_nth1 by exact H2; exact H1|rewrite app_length; lia].
Qed.

Lemma write_ev_ok : forall t st,
  egood st ->
  let '(st', r) := write_ev t st in
  egood st' /\ (exists ext, snd st' = snd st ++ ext) /\ eref_ok (snd st') r t.
Proof.
  induction t as [|k vs cs IH] using evdd_ind'; intros st Hg.
  - cbn. split; [exact Hg|]. split; [exists []; now rewrite app_nil_r|]. split; [reflexivity|exact I].
  - cbn [write_ev]. destruct (eindex_of (EN k vs cs) (snd st)) as [i|] eqn:Ei.
    + split; [exact Hg|]. split; [exists []; now rewrite app_nil_r|].
      apply eindex_of_sound in Ei. destruct Ei. split; assumption.
    + set (go := fix go (l : list evdd) (st : ewstate) : ewstate * list eref :=
               match l with
               | [] => (st, [])
               | c :: l' =>
                   let '(st1, r) := write_ev c st in
                   let '(st2, rs) := go l' st1 in
                   (st2, r :: rs)
               end).
      assert (Hgo : forall l, Forall (fun c => forall st, egood st ->
                      let '(st', r) := write_ev c st in
                      egood st' /\ (exists ext, snd st' = snd st ++ ext) /\ eref_ok (snd st') r c) l ->
                forall st0, egood st0 ->
                let '(st', refs) := go l st0 in
                egood st' /\ (exists ext, snd st' = snd st0 ++ ext) /\
                map (eresolve (snd st')) refs = l).
      { induction l as [|c l IHl]; intros Hall st0 Hg0; cbn [go].
        - split; [exact Hg0|]. split; [exists []; now rewrite app_nil_r|reflexivity].
        - inversion Hall as [|? ? Hc Hl]; subst.
          specialize (Hc st0 Hg0). destruct (write_ev c st0) as [st1 r].
          destruct Hc as (Hg1 & (e1 & He1) & Hr).
          specialize (IHl Hl st1 Hg1). destruct (go l st1) as [st2 rs].
          destruct IHl as (Hg2 & (e2 & He2) & Hm).
          split; [exact Hg2|]. split.
          + exists (e1 ++ e2). rewrite He2, He1. now rewrite app_assoc.
          + cbn [map]. f_equal; [|exact Hm].
            rewrite He2. apply (eresolve_prefix _ e2) in Hr. apply Hr. }
      specialize (Hgo cs IH st Hg). fold go.
      destruct (go cs st) as [st' refs]. destruct Hgo as (Hg' & (ext & Hext) & Hm).
      split; [|split].
      * unfold egood in *. cbn [fst snd]. rewrite ereplay_app. rewrite Hg'. cbn.
        now rewrite Hm.
      * exists (ext ++ [EN k vs cs]). cbn [snd]. rewrite Hext. now rewrite app_assoc.
      * cbn [snd]. split.
        -- cbn. rewrite app_nth2 by lia. now rewrite Nat.sub_diag.
        -- rewrite app_length. cbn. lia.
Qed.

Lemma write_eroots_ok : forall es st,
  egood st ->
  let '(st', rs) := write_eroots es st in
  egood st' /\ (exists ext, snd st' = snd st ++ ext) /\
  map (fun p => (fst p, eresolve (snd st') (snd p))) rs = es.
Proof.
  induction es as [|e es IH]; intros st Hg; cbn [write_eroots].
  - split; [exact Hg|]. split; [exists []; now rewrite app_nil_r|reflexivity].
  - pose proof (write_ev_ok (snd e) st Hg) as H1. destruct (write_ev (snd e) st) as [st1 x].
    destruct H1 as (Hg1 & (e1 & He1) & Hx).
    specialize (IH st1 Hg1). destruct (write_eroots es st1) as [st2 xs].
    destruct IH as (Hg2 & (e2 & He2) & Hm). split; [exact Hg2|]. split.
    + exists (e1 ++ e2). rewrite He2, He1. now rewrite app_assoc.
    + cbn [map fst snd]. f_equal; [|exact Hm].
      rewrite He2. apply (eresolve_prefix _ e2) in Hx. destruct Hx as [Hx _]. rewrite Hx.
      now destruct e.
Qed.

Theorem read_write_efile es : read_efile (write_efile es) = es.
Proof.
  unfold write_efile, read_efile.
  pose proof (write_eroots_ok es ([], []) eq_refl) as H.
  destruct (write_eroots es ([], [])) as [st rs]. destruct H as (Hg & _ & Hm).
  cbn [fst snd]. unfold egood in Hg. unfold read_erecords. unfold ereplay in Hg. rewrite Hg. exact Hm.
Qed.

(** in particular the functions are preserved *)
Corollary read_write_efile_eval es L x :
  map (fun e => ev_eval L e x) (read_efile (write_efile es)) = map (fun e => ev_eval L e x) es.
Proof. now rewrite read_write_efile. Qed.
