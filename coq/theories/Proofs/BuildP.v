(** * The minterm builder evaluates to the specification (C03). *)
From Coq Require Import List Arith ZArith Bool Lia.
From Meddly Require Import Model.DD Model.Build Proofs.DDFacts Proofs.Canon Proofs.Reduce.
Import ListNotations.
Local Open Scope nat_scope.

Section BuildP.
Variable sz : nat -> nat.
Hypothesis sz_pos : forall k, 1 <= sz k.
Variable comb : Z -> Z -> Z.
Variable dv : Z.
Variable r : rule.

Notation valid := (valid sz).

Lemma build_top : forall L from ms, top (build sz comb dv r L from ms) <= L.
Proof.
  induction L as [|L IH]; intros from ms; cbn [build]; [cbn; lia|].
  apply mk_top. intros i.
  destruct (Nat.lt_ge_cases i (sz (S L))) as [Hi|Hi].
  - rewrite nth_map_seq by exact Hi. apply IH.
  - rewrite nth_overflow by (rewrite map_length, seq_length; exact Hi). cbn; lia.
Qed.

Lemma matches_S L m x :
  matches (S L) m x = matches L m x && pos_ok m (S L) x.
Proof.
  unfold matches. rewrite seq_S, forallb_app. cbn. now rewrite andb_true_r.
Qed.

Lemma filter_ext_in' {A} (f g : A -> bool) l :
  (forall a, f a = g a) -> filter f l = filter g l.
Proof. intros H. apply filter_ext. exact H. Qed.

Lemma filter_filter {A} (f g : A -> bool) l :
  filter f (filter g l) = filter (fun a => g a && f a) l.
Proof.
  induction l as [|a l IH]; [reflexivity|]. cbn.
  destruct (g a) eqn:Eg; cbn; [destruct (f a); now rewrite IH|exact IH].
Qed.

Theorem build_eval : forall L from ms x,
  valid x -> x (S L) = from ->
  evalL (is_ir r) L (build sz comb dv r L from ms) x
  = build_spec comb dv L ms x.
Proof.
  induction L as [|L IH]; intros from ms x Hx Hf.
  - cbn [build evalL]. unfold build_spec. f_equal. f_equal.
    assert (E : forall l : list minterm, filter (fun m => matches 0 (fst m) x) l = l).
    { induction l as [|m l IHm]; [reflexivity|]. cbn [filter].
      change (matches 0 (fst m) x) with true. now rewrite IHm. }
    now rewrite E.
  - cbn [build]. rewrite (mk_eval sz); auto.
    + rewrite nth_map_seq by apply Hx. rewrite IH by auto.
      unfold build_spec. f_equal. f_equal.
      rewrite filter_filter. apply filter_ext. intros m.
      rewrite matches_S, andb_comm. f_equal.
      unfold keep, pos_ok. destruct (pos_at (fst m) (S L)); try reflexivity.
      now rewrite Hf.
    + now rewrite map_length, seq_length.
    + intros i. destruct (Nat.lt_ge_cases i (sz (S L))) as [Hi|Hi].
      * rewrite nth_map_seq by exact Hi. apply build_top.
      * rewrite nth_overflow by (rewrite map_length, seq_length; exact Hi). cbn; lia.
    + intros _. exact Hf.
Qed.

Theorem build_reduced (sz_pair : paired sz r) : forall L from ms,
  reducedb sz r L (Some from) (build sz comb dv r L from ms) = true.
Proof.
  induction L as [|L IH]; intros from ms; [reflexivity|].
  cbn [build]. apply mk_reduced; auto.
  - now rewrite map_length, seq_length.
  - rewrite map_length, seq_length. intros i Hi. rewrite nth_map_seq by exact Hi. apply IH.
Qed.

End BuildP.
