(** * C06: the reference-count discipline of the node store.

    Invariant of the store machine ([Model/RefStore.v]), for every history of
    node creations (with duplicate lookup), reference duplications and
    reference drops (with recursive reclamation):
    - the recorded count of every identifier is exactly the number of child
      slots of live nodes plus the number of user references that mention it;
    - an identifier is live iff its count is positive (nothing unreferenced
      lingers, nothing referenced is reclaimed, so no reference dangles);
    - children are live and strictly below their parent;
    - no two live nodes have the same level and children (unique table).
    Consequence: when the user holds no reference, no node is live. *)
From Coq Require Import List ZArith Bool Arith Lia.
From Meddly Require Import Model.RefStore.
Import ListNotations.
Local Open Scope Z_scope.

Definition cnt_occ (l : list Z) (id : Z) : nat := count_occ Z.eq_dec l id.

Definition node_refs (ns : list snode) (id : Z) : nat :=
  fold_right (fun n acc => (cnt_occ (sn_cs n) id + acc)%nat) O ns.

Definition name_refs (names : list (nat * Z)) (id : Z) : nat :=
  cnt_occ (map snd names) id.

Definition live (ns : list snode) (id : Z) : Prop := exists n, In n ns /\ sn_id n = id.

(** [P]: references that have been given up but not yet subtracted *)
Record Inv (P : list Z) (s : store) : Prop := {
  inv_ids : NoDup (map sn_id (st_nodes s));
  inv_range : forall n, In n (st_nodes s) -> 0 < sn_id n < st_next s;
  inv_below : forall n c, In n (st_nodes s) -> In c (sn_cs n) -> 0 < c ->
              exists m, In m (st_nodes s) /\ sn_id m = c /\ (sn_lvl m < sn_lvl n)%nat;
  inv_exact : forall id, 0 < id ->
              st_cnt s id = (node_refs (st_nodes s) id + name_refs (st_names s) id + cnt_occ P id)%nat;
  inv_live : forall id, 0 < id -> ((1 <= st_cnt s id)%nat <-> live (st_nodes s) id);
  inv_unique : forall n m, In n (st_nodes s) -> In m (st_nodes s) ->
               sn_lvl n = sn_lvl m -> sn_cs n = sn_cs m -> n = m;
  inv_names : NoDup (map fst (st_names s))
}.

(** ** small facts *)
Lemma cnt_occ_app l1 l2 id : cnt_occ (l1 ++ l2) id = (cnt_occ l1 id + cnt_occ l2 id)%nat.
Proof. apply count_occ_app. Qed.

Lemma cnt_occ_cons_eq l id : cnt_occ (id :: l) id = S (cnt_occ l id).
Proof. unfold cnt_occ. now rewrite count_occ_cons_eq. Qed.

Lemma cnt_occ_cons_neq l a id : a <> id -> cnt_occ (a :: l) id = cnt_occ l id.
Proof. intros H. unfold cnt_occ. now rewrite count_occ_cons_neq. Qed.

Lemma cnt_occ_pos l id : (1 <= cnt_occ l id)%nat <-> In id l.
Proof. unfold cnt_occ. rewrite (count_occ_In Z.eq_dec). lia. Qed.

Lemma find_node_some ns id n : find_node ns id = Some n -> In n ns /\ sn_id n = id.
Proof.
  unfold find_node. intros H. apply find_some in H. destruct H as [H1 H2].
  split; [exact H1|now apply Z.eqb_eq].
Qed.

Lemma find_node_live ns id : live ns id -> exists n, find_node ns id = Some n.
Proof.
  intros (n & Hn & Hid). unfold find_node.
  destruct (find (fun n0 => sn_id n0 =? id) ns) as [m|] eqn:E; [now exists m|].
  exfalso. pose proof (find_none _ _ E n Hn) as H. cbn in H. rewrite Hid, Z.eqb_refl in H. discriminate.
Qed.

Lemma in_remove_node ns id n : In n (remove_node ns id) <-> In n ns /\ sn_id n <> id.
Proof.
  unfold remove_node. rewrite filter_In. split; intros [H1 H2]; split; auto.
  - apply negb_true_iff, Z.eqb_neq in H2. exact H2.
  - apply negb_true_iff, Z.eqb_neq. exact H2.
Qed.

Lemma node_refs_cons a ns id :
  node_refs (a :: ns) id = (cnt_occ (sn_cs a) id + node_refs ns id)%nat.
Proof. reflexivity. Qed.

Lemma node_refs_in ns id : (1 <= node_refs ns id)%nat <->
  exists n, In n ns /\ In id (sn_cs n).
Proof.
  induction ns as [|a ns IH].
  - cbn. split; [lia|intros (n & [] & _)].
  - rewrite node_refs_cons. split.
    + intros H. destruct (Nat.eq_dec (cnt_occ (sn_cs a) id) 0) as [E|E].
      * rewrite E in H. cbn in H. apply IH in H. destruct H as (n & Hn & Hc). exists n. split; [now right|exact Hc].
      * exists a. split; [now left|]. apply cnt_occ_pos. lia.
    + intros (n & [<-|Hn] & Hc).
      * apply cnt_occ_pos in Hc. lia.
      * assert (1 <= node_refs ns id)%nat by (apply IH; eauto). lia.
Qed.

Lemma node_refs_remove ns id n j :
  NoDup (map sn_id ns) -> In n ns -> sn_id n = id ->
  node_refs ns j = (cnt_occ (sn_cs n) j + node_refs (remove_node ns id) j)%nat.
Proof.
  intros Hnd Hn Hid. induction ns as [|a ns IH]; [destruct Hn|].
  cbn in Hnd. inversion Hnd as [|? ? Hnotin Hnd']; subst. rewrite node_refs_cons.
  change (remove_node (a :: ns) (sn_id n))
    with (if negb (sn_id a =? sn_id n) then a :: remove_node ns (sn_id n) else remove_node ns (sn_id n)).
  destruct Hn as [->|Hn].
  - rewrite Z.eqb_refl. cbn [negb].
    assert (Hrem : remove_node ns (sn_id n) = ns).
    { unfold remove_node. clear - Hnotin. induction ns as [|m ns IHn]; [reflexivity|]. cbn.
      destruct (Z.eqb_spec (sn_id m) (sn_id n)) as [E|E]; cbn.
      - exfalso. apply Hnotin. left. exact E.
      - f_equal. apply IHn. intros H. apply Hnotin. now right. }
    now rewrite Hrem.
  - assert (Hne : sn_id a <> sn_id n).
    { intros E. apply Hnotin. rewrite E. now apply in_map. }
    destruct (Z.eqb_spec (sn_id a) (sn_id n)); [contradiction|]. cbn [negb].
    rewrite node_refs_cons, (IH Hnd' Hn). lia.
Qed.

Lemma remove_node_ids ns id : NoDup (map sn_id ns) -> NoDup (map sn_id (remove_node ns id)).
Proof.
  intros H. induction ns as [|a ns IH]; cbn; [constructor|].
  inversion H as [|? ? Hnotin Hnd]; subst. destruct (negb (sn_id a =? id)); cbn; [|now apply IH].
  constructor; [|now apply IH]. intros Hin. apply Hnotin.
  apply in_map_iff in Hin. destruct Hin as (m & Hm & Hin). apply in_remove_node in Hin.
  apply in_map_iff. exists m. tauto.
Qed.

Lemma nodup_id_eq : forall ns a b, NoDup (map sn_id ns) -> In a ns -> In b ns ->
  sn_id a = sn_id b -> a = b.
Proof.
  induction ns as [|x l IH]; intros a b Hnd Ha Hb E; [destruct Ha|].
  cbn in Hnd. apply NoDup_cons_iff in Hnd. destruct Hnd as [Hnotin Hnd].
  destruct Ha as [Ha|Ha], Hb as [Hb|Hb].
  - congruence.
  - exfalso. apply Hnotin. rewrite <- Ha in *. rewrite E. now apply in_map.
  - exfalso. apply Hnotin. rewrite <- Hb in *. rewrite <- E. now apply in_map.
  - now apply IH.
Qed.

(** pending references to terminals are irrelevant *)
Lemma Inv_drop_terminal P s c : c <= 0 -> Inv (c :: P) s -> Inv P s.
Proof.
  intros Hc H. destruct H as [A B C D E F G]. constructor; auto.
  intros id Hid. rewrite (D id Hid). rewrite cnt_occ_cons_neq by lia. reflexivity.
Qed.

(** ** reclamation *)
Definition mk (ns : list snode) (cnt : Z -> nat) (s : store) : store :=
  {| st_nodes := ns; st_cnt := cnt; st_names := st_names s; st_next := st_next s |}.

Definition lvl_le (ns : list snode) (L : nat) (id : Z) : Prop :=
  forall n, In n ns -> sn_id n = id -> (sn_lvl n <= L)%nat.

Lemma unlink_inv : forall L id P s,
  Inv (id :: P) s -> lvl_le (st_nodes s) L id ->
  let r := unlink L id (st_nodes s) (st_cnt s) in
  Inv P (mk (fst r) (snd r) s) /\
  (forall n, In n (fst r) -> In n (st_nodes s)).
Proof.
  induction L as [|L IH]; intros id P s HI Hl.
  - (* level bound 0 *)
    cbn [unlink]. destruct (Z.leb_spec id 0) as [Hle|Hpos].
    + cbn. split; [|auto]. destruct s; cbn. eapply Inv_drop_terminal; eauto.
    + pose proof (inv_exact _ _ HI id Hpos) as Hex. rewrite cnt_occ_cons_eq in Hex.
      destruct (st_cnt s id) as [|[|c]] eqn:Ec; [lia| |].
      * (* last reference *)
        assert (Hlive : live (st_nodes s) id) by (apply (inv_live _ _ HI id Hpos); lia).
        destruct (find_node_live _ _ Hlive) as (n & Hf). rewrite Hf.
        destruct (find_node_some _ _ _ Hf) as [Hn Hid].
        cbn [fst snd]. split; [|intros m Hm; now apply in_remove_node in Hm].
        (* n has no node children: its level is 0 *)
        assert (Hnoc : forall c, In c (sn_cs n) -> c <= 0).
        { intros c Hc. destruct (Z.leb_spec c 0); [assumption|].
          destruct (inv_below _ _ HI n c Hn Hc ltac:(lia)) as (m & _ & _ & Hlt).
          pose proof (Hl n Hn Hid). lia. }
        constructor; cbn [st_nodes st_cnt st_names st_next mk].
        -- apply remove_node_ids, (inv_ids _ _ HI).
        -- intros m Hm. apply in_remove_node in Hm. now apply (inv_range _ _ HI).
        -- intros m c Hm Hc Hcp. apply in_remove_node in Hm. destruct Hm as [Hm Hne].
           destruct (inv_below _ _ HI m c Hm Hc Hcp) as (q & Hq & Hqid & Hlt).
           exists q. split; [|auto]. apply in_remove_node. split; [exact Hq|].
           intros E. assert (1 <= node_refs (st_nodes s) id)%nat; [|lia].
           apply node_refs_in. exists m. split; [exact Hm|]. now rewrite <- E, Hqid.
        -- intros j Hj. unfold upd_cnt. destruct (Z.eqb_spec j id) as [->|Hne].
           ++ rewrite (node_refs_remove _ id n id (inv_ids _ _ HI) Hn Hid) in Hex. lia.
           ++ rewrite (inv_exact _ _ HI j Hj), cnt_occ_cons_neq by congruence.
              rewrite (node_refs_remove _ id n j (inv_ids _ _ HI) Hn Hid).
              assert (cnt_occ (sn_cs n) j = 0%nat).
              { destruct (cnt_occ (sn_cs n) j) eqn:E0; [reflexivity|].
                assert (In j (sn_cs n)) by (apply cnt_occ_pos; lia). specialize (Hnoc j H). lia. }
              lia.
        -- intros j Hj. unfold upd_cnt. destruct (Z.eqb_spec j id) as [->|Hne].
           ++ split; [lia|]. intros (m & Hm & Hmid). apply in_remove_node in Hm. tauto.
           ++ rewrite (inv_live _ _ HI j Hj). split; intros (m & Hm & Hmid); exists m.
              ** split; [|exact Hmid]. apply in_remove_node. split; [exact Hm|congruence].
              ** apply in_remove_node in Hm. tauto.
        -- intros a b Ha Hb. apply in_remove_node in Ha, Hb. apply (inv_unique _ _ HI); tauto.
        -- apply (inv_names _ _ HI).
      * (* other references remain *)
        cbn [fst snd]. split; [|auto].
        constructor; cbn [st_nodes st_cnt st_names st_next mk]; try apply HI.
        -- intros j Hj. unfold upd_cnt. destruct (Z.eqb_spec j id) as [->|Hne]; [lia|].
           rewrite (inv_exact _ _ HI j Hj), cnt_occ_cons_neq by congruence. reflexivity.
        -- intros j Hj. unfold upd_cnt. destruct (Z.eqb_spec j id) as [->|Hne].
           ++ split; [intros _|lia]. apply (inv_live _ _ HI id Hpos). lia.
           ++ apply (inv_live _ _ HI j Hj).
  - (* level bound S L *)
    cbn [unlink]. destruct (Z.leb_spec id 0) as [Hle|Hpos].
    + cbn. split; [|auto]. destruct s; cbn. eapply Inv_drop_terminal; eauto.
    + pose proof (inv_exact _ _ HI id Hpos) as Hex. rewrite cnt_occ_cons_eq in Hex.
      destruct (st_cnt s id) as [|[|c]] eqn:Ec; [lia| |].
      * assert (Hlive : live (st_nodes s) id) by (apply (inv_live _ _ HI id Hpos); lia).
        destruct (find_node_live _ _ Hlive) as (n & Hf). rewrite Hf.
        destruct (find_node_some _ _ _ Hf) as [Hn Hid].
        (* after removing n, its child references are pending *)
        set (s1 := mk (remove_node (st_nodes s) id) (upd_cnt (st_cnt s) id 0%nat) s).
        assert (H1 : Inv (sn_cs n ++ P) s1).
        { unfold s1. constructor; cbn [st_nodes st_cnt st_names st_next mk].
          -- apply remove_node_ids, (inv_ids _ _ HI).
          -- intros m Hm. apply in_remove_node in Hm. now apply (inv_range _ _ HI).
          -- intros m c Hm Hc Hcp. apply in_remove_node in Hm. destruct Hm as [Hm Hne].
             destruct (inv_below _ _ HI m c Hm Hc Hcp) as (q & Hq & Hqid & Hlt).
             exists q. split; [|auto]. apply in_remove_node. split; [exact Hq|].
             intros E. assert (1 <= node_refs (st_nodes s) id)%nat; [|lia].
             apply node_refs_in. exists m. split; [exact Hm|]. now rewrite <- E, Hqid.
          -- intros j Hj. unfold upd_cnt. rewrite cnt_occ_app.
             destruct (Z.eqb_spec j id) as [->|Hne].
             ++ rewrite (node_refs_remove _ id n id (inv_ids _ _ HI) Hn Hid) in Hex. lia.
             ++ rewrite (inv_exact _ _ HI j Hj), cnt_occ_cons_neq by congruence.
                rewrite (node_refs_remove _ id n j (inv_ids _ _ HI) Hn Hid). lia.
          -- intros j Hj. unfold upd_cnt. destruct (Z.eqb_spec j id) as [->|Hne].
             ++ split; [lia|]. intros (m & Hm & Hmid). apply in_remove_node in Hm. tauto.
             ++ rewrite (inv_live _ _ HI j Hj). split; intros (m & Hm & Hmid); exists m.
                ** split; [|exact Hmid]. apply in_remove_node. split; [exact Hm|congruence].
                ** apply in_remove_node in Hm. tauto.
          -- intros a b Ha Hb. apply in_remove_node in Ha, Hb. apply (inv_unique _ _ HI); tauto.
          -- apply (inv_names _ _ HI). }
        (* the children lie below L *)
        assert (Hcl : forall c, In c (sn_cs n) -> lvl_le (st_nodes s) L c).
        { intros c Hc m Hm Hmid. destruct (Z.leb_spec c 0) as [Hc0|Hc0].
          - pose proof (inv_range _ _ HI m Hm). lia.
          - destruct (inv_below _ _ HI n c Hn Hc Hc0) as (q & Hq & Hqid & Hlt).
            assert (q = m) by (apply (nodup_id_eq _ q m (inv_ids _ _ HI) Hq Hm); congruence).
            subst q. pose proof (Hl n Hn Hid). lia. }
        (* process the children one by one *)
        assert (Hfold : forall l P' s', Inv (l ++ P') s' ->
                  (forall m, In m (st_nodes s') -> In m (st_nodes s)) ->
                  (forall c, In c l -> In c (sn_cs n)) ->
                  let r := fold_left (fun st c => unlink L c (fst st) (snd st)) l (st_nodes s', st_cnt s') in
                  Inv P' (mk (fst r) (snd r) s') /\ (forall m, In m (fst r) -> In m (st_nodes s))).
        { induction l as [|c l IHl]; intros P' s' HI' Hsub Hcs; cbn [fold_left fst snd].
          - cbn. split; [destruct s'; exact HI'|exact Hsub].
          - cbn [app] in HI'.
            assert (Hlc : lvl_le (st_nodes s') L c).
            { intros m Hm Hmid. apply (Hcl c (Hcs c (or_introl eq_refl)) m (Hsub m Hm) Hmid). }
            destruct (IH c (l ++ P') s' HI' Hlc) as [HIc Hsubc].
            set (rc := unlink L c (st_nodes s') (st_cnt s')) in *.
            specialize (IHl P' (mk (fst rc) (snd rc) s') HIc).
            cbn [st_nodes st_cnt mk] in IHl.
            destruct IHl as [HIr Hsubr].
            + intros m Hm. apply Hsub, Hsubc, Hm.
            + intros c' Hc'. apply Hcs. now right.
            + destruct rc as [ns2 cnt2]. cbn [fst snd] in *. split; [exact HIr|exact Hsubr]. }
        specialize (Hfold (sn_cs n) P s1 H1).
        cbn [st_nodes st_cnt s1 mk] in Hfold.
        destruct Hfold as [HIf Hsubf].
        -- intros m Hm. now apply in_remove_node in Hm.
        -- auto.
        -- split; [exact HIf|exact Hsubf].
      * cbn [fst snd]. split; [|auto].
        constructor; cbn [st_nodes st_cnt st_names st_next mk]; try apply HI.
        -- intros j Hj. unfold upd_cnt. destruct (Z.eqb_spec j id) as [->|Hne]; [lia|].
           rewrite (inv_exact _ _ HI j Hj), cnt_occ_cons_neq by congruence. reflexivity.
        -- intros j Hj. unfold upd_cnt. destruct (Z.eqb_spec j id) as [->|Hne].
           ++ split; [intros _|lia]. apply (inv_live _ _ HI id Hpos). lia.
           ++ apply (inv_live _ _ HI j Hj).
Qed.

(** ** the operations *)
Definition valid_op (s : store) (o : sop) : Prop :=
  match o with
  | SNew nm lvl cs =>
      ~ In nm (map fst (st_names s)) /\
      forall c, In c cs -> 0 < c ->
        exists m, In m (st_nodes s) /\ sn_id m = c /\ (sn_lvl m < lvl)%nat
  | SDup nm' nm => ~ In nm' (map fst (st_names s))
  | SDrop nm => True
  end.

Lemma cs_eqb_eq : forall a b, cs_eqb a b = true <-> a = b.
Proof.
  unfold cs_eqb. induction a as [|x a IH]; intros [|y b]; cbn; try (split; (reflexivity || discriminate)).
  specialize (IH b). rewrite andb_true_iff in *. rewrite Nat.eqb_eq in *. cbn.
  rewrite andb_true_iff, Z.eqb_eq. split.
  - intros [Hl [Hxy Hr]]. f_equal; [exact Hxy|]. apply IH. split; [lia|exact Hr].
  - intros E. injection E as -> ->. destruct IH as [_ IH]. destruct (IH eq_refl) as [Hl Hr].
    split; [lia|]. split; [reflexivity|exact Hr].
Qed.

Lemma fold_incr : forall cs cnt j, 0 < j ->
  fold_left bump cs cnt j = (cnt j + cnt_occ cs j)%nat.
Proof.
  induction cs as [|c cs IH]; intros cnt j Hj; cbn [fold_left]; [cbn; lia|].
  rewrite IH by exact Hj. unfold bump. destruct (Z.ltb_spec 0 c) as [Hc|Hc].
  - unfold upd_cnt. destruct (Z.eqb_spec j c) as [->|Hne].
    + rewrite cnt_occ_cons_eq. lia.
    + rewrite cnt_occ_cons_neq by congruence. lia.
  - rewrite cnt_occ_cons_neq by lia. reflexivity.
Qed.

Lemma lookup_name_in names nm id :
  lookup_name names nm = Some id -> In (nm, id) names.
Proof.
  unfold lookup_name. destruct (find _ names) as [p|] eqn:E; [|discriminate].
  intros H; injection H as <-. apply find_some in E. destruct E as [Hin He].
  apply Nat.eqb_eq in He. destruct p; cbn in *. now subst.
Qed.

Lemma name_refs_remove names nm id j :
  NoDup (map fst names) -> In (nm, id) names ->
  name_refs names j = (name_refs (remove_name names nm) j + cnt_occ [id] j)%nat.
Proof.
  intros Hnd Hin. unfold name_refs, remove_name.
  induction names as [|p names IH]; [destruct Hin|].
  cbn in Hnd. apply NoDup_cons_iff in Hnd. destruct Hnd as [Hnotin Hnd].
  cbn [filter map].
  destruct Hin as [->|Hin].
  - cbn [fst snd]. rewrite Nat.eqb_refl. cbn [negb].
    assert (Hrem : filter (fun q => negb (Nat.eqb (fst q) nm)) names = names).
    { clear - Hnotin. induction names as [|q names IHn]; [reflexivity|]. cbn.
      destruct (Nat.eqb_spec (fst q) nm) as [E|E]; cbn.
      - exfalso. apply Hnotin. left. exact E.
      - f_equal. apply IHn. intros H. apply Hnotin. now right. }
    rewrite Hrem. destruct (Z.eq_dec id j) as [->|Hne].
    + rewrite !cnt_occ_cons_eq. cbn. lia.
    + rewrite !cnt_occ_cons_neq by exact Hne. cbn. lia.
  - assert (Hne : fst p <> nm).
    { intros E. apply Hnotin. rewrite E. change nm with (fst (nm, id)). now apply in_map. }
    destruct (Nat.eqb_spec (fst p) nm); [contradiction|]. cbn [negb map].
    specialize (IH Hnd Hin). destruct (Z.eq_dec (snd p) j) as [E|E].
    + rewrite E, !cnt_occ_cons_eq. lia.
    + rewrite !cnt_occ_cons_neq by exact E. exact IH.
Qed.

Lemma remove_name_nodup names nm : NoDup (map fst names) -> NoDup (map fst (remove_name names nm)).
Proof.
  intros H. unfold remove_name. induction names as [|p names IH]; cbn; [constructor|].
  cbn in H. apply NoDup_cons_iff in H. destruct H as [Hnotin Hnd].
  destruct (negb (Nat.eqb (fst p) nm)); cbn; [|now apply IH].
  constructor; [|now apply IH]. intros Hin. apply Hnotin.
  apply in_map_iff in Hin. destruct Hin as (q & Hq & Hin). apply filter_In in Hin.
  apply in_map_iff. exists q. tauto.
Qed.

Lemma top_level_ge ns n : In n ns -> (sn_lvl n <= top_level ns)%nat.
Proof.
  induction ns as [|a ns IH]; intros H; [destruct H|].
  change (top_level (a :: ns)) with (Nat.max (sn_lvl a) (top_level ns)).
  destruct H as [->|H]; [lia|]. specialize (IH H). lia.
Qed.

(** identifiers that are referenced anywhere are live, hence below [st_next] *)
Lemma referenced_live P s id : Inv P s -> 0 < id ->
  (1 <= node_refs (st_nodes s) id + name_refs (st_names s) id)%nat -> live (st_nodes s) id.
Proof.
  intros HI Hid H. apply (inv_live _ _ HI id Hid). rewrite (inv_exact _ _ HI id Hid). lia.
Qed.

Theorem step_inv s o : Inv [] s -> 0 < st_next s -> valid_op s o ->
  Inv [] (sstep s o) /\ 0 < st_next (sstep s o).
Proof.
  intros HI Hnext Hv. destruct o as [nm lvl cs|nm' nm|nm]; cbn [sstep].
  - (* new node *)
    destruct Hv as [Hfresh Hch].
    destruct (forallb (fun c => c =? 0) cs) eqn:Ez.
    + (* entirely transparent *)
      split; [|exact Hnext]. destruct HI as [A B C D E F G]. constructor; cbn [st_nodes st_cnt st_names st_next]; auto.
      * intros id Hid. rewrite (D id Hid). unfold name_refs. cbn [map snd].
        rewrite cnt_occ_cons_neq by lia. reflexivity.
      * cbn. constructor; assumption.
    + destruct (find_dup (st_nodes s) lvl cs) as [n|] eqn:Ed.
      * (* found in the unique table *)
        split; [|exact Hnext]. unfold find_dup in Ed. apply find_some in Ed. destruct Ed as [Hn _].
        pose proof (inv_range _ _ HI n Hn) as Hr.
        constructor; cbn [st_nodes st_cnt st_names st_next]; try apply HI.
        -- intros id Hid. unfold bump. destruct (Z.ltb_spec 0 (sn_id n)); [|lia].
           unfold upd_cnt, name_refs. cbn [map snd]. destruct (Z.eqb_spec id (sn_id n)) as [->|Hne].
           ++ rewrite cnt_occ_cons_eq, (inv_exact _ _ HI (sn_id n) Hid). unfold name_refs. lia.
           ++ rewrite cnt_occ_cons_neq by congruence. apply (inv_exact _ _ HI id Hid).
        -- intros id Hid. unfold bump. destruct (Z.ltb_spec 0 (sn_id n)); [|lia].
           unfold upd_cnt. destruct (Z.eqb_spec id (sn_id n)) as [->|Hne].
           ++ split; [intros _; now exists n|lia].
           ++ apply (inv_live _ _ HI id Hid).
        -- cbn. constructor; [exact Hfresh|apply (inv_names _ _ HI)].
      * (* a new node *)
        split; [|cbn; lia].
        set (id := st_next s).
        assert (Hnone : forall j, (st_next s <= j) -> node_refs (st_nodes s) j = 0%nat /\ name_refs (st_names s) j = 0%nat).
        { intros j Hj.
          destruct (node_refs (st_nodes s) j + name_refs (st_names s) j)%nat eqn:E0; [lia|].
          exfalso. destruct (referenced_live _ _ j HI ltac:(lia) ltac:(lia)) as (m & Hm & Hmid).
          pose proof (inv_range _ _ HI m Hm). lia. }
        assert (Hcs_lt : forall c, In c cs -> c < id).
        { intros c Hc. destruct (Z.ltb_spec 0 c) as [Hp|Hp]; [|unfold id; lia].
          destruct (Hch c Hc Hp) as (m & Hm & Hmid & _). pose proof (inv_range _ _ HI m Hm). unfold id. lia. }
        constructor; cbn [st_nodes st_cnt st_names st_next].
        -- cbn. constructor; [|apply (inv_ids _ _ HI)]. intros Hin.
           apply in_map_iff in Hin. destruct Hin as (m & Hmid & Hm).
           pose proof (inv_range _ _ HI m Hm). unfold id in Hmid. lia.
        -- intros m [<-|Hm]; cbn; [unfold id; lia|]. pose proof (inv_range _ _ HI m Hm). lia.
        -- intros m c [<-|Hm] Hc Hcp; cbn in *.
           ++ destruct (Hch c Hc Hcp) as (q & Hq & Hqid & Hlt). exists q. auto.
           ++ destruct (inv_below _ _ HI m c Hm Hc Hcp) as (q & Hq & Hqid & Hlt). exists q. auto.
        -- intros j Hj. unfold upd_cnt, name_refs. cbn [map snd]. rewrite node_refs_cons. cbn [sn_cs].
           destruct (Z.eqb_spec j id) as [->|Hne].
           ++ rewrite cnt_occ_cons_eq. destruct (Hnone id ltac:(unfold id; lia)) as [H1 H2].
              unfold name_refs in H2. rewrite H1, H2.
              assert (cnt_occ cs id = 0%nat).
              { destruct (cnt_occ cs id) eqn:E0; [reflexivity|].
                assert (In id cs) by (apply cnt_occ_pos; lia). specialize (Hcs_lt id H). lia. }
              change (cnt_occ [] id) with 0%nat. lia.
           ++ rewrite cnt_occ_cons_neq by congruence. rewrite fold_incr by exact Hj.
              rewrite (inv_exact _ _ HI j Hj). unfold name_refs. cbn. lia.
        -- intros j Hj. unfold upd_cnt. destruct (Z.eqb_spec j id) as [->|Hne].
           ++ split; [intros _|lia]. eexists. split; [now left|reflexivity].
           ++ rewrite fold_incr by exact Hj. split.
              ** intros H. destruct (Nat.eq_dec (cnt_occ cs j) 0) as [E0|E0].
                 --- assert (1 <= st_cnt s j)%nat by lia.
                     apply (inv_live _ _ HI j Hj) in H0. destruct H0 as (m & Hm & Hmid). exists m. split; [now right|exact Hmid].
                 --- assert (In j cs) by (apply cnt_occ_pos; lia).
                     destruct (Hch j H0 Hj) as (m & Hm & Hmid & _). exists m. split; [now right|exact Hmid].
              ** intros (m & [<-|Hm] & Hmid); [cbn in Hmid; congruence|].
                 assert (1 <= st_cnt s j)%nat by (apply (inv_live _ _ HI j Hj); now exists m). lia.
        -- intros a b [<-|Ha] [<-|Hb] Hl Hc; cbn in *; auto.
           ++ exfalso. unfold find_dup in Ed. pose proof (find_none _ _ Ed b Hb) as Hf. cbn in Hf.
              rewrite <- Hl, Nat.eqb_refl in Hf. cbn in Hf.
              assert (cs_eqb (sn_cs b) cs = true) by (apply cs_eqb_eq; congruence). congruence.
           ++ exfalso. unfold find_dup in Ed. pose proof (find_none _ _ Ed a Ha) as Hf. cbn in Hf.
              rewrite Hl, Nat.eqb_refl in Hf. cbn in Hf.
              assert (cs_eqb (sn_cs a) cs = true) by (apply cs_eqb_eq; congruence). congruence.
           ++ now apply (inv_unique _ _ HI).
        -- cbn. constructor; [exact Hfresh|apply (inv_names _ _ HI)].
  - (* duplicate a reference *)
    destruct (lookup_name (st_names s) nm) as [id|] eqn:El; [|split; assumption].
    split; [|exact Hnext]. pose proof (lookup_name_in _ _ _ El) as Hin.
    constructor; cbn [st_nodes st_cnt st_names st_next]; try apply HI.
    + intros j Hj. unfold bump, name_refs. cbn [map snd].
      destruct (Z.ltb_spec 0 id) as [Hp|Hp].
      * unfold upd_cnt. destruct (Z.eqb_spec j id) as [->|Hne].
        -- rewrite cnt_occ_cons_eq, (inv_exact _ _ HI id Hj). unfold name_refs. lia.
        -- rewrite cnt_occ_cons_neq by congruence. apply (inv_exact _ _ HI j Hj).
      * rewrite cnt_occ_cons_neq by lia. apply (inv_exact _ _ HI j Hj).
    + intros j Hj. unfold bump. destruct (Z.ltb_spec 0 id) as [Hp|Hp]; [|apply (inv_live _ _ HI j Hj)].
      unfold upd_cnt. destruct (Z.eqb_spec j id) as [->|Hne]; [|apply (inv_live _ _ HI j Hj)].
      split; [intros _|lia]. apply (referenced_live [] s id HI Hp).
      assert (1 <= name_refs (st_names s) id)%nat; [|lia].
      unfold name_refs. apply cnt_occ_pos. change id with (snd (nm, id)). now apply in_map.
    + cbn. constructor; [exact Hv|apply (inv_names _ _ HI)].
  - (* drop a reference *)
    destruct (lookup_name (st_names s) nm) as [id|] eqn:El; [|split; assumption].
    pose proof (lookup_name_in _ _ _ El) as Hin.
    set (s0 := {| st_nodes := st_nodes s; st_cnt := st_cnt s;
                  st_names := remove_name (st_names s) nm; st_next := st_next s |}).
    assert (H0 : Inv [id] s0).
    { constructor; cbn [st_nodes st_cnt st_names st_next s0]; try apply HI.
      - intros j Hj. rewrite (inv_exact _ _ HI j Hj).
        rewrite (name_refs_remove _ nm id j (inv_names _ _ HI) Hin). cbn [cnt_occ]. unfold cnt_occ. cbn. lia.
      - apply remove_name_nodup, (inv_names _ _ HI). }
    destruct (unlink_inv (top_level (st_nodes s)) id [] s0 H0) as [HIr _].
    + intros n Hn _. now apply top_level_ge.
    + cbn [st_nodes st_cnt s0] in HIr. split; [exact HIr|exact Hnext].
Qed.

(** every reachable state *)
Fixpoint valid_run (s : store) (ops : list sop) : Prop :=
  match ops with
  | [] => True
  | o :: r => valid_op s o /\ valid_run (sstep s o) r
  end.

Lemma init_inv : Inv [] st_init.
Proof.
  constructor; cbn [st_init st_nodes st_cnt st_names st_next].
  - constructor.
  - intros n [].
  - intros n c [].
  - intros j _. reflexivity.
  - intros j _. split; [lia|intros (n & [] & _)].
  - intros n m [].
  - constructor.
Qed.

Theorem run_inv : forall ops s, Inv [] s -> 0 < st_next s -> valid_run s ops ->
  Inv [] (fold_left sstep ops s).
Proof.
  induction ops as [|o ops IH]; intros s HI Hn Hv; cbn [fold_left]; [exact HI|].
  destruct Hv as [Hvo Hvr]. destruct (step_inv s o HI Hn Hvo) as [HI' Hn']. now apply IH.
Qed.

(** ** no leak: without user references there is no live node *)
Theorem no_leak s : Inv [] s -> (forall p, In p (st_names s) -> snd p <= 0) -> st_nodes s = [].
Proof.
  intros HI Hnames. destruct (st_nodes s) as [|n0 ns0] eqn:En; [reflexivity|]. exfalso.
  (* a node of maximal level *)
  assert (Hmax : exists m, In m (st_nodes s) /\ forall q, In q (st_nodes s) -> (sn_lvl q <= sn_lvl m)%nat).
  { rewrite En. clear. revert n0. induction ns0 as [|a l IH]; intros n0.
    - exists n0. split; [now left|]. intros q [<-|[]]. lia.
    - destruct (IH a) as (m & Hm & Hle).
      destruct (Nat.le_gt_cases (sn_lvl n0) (sn_lvl m)) as [H|H].
      + exists m. split; [now right|]. intros q [<-|Hq]; [exact H|now apply Hle].
      + exists n0. split; [now left|]. intros q [<-|Hq]; [lia|]. specialize (Hle q Hq). lia. }
  destruct Hmax as (m & Hm & Hle).
  pose proof (inv_range _ _ HI m Hm) as Hr.
  assert (Hc : (1 <= st_cnt s (sn_id m))%nat) by (apply (inv_live _ _ HI (sn_id m)); [lia|now exists m]).
  rewrite (inv_exact _ _ HI (sn_id m)) in Hc by lia.
  assert (Hn0 : name_refs (st_names s) (sn_id m) = 0%nat).
  { destruct (name_refs (st_names s) (sn_id m)) eqn:E0; [reflexivity|]. exfalso.
    assert (Hin : In (sn_id m) (map snd (st_names s))) by (apply cnt_occ_pos; unfold name_refs in E0; lia).
    apply in_map_iff in Hin. destruct Hin as (p & Hp & Hpin). specialize (Hnames p Hpin). lia. }
  rewrite Hn0 in Hc. cbn in Hc.
  assert (Hnr : (1 <= node_refs (st_nodes s) (sn_id m))%nat) by lia.
  apply node_refs_in in Hnr. destruct Hnr as (p & Hp & Hpc).
  destruct (inv_below _ _ HI p (sn_id m) Hp Hpc ltac:(lia)) as (m' & Hm' & Hid' & Hlt).
  assert (m' = m) by (apply (nodup_id_eq _ m' m (inv_ids _ _ HI) Hm' Hm Hid')). subst m'.
  specialize (Hle p Hp). lia.
Qed.
