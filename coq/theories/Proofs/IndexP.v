(** C15: looking an index up.  The i-th member of a set (in the lexicographic
    enumeration of the domain) is the assignment whose entry in the index table
    is [Some i]; lookups outside 0..n-1 fail; n is the number of members. *)
From Coq Require Import List Arith ZArith Bool Lia.
From Meddly Require Import Model.DD Model.Build Model.Enum Proofs.DDFacts Proofs.EnumP.
Import ListNotations.
Local Open Scope nat_scope.

Lemma nth_error_filter_rank {A} (p : A -> bool) (d : A) : forall l j,
  j < length l -> p (nth j l d) = true ->
  nth_error (filter p l) (length (filter p (firstn j l))) = Some (nth j l d).
Proof.
  induction l as [|a l IH]; intros j Hj Hp; cbn in Hj; [lia|].
  destruct j as [|j]; cbn [nth firstn filter] in *.
  - rewrite Hp. reflexivity.
  - destruct (p a) eqn:Ea; cbn [length nth_error]; apply IH; auto; lia.
Qed.

Lemma filter_map_commute {A B} (f : A -> B) (q : B -> bool) (l : list A) :
  filter q (map f l) = map f (filter (fun x => q (f x)) l).
Proof. induction l as [|a l IH]; cbn; [reflexivity|]. destruct (q (f a)); cbn; now rewrite IH. Qed.

Section IndexP.
Variable sz : nat -> nat.

Lemma matches_nil L x : matches L [] x = true.
Proof.
  unfold matches. apply forallb_forall. intros p _. unfold pos_ok, pos_at.
  destruct (p - 1); reflexivity.
Qed.

Lemma members_filter r L t :
  members sz r L t = filter (fun x => negb (Z.eqb (eval r L t x) 0)) (all_asg sz L).
Proof.
  unfold members. rewrite enum_fst. apply filter_ext. intros x. now rewrite matches_nil.
Qed.

(** the assignment whose table entry is [Some i] is the i-th member *)
Theorem index_lookup r L t j i :
  j < length (all_asg sz L) ->
  nth j (index_table sz r L t) None = Some i ->
  nth_error (members sz r L t) i = Some (nth j (all_asg sz L) (fun _ => 0)).
Proof.
  intros Hj Hi. unfold index_table, table in Hi.
  rewrite rank_table_spec in Hi by (now rewrite map_length).
  set (f := eval r L t) in *.
  rewrite (nth_indep _ 0%Z (f (fun _ => 0))) in Hi by (now rewrite map_length).
  rewrite (map_nth f) in Hi.
  destruct (Z.eqb (f (nth j (all_asg sz L) (fun _ => 0))) 0) eqn:E; [discriminate|].
  injection Hi as <-. cbn [Nat.add]. rewrite members_filter. fold f.
  unfold count_nz. rewrite firstn_map, filter_map_commute, map_length.
  apply (nth_error_filter_rank (fun x => negb (Z.eqb (f x) 0)) (fun _ => 0)); [exact Hj|].
  now rewrite E.
Qed.

(** lookups outside 0..n-1 fail, inside succeed *)
Theorem get_element_range r L t i :
  (get_element sz r L t i <> None) <-> (0 <= i < Z.of_nat (length (members sz r L t)))%Z.
Proof.
  unfold get_element. destruct (Z.ltb_spec i 0) as [Hn|Hp].
  - split; [intros H; now contradiction H|lia].
  - rewrite nth_error_Some. lia.
Qed.

Theorem members_count r L t :
  length (members sz r L t) = count_nz (table sz r L t).
Proof.
  rewrite members_filter. unfold count_nz, table. now rewrite filter_map_commute, map_length.
Qed.

End IndexP.
