(** C16: the decision table of Model/Precheck.v accepts exactly the well-formed calls, and
    reports the first violated precondition. *)
From Coq Require Import List Arith Bool String Lia.
From Meddly Require Import Model.Precheck.
Import ListNotations.
Local Open Scope string_scope.

Lemma order_eqb_eq : forall x y, order_eqb x y = true <-> x = y.
Proof.
  induction x as [|u x IH]; intros [|v y]; cbn; try (split; (reflexivity || discriminate)).
  rewrite andb_true_iff, Nat.eqb_eq, IH. split.
  - intros [-> ->]. reflexivity.
  - intros E. injection E as -> ->. auto.
Qed.

Definition well_formed (sh : opshape) (a b r : fdesc) : Prop :=
  fd_dom a = fd_dom r /\ fd_dom b = fd_dom r /\ shape_ok sh a b r = true /\
  fd_order a = fd_order r /\ fd_order b = fd_order r.

Theorem precheck_accepts_iff_well_formed sh a b r :
  precheck sh a b r = None <-> well_formed sh a b r.
Proof.
  unfold precheck, well_formed.
  destruct (Nat.eqb_spec (fd_dom a) (fd_dom r)) as [Ea|Ea];
    destruct (Nat.eqb_spec (fd_dom b) (fd_dom r)) as [Eb|Eb]; cbn [andb negb];
    try (split; [discriminate|tauto]).
  destruct (shape_ok sh a b r); cbn [negb]; [|split; [discriminate|intros (_ & _ & H & _); discriminate]].
  destruct (order_eqb (fd_order a) (fd_order r)) eqn:Oa; destruct (order_eqb (fd_order b) (fd_order r)) eqn:Ob;
    cbn [andb negb].
  - apply order_eqb_eq in Oa, Ob. tauto.
  - split; [discriminate|]. intros (_ & _ & _ & _ & H). apply order_eqb_eq in H. congruence.
  - split; [discriminate|]. intros (_ & _ & _ & H & _). apply order_eqb_eq in H. congruence.
  - split; [discriminate|]. intros (_ & _ & _ & H & _). apply order_eqb_eq in H. congruence.
Qed.

(** which code: the first violated precondition *)
Theorem precheck_domain sh a b r :
  (fd_dom a <> fd_dom r \/ fd_dom b <> fd_dom r) -> precheck sh a b r = Some "DOMAIN_MISMATCH".
Proof.
  intros H. unfold precheck.
  destruct (Nat.eqb_spec (fd_dom a) (fd_dom r)); destruct (Nat.eqb_spec (fd_dom b) (fd_dom r)); cbn; try reflexivity.
  destruct H; contradiction.
Qed.

Theorem precheck_shape sh a b r :
  fd_dom a = fd_dom r -> fd_dom b = fd_dom r -> shape_ok sh a b r = false ->
  precheck sh a b r = Some "TYPE_MISMATCH".
Proof.
  intros Ea Eb Hs. unfold precheck. rewrite Ea, Eb, !Nat.eqb_refl, Hs. reflexivity.
Qed.

Theorem precheck_order sh a b r :
  fd_dom a = fd_dom r -> fd_dom b = fd_dom r -> shape_ok sh a b r = true ->
  (fd_order a <> fd_order r \/ fd_order b <> fd_order r) ->
  precheck sh a b r = Some "INVALID_OPERATION".
Proof.
  intros Ea Eb Hs Ho. unfold precheck. rewrite Ea, Eb, !Nat.eqb_refl, Hs. cbn [andb negb].
  destruct (order_eqb (fd_order a) (fd_order r)) eqn:Oa; destruct (order_eqb (fd_order b) (fd_order r)) eqn:Ob;
    cbn; try reflexivity.
  apply order_eqb_eq in Oa, Ob. destruct Ho; contradiction.
Qed.
