(** * C02 / C01 (store level, EV+ forests): soundness of the audit.

    If the executable audit of an EV+ forest dump (fully- or quasi-reduced)
    reports nothing, then unfolding node handles to EV+ diagrams is injective on
    live nodes, every edge (value, root handle) unfolds to an edge that satisfies
    [ev_reduced], and therefore (with [EvP.ev_canon]) two edges into the store
    that denote the same function have the same value and the same handle. *)
From Coq Require Import List Arith ZArith Bool Lia.
From Meddly Require Import Model.DD Model.EvDD Model.Audit Proofs.DDFacts Proofs.EvP Proofs.AuditP.
Import ListNotations.
Local Open Scope Z_scope.

Section AuditEvP.
Variable d : adump.
Hypothesis Hev : d_lab d = LEVP.
Hypothesis Haud : audit d = [].
Hypothesis Hrule : d_rule d <> IR.

Notation rel := (d_rel d).
Notation r := (d_rule d).
Notation lin := (lin d).
Notation szn := (szn d).
Notation topl := (topl d).
Definition fr : bool := match d_rule d with FR => true | _ => false end.

(** unfolding *)
Definition ev_val (e : Z * Z) : option Z := if snd e =? 0 then None else Some (fst e).

Fixpoint ev_tree (fuel : nat) (h : Z) : evdd :=
  match fuel with
  | O => EO
  | S f =>
      if h <=? 0 then EO
      else match find_node d h with
           | Some n => EN (lin (a_lvl n)) (map ev_val (a_full n))
                          (map (fun e => ev_tree f (snd e)) (a_full n))
           | None => EO
           end
  end.

Definition ev_edge (fuel : nat) (e : Z * Z) : edge := (ev_val e, ev_tree fuel (snd e)).

Definition good (h : Z) : Prop := h = 0 \/ h = -1 \/ (0 < h /\ exists n, find_node d h = Some n).

(** ** facts from the audit *)
Lemma audit_parts_ev :
  check_dups LEVP (d_nodes d) = [] /\
  (forall n, In n (d_nodes d) -> check_node d n = []) /\
  check_roots d = [].
Proof.
  unfold audit in Haud. rewrite Hev in Haud.
  apply app_eq_nil in Haud. destruct Haud as [_ H].
  apply app_eq_nil in H. destruct H as [H1 H].
  apply app_eq_nil in H. destruct H as [H2 H].
  apply app_eq_nil in H. destruct H as [_ H].
  apply app_eq_nil in H. destruct H as [_ H4].
  repeat split; auto. now apply flat_map_nil.
Qed.

Lemma find_node_in_ev h n : find_node d h = Some n -> In n (d_nodes d) /\ a_h n = h.
Proof.
  unfold find_node. intros H. apply find_some in H. destruct H as [H1 H2].
  split; [exact H1|]. now apply Z.eqb_eq.
Qed.

(** minimum of the values of the non-transparent entries *)
Definition vals_of (fl : list (Z * Z)) : list Z :=
  map (fun e => fst (snd e)) (nonzero_from 0 fl).

Record enode_ok (n : anode) : Prop := {
  ek_nonzero : forallb transparent (a_full n) = false;
  ek_nonred : fr = true -> all_equal LEVP (a_full n) = false;
  ek_quasi : r = QR ->
             forall e, In e (a_full n) ->
               snd e = 0 \/
               (down_level rel (a_lvl n) = 0 /\ snd e < 0) \/
               (down_level rel (a_lvl n) <> 0 /\ 0 < snd e /\
                level_of d (snd e) = down_level rel (a_lvl n));
  ek_below : forall e, In e (a_full n) ->
             snd e <= 0 \/
             exists c, find_node d (snd e) = Some c /\ lpos rel (a_lvl c) < lpos rel (a_lvl n);
  ek_size : length (a_full n) = szn (lin (a_lvl n));
  ek_top : (lin (a_lvl n) <= topl)%nat;
  ek_level : 0 < lpos rel (a_lvl n);
  ek_norm : match vals_of (a_full n) with
            | [] => True
            | v :: rest => fold_left Z.min rest v = 0
            end;
  ek_term : forall e, In e (a_full n) -> -1 <= snd e
}.

Lemma enode_facts n : In n (d_nodes d) -> enode_ok n.
Proof.
  intros Hn. destruct audit_parts_ev as (_ & Hcn & _).
  specialize (Hcn n Hn). unfold check_node in Hcn. rewrite Hev in Hcn.
  repeat (apply app_eq_nil in Hcn; let H := fresh "C" in destruct Hcn as [H Hcn]).
  assert (Hsz : length (a_full n) = szn (lin (a_lvl n)) /\ (lin (a_lvl n) <= topl)%nat).
  { apply if_nil_t in C7. apply if_nil_t in C9. rewrite Z.eqb_eq in C7, C9.
    apply if_nil_t in C10. apply Z.ltb_lt in C10.
    assert (Hidx : Z.to_nat (lpos rel (a_lvl n) - 1) = (Z.to_nat (lpos rel (a_lvl n)) - 1)%nat) by lia.
    rewrite Hidx in C9. unfold AuditP.szn, AuditP.lin.
    destruct (Nat.ltb_spec (Z.to_nat (lpos rel (a_lvl n)) - 1) topl) as [Hlt|Hge].
    - split; [|lia]. rewrite <- C9, <- C7. now rewrite Nat2Z.id.
    - exfalso. unfold AuditP.topl in Hge. rewrite nth_overflow in C9 by exact Hge.
      rewrite C9 in C7. apply if_nil_f in C.
      destruct (a_full n); [discriminate C|cbn in C7; lia]. }
  constructor.
  - now apply if_nil_f in C.
  - intros Hf. apply if_nil_f in C0. unfold fr in Hf.
    destruct (d_rule d); try discriminate. cbn in C0.
    apply if_nil_t in C7. rewrite Z.eqb_eq in C7. rewrite C7, Z.eqb_refl in C0. exact C0.
  - intros Hq e He. rewrite Hq in C1. apply if_nil_t in C1.
    rewrite forallb_forall in C1. specialize (C1 e He).
    apply orb_true_iff in C1. destruct C1 as [Ht|Ht].
    + left. unfold transparent in Ht. now apply Z.eqb_eq.
    + right. destruct (Z.eqb_spec (down_level rel (a_lvl n)) 0) as [E|E].
      * left. split; [exact E|now apply Z.ltb_lt].
      * right. apply andb_true_iff in Ht. destruct Ht as [A B].
        split; [exact E|]. split; [now apply Z.ltb_lt|now apply Z.eqb_eq].
  - intros e He. apply if_nil_t in C2. rewrite forallb_forall in C2. specialize (C2 e He).
    apply orb_true_iff in C2. destruct C2 as [A|A]; [left; now apply Z.leb_le|].
    right. destruct (find_node d (snd e)) as [c|]; [|discriminate].
    exists c. split; [reflexivity|now apply Z.ltb_lt].
  - apply Hsz.
  - apply Hsz.
  - apply if_nil_t in C10. now apply Z.ltb_lt.
  - unfold vals_of. destruct (map _ (nonzero_from 0 (a_full n))) as [|v rest]; [exact I|].
    apply if_nil_t in C6. now apply Z.eqb_eq.
  - intros e He. apply if_nil_t in Hcn. rewrite forallb_forall in Hcn. apply Z.leb_le. now apply Hcn.
Qed.

(** ** levels *)
Definition lv (h : Z) : nat := lin (level_of d h).

Lemma lv_terminal h : h <= 0 -> lv h = 0%nat.
Proof.
  intros H. unfold lv, level_of. destruct (Z.leb_spec h 0); [|lia].
  unfold AuditP.lin, lpos. destruct rel; cbn; reflexivity.
Qed.

Lemma lv_node h n : 0 < h -> find_node d h = Some n -> lv h = lin (a_lvl n).
Proof.
  intros Hh Hf. unfold lv, level_of. destruct (Z.leb_spec h 0); [lia|]. now rewrite Hf.
Qed.

Lemma lin_pos n : In n (d_nodes d) -> (1 <= lin (a_lvl n))%nat.
Proof. intros Hn. pose proof (ek_level n (enode_facts n Hn)). unfold AuditP.lin. lia. Qed.

Lemma lin_inj n m : In n (d_nodes d) -> In m (d_nodes d) ->
  lin (a_lvl n) = lin (a_lvl m) -> a_lvl n = a_lvl m.
Proof.
  intros Hn Hm H. apply (lpos_inj d); [intros E; contradiction|].
  pose proof (ek_level n (enode_facts n Hn)). pose proof (ek_level m (enode_facts m Hm)).
  unfold AuditP.lin in H. lia.
Qed.

Lemma child_below n e :
  In n (d_nodes d) -> In e (a_full n) -> good (snd e) /\ (lv (snd e) < lin (a_lvl n))%nat.
Proof.
  intros Hn He. pose proof (enode_facts n Hn) as K.
  destruct (Z.leb_spec (snd e) 0) as [Hle|Hgt].
  - split.
    + pose proof (ek_term n K e He). unfold good. lia.
    + rewrite lv_terminal by exact Hle. apply (lin_pos n Hn).
  - destruct (ek_below n K e He) as [Hle|(c & Hc & Hlt)]; [lia|].
    split; [right; right; split; [exact Hgt|now exists c]|].
    rewrite (lv_node _ c Hgt Hc). unfold AuditP.lin.
    destruct (find_node_in_ev _ _ Hc) as [Hcin _].
    pose proof (ek_level c (enode_facts c Hcin)). lia.
Qed.

(** ** no duplicates *)
Definition same_content (n m : anode) : bool :=
  (a_lvl m =? a_lvl n) && Audit.list_eqb (edge_eqb LEVP) (a_full m) (a_full n).

Lemma check_dups_spec_ev : forall ns,
  check_dups LEVP ns = [] ->
  forall l1 n l2 m l3, ns = l1 ++ n :: l2 ++ m :: l3 -> same_content n m = false.
Proof.
  induction ns as [|a ns IH]; intros H l1 n l2 m l3 E.
  - destruct l1; discriminate.
  - cbn in H. apply app_eq_nil in H. destruct H as [Ha Hr].
    destruct l1 as [|b l1]; cbn in E; injection E as -> E.
    + apply if_nil_f in Ha. subst ns.
      destruct (same_content n m) eqn:Es; [|reflexivity].
      assert (existsb (fun m0 => (a_lvl m0 =? a_lvl n) &&
                 Audit.list_eqb (edge_eqb LEVP) (a_full m0) (a_full n)) (l2 ++ m :: l3) = true).
      { apply existsb_exists. exists m. split; [apply in_or_app; right; now left|exact Es]. }
      congruence.
    + now apply (IH Hr l1 n l2 m l3).
Qed.

(** "the same edge": both transparent, or the same value and the same child *)
Definition edge_same (a b : Z * Z) : Prop :=
  (snd a = 0 /\ snd b = 0) \/ (snd a <> 0 /\ a = b).

Lemma edge_eqb_levp a b : edge_same a b -> edge_eqb LEVP a b = true /\ edge_eqb LEVP b a = true.
Proof.
  unfold edge_eqb, transparent, pair_eqb. intros [[Ha Hb]|[Ha ->]].
  - rewrite Ha, Hb. cbn. auto.
  - destruct (Z.eqb_spec (snd b) 0); [contradiction|]. rewrite !Z.eqb_refl. auto.
Qed.

Lemma list_eqb_same (l1 l2 : list (Z * Z)) :
  Forall2 edge_same l1 l2 ->
  Audit.list_eqb (edge_eqb LEVP) l1 l2 = true /\ Audit.list_eqb (edge_eqb LEVP) l2 l1 = true.
Proof.
  induction 1 as [|a b l1 l2 Hab _ IH]; cbn [Audit.list_eqb]; [auto|].
  destruct (edge_eqb_levp a b Hab) as [E1 E2]. destruct IH as [E3 E4].
  rewrite E1, E2, E3, E4. auto.
Qed.

Lemma no_dup_content_ev n m :
  In n (d_nodes d) -> In m (d_nodes d) ->
  a_lvl n = a_lvl m -> Forall2 edge_same (a_full n) (a_full m) -> n = m.
Proof.
  intros Hn Hm Hl Hc. destruct audit_parts_ev as (Hd & _).
  destruct (list_eqb_same _ _ Hc) as [E1 E2].
  destruct (in_two n m _ Hn Hm) as [E|[(l1 & l2 & l3 & E)|(l1 & l2 & l3 & E)]]; [exact E| |].
  - pose proof (check_dups_spec_ev _ Hd _ _ _ _ _ E) as Hs. unfold same_content in Hs.
    rewrite Hl, Z.eqb_refl, E2 in Hs. discriminate.
  - pose proof (check_dups_spec_ev _ Hd _ _ _ _ _ E) as Hs. unfold same_content in Hs.
    rewrite Hl, Z.eqb_refl, E1 in Hs. discriminate.
Qed.

(** ** injectivity of the unfolding *)
Lemma ev_tree_node f h n : 0 < h -> find_node d h = Some n ->
  ev_tree (S f) h = EN (lin (a_lvl n)) (map ev_val (a_full n)) (map (fun e => ev_tree f (snd e)) (a_full n)).
Proof. intros Hh Hn. cbn [ev_tree]. destruct (Z.leb_spec h 0); [lia|]. now rewrite Hn. Qed.

Lemma ev_tree_terminal f h : h <= 0 -> ev_tree f h = EO.
Proof. intros Hh. destruct f; [reflexivity|]. cbn [ev_tree]. destruct (Z.leb_spec h 0); [reflexivity|lia]. Qed.

Theorem ev_tree_inj : forall m h1 h2 f,
  0 < h1 -> 0 < h2 -> good h1 -> good h2 -> (lv h1 <= m)%nat -> (lv h2 <= m)%nat -> (m < f)%nat ->
  ev_tree f h1 = ev_tree f h2 -> h1 = h2.
Proof.
  induction m as [m IH] using lt_wf_ind. intros h1 h2 f P1 P2 G1 G2 L1 L2 Hf E.
  destruct f as [|f]; [lia|].
  destruct G1 as [|[|(_ & n1 & F1)]]; [lia|lia|]. destruct G2 as [|[|(_ & n2 & F2)]]; [lia|lia|].
  rewrite (ev_tree_node f h1 n1 P1 F1), (ev_tree_node f h2 n2 P2 F2) in E.
  injection E as Ek Ev Ec.
  destruct (find_node_in_ev _ _ F1) as [I1 A1]. destruct (find_node_in_ev _ _ F2) as [I2 A2].
  rewrite (lv_node _ n1 P1 F1) in L1. rewrite (lv_node _ n2 P2 F2) in L2.
  assert (Hlvl : a_lvl n1 = a_lvl n2) by now apply lin_inj.
  assert (Hch : Forall2 edge_same (a_full n1) (a_full n2)).
  { assert (H1 : forall e, In e (a_full n1) -> good (snd e) /\ (lv (snd e) < lin (a_lvl n1))%nat)
      by (intros; now apply child_below).
    assert (H2 : forall e, In e (a_full n2) -> good (snd e) /\ (lv (snd e) < lin (a_lvl n2))%nat)
      by (intros; now apply child_below).
    clear F1 F2 A1 A2. revert Ev Ec H1 H2. generalize (a_full n1) (a_full n2).
    induction l as [|a l IHl]; intros [|b l'] Ev Ec H1 H2; cbn in *; try discriminate; [constructor|].
    injection Ev as Eva Evl. injection Ec as Eca Ecl.
    destruct (H1 a (or_introl eq_refl)) as [Ga La]. destruct (H2 b (or_introl eq_refl)) as [Gb Lb].
    constructor; [|apply IHl; auto].
    unfold ev_val in Eva. unfold edge_same.
    destruct (Z.eqb_spec (snd a) 0) as [Za|Za]; destruct (Z.eqb_spec (snd b) 0) as [Zb|Zb]; try discriminate.
    - left. auto.
    - right. split; [exact Za|]. injection Eva as Efst.
      assert (Esnd : snd a = snd b).
      { destruct (Z.leb_spec (snd a) 0) as [Na|Pa]; destruct (Z.leb_spec (snd b) 0) as [Nb|Pb].
        - destruct Ga as [|[|[? _]]], Gb as [|[|[? _]]]; lia.
        - exfalso. rewrite (ev_tree_terminal f (snd a) Na) in Eca.
          destruct Gb as [|[|(_ & y & Fy)]]; try lia.
          destruct f as [|f']; [lia|]. rewrite (ev_tree_node f' _ y Pb Fy) in Eca. discriminate.
        - exfalso. rewrite (ev_tree_terminal f (snd b) Nb) in Eca.
          destruct Ga as [|[|(_ & x & Fx)]]; try lia.
          destruct f as [|f']; [lia|]. rewrite (ev_tree_node f' _ x Pa Fx) in Eca. discriminate.
        - apply (IH (lin (a_lvl n1) - 1)%nat) with (f := f); try lia; auto. }
      destruct a, b; cbn in *; congruence. }
  rewrite <- A1, <- A2. f_equal. now apply no_dup_content_ev.
Qed.

(** edges of listed nodes: the unfolding determines the edge *)
Lemma ev_edge_inj m f a b :
  good (snd a) -> good (snd b) -> (lv (snd a) <= m)%nat -> (lv (snd b) <= m)%nat -> (m < f)%nat ->
  ev_edge f a = ev_edge f b -> edge_same a b.
Proof.
  intros Ga Gb La Lb Hf E. unfold ev_edge in E. injection E as Eva Eca.
  unfold ev_val in Eva. unfold edge_same.
  destruct (Z.eqb_spec (snd a) 0) as [Za|Za]; destruct (Z.eqb_spec (snd b) 0) as [Zb|Zb]; try discriminate.
  - left. auto.
  - right. split; [exact Za|]. injection Eva as Efst.
    assert (Esnd : snd a = snd b).
    { destruct (Z.leb_spec (snd a) 0) as [Na|Pa]; destruct (Z.leb_spec (snd b) 0) as [Nb|Pb].
      - destruct Ga as [|[|[? _]]], Gb as [|[|[? _]]]; lia.
      - exfalso. rewrite (ev_tree_terminal f (snd a) Na) in Eca.
        destruct Gb as [|[|(_ & y & Fy)]]; try lia.
        destruct f as [|f']; [lia|]. rewrite (ev_tree_node f' _ y Pb Fy) in Eca. discriminate.
      - exfalso. rewrite (ev_tree_terminal f (snd b) Nb) in Eca.
        destruct Ga as [|[|(_ & x & Fx)]]; try lia.
        destruct f as [|f']; [lia|]. rewrite (ev_tree_node f' _ x Pa Fx) in Eca. discriminate.
      - apply (ev_tree_inj m _ _ f); auto. }
    destruct a, b; cbn in *; congruence.
Qed.

(** ** reducedness of the unfolded edges *)
Lemma omin_assoc a b X : omin (Some a) (omin (Some b) X) = omin (Some (Z.min a b)) X.
Proof. destruct X as [x|]; cbn; [f_equal; lia|reflexivity]. Qed.

Lemma omin_fold : forall l acc,
  omin (Some acc) (omin_list (map Some l)) = Some (fold_left Z.min l acc).
Proof.
  induction l as [|a l IH]; intros acc; [reflexivity|].
  change (omin_list (map Some (a :: l))) with (omin (Some a) (omin_list (map Some l))).
  rewrite omin_assoc. cbn [fold_left]. apply IH.
Qed.

Lemma vals_of_filter : forall fl i,
  map (fun p : Z * (Z * Z) => fst (snd p)) (nonzero_from i fl)
  = map fst (filter (fun e => negb (transparent e)) fl).
Proof.
  induction fl as [|e fl IH]; intros i; [reflexivity|]. cbn [nonzero_from filter].
  destruct (transparent e); cbn [negb]; [apply IH|]. cbn. f_equal. apply IH.
Qed.

Lemma omin_vals : forall fl,
  omin_list (map ev_val fl) = omin_list (map Some (map fst (filter (fun e => negb (transparent e)) fl))).
Proof.
  induction fl as [|e fl IH]; [reflexivity|].
  change (omin_list (map ev_val (e :: fl))) with (omin (ev_val e) (omin_list (map ev_val fl))).
  cbn [filter]. unfold ev_val at 1, transparent. destruct (Z.eqb_spec (snd e) 0); cbn [negb].
  - rewrite IH. destruct (omin_list _); reflexivity.
  - cbn [map]. change (omin_list (Some (fst e) :: ?l)) with (omin (Some (fst e)) (omin_list l)).
    now rewrite IH.
Qed.

Lemma node_normalised n : In n (d_nodes d) -> omin_list (map ev_val (a_full n)) = Some 0.
Proof.
  intros Hn. pose proof (enode_facts n Hn) as K.
  rewrite omin_vals. pose proof (ek_norm n K) as Hnorm. unfold vals_of in Hnorm.
  rewrite vals_of_filter in Hnorm.
  destruct (map fst (filter (fun e => negb (transparent e)) (a_full n))) as [|v rest] eqn:E.
  - (* no non-transparent entry: excluded by clause 2 *)
    exfalso. pose proof (ek_nonzero n K) as Hnz.
    assert (forallb transparent (a_full n) = true); [|congruence].
    apply forallb_forall. intros e He. destruct (transparent e) eqn:Et; [reflexivity|].
    assert (In e (filter (fun e => negb (transparent e)) (a_full n))) by (apply filter_In; now rewrite Et).
    destruct (filter _ (a_full n)); [contradiction|discriminate].
  - change (omin_list (map Some (v :: rest))) with (omin (Some v) (omin_list (map Some rest))).
    rewrite omin_fold. now rewrite Hnorm.
Qed.

Definition ctx (c : Z) (L : nat) : Prop := r = QR -> c = 0 \/ lv c = L.

Lemma ev_reduced_term : forall L v, ev_reduced szn true L (Some v, EO) = true.
Proof. induction L as [|L IH]; intros v; [reflexivity|]. cbn. apply IH. Qed.

Lemma nth_edge_ev f fl i :
  nth_edge (map ev_val fl) (map (fun e => ev_tree f (snd e)) fl) i = ev_edge f (nth i fl (0, 0)).
Proof.
  unfold nth_edge, ev_edge. f_equal.
  - change None with (ev_val (0, 0)). apply map_nth.
  - transitivity (nth i (map (fun e : Z * Z => ev_tree f (snd e)) fl) ((fun e : Z * Z => ev_tree f (snd e)) (0, 0))).
    + f_equal. cbn [snd]. symmetry. apply ev_tree_terminal. lia.
    + apply (map_nth (fun e : Z * Z => ev_tree f (snd e))).
Qed.

Lemma fr_cases : (fr = true /\ r = FR) \/ (fr = false /\ r = QR).
Proof. unfold fr. destruct (d_rule d) eqn:E; auto. contradiction. Qed.

Theorem ev_audit_reduced : forall L e f,
  good (snd e) -> (lv (snd e) <= L)%nat -> (lv (snd e) < f)%nat -> ctx (snd e) L ->
  ev_reduced szn fr L (ev_edge f e) = true.
Proof.
  induction L as [|L IH]; intros [v c] f Hg HL Hf Hc; cbn [snd] in *; unfold ev_edge, ev_val; cbn [snd fst].
  - destruct (Z.eqb_spec c 0) as [->|Hnz]; [rewrite ev_tree_terminal by lia; reflexivity|].
    destruct (Z.leb_spec c 0) as [Hle|Hgt]; [rewrite ev_tree_terminal by exact Hle; reflexivity|].
    exfalso. destruct Hg as [|[|(_ & n & Hn)]]; try lia.
    destruct (find_node_in_ev _ _ Hn) as [Hin _]. rewrite (lv_node _ n Hgt Hn) in HL.
    pose proof (lin_pos n Hin). lia.
  - destruct (Z.eqb_spec c 0) as [->|Hnz]; [rewrite ev_tree_terminal by lia; reflexivity|].
    destruct (Z.leb_spec c 0) as [Hle|Hgt].
    + (* terminal child *)
      rewrite ev_tree_terminal by exact Hle.
      destruct fr_cases as [[Efr _]|[Efr Er]]; rewrite Efr.
      * apply ev_reduced_term.
      * exfalso. destruct (Hc Er) as [->|E]; [lia|]. rewrite lv_terminal in E by exact Hle. lia.
    + destruct Hg as [|[|(_ & n & Hn)]]; try lia.
      destruct (find_node_in_ev _ _ Hn) as [Hin Hah]. pose proof (enode_facts n Hin) as K.
      rewrite (lv_node _ n Hgt Hn) in HL, Hf. pose proof (lin_pos n Hin) as Hk1.
      destruct f as [|f]; [lia|]. rewrite (ev_tree_node f c n Hgt Hn).
      destruct (Nat.eq_dec (lin (a_lvl n)) (S L)) as [Ek|Ek].
      * rewrite Ek. apply ev_reduced_node. repeat split.
        -- rewrite map_length, (ek_size n K), Ek. reflexivity.
        -- rewrite map_length, (ek_size n K), Ek. reflexivity.
        -- now apply node_normalised.
        -- intros Efr. apply Bool.not_true_iff_false. intros Hs.
           pose proof (ek_nonred n K Efr) as Hne.
           assert (all_equal LEVP (a_full n) = true); [|congruence].
           unfold all_same_edges in Hs. rewrite forallb_forall in Hs.
           destruct (a_full n) as [|e0 rest] eqn:Efl; [reflexivity|].
           cbn [all_equal]. apply forallb_forall. intros x Hx.
           destruct (In_nth _ _ (0, 0) Hx) as (j & Hj & Ej).
           assert (Hlt : (S j < szn (S L))%nat).
           { rewrite <- Ek, <- (ek_size n K), Efl. cbn. lia. }
           specialize (Hs (S j) ltac:(apply in_seq; lia)). apply edge_eqb_eq in Hs.
           rewrite <- Efl in Hs. rewrite !nth_edge_ev in Hs. rewrite Efl in Hs. cbn [nth] in Hs. rewrite Ej in Hs.
           assert (Hx' : In x (a_full n)) by (rewrite Efl; now right).
           assert (H0' : In e0 (a_full n)) by (rewrite Efl; now left).
           destruct (child_below n x Hin Hx') as [Gx Lx]. destruct (child_below n e0 Hin H0') as [G0 L0].
           pose proof (ev_edge_inj (lin (a_lvl n) - 1)%nat f x e0 Gx G0 ltac:(lia) ltac:(lia) ltac:(lia) Hs) as Hsame.
           apply (edge_eqb_levp x e0 Hsame).
        -- intros i Hi. rewrite nth_edge_ev.
           set (e := nth i (a_full n) (0, 0)).
           assert (He : In e (a_full n)) by (apply nth_In; rewrite (ek_size n K), Ek; exact Hi).
           destruct (child_below n e Hin He) as [Gc Lc].
           apply IH; [exact Gc|lia|lia|].
           intros Eq. destruct (ek_quasi n K Eq e He) as [Hz|[[Hd Hneg]|(Hd & Hpos & Hlv)]].
           ++ now left.
           ++ right. rewrite (lv_terminal (snd e)) by lia.
              assert (Hld' : AuditP.lin d (down_level rel (a_lvl n)) = (lin (a_lvl n) - 1)%nat).
              { unfold AuditP.lin, down_level, lpos. pose proof (ek_level n K) as Hp. unfold lpos in Hp.
                destruct rel.
                - destruct (Z.ltb_spec 0 (a_lvl n)).
                  + destruct (Z.ltb_spec 0 (- a_lvl n)); [lia|]. destruct (Z.ltb_spec (- a_lvl n) 0); lia.
                  + destruct (Z.ltb_spec (a_lvl n) 0); [|lia].
                    destruct (Z.ltb_spec 0 (- a_lvl n - 1)); [lia|].
                    destruct (Z.ltb_spec (- a_lvl n - 1) 0); lia.
                - lia. }
              rewrite Hd in Hld'. unfold AuditP.lin at 1 in Hld'. unfold lpos at 1 in Hld'.
              destruct rel; cbn in Hld'; lia.
           ++ right. unfold lv. rewrite Hlv.
              assert (Hld' : AuditP.lin d (down_level rel (a_lvl n)) = (lin (a_lvl n) - 1)%nat).
              { unfold AuditP.lin, down_level, lpos. pose proof (ek_level n K) as Hp. unfold lpos in Hp.
                destruct rel.
                - destruct (Z.ltb_spec 0 (a_lvl n)).
                  + destruct (Z.ltb_spec 0 (- a_lvl n)); [lia|]. destruct (Z.ltb_spec (- a_lvl n) 0); lia.
                  + destruct (Z.ltb_spec (a_lvl n) 0); [|lia].
                    destruct (Z.ltb_spec 0 (- a_lvl n - 1)); [lia|].
                    destruct (Z.ltb_spec (- a_lvl n - 1) 0); lia.
                - lia. }
              rewrite Hld'. lia.
      * (* the node lies below this level: allowed for fully-reduced forests only *)
        destruct fr_cases as [[Efr _]|[Efr Er]].
        -- rewrite ev_reduced_skip by (cbn; lia). rewrite Efr at 1. cbn [andb].
           rewrite <- (ev_tree_node f c n Hgt Hn).
           change (Some v, ev_tree (S f) c) with (if c =? 0 then (None : option Z, ev_tree (S f) c) else (Some v, ev_tree (S f) c)) at 1 || idtac.
           specialize (IH (v, c) (S f)). unfold ev_edge, ev_val in IH. cbn [snd fst] in IH.
           destruct (Z.eqb_spec c 0); [lia|]. apply IH.
           ++ right; right. split; [exact Hgt|now exists n].
           ++ rewrite (lv_node _ n Hgt Hn). lia.
           ++ rewrite (lv_node _ n Hgt Hn). lia.
           ++ intros Eq. unfold fr in Efr. rewrite Eq in Efr. discriminate.
        -- exfalso. destruct (Hc Er) as [->|E]; [lia|]. rewrite (lv_node _ n Hgt Hn) in E. lia.
Qed.

End AuditEvP.

(** ** the store-level statement for EV+ forests *)
Definition ev_root (d : adump) (e : Z * Z) : edge := ev_edge d (S (topl d)) e.

Lemma audited_ev_root d :
  d_lab d = LEVP -> d_rule d <> IR -> audit d = [] ->
  forall h, In h (d_roots d) ->
  good d h /\ (lv d h <= topl d)%nat /\ ctx d h (topl d).
Proof.
  intros Hev Hrule Haud h Hh.
  destruct (audit_parts_ev d Hev Haud) as (_ & _ & Hroots).
  unfold check_roots in Hroots. pose proof (flat_map_nil _ _ Hroots h Hh) as Hr. cbn beta in Hr.
  apply app_eq_nil in Hr. destruct Hr as [R19 Hr]. apply if_nil_t in R19.
  apply app_eq_nil in Hr. destruct Hr as [R18 R20]. rewrite Hev in R20. apply if_nil_t in R20.
  apply Z.leb_le in R20.
  assert (Hg : good d h).
  { apply orb_true_iff in R19. destruct R19 as [R|R].
    - apply Z.leb_le in R. unfold good. lia.
    - destruct (Z.leb_spec h 0); [unfold good; lia|].
      right; right. split; [assumption|].
      destruct (find_node d h) as [n|]; [now exists n|discriminate]. }
  split; [exact Hg|]. split.
  - destruct (Z.leb_spec h 0) as [Hle|Hgt].
    + rewrite (lv_terminal d h Hle). lia.
    + destruct Hg as [|[|(_ & n & Hn)]]; try lia.
      rewrite (lv_node d h n Hgt Hn).
      destruct (find_node_in_ev d _ _ Hn) as [Hin _].
      apply (ek_top d n (enode_facts d Hev Haud Hrule n Hin)).
  - intros Eq. rewrite Eq in R18. apply if_nil_t in R18.
    apply orb_true_iff in R18. destruct R18 as [R|R].
    + left. now apply Z.eqb_eq.
    + right. apply Z.eqb_eq in R. unfold lv, AuditP.lin, AuditP.topl. rewrite R. apply Nat2Z.id.
Qed.

(** In an audited EV+ forest (fully or quasi reduced), every edge (any value,
    a root handle) unfolds to a reduced EV+ edge, and two such edges that denote
    the same function are the same edge: both +infinity, or the same value on
    the same handle. *)
Theorem audited_evstore_canonical d :
  d_lab d = LEVP -> d_rule d <> IR -> dom_ok d = true -> audit d = [] ->
  forall v1 h1 v2 h2, In h1 (d_roots d) -> In h2 (d_roots d) ->
  ev_reduced (szn d) (fr d) (topl d) (ev_root d (v1, h1)) = true /\
  ((forall x, valid (szn d) x ->
      ev_eval (topl d) (ev_root d (v1, h1)) x = ev_eval (topl d) (ev_root d (v2, h2)) x) ->
   edge_same (v1, h1) (v2, h2)).
Proof.
  intros Hev Hrule Hd Haud v1 h1 v2 h2 H1 H2.
  destruct (audited_ev_root d Hev Hrule Haud h1 H1) as (G1 & L1 & C1).
  destruct (audited_ev_root d Hev Hrule Haud h2 H2) as (G2 & L2 & C2).
  assert (R1 : ev_reduced (szn d) (fr d) (topl d) (ev_root d (v1, h1)) = true)
    by (apply (ev_audit_reduced d Hev Haud Hrule); cbn [snd]; auto; lia).
  assert (R2 : ev_reduced (szn d) (fr d) (topl d) (ev_root d (v2, h2)) = true)
    by (apply (ev_audit_reduced d Hev Haud Hrule); cbn [snd]; auto; lia).
  split; [exact R1|]. intros E.
  apply (ev_edge_inj d Hev Haud Hrule (topl d) (S (topl d))); cbn [snd]; auto.
  apply (ev_canon (szn d) (dom_ok_sz1 d Hd) (fr d) (topl d) _ _ R1 R2 E).
Qed.
