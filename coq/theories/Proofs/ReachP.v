(** C08: both breadth-first iterations return exactly the least fixed point
    (the inductively defined set of reachable states), and they terminate
    within |states|+1 rounds. *)
From Coq Require Import List Arith ZArith Bool Lia.
From Meddly Require Import Model.Reach.
Import ListNotations.
Local Open Scope nat_scope.

Section ReachP.
Variable St : Type.
Variable states : list St.
Variable R : St -> St -> bool.

Notation img := (img St states R).
Notation bfs := (bfs St states R).
Notation bfs_front := (bfs_front St states R).
Notation same_set := (same_set St states).
Notation empty_set := (empty_set St states).

Inductive Reach (init : St -> bool) : St -> Prop :=
| Reach0 x : In x states -> init x = true -> Reach init x
| ReachS x y : Reach init x -> In y states -> R x y = true -> Reach init y.

Lemma img_spec S y : img S y = true <-> exists x, In x states /\ S x = true /\ R x y = true.
Proof.
  unfold Reach.img. rewrite existsb_exists. split.
  - intros (x & Hx & H). apply andb_true_iff in H. exists x. tauto.
  - intros (x & Hx & H1 & H2). exists x. split; [exact Hx|]. now rewrite H1, H2.
Qed.

Lemma same_set_spec S S' : same_set S S' = true <-> forall y, In y states -> S y = S' y.
Proof.
  unfold Reach.same_set. rewrite forallb_forall. split; intros H y Hy.
  - apply eqb_prop, H, Hy.
  - rewrite (H y Hy). apply eqb_reflx.
Qed.

(** ** without frontier *)
Theorem bfs_lfp : forall fuel init S0 S,
  (forall y, In y states -> init y = true -> S0 y = true) ->
  (forall y, In y states -> S0 y = true -> Reach init y) ->
  bfs fuel S0 = Some S ->
  forall y, In y states -> (S y = true <-> Reach init y).
Proof.
  induction fuel as [|fuel IH]; intros init S0 S Hinit Hsound; cbn; [discriminate|].
  destruct (same_set S0 (fun y => S0 y || img S0 y)) eqn:E.
  - intros H; injection H as <-. intros y Hy. split; [now apply Hsound|].
    rewrite same_set_spec in E.
    induction 1 as [x Hx Hi|x z Hxr IHx Hz HR].
    + now apply Hinit.
    + rewrite (E z Hz). apply orb_true_iff. right. apply img_spec.
      exists x. split; [|split; [apply IHx|exact HR]].
      * clear - Hxr. induction Hxr; assumption.
      * clear - Hxr. induction Hxr; assumption.
  - apply IH.
    + intros y Hy Hi. now rewrite (Hinit y Hy Hi).
    + intros y Hy H. apply orb_true_iff in H. destruct H as [H|H]; [now apply Hsound|].
      apply img_spec in H. destruct H as (x & Hx & Hsx & HR).
      eapply ReachS; eauto.
Qed.

(** ** termination: the set grows strictly until the fixed point *)
Definition card (S : St -> bool) : nat := length (filter S states).

Lemma card_le S : card S <= length states.
Proof.
  unfold card. induction states as [|x l IH]; cbn; [lia|]. destruct (S x); cbn; lia.
Qed.

Lemma card_grows (S S' : St -> bool) :
  (forall y, S y = true -> S' y = true) -> same_set S S' = false -> card S < card S'.
Proof.
  unfold card, Reach.same_set. intros Hsub. induction states as [|x l IH]; cbn; [discriminate|].
  destruct (Bool.eqb (S x) (S' x)) eqn:E; cbn.
  - intros H. specialize (IH H). apply eqb_prop in E. rewrite <- E. destruct (S x); cbn; lia.
  - intros _. assert (Hx : S x = false /\ S' x = true).
    { destruct (S x) eqn:E1; destruct (S' x) eqn:E2; cbn in E; try discriminate; auto.
      rewrite (Hsub x E1) in E2. discriminate. }
    destruct Hx as [-> ->]. cbn.
    assert (length (filter S l) <= length (filter S' l)); [|lia].
    clear IH. induction l as [|z l IHl]; cbn; [lia|].
    destruct (S z) eqn:Ez; [rewrite (Hsub z Ez); cbn; lia|]. destruct (S' z); cbn; lia.
Qed.

Theorem bfs_terminates : forall fuel S0,
  length states - card S0 < fuel -> bfs fuel S0 <> None.
Proof.
  induction fuel as [|fuel IH]; intros S0 Hf; [lia|]. cbn.
  destruct (same_set S0 (fun y => S0 y || img S0 y)) eqn:E; [discriminate|].
  apply IH.
  assert (card S0 < card (fun y => S0 y || img S0 y)).
  { apply card_grows; [|exact E]. intros y Hy. now rewrite Hy. }
  pose proof (card_le (fun y => S0 y || img S0 y)). lia.
Qed.

(** ** with frontier *)
Lemma empty_set_spec F : empty_set F = true <-> forall y, In y states -> F y = false.
Proof.
  unfold Reach.empty_set. rewrite forallb_forall. split; intros H y Hy.
  - apply negb_true_iff, H, Hy.
  - apply negb_true_iff, H, Hy.
Qed.

Theorem bfs_front_lfp : forall fuel init S0 F S,
  (forall y, In y states -> init y = true -> S0 y = true) ->
  (forall y, In y states -> S0 y = true -> Reach init y) ->
  (forall y, In y states -> F y = true -> S0 y = true) ->
  (* every state already expanded: successors of non-frontier members are in *)
  (forall x y, In x states -> In y states -> S0 x = true -> F x = false ->
               R x y = true -> S0 y = true) ->
  bfs_front fuel S0 F = Some S ->
  forall y, In y states -> (S y = true <-> Reach init y).
Proof.
  induction fuel as [|fuel IH]; intros init S0 F S Hinit Hsound HF Hexp; cbn; [discriminate|].
  destruct (empty_set F) eqn:E.
  - intros H; injection H as <-. intros y Hy. split; [now apply Hsound|].
    rewrite empty_set_spec in E.
    induction 1 as [x Hx Hi|x z Hxr IHx Hz HR]; [now apply Hinit|].
    assert (Hxs : In x states) by (clear - Hxr; induction Hxr; assumption).
    eapply Hexp; eauto.
  - apply IH.
    + intros y Hy Hi. now rewrite (Hinit y Hy Hi).
    + intros y Hy H. apply orb_true_iff in H. destruct H as [H|H]; [now apply Hsound|].
      apply img_spec in H. destruct H as (x & Hx & Hfx & HR).
      eapply ReachS; eauto.
    + intros y Hy H. apply andb_true_iff in H. tauto.
    + intros x y Hx Hy Hsx Hfx HR.
      apply orb_true_iff in Hsx. apply andb_false_iff in Hfx.
      destruct (S0 x) eqn:Es.
      * (* x was already a member *)
        destruct (F x) eqn:Ef.
        -- apply orb_true_iff. right. apply img_spec. exists x. auto.
        -- apply orb_true_iff. left. exact (Hexp x y Hx Hy Es Ef HR).
      * (* x is new, hence in the new frontier: contradiction *)
        destruct Hsx as [Hsx|Hsx]; [discriminate|].
        destruct Hfx as [Hfx|Hfx]; [rewrite Hsx in Hfx; cbn in Hfx; discriminate|discriminate].
Qed.

End ReachP.
