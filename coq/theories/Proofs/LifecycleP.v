(** C17: forest identifiers are never reused within one initialisation;
    destroying a forest detaches exactly its edges and leaves the rest alone. *)
From Coq Require Import List Arith Bool Lia.
From Meddly Require Import Model.Lifecycle.
Import ListNotations.

(** every live forest has an identifier below the counter *)
Definition ids_below (s : lstate) : Prop :=
  forall f, In f (ls_forests s) -> lf_id f < ls_next_fid s.

Lemma ids_below_step s o : o <> LInitialize -> ids_below s -> ids_below (lstep s o).
Proof.
  intros Hno H. destruct o as [d|d|g|d|e g|e| |]; cbn; unfold ids_below in *; cbn; intros x Hx;
    try (apply H, Hx).
  - destruct Hx as [<-|Hx]; cbn; [lia|]. specialize (H x Hx). lia.
  - apply filter_In in Hx. apply H. tauto.
  - apply filter_In in Hx. apply H. tauto.
  - destruct Hx.
  - congruence.
Qed.

(** a newly created forest gets an identifier no live forest has, and larger
    than every identifier handed out before in this initialisation *)
Theorem fresh_fid s :
  ids_below s ->
  forall f, In f (ls_forests s) -> lf_id f <> ls_next_fid s.
Proof. intros H f Hf. specialize (H f Hf). lia. Qed.

(** the counter never decreases except at (re)initialisation *)
Theorem fid_monotone s o : o <> LInitialize -> ls_next_fid s <= ls_next_fid (lstep s o).
Proof. intros H. destruct o; cbn; try lia. congruence. Qed.

Theorem fid_monotone_history : forall os s,
  ~ In LInitialize os -> ls_next_fid s <= ls_next_fid (fold_left lstep os s).
Proof.
  induction os as [|o os IH]; intros s H; cbn; [lia|].
  assert (o <> LInitialize) by (intros ->; apply H; now left).
  transitivity (ls_next_fid (lstep s o)); [now apply fid_monotone|].
  apply IH. intros Hin. apply H. now right.
Qed.

(** destroying forest f: exactly the edges attached to f become detached;
    all other edges are untouched *)
Theorem destroy_detaches_exactly s f e :
  In e (ls_edges s) ->
  exists e', In e' (ls_edges (lstep s (LDestroyForest f))) /\ le_id e' = le_id e /\
    le_forest e' = (match le_forest e with
                    | Some g => if Nat.eqb g f then None else Some g
                    | None => None
                    end).
Proof.
  intros He. cbn. unfold detach_forest.
  exists (match le_forest e with
          | Some g => if Nat.eqb g f then {| le_id := le_id e; le_forest := None |} else e
          | None => e
          end).
  split; [apply in_map_iff; exists e; split; [reflexivity|exact He]|].
  destruct (le_forest e) as [g|] eqn:E; [|split; [reflexivity|exact E]].
  destruct (Nat.eqb g f); cbn; split; auto.
Qed.

(** frame: other forests and all domains survive *)
Theorem destroy_frame s f g :
  In g (ls_forests s) -> lf_id g <> f ->
  In g (ls_forests (lstep s (LDestroyForest f))) /\
  ls_domains (lstep s (LDestroyForest f)) = ls_domains s.
Proof.
  intros Hg Hne. cbn. split; [|reflexivity].
  apply filter_In. split; [exact Hg|]. apply negb_true_iff, Nat.eqb_neq. exact Hne.
Qed.
