(** * C11 for edge-valued functions: the enumeration of a partial function is sound,
    complete and strictly increasing. *)
From Meddly Require Import Model.DD Model.Build Model.Enum Model.EnumOpt Proofs.DDFacts Proofs.EnumP.
From Coq Require Import List Arith ZArith Bool Lia Sorted.
Import ListNotations.

Section EnumOptP.
Variable sz : nat -> nat.

Theorem enum_opt_sound_complete g L mask x v :
  In (x, v) (enum_opt sz g L mask) <->
  In x (all_asg sz L) /\ matches L mask x = true /\ g x = Some v.
Proof.
  unfold enum_opt. rewrite in_flat_map. split.
  - intros (y & Hy & Hin). destruct (g y) as [w|] eqn:Eg; [|destruct Hin].
    destruct (matches L mask y) eqn:Em; [|destruct Hin].
    destruct Hin as [E|[]]. injection E as <- <-. auto.
  - intros (Hx & Hm & Hg). exists x. split; [exact Hx|]. rewrite Hg, Hm. now left.
Qed.

Lemma enum_opt_fst g L mask :
  map fst (enum_opt sz g L mask)
  = filter (fun x => match g x with Some _ => matches L mask x | None => false end) (all_asg sz L).
Proof.
  unfold enum_opt. induction (all_asg sz L) as [|x l IH]; [reflexivity|].
  cbn [flat_map filter]. rewrite map_app, IH.
  destruct (g x) as [v|]; [|reflexivity]. destruct (matches L mask x); reflexivity.
Qed.

Theorem enum_opt_strictly_increasing g L mask :
  StronglySorted (lex_lt L) (map fst (enum_opt sz g L mask)).
Proof. rewrite enum_opt_fst. apply sorted_filter, all_asg_sorted. Qed.

End EnumOptP.
