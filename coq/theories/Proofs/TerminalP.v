(** * C19: the terminal codec, proved about the definitions GENERATED from
    src/terminal.h (Gen/Terminal.v). *)
From Coq Require Import ZArith Bool Lia String.
From Meddly Require Import Model.Bits Gen.Terminal Proofs.BitsP.
Local Open Scope Z_scope.

Ltac Zify.zify_post_hook ::= Z.div_mod_to_equations.

Lemma intMin_val : intMin = -1073741824. Proof. reflexivity. Qed.
Lemma intMax_val : intMax = 1073741823. Proof. reflexivity. Qed.
Lemma msb_val : msb = -2147483648. Proof. reflexivity. Qed.

(** ** integers *)

Lemma getIntegerHandle_in v :
  intMin <= v <= intMax -> v <> 0 ->
  getIntegerHandle v = Ok (if v <? 0 then v else v - 2147483648).
Proof.
  rewrite intMin_val, intMax_val. intros Hv Hnz. unfold getIntegerHandle.
  rewrite intMin_val, intMax_val, msb_val.
  unfold int_nonzero. destruct (Z.eqb_spec v 0) as [|_]; [contradiction|]. cbn [negb].
  unfold cast_long, cast_int. rewrite !wraps64_id by lia.
  destruct (Z.ltb_spec v (-1073741824)); [lia|]. destruct (Z.gtb_spec v 1073741823); [lia|].
  cbn [orb]. rewrite lor_msb by lia.
  destruct (Z.ltb_spec v 0); rewrite wraps64_id, wraps32_id by lia; reflexivity.
Qed.

Lemma getIntegerHandle_zero : getIntegerHandle 0 = Ok 0.
Proof. reflexivity. Qed.

Lemma setFromHandle_INTEGER_spec h :
  -2147483648 <= h < 2147483648 ->
  setFromHandle_INTEGER h = Ok (wraps 32 (2 * h) / 2).
Proof.
  intros Hh. unfold setFromHandle_INTEGER, cast_long, cast_int.
  rewrite shiftl1, shiftr1.
  pose proof (wraps32_range (2 * h)).
  rewrite wraps32_id, wraps64_id by lia. reflexivity.
Qed.

Theorem int_roundtrip v :
  intMin <= v <= intMax ->
  exists h, getIntegerHandle v = Ok h /\ h <= 0 /\ (h = 0 <-> v = 0) /\
            setFromHandle_INTEGER h = Ok v.
Proof.
  intros Hv. destruct (Z.eq_dec v 0) as [->|Hnz].
  - exists 0. repeat split; auto; lia.
  - rewrite (getIntegerHandle_in v Hv Hnz). rewrite intMin_val, intMax_val in Hv.
    destruct (Z.ltb_spec v 0).
    + exists v. split; [reflexivity|]. split; [lia|]. split; [lia|].
      rewrite setFromHandle_INTEGER_spec by lia. f_equal.
      rewrite wraps32_id by lia. lia.
    + exists (v - 2147483648). split; [reflexivity|]. split; [lia|]. split; [lia|].
      rewrite setFromHandle_INTEGER_spec by lia. f_equal.
      rewrite wraps32_spec.
      destruct (Z.ltb_spec ((2 * (v - 2147483648)) mod 4294967296) 2147483648); lia.
Qed.

Theorem int_injective v w :
  intMin <= v <= intMax -> intMin <= w <= intMax ->
  getIntegerHandle v = getIntegerHandle w -> v = w.
Proof.
  intros Hv Hw E.
  destruct (int_roundtrip v Hv) as (h & Hh & _ & _ & Hd).
  destruct (int_roundtrip w Hw) as (h' & Hh' & _ & _ & Hd').
  rewrite Hh, Hh' in E. injection E as ->. rewrite Hd in Hd'. now injection Hd'.
Qed.

Theorem int_overflow v :
  -9223372036854775808 <= v < 9223372036854775808 ->
  v < intMin \/ v > intMax -> getIntegerHandle v = Err "VALUE_OVERFLOW".
Proof.
  rewrite intMin_val, intMax_val. intros Hl Hv. unfold getIntegerHandle.
  rewrite intMin_val, intMax_val. unfold int_nonzero.
  destruct (Z.eqb_spec v 0); [lia|]. cbn [negb]. unfold cast_long.
  rewrite !wraps64_id by lia.
  destruct (Z.ltb_spec v (-1073741824)); destruct (Z.gtb_spec v 1073741823); cbn; try reflexivity; lia.
Qed.

(** ** reals: a float is its 32-bit pattern b, 0 <= b < 2^32 *)

Definition clear_lsb (b : Z) : Z := 2 * (b / 2).

Lemma float_nonzero_mod b : float_nonzero b = negb (b mod 2147483648 =? 0).
Proof. unfold float_nonzero. now rewrite land_low31. Qed.

Lemma float_nonzero_spec b : 0 <= b < 4294967296 ->
  float_nonzero b = negb ((b =? 0) || (b =? 2147483648)).
Proof.
  intros Hb. rewrite float_nonzero_mod.
  destruct (Z.eqb_spec (b mod 2147483648) 0); destruct (Z.eqb_spec b 0);
    destruct (Z.eqb_spec b 2147483648); cbn; try reflexivity; lia.
Qed.

(** the handle before the zero test: pattern shifted right, marker bit set *)
Definition raw_handle (b : Z) : Z :=
  let y := (wraps 32 b) / 2 in if y <? 0 then y else y - 2147483648.

Lemma raw_handle_props b : 0 <= b < 4294967296 ->
  -2147483648 <= raw_handle b < 0 /\ (2 * raw_handle b) mod 4294967296 = clear_lsb b.
Proof.
  intros Hb. unfold raw_handle, clear_lsb. cbv zeta. rewrite wraps32_spec.
  destruct (Z.ltb_spec (b mod 4294967296) 2147483648) as [Hlo|Hhi].
  - destruct (Z.ltb_spec (b mod 4294967296 / 2) 0); lia.
  - destruct (Z.ltb_spec ((b mod 4294967296 - 4294967296) / 2) 0); lia.
Qed.

Lemma getRealHandle_nz b :
  0 <= b < 4294967296 -> float_nonzero b = true ->
  getRealHandle b =
  Ok (if float_nonzero (clear_lsb b) then raw_handle b else 0).
Proof.
  intros Hb Hnz. unfold getRealHandle. rewrite Hnz. cbn [Z.eqb Pos.eqb].
  rewrite msb_val. unfold int_of_bits, cast_int. rewrite shiftr1.
  pose proof (wraps32_range b) as Hr.
  rewrite (wraps32_id (wraps 32 b / 2)) by lia.
  rewrite lor_msb by lia. cbv zeta.
  change (Z.lnot (-2147483648)) with 2147483647. rewrite (wraps32_id 2147483647) by lia.
  fold (raw_handle b).
  destruct (raw_handle_props b Hb) as [Hrange Hdec].
  rewrite (wraps32_id (raw_handle b)) by lia.
  rewrite shiftl1, land_low31.
  assert (Hm : wraps 32 (2 * raw_handle b) mod 2147483648 = clear_lsb b mod 2147483648).
  { rewrite <- Hdec, wraps32_spec.
    destruct (Z.ltb_spec ((2 * raw_handle b) mod 4294967296) 2147483648); lia. }
  rewrite Hm. pose proof (Z.mod_pos_bound (clear_lsb b) 2147483648 ltac:(lia)) as Hb2.
  rewrite (wraps32_id (clear_lsb b mod 2147483648)) by lia.
  rewrite float_nonzero_mod. unfold int_nonzero. reflexivity.
Qed.

Lemma setFromHandle_REAL_spec h :
  setFromHandle_REAL h = Ok ((2 * h) mod 4294967296).
Proof.
  unfold setFromHandle_REAL. cbn [Z.eqb Pos.eqb]. unfold bits_of_int, cast_int.
  rewrite shiftl1, wrapu32_spec, wraps32_spec.
  destruct (Z.ltb_spec ((2 * h) mod 4294967296) 2147483648); f_equal; lia.
Qed.

Lemma rounded_nonzero_nonzero b : float_nonzero (clear_lsb b) = true -> float_nonzero b = true.
Proof.
  rewrite !float_nonzero_mod, !negb_true_iff. unfold clear_lsb.
  intros H. destruct (Z.eqb_spec (b mod 2147483648) 0); [|reflexivity].
  destruct (Z.eqb_spec ((2 * (b / 2)) mod 2147483648) 0); [discriminate|]. lia.
Qed.

Theorem real_roundtrip b :
  0 <= b < 4294967296 -> float_nonzero (clear_lsb b) = true ->
  exists h, getRealHandle b = Ok h /\ h < 0 /\ setFromHandle_REAL h = Ok (clear_lsb b).
Proof.
  intros Hb Hnz. rewrite (getRealHandle_nz b Hb (rounded_nonzero_nonzero b Hnz)), Hnz.
  destruct (raw_handle_props b Hb) as [Hrange Hdec].
  exists (raw_handle b). split; [reflexivity|]. split; [lia|].
  rewrite setFromHandle_REAL_spec. now rewrite Hdec.
Qed.

(** a value that is +-0.0 after the documented rounding gets the transparent
    handle (this is what fails, for the denormal patterns 0x00000001 and
    0x80000001, on a tree without the fix of finding F1) *)
Theorem rounds_to_zero_gets_zero_handle b :
  0 <= b < 4294967296 -> float_nonzero (clear_lsb b) = false -> getRealHandle b = Ok 0.
Proof.
  intros Hb Hz. destruct (float_nonzero b) eqn:E.
  - rewrite (getRealHandle_nz b Hb E), Hz. reflexivity.
  - unfold getRealHandle. now rewrite E.
Qed.

Theorem real_zero_handle_iff b : 0 <= b < 4294967296 ->
  (getRealHandle b = Ok 0 <-> float_nonzero (clear_lsb b) = false).
Proof.
  intros Hb. split.
  - intros H. destruct (float_nonzero (clear_lsb b)) eqn:E; [|reflexivity].
    destruct (real_roundtrip b Hb E) as (h & Hh & Hneg & _). rewrite Hh in H. injection H. lia.
  - now apply rounds_to_zero_gets_zero_handle.
Qed.

(** values that remain distinct after dropping the last mantissa bit get
    distinct handles *)
Theorem real_injective_after_rounding b c :
  0 <= b < 4294967296 -> 0 <= c < 4294967296 ->
  float_nonzero (clear_lsb b) = true -> float_nonzero (clear_lsb c) = true ->
  getRealHandle b = getRealHandle c -> clear_lsb b = clear_lsb c.
Proof.
  intros Hb Hc Nb Nc E.
  destruct (real_roundtrip b Hb Nb) as (h & Hh & _ & Hd).
  destruct (real_roundtrip c Hc Nc) as (h' & Hh' & _ & Hd').
  rewrite Hh, Hh' in E. injection E as ->. rewrite Hd in Hd'. now injection Hd'.
Qed.

(** ** booleans *)
Theorem bool_roundtrip (v : bool) :
  let h := if v then -1 else 0 in
  setFromHandle_BOOLEAN h = Ok (if v then 1 else 0) /\ (h = 0 <-> v = false).
Proof. destruct v; cbn; split; try reflexivity; split; congruence. Qed.
