(** C14: reading back what was written returns the diagrams written. *)
From Coq Require Import List Arith ZArith Bool Lia.
From Meddly Require Import Model.DD Model.IOFile Proofs.DDFacts.
Import ListNotations.

(** a simpler, sufficient formulation: *)
Definition replay (recs : list nrec) (tbl0 : list dd) : list dd :=
  fold_left (fun tbl r => tbl ++ [N (nr_lvl r) (map (resolve tbl) (nr_cs r))]) recs tbl0.

Definition good (st : wstate) : Prop := replay (fst st) [] = snd st.

Definition ref_ok (tbl : list dd) (r : ref) (t : dd) : Prop :=
  resolve tbl r = t /\ match r with RN i => i < length tbl | RT _ => True end.

Lemma index_of_sound t done i : index_of t done = Some i -> nth i done zero = t /\ i < length done.
Proof.
  revert i; induction done as [|d r IH]; intros i H; cbn in H; [discriminate|].
  destruct (dd_eqb d t) eqn:E.
  - injection H as <-. apply dd_eqb_eq in E. cbn. split; [exact E|lia].
  - destruct (index_of t r) as [j|]; cbn in H; [|discriminate]. injection H as <-.
    destruct (IH j eq_refl). cbn. split; [assumption|lia].
Qed.

Lemma replay_app recs1 recs2 tbl : replay (recs1 ++ recs2) tbl = replay recs2 (replay recs1 tbl).
Proof. unfold replay. apply fold_left_app. Qed.

Lemma resolve_prefix tbl ext r t : ref_ok tbl r t -> ref_ok (tbl ++ ext) r t.
Proof.
  intros [H1 H2]. destruct r as [v|i]; cbn [resolve] in *; split; auto.
  - cbn [resolve]. rewrite app_nth1 by exact H2. exact H1.
  - rewrite app_length. lia.
Qed.

(** main lemma: writing one diagram keeps the state good, only appends, and
    returns a reference that resolves to the diagram *)
Lemma write_dd_ok : forall t st,
  good st ->
  let '(st', r) := write_dd t st in
  good st' /\ (exists ext, snd st' = snd st ++ ext) /\ ref_ok (snd st') r t.
Proof.
  induction t as [v|k cs IH] using dd_ind'; intros st Hg.
  - cbn. split; [exact Hg|]. split; [exists []; now rewrite app_nil_r|]. split; [reflexivity|exact I].
  - cbn [write_dd]. destruct (index_of (N k cs) (snd st)) as [i|] eqn:Ei.
    + split; [exact Hg|]. split; [exists []; now rewrite app_nil_r|].
      apply index_of_sound in Ei. destruct Ei. split; assumption.
    + (* the children *)
      set (go := fix go (l : list dd) (st : wstate) : wstate * list ref :=
               match l with
               | [] => (st, [])
               | c :: l' =>
                   let '(st1, r) := write_dd c st in
                   let '(st2, rs) := go l' st1 in
                   (st2, r :: rs)
               end).
      assert (Hgo : forall l, Forall (fun c => forall st, good st ->
                      let '(st', r) := write_dd c st in
                      good st' /\ (exists ext, snd st' = snd st ++ ext) /\ ref_ok (snd st') r c) l ->
                forall st0, good st0 ->
                let '(st', refs) := go l st0 in
                good st' /\ (exists ext, snd st' = snd st0 ++ ext) /\
                map (resolve (snd st')) refs = l).
      { induction l as [|c l IHl]; intros Hall st0 Hg0; cbn [go].
        - split; [exact Hg0|]. split; [exists []; now rewrite app_nil_r|reflexivity].
        - inversion Hall as [|? ? Hc Hl]; subst.
          specialize (Hc st0 Hg0). destruct (write_dd c st0) as [st1 r].
          destruct Hc as (Hg1 & (e1 & He1) & Hr).
          specialize (IHl Hl st1 Hg1). destruct (go l st1) as [st2 rs].
          destruct IHl as (Hg2 & (e2 & He2) & Hm).
          split; [exact Hg2|]. split.
          + exists (e1 ++ e2). rewrite He2, He1. now rewrite app_assoc.
          + cbn [map]. f_equal; [|exact Hm].
            rewrite He2. apply (resolve_prefix _ e2) in Hr. apply Hr. }
      specialize (Hgo cs IH st Hg). fold go.
      destruct (go cs st) as [st' refs]. destruct Hgo as (Hg' & (ext & Hext) & Hm).
      split; [|split].
      * unfold good in *. cbn [fst snd]. rewrite replay_app. rewrite Hg'. cbn.
        now rewrite Hm.
      * exists (ext ++ [N k cs]). cbn [snd]. rewrite Hext. now rewrite app_assoc.
      * cbn [snd]. split.
        -- cbn. rewrite app_nth2 by lia. now rewrite Nat.sub_diag.
        -- rewrite app_length. cbn. lia.
Qed.

Lemma write_roots_ok : forall ts st,
  good st ->
  let '(st', rs) := write_roots ts st in
  good st' /\ map (resolve (snd st')) rs = ts.
Proof.
  induction ts as [|t ts IH]; intros st Hg; cbn [write_roots].
  - split; [exact Hg|reflexivity].
  - pose proof (write_dd_ok t st Hg) as H1. destruct (write_dd t st) as [st1 x].
    destruct H1 as (Hg1 & _ & Hx).
    specialize (IH st1 Hg1). destruct (write_roots ts st1) as [st2 xs] eqn:E2.
    destruct IH as (Hg2 & Hm). split; [exact Hg2|]. cbn [map]. f_equal; [|exact Hm].
    (* st2 extends st1 *)
    assert (Hext : exists ext, snd st2 = snd st1 ++ ext).
    { clear - E2 Hg1. revert st1 st2 xs E2 Hg1. induction ts as [|u us IHu]; intros st1 st2 xs E Hg1; cbn in E.
      - injection E as <- _. exists []. now rewrite app_nil_r.
      - pose proof (write_dd_ok u st1 Hg1) as Hu. destruct (write_dd u st1) as [sa ra].
        destruct Hu as (Hga & (ea & Hea) & _).
        destruct (write_roots us sa) as [sb rb] eqn:Eb. injection E as <- _.
        destruct (IHu _ _ _ Eb Hga) as (eb & Heb). exists (ea ++ eb). rewrite Heb, Hea. now rewrite app_assoc. }
    destruct Hext as (ext & ->). apply (resolve_prefix _ ext) in Hx. apply Hx.
Qed.

Theorem read_write_file ts : read_file (write_file ts) = ts.
Proof.
  unfold write_file, read_file.
  pose proof (write_roots_ok ts ([], []) eq_refl) as H.
  destruct (write_roots ts ([], [])) as [st rs]. destruct H as [Hg Hm].
  cbn [fst snd]. unfold good in Hg. unfold read_records. unfold replay in Hg. rewrite Hg. exact Hm.
Qed.
