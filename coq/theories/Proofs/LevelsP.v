(** * Level arithmetic: the functions GENERATED from src/forest_levels.h and
    src/defines.h (Gen/Levels.v) agree with the level order the hand-written models use
    ([lpos], [down_level] of Model/Audit.v), for every level an [int] can hold short of
    the one value whose negation overflows. *)
From Coq Require Import ZArith Bool Lia String.
From Meddly Require Import Model.Bits Model.Audit Gen.Levels Proofs.BitsP.
Local Open Scope Z_scope.

Definition lvl_ok (k : Z) : Prop := -2147483647 <= k <= 2147483647.

Lemma ABS_spec k : lvl_ok k -> ABS k = Ok (Z.abs k).
Proof.
  unfold lvl_ok, ABS, cast_int. intros H.
  destruct (Z.ltb_spec k 0); [rewrite wraps32_id by lia|]; f_equal; lia.
Qed.

Lemma MAX_spec a b : MAX a b = Ok (Z.max a b).
Proof. unfold MAX. destruct (Z.gtb_spec a b); f_equal; lia. Qed.

(** ** set forests: levels are 1..K, down is k-1 *)

Lemma MDD_downLevel_model k : lvl_ok k -> MDD_downLevel k = Ok (down_level false k).
Proof.
  unfold lvl_ok, MDD_downLevel, down_level, cast_int. intros H.
  rewrite wraps32_id by lia. reflexivity.
Qed.

Lemma MDD_up_down k : lvl_ok k -> MDD_upLevel (val (MDD_downLevel k)) = Ok k.
Proof.
  intros H. rewrite MDD_downLevel_model by assumption. unfold lvl_ok in H.
  unfold MDD_upLevel, val, down_level, cast_int. rewrite wraps32_id by lia. f_equal; lia.
Qed.

Lemma MDD_topLevel_model a b : MDD_topLevel a b = Ok (Z.max a b).
Proof. unfold MDD_topLevel. rewrite MAX_spec. reflexivity. Qed.

(** ** relation forests: k, -k, k-1, -(k-1), ... *)

Lemma MXD_downLevel_model k : lvl_ok k -> MXD_downLevel k = Ok (down_level true k).
Proof.
  unfold lvl_ok, MXD_downLevel, down_level, cast_int. intros H.
  destruct (Z.gtb_spec k 0); destruct (Z.ltb_spec 0 k); try lia;
    rewrite !wraps32_id by (rewrite ?wraps32_id by lia; lia); reflexivity.
Qed.

Lemma MXD_up_down k : lvl_ok k -> k <> 0 -> MXD_upLevel (val (MXD_downLevel k)) = Ok k.
Proof.
  intros H Hk. rewrite MXD_downLevel_model by assumption. unfold lvl_ok in H.
  unfold MXD_upLevel, val, down_level, cast_int.
  destruct (Z.ltb_spec 0 k).
  - destruct (Z.ltb_spec (- k) 0); [|lia]. rewrite wraps32_id by lia. f_equal; lia.
  - destruct (Z.ltb_spec (- k - 1) 0); [lia|].
    rewrite !wraps32_id by (rewrite ?wraps32_id by lia; lia). f_equal; lia.
Qed.

Lemma down_level_lpos k : k <> 0 -> lpos true (down_level true k) = lpos true k - 1.
Proof.
  intros Hk. unfold lpos, down_level.
  destruct (Z.ltb_spec 0 k).
  - destruct (Z.ltb_spec 0 (- k)); [lia|]. destruct (Z.ltb_spec (- k) 0); lia.
  - destruct (Z.ltb_spec k 0); [|lia].
    destruct (Z.ltb_spec 0 (- k - 1)); [lia|].
    destruct (Z.ltb_spec (- k - 1) 0); lia.
Qed.

Lemma down_level_lpos_set k : lpos false (down_level false k) = lpos false k - 1.
Proof. reflexivity. Qed.

(** [isLevelAbove] is the strict order of positions, in both kinds of forest *)
Lemma isLevelAbove_model k1 k2 :
  lvl_ok k1 -> lvl_ok k2 ->
  isLevelAbove k1 k2 = Ok (if lpos true k2 <? lpos true k1 then 1 else 0).
Proof.
  intros H1 H2. unfold isLevelAbove. rewrite !ABS_spec by assumption. cbn [val].
  unfold lpos.
  destruct (Z.gtb_spec (Z.abs k1) (Z.abs k2)) as [Ha|Ha].
  - destruct (Z.ltb_spec 0 k1), (Z.ltb_spec 0 k2), (Z.ltb_spec k1 0), (Z.ltb_spec k2 0);
      try lia;
      match goal with |- _ = Ok (if ?a <? ?b then _ else _) =>
        destruct (Z.ltb_spec a b); [reflexivity|lia] end.
  - destruct (Z.gtb_spec (Z.abs k2) (Z.abs k1)) as [Hb|Hb].
    + destruct (Z.ltb_spec 0 k1), (Z.ltb_spec 0 k2), (Z.ltb_spec k1 0), (Z.ltb_spec k2 0);
        try lia;
        match goal with |- _ = Ok (if ?a <? ?b then _ else _) =>
          destruct (Z.ltb_spec a b); [lia|reflexivity] end.
    + destruct (Z.gtb_spec k1 k2);
        destruct (Z.ltb_spec 0 k1), (Z.ltb_spec 0 k2), (Z.ltb_spec k1 0), (Z.ltb_spec k2 0);
        try lia;
        match goal with |- _ = Ok (if ?a <? ?b then _ else _) =>
          destruct (Z.ltb_spec a b); try reflexivity; lia end.
Qed.

Lemma isLevelAbove_set k1 k2 :
  0 <= k1 <= 2147483647 -> 0 <= k2 <= 2147483647 ->
  isLevelAbove k1 k2 = Ok (if lpos false k2 <? lpos false k1 then 1 else 0).
Proof.
  intros H1 H2. rewrite isLevelAbove_model by (unfold lvl_ok; lia). unfold lpos.
  destruct (Z.ltb_spec 0 k1), (Z.ltb_spec 0 k2), (Z.ltb_spec k1 0), (Z.ltb_spec k2 0);
    try lia;
    match goal with |- Ok (if ?a <? ?b then _ else _) = Ok (if ?c <? ?d then _ else _) =>
      destruct (Z.ltb_spec a b), (Z.ltb_spec c d); try reflexivity; lia end.
Qed.

(** [isLevelAbove] is a strict total order on levels *)
Lemma lpos_inj_rel a b : lpos true a = lpos true b -> a = b.
Proof.
  unfold lpos.
  destruct (Z.ltb_spec 0 a), (Z.ltb_spec 0 b), (Z.ltb_spec a 0), (Z.ltb_spec b 0); lia.
Qed.

Lemma isLevelAbove_total k1 k2 :
  lvl_ok k1 -> lvl_ok k2 -> k1 <> k2 ->
  isLevelAbove k1 k2 = Ok 1 /\ isLevelAbove k2 k1 = Ok 0 \/
  isLevelAbove k1 k2 = Ok 0 /\ isLevelAbove k2 k1 = Ok 1.
Proof.
  intros H1 H2 Hne. rewrite !isLevelAbove_model by assumption.
  assert (lpos true k1 <> lpos true k2) by (intro E; apply Hne, lpos_inj_rel, E).
  destruct (Z.ltb_spec (lpos true k2) (lpos true k1)), (Z.ltb_spec (lpos true k1) (lpos true k2));
    try lia; auto.
Qed.

(** the top of two levels is the one of larger position *)
Lemma MXD_topLevel_model k1 k2 :
  lvl_ok k1 -> lvl_ok k2 ->
  exists t, MXD_topLevel k1 k2 = Ok t /\ (t = k1 \/ t = k2) /\
            lpos true t = Z.max (lpos true k1) (lpos true k2).
Proof.
  intros H1 H2. unfold MXD_topLevel. rewrite !ABS_spec by assumption. cbn [val].
  rewrite MAX_spec. cbn [val].
  destruct (Z.eqb_spec (Z.abs k1) (Z.abs k2)) as [E|E].
  - exists (Z.max k1 k2). split; [reflexivity|]. split; [lia|].
    unfold lpos.
    destruct (Z.max_spec k1 k2) as [[? ->]|[? ->]];
      destruct (Z.ltb_spec 0 k1), (Z.ltb_spec 0 k2), (Z.ltb_spec k1 0), (Z.ltb_spec k2 0); lia.
  - destruct (Z.gtb_spec (Z.abs k1) (Z.abs k2)).
    + exists k1. split; [reflexivity|]. split; [auto|]. unfold lpos.
      destruct (Z.ltb_spec 0 k1), (Z.ltb_spec 0 k2), (Z.ltb_spec k1 0), (Z.ltb_spec k2 0); lia.
    + exists k2. split; [reflexivity|]. split; [auto|]. unfold lpos.
      destruct (Z.ltb_spec 0 k1), (Z.ltb_spec 0 k2), (Z.ltb_spec k1 0), (Z.ltb_spec k2 0); lia.
Qed.

Lemma MXD_topUnprimed_model k1 k2 :
  lvl_ok k1 -> lvl_ok k2 ->
  MXD_topUnprimed k1 k2 = Ok (Z.max (Z.abs k1) (Z.abs k2)).
Proof.
  intros H1 H2. unfold MXD_topUnprimed. rewrite !ABS_spec by assumption. cbn [val].
  rewrite MAX_spec. reflexivity.
Qed.

Lemma MXD_unprimed_primed k :
  lvl_ok k ->
  MXD_unprimedOfLevel k = Ok (Z.abs k) /\ MXD_primedOfLevel k = Ok (- Z.abs k).
Proof.
  intros H. unfold MXD_unprimedOfLevel, MXD_primedOfLevel. rewrite ABS_spec by assumption.
  split; [reflexivity|]. unfold lvl_ok in H. unfold cast_int.
  destruct (Z.ltb_spec k 0); [|rewrite wraps32_id by lia]; f_equal; lia.
Qed.

(** the primed level of a variable sits directly below its unprimed level *)
Lemma primed_below_unprimed k :
  0 < k -> lpos true (- k) = lpos true k - 1.
Proof.
  intros H. unfold lpos.
  destruct (Z.ltb_spec 0 k), (Z.ltb_spec 0 (-k)), (Z.ltb_spec (-k) 0); lia.
Qed.
