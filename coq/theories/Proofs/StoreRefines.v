(** * C06: the two store machines agree.  Without cache entries the machine with
    deletion policies (Model/OptStore.v) is, step for step, the simple machine of
    Model/RefStore.v -- under EITHER policy (the policy only matters while a cache
    entry mentions an unreferenced node). *)
From Coq Require Import List ZArith Bool Arith Lia.
From Meddly Require Import Model.RefStore Model.OptStore.
Import ListNotations.
Local Open Scope Z_scope.

Lemma remove_absent ns id : find_node ns id = None -> remove_node ns id = ns.
Proof.
  unfold find_node, remove_node. induction ns as [|n ns IH]; intros H; [reflexivity|].
  cbn [find filter] in *. destruct (sn_id n =? id) eqn:E; [discriminate|].
  cbn [negb]. f_equal. now apply IH.
Qed.

Lemma fold_ext {A B} (f g : A -> B -> A) l : (forall a b, f a b = g a b) ->
  forall a, fold_left f l a = fold_left g l a.
Proof. intros H. induction l as [|b l IH]; intros a; cbn; [reflexivity|]. now rewrite H, IH. Qed.

Lemma unlink_k_is_unlink keep : (forall id, keep id = false) ->
  forall L id ns cnt, unlink_k keep L id ns cnt = unlink L id ns cnt.
Proof.
  intros Hk. induction L as [|L IH]; intros id ns cnt; cbn [unlink_k unlink];
    destruct (id <=? 0); try reflexivity;
    destruct (cnt id) as [|[|c]]; try reflexivity; rewrite Hk.
  - destruct (find_node ns id) eqn:E; [reflexivity|]. now rewrite remove_absent.
  - unfold reclaim_with. destruct (find_node ns id) as [n|]; [|reflexivity].
    apply fold_ext. intros st c. apply IH.
Qed.

Definition proj (s : ostore) : store :=
  {| st_nodes := os_nodes s; st_cnt := os_cnt s; st_names := os_names s; st_next := os_next s |}.

Definition emb (o : sop) : oop :=
  match o with
  | SNew nm lvl cs => ONew nm lvl cs
  | SDup nm' nm => ODup nm' nm
  | SDrop nm => ODrop nm
  end.

Definition no_cache (s : ostore) : Prop := forall id, os_cc s id = 0%nat.

Theorem ostep_refines_sstep s o : no_cache s ->
  proj (ostep s (emb o)) = sstep (proj s) o /\ no_cache (ostep s (emb o)).
Proof.
  intros Hc. destruct o as [nm lvl cs|nm' nm|nm]; cbn [emb ostep sstep proj st_nodes st_cnt st_names st_next].
  - destruct (forallb (fun c => c =? 0) cs); [split; [reflexivity|exact Hc]|].
    destruct (find_dup (os_nodes s) lvl cs); split; try reflexivity; exact Hc.
  - destruct (lookup_name (os_names s) nm); split; try reflexivity; exact Hc.
  - destruct (lookup_name (os_names s) nm) as [id|]; [|split; [reflexivity|exact Hc]].
    split; [|exact Hc]. cbn [with_table os_nodes os_cnt os_names os_next proj].
    rewrite unlink_k_is_unlink; [reflexivity|].
    intros j. unfold keep_of. rewrite (Hc j). cbn. apply andb_false_r.
Qed.

Theorem orun_refines_srun : forall ops s, no_cache s ->
  proj (fold_left ostep (map emb ops) s) = fold_left sstep ops (proj s).
Proof.
  induction ops as [|o ops IH]; intros s Hc; cbn [map fold_left]; [reflexivity|].
  destruct (ostep_refines_sstep s o Hc) as [E Hc']. rewrite IH by exact Hc'. now rewrite E.
Qed.

Corollary machines_agree opt ops :
  proj (fold_left ostep (map emb ops) (os_init opt)) = fold_left sstep ops st_init.
Proof. apply (orun_refines_srun ops (os_init opt)). intros id. reflexivity. Qed.
