(** C11 / C15: enumeration and index sets (specification-level facts). *)
From Coq Require Import List Arith ZArith Bool Lia Sorted.
From Meddly Require Import Model.DD Model.Build Model.Enum Proofs.DDFacts.
Import ListNotations.
Local Open Scope nat_scope.

Section EnumP.
Variable sz : nat -> nat.

(** an assignment is visited iff it is one of the domain's assignments, matches
    the mask, and the function's value there is not the default *)
Theorem enum_sound_complete r L t mask x v :
  In (x, v) (enum sz r L t mask) <->
  In x (all_asg sz L) /\ matches L mask x = true /\ v = eval r L t x /\ v <> 0%Z.
Proof.
  unfold enum. rewrite filter_In, in_map_iff. cbn [snd]. split.
  - intros [(x' & E & Hin) Hv]. injection E as <- <-. apply filter_In in Hin.
    destruct Hin as [H1 H2]. repeat split; auto.
    apply negb_true_iff, Z.eqb_neq in Hv. exact Hv.
  - intros (H1 & H2 & -> & H4). split.
    + exists x. split; [reflexivity|]. apply filter_In. tauto.
    + apply negb_true_iff, Z.eqb_neq. exact H4.
Qed.

(** the visited sequence is a subsequence of the lexicographic enumeration of
    the domain: order is inherited, and nothing is visited twice as long as the
    domain enumeration has no repetitions *)
Lemma filter_sublist {A} (f : A -> bool) l : forall x y l1 l2 l3,
  filter f l = l1 ++ x :: l2 ++ y :: l3 ->
  exists m1 m2 m3, l = m1 ++ x :: m2 ++ y :: m3.
Proof.
  induction l as [|a l IH]; intros x y l1 l2 l3 H; cbn in H.
  - destruct l1; discriminate.
  - destruct (f a) eqn:E.
    + destruct l1 as [|b l1]; cbn in H.
      * injection H as <- H.
        (* find y in the rest *)
        assert (Hy : In y l).
        { assert (In y (filter f l)) by (rewrite H; apply in_or_app; right; now left).
          apply filter_In in H0. tauto. }
        destruct (in_split _ _ Hy) as (p & q & ->). exists [], p, q. reflexivity.
      * injection H as <- H. destruct (IH _ _ _ _ _ H) as (m1 & m2 & m3 & ->).
        exists (a :: m1), m2, m3. reflexivity.
    + destruct (IH _ _ _ _ _ H) as (m1 & m2 & m3 & ->). exists (a :: m1), m2, m3. reflexivity.
Qed.

(** ** index sets *)

Definition count_nz (vals : list Z) : nat := length (filter (fun v => negb (Z.eqb v 0)) vals).

Theorem rank_table_spec : forall vals next i,
  i < length vals ->
  nth i (rank_table vals next) None =
  if Z.eqb (nth i vals 0%Z) 0 then None
  else Some (next + count_nz (firstn i vals)).
Proof.
  induction vals as [|v vals IH]; intros next i Hi; cbn in Hi; [lia|].
  destruct i as [|i]; cbn [rank_table nth firstn].
  - destruct (Z.eqb v 0); cbn; [reflexivity|]. unfold count_nz. cbn. f_equal. lia.
  - destruct (Z.eqb v 0) eqn:E; cbn [nth].
    + rewrite IH by lia. destruct (Z.eqb (nth i vals 0%Z) 0); [reflexivity|].
      unfold count_nz. cbn. rewrite E. cbn. reflexivity.
    + rewrite IH by lia. destruct (Z.eqb (nth i vals 0%Z) 0); [reflexivity|].
      unfold count_nz. cbn. rewrite E. cbn. f_equal. lia.
Qed.

Lemma rank_table_length vals next : length (rank_table vals next) = length vals.
Proof.
  revert next; induction vals as [|v vals IH]; intros next; cbn; [reflexivity|].
  destruct (Z.eqb v 0); cbn; now rewrite IH.
Qed.

(** indices are exactly 0 .. n-1: the largest index is the number of members
    minus one, and indices increase by one from member to member *)
Theorem rank_table_range vals i k :
  nth i (rank_table vals 0) None = Some k -> k < count_nz vals.
Proof.
  intros H. destruct (Nat.lt_ge_cases i (length vals)) as [Hi|Hi].
  - rewrite rank_table_spec in H by exact Hi.
    destruct (Z.eqb (nth i vals 0%Z) 0) eqn:E; [discriminate|]. injection H as <-. cbn.
    unfold count_nz. rewrite <- (firstn_skipn i vals) at 2. rewrite filter_app, app_length.
    assert (0 < length (filter (fun v => negb (Z.eqb v 0)) (skipn i vals))); [|lia].
    assert (Hs : skipn i vals = nth i vals 0%Z :: skipn (S i) vals).
    { clear E. revert i Hi; induction vals as [|v vals IH]; intros [|i] Hi; cbn in *; try lia; auto.
      apply IH. lia. }
    rewrite Hs. cbn. rewrite E. cbn. lia.
  - rewrite nth_overflow in H by (rewrite rank_table_length; exact Hi). discriminate.
Qed.

End EnumP.

(** ** the enumeration is strictly increasing in lexicographic order *)
Section Sorted.
Variable sz : nat -> nat.

(** [x] precedes [y]: they agree above some level [k <= L], where [x] is smaller *)
Definition lex_lt (L : nat) (x y : nat -> nat) : Prop :=
  exists k, 1 <= k <= L /\ x k < y k /\ forall j, k < j <= L -> x j = y j.

Lemma lex_lt_irrefl L x : ~ lex_lt L x x.
Proof. intros (k & _ & H & _). lia. Qed.

Lemma lex_lt_trans L x y z : lex_lt L x y -> lex_lt L y z -> lex_lt L x z.
Proof.
  intros (k & Hk & Hlt & Heq) (k' & Hk' & Hlt' & Heq').
  destruct (Nat.lt_trichotomy k k') as [H|[H|H]].
  - exists k'. split; [exact Hk'|]. split; [rewrite (Heq k') by lia; exact Hlt'|].
    intros j Hj. rewrite (Heq j) by lia. apply Heq'. lia.
  - subst k'. exists k. split; [exact Hk|]. split; [lia|].
    intros j Hj. rewrite (Heq j) by lia. apply Heq'. lia.
  - exists k. split; [exact Hk|]. split; [rewrite <- (Heq' k) by lia; exact Hlt|].
    intros j Hj. rewrite (Heq j) by lia. apply Heq'. lia.
Qed.

Lemma sorted_app {A} (R : A -> A -> Prop) (l1 l2 : list A) :
  StronglySorted R l1 -> StronglySorted R l2 ->
  (forall a b, In a l1 -> In b l2 -> R a b) -> StronglySorted R (l1 ++ l2).
Proof.
  intros H1 H2 H. induction H1 as [|a l1 Hs IH Hall]; cbn; [exact H2|].
  constructor.
  - apply IH. intros x y Hx Hy. apply H; [now right|exact Hy].
  - apply Forall_app. split; [exact Hall|].
    apply Forall_forall. intros y Hy. apply H; [now left|exact Hy].
Qed.

Lemma sorted_filter {A} (R : A -> A -> Prop) (f : A -> bool) l :
  StronglySorted R l -> StronglySorted R (filter f l).
Proof.
  induction 1 as [|a l Hs IH Hall]; cbn; [constructor|].
  destruct (f a); [|exact IH]. constructor; [exact IH|].
  apply Forall_forall. intros y Hy. apply filter_In in Hy.
  rewrite Forall_forall in Hall. apply Hall. tauto.
Qed.

Lemma all_asg_level : forall L x, In x (all_asg sz L) -> forall k, L < k -> x k = 0.
Proof.
  induction L as [|L IH]; intros x Hx k Hk.
  - cbn in Hx. destruct Hx as [<-|[]]. reflexivity.
  - cbn [all_asg] in Hx. apply in_flat_map in Hx. destruct Hx as (i & _ & Hx).
    apply in_map_iff in Hx. destruct Hx as (x0 & <- & Hx0).
    rewrite upd_other by lia. apply (IH x0 Hx0). lia.
Qed.

Theorem all_asg_sorted : forall L, StronglySorted (lex_lt L) (all_asg sz L).
Proof.
  induction L as [|L IH]; [repeat constructor|].
  cbn [all_asg].
  (* blocks for the values i = s, s+1, ... of the top level *)
  assert (Hblock : forall i, StronglySorted (lex_lt (S L)) (map (fun x => upd x (S L) i) (all_asg sz L))).
  { intros i. induction IH as [|a l Hs IHs Hall]; cbn; [constructor|].
    constructor; [exact IHs|]. apply Forall_forall. intros y Hy.
    apply in_map_iff in Hy. destruct Hy as (b & <- & Hb).
    rewrite Forall_forall in Hall. destruct (Hall b Hb) as (k & Hk & Hlt & Heq).
    exists k. split; [lia|]. split; [rewrite !upd_other by lia; exact Hlt|].
    intros j Hj. unfold upd. destruct (Nat.eqb_spec j (S L)); [reflexivity|]. apply Heq. lia. }
  assert (Hgen : forall n s, StronglySorted (lex_lt (S L))
                   (flat_map (fun i => map (fun x => upd x (S L) i) (all_asg sz L)) (seq s n))).
  { induction n as [|n IHn]; intros s; cbn; [constructor|].
    apply sorted_app; [apply Hblock|apply IHn|].
    intros a b Ha Hb. apply in_map_iff in Ha. destruct Ha as (a0 & <- & _).
    apply in_flat_map in Hb. destruct Hb as (i & Hi & Hb). apply in_seq in Hi.
    apply in_map_iff in Hb. destruct Hb as (b0 & <- & _).
    exists (S L). split; [lia|]. split; [rewrite !upd_same; lia|]. intros j Hj. lia. }
  apply Hgen.
Qed.

Lemma enum_fst r L t mask :
  map fst (enum sz r L t mask)
  = filter (fun x => matches L mask x && negb (Z.eqb (eval r L t x) 0)) (all_asg sz L).
Proof.
  unfold enum. induction (all_asg sz L) as [|x l IH]; [reflexivity|]. cbn [filter].
  destruct (matches L mask x); cbn [andb map filter snd]; [|exact IH].
  destruct (negb (Z.eqb (eval r L t x) 0)); cbn [map fst]; [f_equal; exact IH|exact IH].
Qed.

Theorem enum_strictly_increasing r L t mask :
  StronglySorted (lex_lt L) (map fst (enum sz r L t mask)).
Proof. rewrite enum_fst. apply sorted_filter, all_asg_sorted. Qed.

(** consequently no assignment is visited twice *)
Corollary enum_no_repetition r L t mask i j :
  i < j -> j < length (enum sz r L t mask) ->
  lex_lt L (nth i (map fst (enum sz r L t mask)) (fun _ => 0))
           (nth j (map fst (enum sz r L t mask)) (fun _ => 0)).
Proof.
  intros Hij Hj. pose proof (enum_strictly_increasing r L t mask) as Hs.
  rewrite <- (map_length fst) in Hj. revert i j Hij Hj.
  induction Hs as [|a l Hs IH Hall]; intros i j Hij Hj; [cbn in Hj; lia|].
  destruct j as [|j]; [lia|]. destruct i as [|i]; cbn [nth].
  - rewrite Forall_forall in Hall. apply Hall, nth_In. cbn in Hj. lia.
  - apply IH; [lia|cbn in Hj; lia].
Qed.

End Sorted.

(** ** node and edge counts: the counted collection holds every non-terminal
    sub-diagram exactly once *)
Section Counts.

Inductive subdiagram : dd -> dd -> Prop :=
| sub_refl t : subdiagram t t
| sub_child k cs c s : In c cs -> subdiagram c s -> subdiagram (N k cs) s.

Lemma subnodes_spec : forall t s, In s (subnodes t) <->
  (subdiagram t s /\ exists k cs, s = N k cs).
Proof.
  induction t as [v|k cs IH] using dd_ind'; intros s.
  - cbn. split; [intros []|]. intros [H (k & cs & ->)]. inversion H.
  - cbn [subnodes]. split.
    + intros [<-|Hin].
      * split; [constructor|eauto].
      * apply in_flat_map in Hin. destruct Hin as (c & Hc & Hs).
        rewrite Forall_forall in IH. apply (IH c Hc) in Hs. destruct Hs as [Hsub Hn].
        split; [econstructor; eauto|exact Hn].
    + intros [Hsub Hn]. inversion Hsub as [|k' cs' c s' Hc Hs]; subst.
      * now left.
      * right. apply in_flat_map. exists c. split; [exact Hc|].
        rewrite Forall_forall in IH. apply (IH c Hc). split; assumption.
Qed.

Lemma dedup_in : forall l x, In x (dedup l) <-> In x l.
Proof.
  induction l as [|a l IH]; intros x; [reflexivity|]. cbn [dedup].
  destruct (existsb (dd_eqb a) l) eqn:E.
  - rewrite IH. split; [now right|]. intros [<-|H]; [|exact H].
    apply existsb_exists in E. destruct E as (y & Hy & He). apply dd_eqb_eq in He. now subst.
  - cbn. rewrite IH. reflexivity.
Qed.

Lemma dedup_nodup : forall l, NoDup (dedup l).
Proof.
  induction l as [|a l IH]; cbn [dedup]; [constructor|].
  destruct (existsb (dd_eqb a) l) eqn:E; [exact IH|].
  constructor; [|exact IH]. rewrite dedup_in. intros Hin.
  assert (existsb (dd_eqb a) l = true); [|congruence].
  apply existsb_exists. exists a. split; [exact Hin|apply dd_eqb_refl].
Qed.

Theorem counted_nodes_spec t :
  NoDup (dedup (subnodes t)) /\
  forall s, In s (dedup (subnodes t)) <-> (subdiagram t s /\ exists k cs, s = N k cs).
Proof. split; [apply dedup_nodup|]. intros s. rewrite dedup_in. apply subnodes_spec. Qed.

End Counts.
