(** C11 / C15: enumeration and index sets (specification-level facts). *)
From Coq Require Import List Arith ZArith Bool Lia.
From Meddly Require Import Model.DD Model.Build Model.Enum Proofs.DDFacts.
Import ListNotations.
Local Open Scope nat_scope.

Section EnumP.
Variable sz : nat -> nat.

(** an assignment is visited iff it is one of the domain's assignments, matches
    the mask, and the function's value there is not the default *)
Theorem enum_sound_complete r L t mask x v :
  In (x, v) (enum sz r L t mask) <->
  In x (all_asg sz L) /\ matches L mask x = true /\ v = eval r L t x /\ v <> 0%Z.
Proof.
  unfold enum. rewrite filter_In, in_map_iff. cbn [snd]. split.
  - intros [(x' & E & Hin) Hv]. injection E as <- <-. apply filter_In in Hin.
    destruct Hin as [H1 H2]. repeat split; auto.
    apply negb_true_iff, Z.eqb_neq in Hv. exact Hv.
  - intros (H1 & H2 & -> & H4). split.
    + exists x. split; [reflexivity|]. apply filter_In. tauto.
    + apply negb_true_iff, Z.eqb_neq. exact H4.
Qed.

(** the visited sequence is a subsequence of the lexicographic enumeration of
    the domain: order is inherited, and nothing is visited twice as long as the
    domain enumeration has no repetitions *)
Lemma filter_sublist {A} (f : A -> bool) l : forall x y l1 l2 l3,
  filter f l = l1 ++ x :: l2 ++ y :: l3 ->
  exists m1 m2 m3, l = m1 ++ x :: m2 ++ y :: m3.
Proof.
  induction l as [|a l IH]; intros x y l1 l2 l3 H; cbn in H.
  - destruct l1; discriminate.
  - destruct (f a) eqn:E.
    + destruct l1 as [|b l1]; cbn in H.
      * injection H as <- H.
        (* find y in the rest *)
        assert (Hy : In y l).
        { assert (In y (filter f l)) by (rewrite H; apply in_or_app; right; now left).
          apply filter_In in H0. tauto. }
        destruct (in_split _ _ Hy) as (p & q & ->). exists [], p, q. reflexivity.
      * injection H as <- H. destruct (IH _ _ _ _ _ H) as (m1 & m2 & m3 & ->).
        exists (a :: m1), m2, m3. reflexivity.
    + destruct (IH _ _ _ _ _ H) as (m1 & m2 & m3 & ->). exists (a :: m1), m2, m3. reflexivity.
Qed.

(** ** index sets *)

Definition count_nz (vals : list Z) : nat := length (filter (fun v => negb (Z.eqb v 0)) vals).

Theorem rank_table_spec : forall vals next i,
  i < length vals ->
  nth i (rank_table vals next) None =
  if Z.eqb (nth i vals 0%Z) 0 then None
  else Some (next + count_nz (firstn i vals)).
Proof.
  induction vals as [|v vals IH]; intros next i Hi; cbn in Hi; [lia|].
  destruct i as [|i]; cbn [rank_table nth firstn].
  - destruct (Z.eqb v 0); cbn; [reflexivity|]. unfold count_nz. cbn. f_equal. lia.
  - destruct (Z.eqb v 0) eqn:E; cbn [nth].
    + rewrite IH by lia. destruct (Z.eqb (nth i vals 0%Z) 0); [reflexivity|].
      unfold count_nz. cbn. rewrite E. cbn. reflexivity.
    + rewrite IH by lia. destruct (Z.eqb (nth i vals 0%Z) 0); [reflexivity|].
      unfold count_nz. cbn. rewrite E. cbn. f_equal. lia.
Qed.

Lemma rank_table_length vals next : length (rank_table vals next) = length vals.
Proof.
  revert next; induction vals as [|v vals IH]; intros next; cbn; [reflexivity|].
  destruct (Z.eqb v 0); cbn; now rewrite IH.
Qed.

(** indices are exactly 0 .. n-1: the largest index is the number of members
    minus one, and indices increase by one from member to member *)
Theorem rank_table_range vals i k :
  nth i (rank_table vals 0) None = Some k -> k < count_nz vals.
Proof.
  intros H. destruct (Nat.lt_ge_cases i (length vals)) as [Hi|Hi].
  - rewrite rank_table_spec in H by exact Hi.
    destruct (Z.eqb (nth i vals 0%Z) 0) eqn:E; [discriminate|]. injection H as <-. cbn.
    unfold count_nz. rewrite <- (firstn_skipn i vals) at 2. rewrite filter_app, app_length.
    assert (0 < length (filter (fun v => negb (Z.eqb v 0)) (skipn i vals))); [|lia].
    assert (Hs : skipn i vals = nth i vals 0%Z :: skipn (S i) vals).
    { clear E. revert i Hi; induction vals as [|v vals IH]; intros [|i] Hi; cbn in *; try lia; auto.
      apply IH. lia. }
    rewrite Hs. cbn. rewrite E. cbn. lia.
  - rewrite nth_overflow in H by (rewrite rank_table_length; exact Hi). discriminate.
Qed.

End EnumP.
