(** C12: whatever the storage flag, a node reads back as it was written. *)
From Coq Require Import List ZArith Bool Arith Lia.
From Meddly Require Import Model.Storage.
Import ListNotations.
Local Open Scope Z_scope.

Lemma nth_trunc : forall l i, nth i (trunc l) 0 = nth i l 0.
Proof.
  induction l as [|x r IH]; intros i; [reflexivity|]. cbn [trunc].
  destruct (trunc r) as [|t ts] eqn:E.
  - destruct (Z.eqb_spec x 0) as [->|Hx].
    + destruct i; cbn; [reflexivity|]. rewrite <- IH. now destruct i.
    + destruct i; cbn; [reflexivity|]. rewrite <- IH. now destruct i.
  - destruct i; cbn; [reflexivity|]. rewrite <- IH. reflexivity.
Qed.

Lemma find_none_all {A} (f : A -> bool) l :
  (forall x, In x l -> f x = false) -> find f l = None.
Proof.
  induction l as [|a l IH]; intros H; [reflexivity|]. cbn.
  rewrite (H a (or_introl eq_refl)). apply IH. intros x Hx. apply H. now right.
Qed.

Lemma lookup_sparse_from : forall l s i,
  lookup_sparse (sparse_from s l) (s + i) = nth i l 0.
Proof.
  induction l as [|x r IH]; intros s i.
  - cbn. now destruct i.
  - cbn [sparse_from]. destruct (Z.eqb_spec x 0) as [->|Hx].
    + destruct i.
      * cbn. unfold lookup_sparse.
        assert (H : find (fun p => Nat.eqb (fst p) (s + 0)) (sparse_from (S s) r) = None).
        { apply find_none_all. intros [j v] Hin. cbn.
          assert (S s <= j)%nat.
          { clear - Hin. revert s Hin. induction r as [|y r IHr]; intros s Hin; cbn in Hin; [destruct Hin|].
            destruct (y =? 0); [apply IHr in Hin; lia|].
            destruct Hin as [E|Hin]; [injection E; lia|apply IHr in Hin; lia]. }
          apply Nat.eqb_neq. lia. }
        now rewrite H.
      * replace (s + S i)%nat with (S s + i)%nat by lia. rewrite IH. reflexivity.
    + destruct i.
      * unfold lookup_sparse. cbn. rewrite Nat.add_0_r, Nat.eqb_refl. reflexivity.
      * unfold lookup_sparse. cbn.
        destruct (Nat.eqb_spec s (s + S i)); [lia|].
        replace (s + S i)%nat with (S s + i)%nat by lia. apply IH.
Qed.

Lemma nth_map_seq_Z (f : nat -> Z) : forall n s i,
  (i < n)%nat -> nth i (map f (seq s n)) 0 = f (s + i)%nat.
Proof.
  induction n as [|n IH]; intros s i Hi; [lia|].
  destruct i; cbn.
  - now rewrite Nat.add_0_r.
  - rewrite IH by lia. f_equal. lia.
Qed.

Theorem unpack_make_node h e opt cs :
  unpack_full (length cs) (make_node h e opt cs) = cs.
Proof.
  assert (HF : unpack_full (length cs) (PFull (trunc cs)) = cs).
  { cbn. apply (nth_ext _ _ 0 0).
    - now rewrite map_length, seq_length.
    - rewrite map_length, seq_length. intros i Hi.
      rewrite nth_map_seq_Z by exact Hi. apply nth_trunc. }
  assert (HS : unpack_full (length cs) (PSparse (sparse_from 0 cs)) = cs).
  { cbn. apply (nth_ext _ _ 0 0).
    - now rewrite map_length, seq_length.
    - rewrite map_length, seq_length. intros i Hi.
      rewrite nth_map_seq_Z by exact Hi. apply (lookup_sparse_from cs 0 i). }
  unfold make_node. destruct opt; auto.
  destruct (_ <? _)%nat; auto.
Qed.
