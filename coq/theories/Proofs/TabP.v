(** * The tabulated executable variants of the reachability iterations return
    the same sets, hence the same diagrams, as the closure-building ones that
    the theorems of ReachP / SaturP / SatDDP are about. *)
From Coq Require Import List Arith ZArith Bool Lia.
From Meddly Require Import Model.DD Model.Scalar Model.Reach Proofs.DDFacts Proofs.Canon
     Proofs.Reduce Proofs.ReachP Proofs.SaturP Proofs.ImageP Proofs.SatDDP.
Import ListNotations.
Local Open Scope nat_scope.

Section TabP.
Variable St : Type.
Variable states : list St.
Variable eqb : St -> St -> bool.
Variable eqv : St -> St -> Prop.
Hypothesis eqb_sound : forall a b, eqb a b = true -> eqv a b.

Notation resp := (resp St eqv).
Notation resp2 := (resp2 St eqv).
Notation tab := (tab_set St states eqb).

Lemma tab_id S : resp S -> forall y, tab S y = S y.
Proof.
  intros HS y. unfold tab_set. destruct (find _ _) as [p|] eqn:E; [|reflexivity].
  apply find_some in E. destruct E as [Hin He]. apply eqb_sound in He.
  apply in_map_iff in Hin. destruct Hin as (z & <- & _). cbn in *. now apply HS.
Qed.

Lemma tab_resp S : resp S -> resp (tab S).
Proof. intros HS y y' E. rewrite !tab_id by exact HS. now apply HS. Qed.

Lemma same_set_ext (A A' B B' : St -> bool) :
  (forall y, A y = A' y) -> (forall y, B y = B' y) ->
  same_set St states A B = same_set St states A' B'.
Proof.
  intros HA HB. unfold same_set. induction states as [|x l IH]; cbn; [reflexivity|].
  now rewrite HA, HB, IH.
Qed.

Lemma empty_set_ext (A A' : St -> bool) :
  (forall y, A y = A' y) -> empty_set St states A = empty_set St states A'.
Proof.
  intros HA. unfold empty_set. induction states as [|x l IH]; cbn; [reflexivity|].
  now rewrite HA, IH.
Qed.

Lemma img_set_ext R (S S' : St -> bool) :
  (forall y, S y = S' y) -> forall y, img St states R S y = img St states R S' y.
Proof.
  intros H y. unfold img. induction states as [|x l IH]; cbn; [reflexivity|]. now rewrite H, IH.
Qed.

(** two optional results: both absent, or both present and pointwise equal
    (and the tabulated one respects the equivalence) *)
Definition orel (o1 o2 : option (St -> bool)) : Prop :=
  match o1, o2 with
  | Some a, Some b => (forall y, a y = b y) /\ resp a
  | None, None => True
  | _, _ => False
  end.

Lemma bfs_t_sim R : resp2 R -> forall fuel S S',
  resp S -> (forall y, S y = S' y) ->
  orel (bfs_t St states eqb R fuel S) (bfs St states R fuel S').
Proof.
  intros HR. induction fuel as [|fuel IH]; intros S S' HS HSS; cbn; [exact I|].
  assert (Hstep : resp (fun y => S y || img St states R S y)).
  { intros y y' E. now rewrite (HS y y' E), (img_resp St states eqv R S HR y y' E). }
  assert (Hpt : forall y, tab (fun y => S y || img St states R S y) y = (S' y || img St states R S' y)).
  { intros y. rewrite tab_id by exact Hstep. now rewrite HSS, (img_set_ext R S S' HSS). }
  rewrite (same_set_ext S S' _ (fun y => S' y || img St states R S' y) HSS Hpt).
  destruct (same_set St states S' _).
  - split; assumption.
  - apply IH; [now apply tab_resp|exact Hpt].
Qed.

Lemma bfs_front_t_sim R : resp2 R -> forall fuel S S' F F',
  resp S -> resp F -> (forall y, S y = S' y) -> (forall y, F y = F' y) ->
  orel (bfs_front_t St states eqb R fuel S F) (bfs_front St states R fuel S' F').
Proof.
  intros HR. induction fuel as [|fuel IH]; intros S S' F F' HS HF HSS HFF; cbn; [exact I|].
  rewrite (empty_set_ext F F' HFF). destruct (empty_set St states F'); [split; assumption|].
  assert (H1 : resp (fun y => S y || img St states R F y)).
  { intros y y' E. now rewrite (HS y y' E), (img_resp St states eqv R F HR y y' E). }
  assert (P1 : forall y, tab (fun y => S y || img St states R F y) y = (S' y || img St states R F' y)).
  { intros y. rewrite tab_id by exact H1. now rewrite HSS, (img_set_ext R F F' HFF). }
  assert (H2 : resp (fun y => tab (fun y0 => S y0 || img St states R F y0) y && negb (S y))).
  { intros y y' E. now rewrite (tab_resp _ H1 y y' E), (HS y y' E). }
  apply IH; [now apply tab_resp|now apply tab_resp|exact P1|].
  intros y. rewrite tab_id by exact H2. now rewrite P1, HSS.
Qed.

Lemma sat_loop_t_sim E (sub_t sub : (St -> bool) -> option (St -> bool)) :
  resp2 E ->
  (forall S S', resp S -> (forall y, S y = S' y) -> orel (sub_t S) (sub S')) ->
  forall n S S', resp S -> (forall y, S y = S' y) ->
  orel (sat_loop_t St states eqb sub_t E n S) (sat_loop St states sub E n S').
Proof.
  intros HE Hsub. induction n as [|n IH]; intros S S' HS HSS; cbn; [exact I|].
  pose proof (Hsub S S' HS HSS) as H1. unfold orel in H1.
  destruct (sub_t S) as [S1|], (sub S') as [S1'|]; try contradiction; [|exact I].
  destruct H1 as [H11 HS1].
  assert (Hr : resp (fun y => S1 y || img St states E S1 y)).
  { intros y y' Ey. now rewrite (HS1 y y' Ey), (img_resp St states eqv E S1 HE y y' Ey). }
  assert (Hpt : forall y, tab (fun y => S1 y || img St states E S1 y) y = (S1' y || img St states E S1' y)).
  { intros y. rewrite tab_id by exact Hr. now rewrite H11, (img_set_ext E S1 S1' H11). }
  rewrite (same_set_ext S S' _ (fun y => S1' y || img St states E S1' y) HSS Hpt).
  destruct (same_set St states S' _); [split; assumption|].
  apply IH; [now apply tab_resp|exact Hpt].
Qed.

Lemma saturate_t_sim : forall lv, (forall e, In e lv -> resp2 e) ->
  forall fuel S S', resp S -> (forall y, S y = S' y) ->
  orel (saturate_t St states eqb lv fuel S) (saturate St states lv fuel S').
Proof.
  induction lv as [|E lower IH]; intros Hlv fuel S S' HS HSS; cbn -[sat_loop sat_loop_t].
  - split; assumption.
  - apply sat_loop_t_sim; [apply Hlv; now left| |exact HS|exact HSS].
    intros A A' HA HAA. apply IH; auto. intros e He. apply Hlv. now right.
Qed.

End TabP.

(** ** on diagrams *)
Section FastDDP.
Variable szS : nat -> nat.
Hypothesis sz_pos : forall k, 1 <= szS k.
Variable K : nat.
Variables rS rR rOut : rule.
Hypothesis set_not_ir : is_ir rS = false.
Notation sts := (states_of szS K).

Lemma asg_eqb_sound x y : asg_eqb K x y = true -> eqK K x y.
Proof.
  unfold asg_eqb. rewrite forallb_forall. intros H k Hk.
  apply Nat.eqb_eq, H, in_seq. lia.
Qed.

Lemma opt_dd_orel o1 o2 :
  orel (nat -> nat) (eqK K) o1 o2 ->
  (forall b, o2 = Some b -> resp (nat -> nat) (eqK K) b) ->
  opt_dd szS K rOut o1 = opt_dd szS K rOut o2.
Proof.
  intros H Hb. unfold orel in H. destruct o1 as [a|], o2 as [b|]; try contradiction; [|reflexivity].
  destruct H as [Hab Ha]. cbn. f_equal.
  apply (dd_of_set_ext szS K rOut); auto.
Qed.

Theorem reach_dd_fast_eq s r :
  reach_dd_fast szS K rS rR rOut s r = reach_dd szS K rS rR rOut s r.
Proof.
  unfold reach_dd_fast, reach_dd.
  change (match bfs (nat -> nat) sts (rel_mem K rR r) (S (length sts)) (set_mem K rS s) with
          | Some Sr => Some (dd_of_set szS K rOut Sr) | None => None end)
    with (opt_dd szS K rOut (bfs (nat -> nat) sts (rel_mem K rR r) (S (length sts)) (set_mem K rS s))).
  apply opt_dd_orel.
  - apply (bfs_t_sim _ sts (asg_eqb K) (eqK K) asg_eqb_sound); auto.
    + apply (rel_mem_resp2 K rR).
    + now apply (set_mem_resp K rS).
  - intros b Hb. eapply (bfs_resp _ sts (eqK K)); [apply (rel_mem_resp2 K rR)| |exact Hb].
    now apply (set_mem_resp K rS).
Qed.

Theorem reach_fs_dd_fast_eq s r :
  reach_fs_dd_fast szS K rS rR rOut s r = reach_fs_dd szS K rS rR rOut s r.
Proof.
  unfold reach_fs_dd_fast, reach_fs_dd.
  change (match bfs_front (nat -> nat) sts (rel_mem K rR r) (S (length sts)) (set_mem K rS s) (set_mem K rS s) with
          | Some Sr => Some (dd_of_set szS K rOut Sr) | None => None end)
    with (opt_dd szS K rOut (bfs_front (nat -> nat) sts (rel_mem K rR r) (S (length sts))
                                       (set_mem K rS s) (set_mem K rS s))).
  pose proof (set_mem_resp K rS set_not_ir s) as Hs.
  apply opt_dd_orel.
  - apply (bfs_front_t_sim _ sts (asg_eqb K) (eqK K) asg_eqb_sound); auto.
    apply (rel_mem_resp2 K rR).
  - intros b Hb. eapply (bfs_front_resp _ sts (eqK K)); [apply (rel_mem_resp2 K rR)| | |exact Hb]; exact Hs.
Qed.

Theorem sat_dd_fast_eq s evs :
  sat_dd_fast szS K rS rR rOut s evs = sat_dd szS K rS rR rOut s evs.
Proof.
  unfold sat_dd_fast, sat_dd.
  change (match saturate (nat -> nat) sts (map (rel_mem K rR) evs) (S (length sts)) (set_mem K rS s) with
          | Some Sr => Some (dd_of_set szS K rOut Sr) | None => None end)
    with (opt_dd szS K rOut (saturate (nat -> nat) sts (map (rel_mem K rR) evs) (S (length sts)) (set_mem K rS s))).
  pose proof (set_mem_resp K rS set_not_ir s) as Hs.
  assert (Hev : forall e, In e (map (rel_mem K rR) evs) -> resp2 (nat -> nat) (eqK K) e).
  { intros e He. apply in_map_iff in He. destruct He as (r & <- & _). apply (rel_mem_resp2 K rR). }
  apply opt_dd_orel.
  - apply (saturate_t_sim _ sts (asg_eqb K) (eqK K) asg_eqb_sound); auto.
  - intros b Hb. eapply (saturate_resp _ sts (eqK K)); [exact Hev|exact Hs|exact Hb].
Qed.

Lemma rel_mem_resp1 r : resp2 (nat -> nat) (eqK K) (fun x y => rel_mem K rR r y x).
Proof.
  intros y x x' E. unfold rel_mem, eval. f_equal. apply evalL_ext. intros p Hp.
  unfold pair_asg. destruct (Nat.even p) eqn:Ev; [|reflexivity]. apply E.
  assert (Hd : dep (is_ir rR) (2 * K) = 2 * K).
  { unfold dep. replace (Nat.odd (2 * K)) with false; [now rewrite andb_false_r|].
    symmetry. rewrite <- Nat.negb_even, Nat.even_mul. reflexivity. }
  rewrite Hd in Hp. apply Nat.even_spec in Ev. destruct Ev as [q ->].
  rewrite Nat.mul_comm, Nat.div_mul by lia. lia.
Qed.

Theorem rreach_dd_fast_eq s r :
  rreach_dd_fast szS K rS rR rOut s r = rreach_dd szS K rS rR rOut s r.
Proof.
  unfold rreach_dd_fast, rreach_dd.
  change (match bfs (nat -> nat) sts (fun x y => rel_mem K rR r y x) (S (length sts)) (set_mem K rS s) with
          | Some Sr => Some (dd_of_set szS K rOut Sr) | None => None end)
    with (opt_dd szS K rOut (bfs (nat -> nat) sts (fun x y => rel_mem K rR r y x) (S (length sts)) (set_mem K rS s))).
  apply opt_dd_orel.
  - apply (bfs_t_sim _ sts (asg_eqb K) (eqK K) asg_eqb_sound); auto.
    + apply rel_mem_resp1.
    + now apply (set_mem_resp K rS).
  - intros b Hb. eapply (bfs_resp _ sts (eqK K)); [apply rel_mem_resp1| |exact Hb].
    now apply (set_mem_resp K rS).
Qed.

End FastDDP.
