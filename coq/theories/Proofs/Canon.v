(** * Canonicity of reduced multi-terminal diagrams, for all three reduction
    rules (fully, quasi, identity reduced), sets and relations.

    Two diagrams that both obey the reduction rule of the forest and denote the
    same function are the same diagram.  Proved by induction on the level. *)
From Coq Require Import List Arith ZArith Bool Lia.
From Meddly Require Import Model.DD Proofs.DDFacts.
Import ListNotations.
Local Open Scope nat_scope.

Section Canon.
Variable sz : nat -> nat.
Variable r : rule.
Hypothesis sz_pos : forall k, 1 <= sz k.
(** identity-reduced forests are relation forests: a primed level and the
    unprimed level above it belong to the same variable, and (as in the
    property) variables have at least two values *)
Hypothesis sz_pair : is_ir r = true -> forall L, Nat.odd L = true -> sz L = sz (S L).
Hypothesis sz_ge2 : is_ir r = true -> forall k, 2 <= sz k.

Notation valid := (valid sz).
Notation reducedb := (reducedb sz r).
Notation ev := (evalL (is_ir r)).

Definition ctx_ok (L : nat) (from : option nat) (x : nat -> nat) : Prop :=
  match from with Some i => x (S L) = i | None => True end.

Definition from_ok (L : nat) (from : option nat) : Prop :=
  match from with Some i => i < sz (S L) | None => True end.

(** ** Inversion of [reducedb] *)

Lemma children_go_spec L cs :
  forall i0,
  (fix go (i : nat) (l : list dd) {struct l} : bool :=
     match l with
     | [] => true
     | c :: l' => reducedb L (Some i) c && go (S i) l'
     end) i0 cs = true <->
  (forall i, i < length cs -> reducedb L (Some (i0 + i)) (nth i cs zero) = true).
Proof.
  induction cs as [|c cs IH]; intros i0; cbn [length nth].
  - split; [intros _ i Hi; lia|reflexivity].
  - rewrite andb_true_iff, IH. split.
    + intros [Hc Hr] [|i] Hi; [now rewrite Nat.add_0_r|].
      replace (i0 + S i) with (S i0 + i) by lia. apply Hr. lia.
    + intros H. split.
      * specialize (H 0 ltac:(lia)). now rewrite Nat.add_0_r in H.
      * intros i Hi. replace (S i0 + i) with (i0 + S i) by lia. apply (H (S i)). lia.
Qed.

Lemma reduced_node L from cs :
  reducedb (S L) from (N (S L) cs) = true <->
  length cs = sz (S L) /\ forallb is_zero cs = false /\
  node_rule_ok r (S L) from cs = true /\
  (forall i, i < length cs -> reducedb L (Some i) (nth i cs zero) = true).
Proof.
  cbn [DD.reducedb]. rewrite Nat.eqb_refl.
  rewrite !andb_true_iff, Nat.eqb_eq, negb_true_iff, (children_go_spec L cs 0).
  cbn [Nat.add]. tauto.
Qed.

Lemma reduced_skip L from t :
  top t <> S L ->
  reducedb (S L) from t = true <->
  skip_allowed r t = true /\ reducedb L None t = true.
Proof.
  intros H. destruct t as [v|k cs]; cbn [DD.reducedb].
  - now rewrite andb_true_iff.
  - cbn in H. destruct (Nat.eqb_spec k (S L)); [contradiction|]. now rewrite andb_true_iff.
Qed.

Lemma reduced_top : forall L from t, reducedb L from t = true -> top t <= L.
Proof.
  induction L as [|L IH]; intros from t H.
  - destruct t; cbn in *; [lia|discriminate].
  - destruct (Nat.eq_dec (top t) (S L)) as [E|E]; [lia|].
    apply reduced_skip in H; [|assumption]. destruct H as [_ H]. apply IH in H. lia.
Qed.

Lemma reduced_zero L from : reducedb L from zero = true.
Proof.
  revert from. induction L as [|L IH]; intros from; [reflexivity|].
  apply reduced_skip; [cbn; lia|]. split; [apply skip_allowed_zero|apply IH].
Qed.

(** [None] is the strictest context *)
Lemma reduced_weaken L i t : reducedb L None t = true -> reducedb L (Some i) t = true.
Proof.
  destruct L as [|L]; [exact id|].
  destruct (Nat.eq_dec (top t) (S L)) as [E|E].
  - destruct t as [v|k cs]; cbn in E; [lia|]. subst k.
    rewrite !reduced_node. intros (H1 & H2 & H3 & H4). repeat split; auto.
    now apply node_rule_weaken.
  - rewrite !reduced_skip by assumption. exact id.
Qed.

(** below an even (unprimed) level, or outside identity-reduced forests, the
    context is irrelevant *)
Lemma reduced_from_irrel L from from' t :
  is_ir r && Nat.odd L = false ->
  reducedb L from t = true -> reducedb L from' t = true.
Proof.
  intros Hc. destruct L as [|L]; [exact id|].
  destruct (Nat.eq_dec (top t) (S L)) as [E|E].
  - destruct t as [v|k cs]; cbn in E; [lia|]. subst k.
    rewrite !reduced_node. intros (H1 & H2 & H3 & H4). repeat split; auto.
    now rewrite (node_rule_irrel r (S L) from' from cs Hc).
  - rewrite !reduced_skip by assumption. exact id.
Qed.

(** ** Existence of valid assignments *)

Definition x0 : nat -> nat := fun _ => 0.

Lemma x0_valid : valid x0.
Proof. intros k. unfold x0. specialize (sz_pos k). lia. Qed.

(** ** The canonicity theorem *)

Lemma skip_ok_ir L x :
  is_ir r = true -> Nat.odd L = true ->
  skip_ok (is_ir r) L x = Nat.eqb (x L) (x (S L)).
Proof. intros H1 H2. unfold skip_ok. now rewrite H1, H2. Qed.

Lemma skip_ok_not L x :
  is_ir r && Nat.odd L = false -> skip_ok (is_ir r) L x = true.
Proof. intros H. unfold skip_ok. now rewrite H. Qed.

Lemma ev_upd_above L t x k v : dep (is_ir r) L < k -> ev L t (upd x k v) = ev L t x.
Proof.
  intros H. apply evalL_ext. intros j Hj. apply upd_other. lia.
Qed.

Lemma children_eq (cs1 cs2 : list dd) :
  length cs1 = length cs2 ->
  (forall i, i < length cs1 -> nth i cs1 zero = nth i cs2 zero) -> cs1 = cs2.
Proof.
  intros Hl H. apply (nth_ext _ _ zero zero Hl H).
Qed.

Theorem canon : forall L from t1 t2,
  from_ok L from ->
  reducedb L from t1 = true -> reducedb L from t2 = true ->
  (forall x, valid x -> ctx_ok L from x -> ev L t1 x = ev L t2 x) ->
  t1 = t2.
Proof.
  induction L as [|L IH]; intros from t1 t2 Hf H1 H2 Heq.
  - destruct t1 as [v1|]; [|discriminate]. destruct t2 as [v2|]; [|discriminate].
    f_equal.
    destruct from as [i|].
    + specialize (Heq (upd x0 1 i)). cbn in Heq. apply Heq.
      * apply upd_valid; [apply x0_valid|exact Hf].
      * reflexivity.
    + apply (Heq x0 x0_valid I).
  - (* a valid assignment satisfying the context, agreeing with [x] below *)
    set (fix_ctx := fun x : nat -> nat =>
           match from with Some i => upd x (S (S L)) i | None => x end).
    assert (Hfv : forall x, valid x -> valid (fix_ctx x)).
    { intros x Hx. unfold fix_ctx. destruct from as [i|]; [|exact Hx].
      apply upd_valid; assumption. }
    assert (Hfc : forall x, ctx_ok (S L) from (fix_ctx x)).
    { intros x. unfold fix_ctx, ctx_ok. destruct from as [i|]; [apply upd_same|exact I]. }
    assert (Hfb : forall x k, k <= S L -> fix_ctx x k = x k).
    { intros x k Hk. unfold fix_ctx. destruct from as [i|]; [|reflexivity].
      apply upd_other. lia. }
    assert (HdL : dep (is_ir r) L <= S L) by apply dep_le.
    assert (Hevb : forall t x, ev L t (fix_ctx x) = ev L t x).
    { intros t x. apply evalL_ext. intros k Hk. apply Hfb. lia. }
    destruct (Nat.eq_dec (top t1) (S L)) as [E1|E1];
      destruct (Nat.eq_dec (top t2) (S L)) as [E2|E2].
    + (* both are nodes at this level *)
      destruct t1 as [|k1 cs1]; cbn in E1; [lia|]. subst k1.
      destruct t2 as [|k2 cs2]; cbn in E2; [lia|]. subst k2.
      apply reduced_node in H1. destruct H1 as (Hl1 & Hz1 & Hr1 & Hc1).
      apply reduced_node in H2. destruct H2 as (Hl2 & Hz2 & Hr2 & Hc2).
      f_equal. apply children_eq; [congruence|]. intros i Hi.
      apply (IH (Some i)); [cbn; lia|apply Hc1; lia|apply Hc2; lia|].
      intros x Hx Hxi. cbn in Hxi.
      specialize (Heq (fix_ctx x) (Hfv x Hx) (Hfc x)).
      rewrite !evalL_node, Hfb, Hxi, !Hevb in Heq by lia. exact Heq.
    + (* t1 a node, t2 skips the level *)
      exfalso.
      destruct t1 as [|k1 cs1]; cbn in E1; [lia|]. subst k1.
      apply reduced_node in H1. destruct H1 as (Hl1 & Hz1 & Hr1 & Hc1).
      apply reduced_skip in H2; [|assumption]. destruct H2 as [Hs2 H2].
      destruct (is_ir r && Nat.odd (S L)) eqn:Eir.
      * (* identity-reduced, primed level *)
        apply andb_true_iff in Eir. destruct Eir as [Hir Hodd].
        assert (HLe : Nat.odd L = false).
        { rewrite Nat.odd_succ in Hodd. rewrite <- Nat.negb_even. now rewrite Hodd. }
        assert (HdepL : dep (is_ir r) L = L).
        { unfold dep. now rewrite HLe, andb_false_r. }
        (* children other than the context index are zero *)
        assert (Hother : forall j i', i' < sz (S (S L)) -> j <> i' -> j < sz (S L) ->
                  (forall x, valid x -> x (S (S L)) = i' ->
                     ev (S L) (N (S L) cs1) x = ev (S L) t2 x) ->
                  nth j cs1 zero = zero).
        { intros j i' Hi' Hji Hj Hq.
          apply (IH (Some j)); [cbn; lia|apply Hc1; lia|apply reduced_zero|].
          intros x Hx Hxj. cbn in Hxj. rewrite evalL_zero.
          specialize (Hq (upd x (S (S L)) i')).
          rewrite evalL_node, evalL_skip in Hq by assumption.
          rewrite (skip_ok_ir _ _ Hir Hodd) in Hq.
          rewrite upd_same, !upd_other, Hxj in Hq by lia.
          destruct (Nat.eqb_spec j i'); [contradiction|].
          rewrite ev_upd_above in Hq by lia.
          apply Hq; [apply upd_valid; assumption|reflexivity]. }
        destruct from as [i0|].
        -- cbn in Hf.
           assert (Hq : forall x, valid x -> x (S (S L)) = i0 ->
                     ev (S L) (N (S L) cs1) x = ev (S L) t2 x).
           { intros x Hx Hxi. apply Heq; assumption. }
           assert (Hsing : singleton_at i0 cs1 = true).
           { apply singleton_at_spec. split.
             - intros Hz. apply Bool.not_true_iff_false in Hz1. apply Hz1.
               apply all_zero_spec. intros j.
               destruct (Nat.eq_dec j i0) as [->|Hne]; [exact Hz|].
               destruct (Nat.lt_ge_cases j (length cs1)) as [Hj|Hj];
                 [|now apply nth_overflow].
               apply (Hother j i0); auto; lia.
             - intros j Hne.
               destruct (Nat.lt_ge_cases j (length cs1)) as [Hj|Hj];
                 [|now apply nth_overflow].
               apply (Hother j i0); auto; lia. }
           unfold node_rule_ok in Hr1. destruct r; try discriminate.
           rewrite Hodd, Hsing in Hr1. discriminate.
        -- apply Bool.not_true_iff_false in Hz1. apply Hz1.
           apply all_zero_spec. intros j.
           destruct (Nat.lt_ge_cases j (length cs1)) as [Hj|Hj];
             [|now apply nth_overflow].
           pose proof (sz_ge2 Hir (S (S L))) as H2s.
           set (i' := if Nat.eqb j 0 then 1 else 0).
           assert (Hi' : i' < sz (S (S L)) /\ j <> i').
           { unfold i'. destruct (Nat.eqb_spec j 0); lia. }
           apply (Hother j i'); try tauto; [lia|].
           intros x Hx _. apply Heq; [assumption|exact I].
      * (* skipping means "don't care" here *)
        assert (Hall : forall i, i < length cs1 -> nth i cs1 zero = t2).
        { intros i Hi.
          apply (IH (Some i)); [cbn; lia|apply Hc1; lia|now apply reduced_weaken|].
          intros x Hx Hxi. cbn in Hxi.
          specialize (Heq (fix_ctx x) (Hfv x Hx) (Hfc x)).
          rewrite evalL_node, evalL_skip, Hfb, Hxi, !Hevb in Heq by (assumption || lia).
          rewrite (skip_ok_not _ _ Eir) in Heq. exact Heq. }
        assert (Hsame : all_same cs1 = true) by (now apply (all_same_const cs1 t2)).
        unfold node_rule_ok in Hr1. unfold skip_allowed in Hs2.
        destruct r.
        -- rewrite Hsame in Hr1. discriminate.
        -- apply is_zero_eq in Hs2. subst t2.
           apply Bool.not_true_iff_false in Hz1. apply Hz1.
           apply all_zero_spec. intros j.
           destruct (Nat.lt_ge_cases j (length cs1)); [now apply Hall|now apply nth_overflow].
        -- cbn in Eir. rewrite Eir, Hsame in Hr1. discriminate.
    + (* symmetric case *)
      exfalso.
      destruct t2 as [|k2 cs2]; cbn in E2; [lia|]. subst k2.
      apply reduced_node in H2. destruct H2 as (Hl2 & Hz2 & Hr2 & Hc2).
      apply reduced_skip in H1; [|assumption]. destruct H1 as [Hs1 H1].
      destruct (is_ir r && Nat.odd (S L)) eqn:Eir.
      * apply andb_true_iff in Eir. destruct Eir as [Hir Hodd].
        assert (HLe : Nat.odd L = false).
        { rewrite Nat.odd_succ in Hodd. rewrite <- Nat.negb_even. now rewrite Hodd. }
        assert (HdepL : dep (is_ir r) L = L).
        { unfold dep. now rewrite HLe, andb_false_r. }
        assert (Hother : forall j i', i' < sz (S (S L)) -> j <> i' -> j < sz (S L) ->
                  (forall x, valid x -> x (S (S L)) = i' ->
                     ev (S L) t1 x = ev (S L) (N (S L) cs2) x) ->
                  nth j cs2 zero = zero).
        { intros j i' Hi' Hji Hj Hq.
          apply (IH (Some j)); [cbn; lia|apply Hc2; lia|apply reduced_zero|].
          intros x Hx Hxj. cbn in Hxj. rewrite evalL_zero.
          specialize (Hq (upd x (S (S L)) i')).
          rewrite evalL_node, evalL_skip in Hq by assumption.
          rewrite (skip_ok_ir _ _ Hir Hodd) in Hq.
          rewrite upd_same, !upd_other, Hxj in Hq by lia.
          destruct (Nat.eqb_spec j i'); [contradiction|].
          rewrite ev_upd_above in Hq by lia.
          symmetry. apply Hq; [apply upd_valid; assumption|reflexivity]. }
        destruct from as [i0|].
        -- cbn in Hf.
           assert (Hq : forall x, valid x -> x (S (S L)) = i0 ->
                     ev (S L) t1 x = ev (S L) (N (S L) cs2) x).
           { intros x Hx Hxi. apply Heq; assumption. }
           assert (Hsing : singleton_at i0 cs2 = true).
           { apply singleton_at_spec. split.
             - intros Hz. apply Bool.not_true_iff_false in Hz2. apply Hz2.
               apply all_zero_spec. intros j.
               destruct (Nat.eq_dec j i0) as [->|Hne]; [exact Hz|].
               destruct (Nat.lt_ge_cases j (length cs2)) as [Hj|Hj];
                 [|now apply nth_overflow].
               apply (Hother j i0); auto; lia.
             - intros j Hne.
               destruct (Nat.lt_ge_cases j (length cs2)) as [Hj|Hj];
                 [|now apply nth_overflow].
               apply (Hother j i0); auto; lia. }
           unfold node_rule_ok in Hr2. destruct r; try discriminate.
           rewrite Hodd, Hsing in Hr2. discriminate.
        -- apply Bool.not_true_iff_false in Hz2. apply Hz2.
           apply all_zero_spec. intros j.
           destruct (Nat.lt_ge_cases j (length cs2)) as [Hj|Hj];
             [|now apply nth_overflow].
           pose proof (sz_ge2 Hir (S (S L))) as H2s.
           set (i' := if Nat.eqb j 0 then 1 else 0).
           assert (Hi' : i' < sz (S (S L)) /\ j <> i').
           { unfold i'. destruct (Nat.eqb_spec j 0); lia. }
           apply (Hother j i'); try tauto; [lia|].
           intros x Hx _. apply Heq; [assumption|exact I].
      * assert (Hall : forall i, i < length cs2 -> nth i cs2 zero = t1).
        { intros i Hi. symmetry.
          apply (IH (Some i)); [cbn; lia|now apply reduced_weaken|apply Hc2; lia|].
          intros x Hx Hxi. cbn in Hxi.
          specialize (Heq (fix_ctx x) (Hfv x Hx) (Hfc x)).
          rewrite evalL_node, evalL_skip, Hfb, Hxi, !Hevb in Heq by (assumption || lia).
          rewrite (skip_ok_not _ _ Eir) in Heq. exact Heq. }
        assert (Hsame : all_same cs2 = true) by (now apply (all_same_const cs2 t1)).
        unfold node_rule_ok in Hr2. unfold skip_allowed in Hs1.
        destruct r.
        -- rewrite Hsame in Hr2. discriminate.
        -- apply is_zero_eq in Hs1. subst t1.
           apply Bool.not_true_iff_false in Hz2. apply Hz2.
           apply all_zero_spec. intros j.
           destruct (Nat.lt_ge_cases j (length cs2)); [now apply Hall|now apply nth_overflow].
        -- cbn in Eir. rewrite Eir, Hsame in Hr2. discriminate.
    + (* both skip the level *)
      apply reduced_skip in H1; [|assumption]. destruct H1 as [Hs1 H1].
      apply reduced_skip in H2; [|assumption]. destruct H2 as [Hs2 H2].
      apply (IH None); [exact I|assumption|assumption|].
      intros x Hx _.
      destruct (is_ir r && Nat.odd (S L)) eqn:Eir.
      * apply andb_true_iff in Eir. destruct Eir as [Hir Hodd].
        assert (HLe : Nat.odd L = false).
        { rewrite Nat.odd_succ in Hodd. rewrite <- Nat.negb_even. now rewrite Hodd. }
        assert (HdepL : dep (is_ir r) L = L).
        { unfold dep. now rewrite HLe, andb_false_r. }
        (* choose to = from at this level *)
        set (v := match from with Some i => i | None => 0 end).
        assert (Hv : v < sz (S (S L)) /\ v < sz (S L)).
        { rewrite (sz_pair Hir (S L) Hodd). unfold v. destruct from as [i|]; cbn in Hf.
          - lia.
          - specialize (sz_pos (S (S L))). lia. }
        set (x' := upd (upd x (S (S L)) v) (S L) v).
        assert (Hx' : valid x').
        { unfold x'. apply upd_valid; [apply upd_valid|]; tauto. }
        assert (Hc' : ctx_ok (S L) from x').
        { unfold ctx_ok, x', v. destruct from as [i|]; [|exact I].
          rewrite upd_other, upd_same by lia. reflexivity. }
        assert (Hsk : skip_ok (is_ir r) (S L) x' = true).
        { rewrite (skip_ok_ir _ _ Hir Hodd). unfold x'.
          rewrite upd_same, upd_other, upd_same by lia. apply Nat.eqb_refl. }
        specialize (Heq x' Hx' Hc').
        rewrite !evalL_skip, Hsk in Heq by assumption.
        unfold x' in Heq. rewrite !ev_upd_above in Heq by lia. exact Heq.
      * specialize (Heq (fix_ctx x) (Hfv x Hx) (Hfc x)).
        rewrite !evalL_skip, !Hevb in Heq by assumption.
        rewrite !(skip_ok_not _ _ Eir) in Heq. exact Heq.
Qed.

End Canon.
