(** C07: memoisation with any sound cache and any purge policy returns the
    same result as the recursion without a cache, and keeps the cache sound. *)
From Coq Require Import List Arith ZArith Bool Lia.
From Meddly Require Import Model.DD Model.Memo Proofs.DDFacts.
Import ListNotations.
Local Open Scope nat_scope.

Section MemoP.
Variable sz : nat -> nat.
Variable f : Z -> Z -> Z.
Variables ra rb rr : rule.
Variable evict : nat -> cache -> cache.
Hypothesis evict_sub : forall n c, incl (evict n c) c.

Notation ap := (apply2 sz f ra rb rr).
Notation apm := (apply2_memo sz f ra rb rr evict).

Definition sound (c : cache) : Prop :=
  forall L from a b r, In ((L, from, a, b), r) c -> r = ap L from a b.

Lemma key_eqb_eq k1 k2 : key_eqb k1 k2 = true -> k1 = k2.
Proof.
  destruct k1 as [[[l1 f1] a1] b1], k2 as [[[l2 f2] a2] b2]. cbn.
  rewrite !andb_true_iff, !Nat.eqb_eq, !dd_eqb_eq. intros [[[-> ->] ->] ->]. reflexivity.
Qed.

Lemma lookup_in k c r : lookup k c = Some r -> In (k, r) c.
Proof.
  induction c as [|[k' r'] c IH]; cbn; [discriminate|].
  destruct (key_eqb k k') eqn:E.
  - intros H; injection H as ->. apply key_eqb_eq in E. subst. now left.
  - intros H. right. now apply IH.
Qed.

Lemma sound_tick st : sound (fst st) -> sound (fst (tick evict st)).
Proof.
  intros H L from a b r Hin. cbn in Hin. apply evict_sub in Hin. eapply H; eauto.
Qed.

Lemma sound_remember L from a b st :
  sound (fst st) -> sound (fst (remember evict (L, from, a, b) (ap L from a b) st)).
Proof.
  intros H L' from' a' b' r Hin. cbn in Hin. apply evict_sub in Hin.
  destruct Hin as [E|Hin]; [injection E as <- <- <- <- <-; reflexivity|]. eapply H; eauto.
Qed.

Theorem memo_transparent : forall L from a b st,
  sound (fst st) ->
  fst (apm L from a b st) = ap L from a b /\ sound (fst (snd (apm L from a b st))).
Proof.
  induction L as [|L IH]; intros from a b st Hs.
  - cbn [apply2_memo]. destruct (lookup (0, from, a, b) (fst st)) as [r|] eqn:El.
    + cbn [fst snd]. split; [apply Hs, lookup_in, El|now apply sound_tick].
    + cbn [fst snd apply2]. split; [reflexivity|].
      apply (sound_remember 0 from a b st Hs).
  - cbn [apply2_memo]. destruct (lookup (S L, from, a, b) (fst st)) as [r|] eqn:El.
    + cbn [fst snd]. split; [apply Hs, lookup_in, El|now apply sound_tick].
    + cbn [fst snd].
      set (ca := unpack sz ra (S L) from a). set (cb := unpack sz rb (S L) from b).
      set (step := fun (acc : list dd * mstate) (i : nat) =>
                 let '(r, st2) := apm L i (nth i ca zero) (nth i cb zero) (snd acc) in
                 (fst acc ++ [r], st2)).
      assert (Hfold : forall (is : list nat) (acc : list dd * mstate),
                 sound (fst (snd acc)) ->
                 fst (fold_left step is acc)
                 = fst acc ++ map (fun i => ap L i (nth i ca zero) (nth i cb zero)) is
                 /\ sound (fst (snd (fold_left step is acc)))).
      { induction is as [|i is IHis]; intros acc Hacc; cbn [fold_left map].
        - now rewrite app_nil_r.
        - destruct (IH i (nth i ca zero) (nth i cb zero) (snd acc) Hacc) as [Hr Hs'].
          unfold step at 2 4.
          destruct (apm L i (nth i ca zero) (nth i cb zero) (snd acc)) as [r st2] eqn:E.
          cbn [fst snd] in Hr, Hs'. subst r.
          destruct (IHis (fst acc ++ [ap L i (nth i ca zero) (nth i cb zero)], st2) Hs') as [A B].
          split; [|exact B]. rewrite A. cbn [fst]. now rewrite <- app_assoc. }
      destruct (Hfold (seq 0 (sz (S L))) ([], st) Hs) as [A B].
      cbn [fst] in A. cbn [app] in A.
      assert (Er : mk rr (S L) from (fst (fold_left step (seq 0 (sz (S L))) ([], st)))
                   = ap (S L) from a b).
      { rewrite A. reflexivity. }
      split; [exact Er|].
      pose proof (sound_remember (S L) from a b _ B) as HR. rewrite <- Er in HR. exact HR.
Qed.

End MemoP.
