(** * C02 / C01 (store level): soundness of the audit.

    If the executable audit of a multi-terminal forest dump reports nothing,
    then (1) unfolding node handles to trees is injective -- two handles that
    unfold to the same tree are the same handle -- and (2) the tree of every
    root edge (more generally of every handle, in the context it is referenced
    from) satisfies [reducedb], the tree-level reduction-rule predicate that
    the canonicity theorem is about.  Together with [Canon.canon] this is the
    store-level statement of C01: in an audited forest, two root edges denote
    the same function iff they are the same handle. *)
From Coq Require Import List Arith ZArith Bool Lia.
From Meddly Require Import Model.DD Model.Audit Proofs.DDFacts Proofs.Canon.
Import ListNotations.

Local Open Scope Z_scope.

(** ** generic helpers *)

Lemma flat_map_nil {A B} (f : A -> list B) l :
  flat_map f l = [] -> forall x, In x l -> f x = [].
Proof.
  induction l as [|a l IH]; cbn; intros H x Hx; [destruct Hx|].
  apply app_eq_nil in H. destruct H as [Ha Hl]. destruct Hx as [<-|Hx]; auto.
Qed.

Lemma if_nil_f {A} (b : bool) (x : A) : (if b then [x] else []) = [] -> b = false.
Proof. destruct b; [discriminate|reflexivity]. Qed.

Lemma if_nil_t {A} (b : bool) (x : A) : (if b then [] else [x]) = [] -> b = true.
Proof. destruct b; [reflexivity|discriminate]. Qed.

Section AuditP.
Variable d : adump.
Hypothesis Hmt : d_lab d = LMT.
Hypothesis Haud : audit d = [].
(** identity-reduced forests are relation forests *)
Hypothesis Hir_rel : d_rule d = IR -> d_rel d = true.

Notation rel := (d_rel d).
Notation r := (d_rule d).

Definition lin (l : Z) : nat := Z.to_nat (lpos rel l).
Definition topl : nat := length (d_lsz d).
Definition szn (p : nat) : nat :=
  if (p - 1 <? topl)%nat then Z.to_nat (nth (p - 1) (d_lsz d) 0) else 2%nat.

(** unfolding a handle *)
Fixpoint tree_of (fuel : nat) (h : Z) : dd :=
  match fuel with
  | O => zero
  | S f =>
      if h <=? 0 then T h
      else match find_node d h with
           | Some n => N (lin (a_lvl n)) (map (fun e => tree_of f (snd e)) (a_full n))
           | None => zero
           end
  end.

Definition good (h : Z) : Prop := h <= 0 \/ exists n, find_node d h = Some n.

(** ** facts extracted from [audit d = []] *)

Lemma audit_parts :
  check_dups LMT (d_nodes d) = [] /\
  (forall n, In n (d_nodes d) -> check_node d n = []) /\
  check_ir d = [] /\ check_roots d = [].
Proof.
  unfold audit in Haud. rewrite Hmt in Haud.
  apply app_eq_nil in Haud. destruct Haud as [_ H].
  apply app_eq_nil in H. destruct H as [H1 H].
  apply app_eq_nil in H. destruct H as [H2 H].
  apply app_eq_nil in H. destruct H as [H3 H].
  apply app_eq_nil in H. destruct H as [_ H4].
  repeat split; auto. now apply flat_map_nil.
Qed.

Lemma find_node_in h n : find_node d h = Some n -> In n (d_nodes d) /\ a_h n = h.
Proof.
  unfold find_node. intros H. apply find_some in H. destruct H as [H1 H2].
  split; [exact H1|]. now apply Z.eqb_eq.
Qed.

Record node_ok (n : anode) : Prop := {
  nk_nonzero : forallb transparent (a_full n) = false;
  nk_nonred : (match r with FR => true | QR => false | IR => 0 <? a_lvl n end) = true ->
              all_equal LMT (a_full n) = false;
  nk_quasi : r = QR ->
             forall e, In e (a_full n) ->
               snd e = 0 \/
               (down_level rel (a_lvl n) = 0 /\ snd e < 0) \/
               (down_level rel (a_lvl n) <> 0 /\ 0 < snd e /\
                level_of d (snd e) = down_level rel (a_lvl n));
  nk_below : forall e, In e (a_full n) ->
             snd e <= 0 \/
             exists c, find_node d (snd e) = Some c /\ lpos rel (a_lvl c) < lpos rel (a_lvl n);
  nk_size : length (a_full n) = szn (lin (a_lvl n));
  nk_top : (lin (a_lvl n) <= topl)%nat;
  nk_level : 0 < lpos rel (a_lvl n);
  nk_single : r = IR -> check_singleton_edges d n 0 (a_full n) = []
}.

Lemma node_facts n : In n (d_nodes d) -> node_ok n.
Proof.
  intros Hn. destruct audit_parts as (_ & Hcn & Hir & _).
  specialize (Hcn n Hn). unfold check_node in Hcn. rewrite Hmt in Hcn.
  repeat (apply app_eq_nil in Hcn; let H := fresh "C" in destruct Hcn as [H Hcn]).
  constructor.
  - now apply if_nil_f in C.
  - intros Hf. apply if_nil_f in C0. rewrite Hf in C0. cbn in C0.
    apply if_nil_t in C7. apply if_nil_t in C9.
    rewrite Z.eqb_eq in C7. rewrite C7, Z.eqb_refl in C0. exact C0.
  - intros Hq e He. rewrite Hq in C1. apply if_nil_t in C1.
    rewrite forallb_forall in C1. specialize (C1 e He).
    apply orb_true_iff in C1. destruct C1 as [Ht|Ht].
    + left. unfold transparent in Ht. now apply Z.eqb_eq.
    + right. destruct (Z.eqb_spec (down_level rel (a_lvl n)) 0) as [E|E].
      * left. split; [exact E|now apply Z.ltb_lt].
      * right. apply andb_true_iff in Ht. destruct Ht as [A B].
        split; [exact E|]. split; [now apply Z.ltb_lt|now apply Z.eqb_eq].
  - intros e He. apply if_nil_t in C2. rewrite forallb_forall in C2. specialize (C2 e He).
    apply orb_true_iff in C2. destruct C2 as [A|A]; [left; now apply Z.leb_le|].
    right. destruct (find_node d (snd e)) as [c|]; [|discriminate].
    exists c. split; [reflexivity|now apply Z.ltb_lt].
  - apply if_nil_t in C7. apply if_nil_t in C9. rewrite Z.eqb_eq in C7, C9.
    apply if_nil_t in C10. apply Z.ltb_lt in C10. pose proof C10 as Hcn17.
    assert (Hidx : Z.to_nat (lpos rel (a_lvl n) - 1) = (Z.to_nat (lpos rel (a_lvl n)) - 1)%nat) by lia.
    rewrite Hidx in C9. unfold szn, lin.
    destruct (Nat.ltb_spec (Z.to_nat (lpos rel (a_lvl n)) - 1) topl) as [Hlt|Hge].
    + rewrite <- C9, <- C7. now rewrite Nat2Z.id.
    + exfalso. unfold topl in Hge. rewrite nth_overflow in C9 by exact Hge.
      rewrite C9 in C7. apply if_nil_f in C.
      destruct (a_full n); [discriminate C|cbn in C7; lia].
  - apply if_nil_t in C7. apply if_nil_t in C9. rewrite Z.eqb_eq in C7, C9.
    apply if_nil_t in C10. apply Z.ltb_lt in C10. pose proof C10 as Hcn17.
    assert (Hidx : Z.to_nat (lpos rel (a_lvl n) - 1) = (Z.to_nat (lpos rel (a_lvl n)) - 1)%nat) by lia.
    rewrite Hidx in C9. unfold lin.
    destruct (Nat.ltb_spec (Z.to_nat (lpos rel (a_lvl n)) - 1) topl) as [Hlt|Hge]; [lia|].
    exfalso. unfold topl in Hge. rewrite nth_overflow in C9 by exact Hge.
    rewrite C9 in C7. apply if_nil_f in C.
    destruct (a_full n); [discriminate C|cbn in C7; lia].
  - apply if_nil_t in C10. now apply Z.ltb_lt.
  - intros HI. unfold check_ir in Hir. rewrite HI in Hir.
    apply app_eq_nil in Hir. destruct Hir as [H1 _].
    now apply (flat_map_nil _ _ H1).
Qed.

(** ** levels *)

Definition lv (h : Z) : nat := lin (level_of d h).

Lemma lv_terminal h : h <= 0 -> lv h = 0%nat.
Proof.
  intros H. unfold lv, level_of. destruct (Z.leb_spec h 0); [|lia].
  unfold lin, lpos. destruct rel; cbn; reflexivity.
Qed.

Lemma lv_node h n : 0 < h -> find_node d h = Some n -> lv h = lin (a_lvl n).
Proof.
  intros Hh Hf. unfold lv, level_of. destruct (Z.leb_spec h 0); [lia|]. now rewrite Hf.
Qed.

Lemma lin_pos n : In n (d_nodes d) -> (1 <= lin (a_lvl n))%nat.
Proof. intros Hn. pose proof (nk_level n (node_facts n Hn)). unfold lin. lia. Qed.

Lemma lpos_inj a b : lpos rel a = lpos rel b -> a = b.
Proof.
  unfold lpos. destruct rel; [|auto].
  destruct (Z.ltb_spec 0 a); destruct (Z.ltb_spec 0 b);
    destruct (Z.ltb_spec a 0); destruct (Z.ltb_spec b 0); lia.
Qed.

Lemma lin_inj n m : In n (d_nodes d) -> In m (d_nodes d) ->
  lin (a_lvl n) = lin (a_lvl m) -> a_lvl n = a_lvl m.
Proof.
  intros Hn Hm H. apply lpos_inj.
  pose proof (nk_level n (node_facts n Hn)). pose proof (nk_level m (node_facts m Hm)).
  unfold lin in H. lia.
Qed.

(** children of a node are good handles strictly below it *)
Lemma child_below n e :
  In n (d_nodes d) -> In e (a_full n) -> good (snd e) /\ (lv (snd e) < lin (a_lvl n))%nat.
Proof.
  intros Hn He. pose proof (node_facts n Hn) as K.
  destruct (nk_below n K e He) as [Hle|(c & Hc & Hlt)].
  - split; [now left|]. rewrite lv_terminal by exact Hle. apply (lin_pos n Hn).
  - split; [right; now exists c|].
    destruct (Z.leb_spec (snd e) 0) as [Hle|Hgt].
    + rewrite lv_terminal by exact Hle. apply (lin_pos n Hn).
    + rewrite (lv_node _ c Hgt Hc). unfold lin.
      destruct (find_node_in _ _ Hc) as [Hcin _].
      pose proof (nk_level c (node_facts c Hcin)). lia.
Qed.

(** ** the unfolding does not depend on the fuel once it exceeds the level *)
Lemma tree_of_fuel : forall f1 f2 h,
  good h -> (lv h < f1)%nat -> (lv h < f2)%nat -> tree_of f1 h = tree_of f2 h.
Proof.
  induction f1 as [|f1 IH]; intros f2 h Hg H1 H2; [lia|].
  destruct f2 as [|f2]; [lia|]. cbn [tree_of].
  destruct (Z.leb_spec h 0) as [Hle|Hgt]; [reflexivity|].
  destruct Hg as [Hg|(n & Hn)]; [lia|]. rewrite Hn.
  destruct (find_node_in _ _ Hn) as [Hin _].
  rewrite (lv_node _ n Hgt Hn) in H1, H2.
  f_equal. apply map_ext_in. intros e He.
  destruct (child_below n e Hin He) as [Hgc Hlt]. apply IH; [exact Hgc|lia|lia].
Qed.

Lemma tree_of_nonzero f h : good h -> h <> 0 -> tree_of (S f) h <> zero.
Proof.
  intros Hg Hnz. cbn [tree_of]. destruct (Z.leb_spec h 0).
  - unfold zero. intros E. injection E. lia.
  - destruct Hg as [|(n & Hn)]; [lia|]. rewrite Hn. discriminate.
Qed.

Lemma tree_of_zero f : tree_of (S f) 0 = zero.
Proof. reflexivity. Qed.

(** ** no duplicates: positions in the node list *)
Definition same_content (n m : anode) : bool :=
  (a_lvl m =? a_lvl n) && Audit.list_eqb (edge_eqb LMT) (a_full m) (a_full n).

Lemma check_dups_spec : forall ns,
  check_dups LMT ns = [] ->
  forall l1 n l2 m l3, ns = l1 ++ n :: l2 ++ m :: l3 -> same_content n m = false.
Proof.
  induction ns as [|a ns IH]; intros H l1 n l2 m l3 E.
  - destruct l1; discriminate.
  - cbn in H. apply app_eq_nil in H. destruct H as [Ha Hr].
    destruct l1 as [|b l1]; cbn in E; injection E as -> E.
    + apply if_nil_f in Ha. subst ns.
      destruct (same_content n m) eqn:Es; [|reflexivity].
      assert (existsb (fun m0 => (a_lvl m0 =? a_lvl n) &&
                 Audit.list_eqb (edge_eqb LMT) (a_full m0) (a_full n)) (l2 ++ m :: l3) = true).
      { apply existsb_exists. exists m. split; [apply in_or_app; right; now left|exact Es]. }
      congruence.
    + now apply (IH Hr l1 n l2 m l3).
Qed.

Lemma in_two {A} (x y : A) l : In x l -> In y l ->
  x = y \/ (exists l1 l2 l3, l = l1 ++ x :: l2 ++ y :: l3) \/
           (exists l1 l2 l3, l = l1 ++ y :: l2 ++ x :: l3).
Proof.
  induction l as [|a l IH]; intros Hx Hy; [destruct Hx|].
  destruct Hx as [->|Hx]; destruct Hy as [->|Hy].
  - now left.
  - right; left. destruct (in_split _ _ Hy) as (p & q & ->). exists [], p, q. reflexivity.
  - right; right. destruct (in_split _ _ Hx) as (p & q & ->). exists [], p, q. reflexivity.
  - destruct (IH Hx Hy) as [E|[(l1 & l2 & l3 & ->)|(l1 & l2 & l3 & ->)]].
    + now left.
    + right; left. exists (a :: l1), l2, l3. reflexivity.
    + right; right. exists (a :: l1), l2, l3. reflexivity.
Qed.

Lemma list_eqb_snd (l1 l2 : list (Z * Z)) :
  map snd l1 = map snd l2 -> Audit.list_eqb (edge_eqb LMT) l1 l2 = true.
Proof.
  revert l2; induction l1 as [|a l1 IH]; intros [|b l2] H; cbn in *; try discriminate; auto.
  injection H as H1 H2. rewrite (IH _ H2). unfold edge_eqb. rewrite H1, Z.eqb_refl. reflexivity.
Qed.

Lemma same_content_sym n m : same_content n m = same_content m n.
Proof.
  unfold same_content. rewrite (Z.eqb_sym (a_lvl m)). f_equal.
  revert m. generalize (a_full n). intros l1 m. generalize (a_full m). intros l2.
  revert l2; induction l1 as [|a l1 IH]; intros [|b l2]; cbn; auto.
  rewrite IH. f_equal. unfold edge_eqb. apply Z.eqb_sym.
Qed.

(** two listed nodes with the same level and the same children are one node *)
Lemma no_dup_content n m :
  In n (d_nodes d) -> In m (d_nodes d) ->
  a_lvl n = a_lvl m -> map snd (a_full n) = map snd (a_full m) -> n = m.
Proof.
  intros Hn Hm Hl Hc. destruct audit_parts as (Hd & _).
  assert (Hs : same_content n m = true).
  { unfold same_content. rewrite Hl, Z.eqb_refl. cbn. apply list_eqb_snd. now symmetry. }
  destruct (in_two n m _ Hn Hm) as [E|[(l1 & l2 & l3 & E)|(l1 & l2 & l3 & E)]]; [exact E| |].
  - rewrite (check_dups_spec _ Hd _ _ _ _ _ E) in Hs. discriminate.
  - rewrite same_content_sym in Hs. rewrite (check_dups_spec _ Hd _ _ _ _ _ E) in Hs. discriminate.
Qed.

(** ** injectivity of the unfolding (store-level canonicity, first half) *)
Theorem tree_of_inj : forall m h1 h2 f,
  good h1 -> good h2 -> (lv h1 <= m)%nat -> (lv h2 <= m)%nat -> (m < f)%nat ->
  tree_of f h1 = tree_of f h2 -> h1 = h2.
Proof.
  induction m as [m IH] using lt_wf_ind. intros h1 h2 f G1 G2 L1 L2 Hf E.
  destruct f as [|f]; [lia|]. cbn [tree_of] in E.
  destruct (Z.leb_spec h1 0) as [N1|P1]; destruct (Z.leb_spec h2 0) as [N2|P2].
  - now injection E.
  - destruct G2 as [|(n2 & F2)]; [lia|]. rewrite F2 in E. discriminate.
  - destruct G1 as [|(n1 & F1)]; [lia|]. rewrite F1 in E. discriminate.
  - destruct G1 as [|(n1 & F1)]; [lia|]. destruct G2 as [|(n2 & F2)]; [lia|].
    rewrite F1, F2 in E. injection E as Ek Ec.
    destruct (find_node_in _ _ F1) as [I1 A1]. destruct (find_node_in _ _ F2) as [I2 A2].
    rewrite (lv_node _ n1 P1 F1) in L1. rewrite (lv_node _ n2 P2 F2) in L2.
    assert (Hlvl : a_lvl n1 = a_lvl n2) by now apply lin_inj.
    assert (Hch : map snd (a_full n1) = map snd (a_full n2)).
    { (* children pairwise equal by the induction hypothesis *)
      assert (Hlen : length (a_full n1) = length (a_full n2)).
      { apply (f_equal (@length dd)) in Ec. now rewrite !map_length in Ec. }
      clear F1 F2 A1 A2.
      assert (H1 : forall e, In e (a_full n1) -> good (snd e) /\ (lv (snd e) < lin (a_lvl n1))%nat)
        by (intros; now apply child_below).
      assert (H2 : forall e, In e (a_full n2) -> good (snd e) /\ (lv (snd e) < lin (a_lvl n2))%nat)
        by (intros; now apply child_below).
      revert Ec Hlen H1 H2. generalize (a_full n1) (a_full n2).
      induction l as [|a l IHl]; intros [|b l'] Ec Hlen H1 H2; cbn in *; try discriminate; auto.
      injection Ec as Ea El.
      destruct (H1 a (or_introl eq_refl)) as [Ga La]. destruct (H2 b (or_introl eq_refl)) as [Gb Lb].
      f_equal.
      - apply (IH (lin (a_lvl n1) - 1)%nat) with (f := f); try lia; auto.
      - apply IHl; auto. }
    rewrite <- A1, <- A2. f_equal. now apply no_dup_content.
Qed.

(** ** reducedness of the unfolded trees *)

Definition ctx (h : Z) (L : nat) (from : option nat) : Prop :=
  (r = QR -> h = 0 \/ lv h = L) /\
  (r = IR -> 0 < h ->
     if (Nat.eqb (lv h) L) && Nat.odd L
     then match from with
          | Some i => is_singleton_at d h (Z.of_nat i) = false
          | None => is_singleton d h = false
          end
     else is_singleton d h = false).

Lemma reduced_T : forall L from h,
  (r = QR -> h = 0 \/ L = 0%nat) -> reducedb szn r L from (T h) = true.
Proof.
  induction L as [|L IH]; intros from h Hq; [reflexivity|].
  apply (reduced_skip szn r); [cbn; lia|]. split.
  - unfold skip_allowed. destruct r eqn:Er; auto.
    destruct (Hq eq_refl) as [->|]; [reflexivity|lia].
  - apply IH. intros Eq. destruct (Hq Eq) as [->|]; [now left|lia].
Qed.

Lemma is_zero_tree f c : good c -> is_zero (tree_of (S f) c) = (c =? 0).
Proof.
  intros Hg. destruct (Z.eqb_spec c 0) as [->|Hnz]; [reflexivity|].
  apply is_zero_false. now apply tree_of_nonzero.
Qed.

(** the non-transparent entries of a full view *)
Lemma nonzero_from_single : forall (l : list (Z * Z)) k i,
  (i < length l)%nat -> snd (nth i l (0, 0)) <> 0 ->
  (forall j, j <> i -> (j < length l)%nat -> snd (nth j l (0, 0)) = 0) ->
  nonzero_from k l = [(k + Z.of_nat i, nth i l (0, 0))].
Proof.
  induction l as [|e l IH]; intros k i Hi Hnz Hoth; [cbn in Hi; lia|].
  cbn [nonzero_from]. destruct i as [|i].
  - cbn in Hnz. unfold transparent. destruct (Z.eqb_spec (snd e) 0); [contradiction|].
    assert (Hr : nonzero_from (k + 1) l = []).
    { clear IH. assert (Hz : forall j, (j < length l)%nat -> snd (nth j l (0,0)) = 0).
      { intros j Hj. apply (Hoth (S j)); cbn; lia. }
      clear Hoth Hi. revert Hz. generalize (k + 1). induction l as [|a l IHl]; intros k' Hz; [reflexivity|].
      cbn. pose proof (Hz 0%nat ltac:(cbn; lia)) as Ha. cbn in Ha. unfold transparent. rewrite Ha. cbn.
      apply IHl. intros j Hj. apply (Hz (S j)). cbn; lia. }
    rewrite Hr. cbn. f_equal. f_equal. lia.
  - pose proof (Hoth 0%nat ltac:(lia) ltac:(cbn; lia)) as H0. cbn in H0.
    unfold transparent. rewrite H0. cbn.
    rewrite (IH (k + 1) i); [|cbn in Hi; lia|exact Hnz|].
    + cbn. f_equal. f_equal. lia.
    + intros j Hj Hjl. apply (Hoth (S j)); cbn; lia.
Qed.

Lemma singleton_tree_index n f i :
  In n (d_nodes d) ->
  singleton_at i (map (fun e => tree_of (S f) (snd e)) (a_full n)) = true ->
  singleton_index n = Some (Z.of_nat i).
Proof.
  intros Hn Hs. apply singleton_at_spec in Hs. destruct Hs as [Hi Hoth].
  assert (Hlen : (i < length (a_full n))%nat).
  { destruct (Nat.lt_ge_cases i (length (a_full n))); [assumption|].
    exfalso. apply Hi. apply nth_overflow. now rewrite map_length. }
  assert (Hnth : forall j, (j < length (a_full n))%nat ->
             nth j (map (fun e => tree_of (S f) (snd e)) (a_full n)) zero
             = tree_of (S f) (snd (nth j (a_full n) (0, 0)))).
  { intros j Hj. rewrite (nth_indep _ zero (tree_of (S f) (snd (0, 0)))) by (now rewrite map_length).
    now rewrite (map_nth (fun e => tree_of (S f) (snd e))). }
  assert (Hg : forall j, (j < length (a_full n))%nat -> good (snd (nth j (a_full n) (0,0)))).
  { intros j Hj. apply (child_below n); [exact Hn|now apply nth_In]. }
  unfold singleton_index.
  rewrite (nonzero_from_single (a_full n) 0 i Hlen).
  - cbn. reflexivity.
  - intros Hz. apply Hi. rewrite (Hnth i Hlen), Hz. reflexivity.
  - intros j Hj Hjl. specialize (Hoth j Hj). rewrite (Hnth j Hjl) in Hoth.
    apply is_zero_eq in Hoth. rewrite (is_zero_tree f _ (Hg j Hjl)) in Hoth. now apply Z.eqb_eq.
Qed.

Lemma all_same_tree_equal n f :
  In n (d_nodes d) -> (lin (a_lvl n) <= f)%nat ->
  all_same (map (fun e => tree_of f (snd e)) (a_full n)) = true ->
  all_equal LMT (a_full n) = true.
Proof.
  intros Hn Hf Hs. rewrite all_same_spec in Hs. rewrite map_length in Hs.
  assert (Hch : forall e, In e (a_full n) -> good (snd e) /\ (lv (snd e) < lin (a_lvl n))%nat)
    by (intros; now apply child_below).
  destruct (a_full n) as [|e l] eqn:El; [reflexivity|].
  cbn [all_equal]. apply forallb_forall. intros x Hx. unfold edge_eqb. apply Z.eqb_eq.
  destruct (In_nth _ _ (0,0) Hx) as (j & Hj & Ej).
  specialize (Hs (S j) ltac:(cbn; lia)). cbn in Hs.
  rewrite (nth_indep _ zero (tree_of f (snd (0,0)))) in Hs by (now rewrite map_length).
  rewrite (map_nth (fun e0 => tree_of f (snd e0))), Ej in Hs.
  destruct (Hch e (or_introl eq_refl)) as [Ge Le]. destruct (Hch x (or_intror Hx)) as [Gx Lx].
  symmetry. apply (tree_of_inj (lin (a_lvl n) - 1)%nat (snd x) (snd e) f); auto; lia.
Qed.

Lemma lin_down n : In n (d_nodes d) ->
  lin (down_level rel (a_lvl n)) = (lin (a_lvl n) - 1)%nat.
Proof.
  intros Hn. pose proof (nk_level n (node_facts n Hn)) as Hp.
  unfold lin, down_level, lpos in *. destruct rel.
  - destruct (Z.ltb_spec 0 (a_lvl n)).
    + destruct (Z.ltb_spec 0 (- a_lvl n)); [lia|]. destruct (Z.ltb_spec (- a_lvl n) 0); lia.
    + destruct (Z.ltb_spec (a_lvl n) 0); [|lia].
      destruct (Z.ltb_spec 0 (- a_lvl n - 1)); [lia|].
      destruct (Z.ltb_spec (- a_lvl n - 1) 0); lia.
  - lia.
Qed.

Theorem audit_reduced : forall L h from f,
  good h -> (lv h <= L)%nat -> (lv h < f)%nat -> ctx h L from ->
  reducedb szn r L from (tree_of f h) = true.
Proof.
  induction L as [|L IH]; intros h from f Hg HL Hf [Cq Ci].
  - destruct f as [|f]; [lia|]. cbn [tree_of].
    destruct (Z.leb_spec h 0) as [Hle|Hgt]; [reflexivity|].
    destruct Hg as [|(n & Hn)]; [lia|]. destruct (find_node_in _ _ Hn) as [Hin _].
    rewrite (lv_node _ n Hgt Hn) in HL. pose proof (lin_pos n Hin). lia.
  - destruct f as [|f]; [lia|]. cbn [tree_of].
    destruct (Z.leb_spec h 0) as [Hle|Hgt].
    + apply reduced_T. intros Eq. destruct (Cq Eq) as [->|E]; [now left|].
      rewrite (lv_terminal h Hle) in E. lia.
    + destruct Hg as [|(n & Hn)]; [lia|]. rewrite Hn.
      destruct (find_node_in _ _ Hn) as [Hin Hah].
      pose proof (node_facts n Hin) as K.
      rewrite (lv_node _ n Hgt Hn) in HL, Hf.
      pose proof (lin_pos n Hin) as Hk1.
      destruct (Nat.eq_dec (lin (a_lvl n)) (S L)) as [Ek|Ek].
      * (* the node is at this level *)
        rewrite Ek. apply (reduced_node szn r).
        set (cs := map (fun e => tree_of f (snd e)) (a_full n)).
        assert (Hf1 : exists f', f = S f') by (destruct f; [lia|eauto]). destruct Hf1 as [f' ->].
        split; [|split; [|split]].
        -- unfold cs. rewrite map_length, (nk_size n K), Ek. reflexivity.
        -- (* not entirely transparent *)
           apply Bool.not_true_iff_false. intros Hz. rewrite all_zero_spec in Hz.
           pose proof (nk_nonzero n K) as Hnz.
           assert (forallb transparent (a_full n) = true); [|congruence].
           apply forallb_forall. intros e He. destruct (In_nth _ _ (0,0) He) as (j & Hj & Ej).
           specialize (Hz j). unfold cs in Hz.
           rewrite (nth_indep _ zero (tree_of (S f') (snd (0,0)))) in Hz by (now rewrite map_length).
           rewrite (map_nth (fun e0 => tree_of (S f') (snd e0))), Ej in Hz.
           apply is_zero_eq in Hz. rewrite is_zero_tree in Hz by (apply (child_below n e Hin He)).
           exact Hz.
        -- (* the rule-specific clause *)
           unfold node_rule_ok.
           assert (Hred : (match r with FR => true | QR => false | IR => 0 <? a_lvl n end) = true ->
                          all_same cs = false).
           { intros Hfb. apply Bool.not_true_iff_false. intros Hs.
             pose proof (all_same_tree_equal n (S f') Hin ltac:(lia) Hs) as He1.
             pose proof (nk_nonred n K Hfb) as He2. congruence. }
           assert (Hcase : r = FR \/ r = QR \/ r = IR) by (destruct r; auto).
           destruct Hcase as [Er|[Er|Er]]; rewrite Er in Hred |- *.
           ++ rewrite Hred by reflexivity. reflexivity.
           ++ reflexivity.
           ++ (* identity-reduced: relation forest *)
              pose proof (Hir_rel Er) as Hrel.
              assert (Hodd : Nat.odd (S L) = negb (0 <? a_lvl n)).
              { pose proof (nk_level n K) as Hp. rewrite <- Ek. unfold lin, lpos in *. rewrite Hrel in *.
                destruct (Z.ltb_spec 0 (a_lvl n)).
                - replace (Z.to_nat (2 * a_lvl n)) with (2 * Z.to_nat (a_lvl n))%nat by lia.
                  rewrite Nat.odd_mul. reflexivity.
                - destruct (Z.ltb_spec (a_lvl n) 0); [|lia].
                  replace (Z.to_nat (-2 * a_lvl n - 1)) with (S (2 * Z.to_nat (- a_lvl n - 1)))%nat by lia.
                  rewrite Nat.odd_succ, Nat.even_mul. reflexivity. }
              rewrite Hodd. destruct (Z.ltb_spec 0 (a_lvl n)) as [Hup|Hpr]; cbn [negb].
              ** rewrite Hred by reflexivity. reflexivity.
              ** (* primed level: the context forbids the singleton *)
                 specialize (Ci Er Hgt). rewrite (lv_node _ n Hgt Hn), Ek, Nat.eqb_refl in Ci.
                 rewrite Hodd in Ci. destruct (Z.ltb_spec 0 (a_lvl n)); [lia|]. cbn in Ci.
                 destruct from as [i|].
                 --- rewrite negb_true_iff. apply Bool.not_true_iff_false. intros Hs.
                     pose proof (singleton_tree_index n f' i Hin Hs) as Hsi.
                     unfold is_singleton_at in Ci. rewrite Hn, Hsi, Z.eqb_refl in Ci.
                     pose proof (nk_level n K) as Hp.
                     destruct (Z.ltb_spec (a_lvl n) 0); [discriminate|].
                     unfold lpos in Hp. rewrite Hrel in Hp.
                     destruct (Z.ltb_spec 0 (a_lvl n)); [lia|]. destruct (Z.ltb_spec (a_lvl n) 0); lia.
                 --- rewrite negb_true_iff. apply Bool.not_true_iff_false. intros Hs.
                     apply singleton_any_spec in Hs. destruct Hs as (i & _ & Hs).
                     pose proof (singleton_tree_index n f' i Hin Hs) as Hsi.
                     unfold is_singleton in Ci. rewrite Hn, Hsi in Ci.
                     pose proof (nk_level n K) as Hp.
                     destruct (Z.ltb_spec (a_lvl n) 0); [discriminate|].
                     unfold lpos in Hp. rewrite Hrel in Hp.
                     destruct (Z.ltb_spec 0 (a_lvl n)); [lia|]. destruct (Z.ltb_spec (a_lvl n) 0); lia.
        -- (* children *)
           intros i Hi. unfold cs in Hi. rewrite map_length in Hi.
           unfold cs. rewrite (nth_indep _ zero (tree_of (S f') (snd (0,0)))) by (now rewrite map_length).
           rewrite (map_nth (fun e0 => tree_of (S f') (snd e0))).
           set (e := nth i (a_full n) (0,0)).
           assert (He : In e (a_full n)) by (now apply nth_In).
           destruct (child_below n e Hin He) as [Gc Lc].
           apply IH; [exact Gc|lia|lia|]. split.
           ++ intros Eq. destruct (nk_quasi n K Eq e He) as [Hz|[[Hd Hneg]|(Hd & Hpos & Hlv)]].
              ** now left.
              ** right. rewrite (lv_terminal (snd e)) by lia.
                 pose proof (lin_down n Hin) as Hld. rewrite Hd in Hld.
                 unfold lin at 1 in Hld. unfold lpos at 1 in Hld. destruct rel; cbn in Hld; lia.
              ** right. unfold lv. rewrite Hlv, (lin_down n Hin). lia.
           ++ intros EI Hcp. pose proof (Hir_rel EI) as Hrel.
              pose proof (nk_single n K EI) as Hse.
              (* clause 5 for this edge *)
              assert (Hedge : forall (l : list (Z * Z)) (k : Z) (j : nat),
                        check_singleton_edges d n k l = [] -> (j < length l)%nat ->
                        0 < snd (nth j l (0,0)) ->
                        (if (0 <? a_lvl n) && (level_of d (snd (nth j l (0,0))) =? - a_lvl n)
                         then is_singleton_at d (snd (nth j l (0,0))) (k + Z.of_nat j)
                         else is_singleton d (snd (nth j l (0,0)))) = false).
              { induction l as [|a l IHl]; intros k j Hc Hj Hp; [cbn in Hj; lia|].
                cbn [check_singleton_edges] in Hc. apply app_eq_nil in Hc. destruct Hc as [Ha Hl].
                destruct j as [|j].
                - cbn in *. apply if_nil_f in Ha. apply andb_false_iff in Ha.
                  destruct Ha as [Ha|Ha]; [apply Z.ltb_ge in Ha; lia|].
                  rewrite Z.add_0_r. exact Ha.
                - cbn [nth]. replace (k + Z.of_nat (S j)) with ((k + 1) + Z.of_nat j) by lia.
                  apply IHl; [exact Hl|cbn in Hj; lia|exact Hp]. }
              specialize (Hedge (a_full n) 0 i Hse Hi Hcp). fold e in Hedge. cbn [Z.add] in Hedge.
              (* relate the audit's condition to the context's *)
              destruct (Nat.eqb_spec (lv (snd e)) L) as [El|El].
              ** destruct (Nat.odd L) eqn:Eo; cbn [andb].
                 --- (* child at the primed level directly below an unprimed node *)
                     assert (Hup : 0 < a_lvl n /\ level_of d (snd e) = - a_lvl n).
                     { pose proof (nk_level n K) as Hp.
                       assert (HoS : Nat.odd (S L) = false) by (rewrite Nat.odd_succ, <- Nat.negb_odd, Eo; reflexivity).
                       unfold lv in El. unfold lin, lpos in Ek, El, Hp. rewrite Hrel in *.
                       destruct (Z.ltb_spec 0 (a_lvl n)) as [Hu|Hu].
                       - split; [exact Hu|].
                         destruct (Z.ltb_spec 0 (level_of d (snd e))); [|destruct (Z.ltb_spec (level_of d (snd e)) 0)]; lia.
                       - exfalso. destruct (Z.ltb_spec (a_lvl n) 0); [|lia].
                         assert (Nat.odd (S L) = true); [|congruence].
                         rewrite <- Ek.
                         replace (Z.to_nat (-2 * a_lvl n - 1)) with (S (2 * Z.to_nat (- a_lvl n - 1)))%nat by lia.
                         rewrite Nat.odd_succ, Nat.even_mul. reflexivity. }
                     destruct Hup as [Hu Hlv]. rewrite Hlv, Z.eqb_refl in Hedge.
                     destruct (Z.ltb_spec 0 (a_lvl n)); [|lia]. cbn in Hedge. exact Hedge.
                 --- (* even level: no singleton can be here *)
                     unfold is_singleton. destruct (find_node d (snd e)) as [c|] eqn:Ec; [|reflexivity].
                     destruct (find_node_in _ _ Ec) as [Hcin _].
                     pose proof (nk_level c (node_facts c Hcin)) as Hpc.
                     rewrite (lv_node _ c Hcp Ec) in El.
                     destruct (Z.ltb_spec (a_lvl c) 0) as [Hneg|]; [|reflexivity]. exfalso.
                     assert (Nat.odd L = true); [|congruence]. rewrite <- El.
                     unfold lin, lpos. rewrite Hrel. destruct (Z.ltb_spec 0 (a_lvl c)); [lia|].
                     destruct (Z.ltb_spec (a_lvl c) 0); [|lia].
                     replace (Z.to_nat (-2 * a_lvl c - 1)) with (S (2 * Z.to_nat (- a_lvl c - 1)))%nat by lia.
                     rewrite Nat.odd_succ, Nat.even_mul. reflexivity.
              ** cbn [andb].
                 (* the child skips level L: the audit's "anywhere else" case applies unless the
                    child is directly below, which it is not *)
                 destruct ((0 <? a_lvl n) && (level_of d (snd e) =? - a_lvl n)) eqn:Econd; [|exact Hedge].
                 exfalso. apply andb_true_iff in Econd. destruct Econd as [Hu Hlv].
                 apply Z.ltb_lt in Hu. apply Z.eqb_eq in Hlv. apply El.
                 unfold lv. rewrite Hlv. unfold lin, lpos in *. rewrite Hrel in *.
                 destruct (Z.ltb_spec 0 (a_lvl n)); [|lia].
                 destruct (Z.ltb_spec 0 (- a_lvl n)); [lia|]. destruct (Z.ltb_spec (- a_lvl n) 0); lia.
      * (* the node is below this level: the edge skips it *)
        apply (reduced_skip szn r); [cbn; lia|]. split.
        -- unfold skip_allowed.
           assert (Hcase : r = FR \/ r = QR \/ r = IR) by (destruct r; auto).
           destruct Hcase as [Er|[Er|Er]]; rewrite Er; auto.
           destruct (Cq Er) as [->|E]; [lia|].
           rewrite (lv_node _ n Hgt Hn) in E. lia.
        -- replace (N (lin (a_lvl n)) (map (fun e => tree_of f (snd e)) (a_full n)))
             with (tree_of (S f) h) by (cbn [tree_of]; destruct (Z.leb_spec h 0); [lia|now rewrite Hn]).
           apply IH; [right; now exists n|rewrite (lv_node _ n Hgt Hn); lia|rewrite (lv_node _ n Hgt Hn); lia|].
           split.
           ++ intros Eq. destruct (Cq Eq) as [->|E]; [lia|]. rewrite (lv_node _ n Hgt Hn) in E. lia.
           ++ intros EI _. specialize (Ci EI Hgt). rewrite (lv_node _ n Hgt Hn) in Ci.
              destruct (Nat.eqb_spec (lin (a_lvl n)) (S L)); [contradiction|]. cbn [andb] in Ci.
              destruct ((Nat.eqb (lv h) L) && Nat.odd L); exact Ci.
Qed.

End AuditP.

(** ** the store-level statement *)

Definition root_tree (d : adump) (h : Z) : dd := tree_of d (S (topl d)) h.

Lemma pairedb_nth : forall j l, pairedb l = true -> (2 * j + 1 < length l)%nat ->
  nth (2 * j) l 0 = nth (2 * j + 1) l 0.
Proof.
  induction j as [|j IH]; intros l Hp Hl.
  - destruct l as [|a [|b l]]; cbn in Hl; try lia. cbn in Hp.
    apply andb_true_iff in Hp. destruct Hp as [Hab _]. apply Z.eqb_eq in Hab. exact Hab.
  - destruct l as [|a [|b l]]; cbn in Hl; try lia. cbn [pairedb] in Hp.
    apply andb_true_iff in Hp. destruct Hp as [_ Hp].
    replace (2 * S j)%nat with (S (S (2 * j))) by lia.
    replace (S (S (2 * j)) + 1)%nat with (S (S (2 * j + 1))) by lia.
    cbn [nth]. apply IH; [exact Hp|lia].
Qed.

Lemma dom_ok_sz1 d : dom_ok d = true -> forall k, (1 <= szn d k)%nat.
Proof.
  intros Hd k. unfold dom_ok in Hd. apply andb_true_iff in Hd. destruct Hd as [H1 _].
  unfold szn. destruct (Nat.ltb_spec (k - 1) (topl d)) as [Hlt|]; [|lia].
  rewrite forallb_forall in H1.
  specialize (H1 (nth (k - 1) (d_lsz d) 0) (nth_In _ _ Hlt)). apply Z.leb_le in H1. lia.
Qed.

Lemma dom_ok_ir d : dom_ok d = true -> is_ir (d_rule d) = true ->
  d_rel d = true /\ (forall k, (2 <= szn d k)%nat) /\
  (forall L, Nat.odd L = true -> szn d L = szn d (S L)).
Proof.
  intros Hd Hi. unfold dom_ok in Hd. apply andb_true_iff in Hd. destruct Hd as [_ Hd].
  destruct (d_rule d); try discriminate.
  repeat (apply andb_true_iff in Hd; let H := fresh "D" in destruct Hd as [Hd H]).
  split; [exact Hd|]. split.
  - intros k. unfold szn. destruct (Nat.ltb_spec (k - 1) (topl d)) as [Hlt|]; [|lia].
    rewrite forallb_forall in D1.
    specialize (D1 (nth (k - 1) (d_lsz d) 0) (nth_In _ _ Hlt)). apply Z.leb_le in D1. lia.
  - intros L Ho. apply Nat.odd_spec in Ho. destruct Ho as [j ->].
    apply Nat.even_spec in D0. destruct D0 as [m Hm].
    unfold szn. replace (2 * j + 1 - 1)%nat with (2 * j)%nat by lia.
    replace (S (2 * j + 1) - 1)%nat with (2 * j + 1)%nat by lia.
    unfold topl in *.
    destruct (Nat.ltb_spec (2 * j) (length (d_lsz d)));
      destruct (Nat.ltb_spec (2 * j + 1) (length (d_lsz d))); try lia.
    rewrite (pairedb_nth j _ D); [reflexivity|lia].
Qed.

Lemma audited_root d :
  d_lab d = LMT -> dom_ok d = true -> audit d = [] ->
  forall h, In h (d_roots d) ->
  good d h /\ (lv d h <= topl d)%nat /\ ctx d h (topl d) None.
Proof.
  intros Hmt Hd Haud h Hh.
  assert (Hir : d_rule d = IR -> d_rel d = true).
  { intros E. apply (dom_ok_ir d Hd). now rewrite E. }
  destruct (audit_parts d Hmt Haud) as (_ & _ & Hcir & Hroots).
  unfold check_roots in Hroots. pose proof (flat_map_nil _ _ Hroots h Hh) as Hr. cbn beta in Hr.
  apply app_eq_nil in Hr. destruct Hr as [R19 R18]. apply if_nil_t in R19.
  apply app_eq_nil in R18. destruct R18 as [R18 _].
  assert (Hg : good d h).
  { apply orb_true_iff in R19. destruct R19 as [R|R].
    - left. now apply Z.leb_le.
    - right. destruct (find_node d h) as [n|]; [now exists n|discriminate]. }
  split; [exact Hg|]. split.
  - destruct (Z.leb_spec h 0) as [Hle|Hgt].
    + rewrite (lv_terminal d Hir h Hle). lia.
    + destruct Hg as [|(n & Hn)]; [lia|].
      rewrite (lv_node d h n Hgt Hn).
      destruct (find_node_in d _ _ Hn) as [Hin _].
      apply (nk_top d n (node_facts d Hmt Haud n Hin)).
  - split.
    + intros Eq. rewrite Eq in R18. apply if_nil_t in R18.
      apply orb_true_iff in R18. destruct R18 as [R|R].
      * left. now apply Z.eqb_eq.
      * right. apply Z.eqb_eq in R. unfold lv, lin, topl. rewrite R. apply Nat2Z.id.
    + intros Ei Hgt. unfold check_ir in Hcir. rewrite Ei in Hcir.
      apply app_eq_nil in Hcir. destruct Hcir as [_ Hc].
      pose proof (flat_map_nil _ _ Hc h Hh) as Hs. cbn beta in Hs. apply if_nil_f in Hs.
      destruct ((lv d h =? topl d)%nat && Nat.odd (topl d)); exact Hs.
Qed.

(** In an audited multi-terminal forest, every root edge unfolds to a diagram
    that obeys the forest's reduction rule, and two root edges that denote the
    same function are the same handle. *)
Theorem audited_store_canonical d :
  d_lab d = LMT -> dom_ok d = true -> audit d = [] ->
  forall h1 h2, In h1 (d_roots d) -> In h2 (d_roots d) ->
  reducedb (szn d) (d_rule d) (topl d) None (root_tree d h1) = true /\
  ((forall x, valid (szn d) x ->
      eval (d_rule d) (topl d) (root_tree d h1) x = eval (d_rule d) (topl d) (root_tree d h2) x) ->
   h1 = h2).
Proof.
  intros Hmt Hd Haud h1 h2 H1 H2.
  assert (Hir : d_rule d = IR -> d_rel d = true).
  { intros E. apply (dom_ok_ir d Hd). now rewrite E. }
  destruct (audited_root d Hmt Hd Haud h1 H1) as (G1 & L1 & C1).
  destruct (audited_root d Hmt Hd Haud h2 H2) as (G2 & L2 & C2).
  assert (R1 : reducedb (szn d) (d_rule d) (topl d) None (root_tree d h1) = true)
    by (apply (audit_reduced d Hmt Haud Hir); auto; lia).
  assert (R2 : reducedb (szn d) (d_rule d) (topl d) None (root_tree d h2) = true)
    by (apply (audit_reduced d Hmt Haud Hir); auto; lia).
  split; [exact R1|]. intros E.
  apply (tree_of_inj d Hmt Haud Hir (topl d) h1 h2 (S (topl d))); auto.
  apply (canon (szn d) (d_rule d) (dom_ok_sz1 d Hd)
               (fun Hi => proj2 (proj2 (dom_ok_ir d Hd Hi)))
               (fun Hi => proj1 (proj2 (dom_ok_ir d Hd Hi)))
               (topl d) None _ _ I R1 R2).
  intros x Hx _. apply E, Hx.
Qed.
