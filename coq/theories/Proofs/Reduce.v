(** * [mk] (createReducedNode) preserves the denoted function and yields
    reduced diagrams; [of_fun], [apply1], [apply2] are pointwise correct and
    return reduced diagrams. *)
From Coq Require Import List Arith ZArith Bool Lia.
From Meddly Require Import Model.DD Proofs.DDFacts Proofs.Canon.
Import ListNotations.
Local Open Scope nat_scope.

Section Reduce.
Variable sz : nat -> nat.
Hypothesis sz_pos : forall k, 1 <= sz k.

Notation valid := (valid sz).

(** context condition under which a value computed at level [L] with incoming
    index [from] is meaningful for rule [r] *)
Definition cx (r : rule) (L from : nat) (x : nat -> nat) : Prop :=
  is_ir r && Nat.odd L = true -> x (S L) = from.

Lemma nth_repeat_lt (t : dd) n i : i < n -> nth i (repeat t n) zero = t.
Proof.
  revert i. induction n as [|n IH]; intros i Hi; [lia|].
  destruct i; cbn; [reflexivity|]. apply IH. lia.
Qed.

Lemma nth_map_seq_gen (f : nat -> dd) : forall n s i,
  i < n -> nth i (map f (seq s n)) zero = f (s + i).
Proof.
  induction n as [|n IH]; intros s i Hi; [lia|].
  destruct i; cbn.
  - now rewrite Nat.add_0_r.
  - rewrite IH by lia. f_equal. lia.
Qed.

Lemma nth_map_seq (f : nat -> dd) n i :
  i < n -> nth i (map f (seq 0 n)) zero = f i.
Proof. intros Hi. now rewrite nth_map_seq_gen. Qed.

Lemma nth_ident_list n i j t :
  j < n -> nth j (ident_list n i t) zero = if Nat.eqb j i then t else zero.
Proof. intros Hj. unfold ident_list. now rewrite nth_map_seq. Qed.

(** ** unpack *)

Lemma unpack_eval r L from t x :
  valid x -> top t <= S L -> cx r (S L) from x ->
  evalL (is_ir r) L (nth (x (S L)) (unpack sz r (S L) from t) zero) x
  = evalL (is_ir r) (S L) t x.
Proof.
  intros Hx Ht Hc.
  assert (Hexp : evalL (is_ir r) L (nth (x (S L)) (expand sz r (S L) from t) zero) x
                 = if skip_ok (is_ir r) (S L) x then evalL (is_ir r) L t x else 0%Z).
  { unfold expand, skip_ok. destruct (is_ir r && Nat.odd (S L)) eqn:E; cbn [negb orb].
    - rewrite nth_ident_list by apply Hx. rewrite (Hc E).
      destruct (Nat.eqb (x (S L)) from); [reflexivity|apply evalL_zero].
    - rewrite nth_repeat_lt by apply Hx. reflexivity. }
  destruct (Nat.eq_dec (top t) (S L)) as [E|E].
  - destruct t as [v|k cs]; cbn in E; [lia|]. subst k.
    cbn [unpack]. rewrite Nat.eqb_refl, evalL_node. reflexivity.
  - rewrite (evalL_skip _ _ _ _ E). rewrite <- Hexp.
    destruct t as [v|k cs]; cbn [unpack]; [reflexivity|].
    cbn in E. destruct (Nat.eqb_spec k (S L)); [contradiction|reflexivity].
Qed.

(** ** mk *)

Lemma hd_nth0 (cs : list dd) : hd zero cs = nth 0 cs zero.
Proof. destruct cs; reflexivity. Qed.

Lemma mk_eval r L from cs x :
  valid x -> length cs = sz (S L) ->
  (forall i, top (nth i cs zero) <= L) ->
  cx r (S L) from x ->
  evalL (is_ir r) (S L) (mk r (S L) from cs) x
  = evalL (is_ir r) L (nth (x (S L)) cs zero) x.
Proof.
  intros Hx Hl Ht Hc. unfold mk.
  assert (Hxi : x (S L) < length cs) by (rewrite Hl; apply Hx).
  destruct (forallb is_zero cs) eqn:Ez.
  { rewrite evalL_zero. rewrite (proj1 (all_zero_spec cs) Ez). now rewrite evalL_zero. }
  assert (Hsame : all_same cs = true ->
            evalL (is_ir r) (S L) (hd zero cs) x
            = (if skip_ok (is_ir r) (S L) x
               then evalL (is_ir r) L (nth (x (S L)) cs zero) x else 0%Z)).
  { intros Hs. rewrite (proj1 (all_same_spec cs) Hs _ Hxi).
    apply evalL_skip. rewrite hd_nth0. specialize (Ht 0). lia. }
  destruct r; cbn [is_ir] in *.
  - destruct (all_same cs) eqn:Es; [|apply evalL_node]. now rewrite Hsame.
  - apply evalL_node.
  - destruct (Nat.odd (S L)) eqn:Eo.
    + destruct (singleton_at from cs) eqn:Esg; [|apply evalL_node].
      apply singleton_at_spec in Esg. destruct Esg as [_ Hoth].
      rewrite evalL_skip by (specialize (Ht from); lia).
      unfold skip_ok. rewrite Eo. cbn. unfold cx in Hc. cbn in Hc. rewrite (Hc Eo).
      destruct (Nat.eqb_spec (x (S L)) from) as [->|Hne]; [reflexivity|].
      rewrite (Hoth _ Hne). now rewrite evalL_zero.
    + destruct (all_same cs) eqn:Es; [|apply evalL_node].
      rewrite Hsame by reflexivity. unfold skip_ok. now rewrite Eo.
Qed.

Lemma mk_top r L from cs :
  (forall i, top (nth i cs zero) <= L) -> top (mk r (S L) from cs) <= S L.
Proof.
  intros Ht. unfold mk. destruct (forallb is_zero cs); [cbn; lia|].
  assert (H0 : top (hd zero cs) <= S L) by (rewrite hd_nth0; specialize (Ht 0); lia).
  assert (Hf : top (nth from cs zero) <= S L) by (specialize (Ht from); lia).
  destruct r.
  - destruct (all_same cs); [exact H0|cbn; lia].
  - cbn; lia.
  - destruct (Nat.odd (S L)).
    + destruct (singleton_at from cs); [exact Hf|cbn; lia].
    + destruct (all_same cs); [exact H0|cbn; lia].
Qed.

Definition paired (r : rule) : Prop :=
  is_ir r = true -> forall L, Nat.odd L = true -> sz L = sz (S L).

(** if [c] is acceptable as child [i] for every [i], it is acceptable from
    anywhere *)
Lemma reduced_all_from r L c :
  is_ir r = true -> Nat.odd L = true ->
  (forall i, i < sz L -> reducedb sz r L (Some i) c = true) ->
  reducedb sz r L None c = true.
Proof.
  intros Hir Hodd H. destruct L as [|L]; [apply (H 0); apply sz_pos|].
  destruct (Nat.eq_dec (top c) (S L)) as [E|E].
  - destruct c as [v|k cs]; cbn in E; [lia|]. subst k.
    pose proof (H 0 (sz_pos _)) as H0. apply (reduced_node sz r) in H0.
    destruct H0 as (Hl & Hz & _ & Hc).
    apply (reduced_node sz r). repeat split; auto.
    unfold node_rule_ok. destruct r; try discriminate. rewrite Hodd.
    rewrite negb_true_iff. apply Bool.not_true_iff_false. intros Hs.
    apply singleton_any_spec in Hs. destruct Hs as (i & Hi & Hs).
    specialize (H i ltac:(lia)). apply (reduced_node sz IR) in H.
    destruct H as (_ & _ & Hr & _). unfold node_rule_ok in Hr.
    rewrite Hodd, Hs in Hr. discriminate.
  - specialize (H 0 (sz_pos _)). rewrite (reduced_skip sz r) in * by assumption. exact H.
Qed.

Lemma mk_reduced r (sz_pair : paired r) L from cs :
  length cs = sz (S L) ->
  (forall i, i < length cs -> reducedb sz r L (Some i) (nth i cs zero) = true) ->
  reducedb sz r (S L) (Some from) (mk r (S L) from cs) = true.
Proof.
  intros Hl Hc. unfold mk.
  destruct (forallb is_zero cs) eqn:Ez; [apply reduced_zero|].
  assert (Hlen : 0 < length cs) by (rewrite Hl; apply sz_pos).
  assert (Hnode : node_rule_ok r (S L) (Some from) cs = true ->
                  reducedb sz r (S L) (Some from) (N (S L) cs) = true).
  { intros Hr. apply (reduced_node sz r). repeat split; auto. }
  assert (Hskip : forall c, top c <= L -> skip_allowed r c = true ->
                  reducedb sz r L None c = true ->
                  reducedb sz r (S L) (Some from) c = true).
  { intros c Htc Hs Hrc. apply (reduced_skip sz r); [lia|]. split; assumption. }
  assert (Hhd : reducedb sz r L (Some 0) (hd zero cs) = true).
  { rewrite hd_nth0. apply Hc. exact Hlen. }
  unfold paired in sz_pair.
  destruct r; cbn [is_ir] in *.
  - destruct (all_same cs) eqn:Es.
    + apply Hskip; [eapply reduced_top; exact Hhd|reflexivity|].
      eapply (reduced_from_irrel sz FR); [reflexivity|exact Hhd].
    + apply Hnode. cbn. now rewrite Es.
  - apply Hnode. reflexivity.
  - destruct (Nat.odd (S L)) eqn:Eo.
    + destruct (singleton_at from cs) eqn:Esg.
      * pose proof (singleton_at_lt _ _ Esg) as Hfl.
        assert (Hrf := Hc from Hfl).
        apply Hskip; [eapply reduced_top; exact Hrf|reflexivity|].
        eapply (reduced_from_irrel sz IR); [|exact Hrf].
        cbn. rewrite Nat.odd_succ in Eo. rewrite <- Nat.negb_even, Eo. reflexivity.
      * apply Hnode. cbn. now rewrite Eo, Esg.
    + destruct (all_same cs) eqn:Es.
      * apply Hskip; [eapply reduced_top; exact Hhd|reflexivity|].
        assert (HoL : Nat.odd L = true).
        { rewrite Nat.odd_succ in Eo. rewrite <- Nat.negb_even, Eo. reflexivity. }
        destruct L as [|L']; [discriminate|].
        apply reduced_all_from; [reflexivity|exact HoL|].
        intros i Hi. rewrite (sz_pair eq_refl _ HoL), <- Hl in Hi.
        rewrite <- (proj1 (all_same_spec cs) Es i Hi). now apply Hc.
      * apply Hnode. cbn. now rewrite Eo, Es.
Qed.


(** ** of_fun *)

Definition merge (L : nat) (x x' : nat -> nat) : nat -> nat :=
  fun k => if (1 <=? k) && (k <=? L) then x k else x' k.

Definition fext (g : (nat -> nat) -> Z) : Prop :=
  forall x y, (forall k, x k = y k) -> g x = g y.

Lemma of_fun_top r g : forall L from x', top (of_fun sz r L from g x') <= L.
Proof.
  induction L as [|L IH]; intros from x'; cbn [of_fun]; [cbn; lia|].
  apply mk_top. intros i.
  destruct (Nat.lt_ge_cases i (sz (S L))) as [Hi|Hi].
  - rewrite nth_map_seq by exact Hi. apply IH.
  - rewrite nth_overflow by (rewrite map_length, seq_length; exact Hi). cbn; lia.
Qed.

Lemma of_fun_eval r g : fext g ->
  forall L from x' x, valid x -> cx r L from x ->
  evalL (is_ir r) L (of_fun sz r L from g x') x = g (merge L x x').
Proof.
  intros Hg. induction L as [|L IH]; intros from x' x Hx Hc.
  - cbn. apply Hg. intros k. unfold merge. destruct k; reflexivity.
  - cbn [of_fun]. rewrite mk_eval; auto.
    + rewrite nth_map_seq by apply Hx. rewrite IH; auto.
      * apply Hg. intros k. unfold merge, upd.
        destruct (Nat.leb_spec 1 k); destruct (Nat.leb_spec k L);
          destruct (Nat.leb_spec k (S L));
          destruct (Nat.eqb_spec k (S L)); cbn; try lia; try reflexivity. now subst.
      * intros _. reflexivity.
    + now rewrite map_length, seq_length.
    + intros i. destruct (Nat.lt_ge_cases i (sz (S L))) as [Hi|Hi].
      * rewrite nth_map_seq by exact Hi. apply of_fun_top.
      * rewrite nth_overflow by (rewrite map_length, seq_length; exact Hi). cbn; lia.
Qed.

Lemma of_fun_reduced r (sz_pair : paired r) g :
  forall L from x', reducedb sz r L (Some from) (of_fun sz r L from g x') = true.
Proof.
  induction L as [|L IH]; intros from x'; [reflexivity|].
  cbn [of_fun]. apply mk_reduced; auto.
  - now rewrite map_length, seq_length.
  - rewrite map_length, seq_length. intros i Hi. rewrite nth_map_seq by exact Hi. apply IH.
Qed.

(** ** apply2 / apply1 *)

(** children of a node lie strictly below it: part of well-formedness *)
Fixpoint wf (L : nat) (t : dd) : Prop :=
  match L with
  | O => top t = 0
  | S L' =>
      match t with
      | T _ => True
      | N k cs => if Nat.eqb k (S L') then Forall (wf L') cs else wf L' t
      end
  end.

Lemma wf_top : forall L t, wf L t -> top t <= L.
Proof.
  induction L as [|L IH]; intros t H; cbn in H.
  - lia.
  - destruct t as [v|k cs]; cbn; [lia|].
    destruct (Nat.eqb_spec k (S L)); [lia|]. apply IH in H. cbn in H. lia.
Qed.

Lemma wf_zero L : wf L zero.
Proof. destruct L; cbn; auto. Qed.

Lemma wf_unpack r L from t i :
  wf (S L) t -> wf L (nth i (unpack sz r (S L) from t) zero).
Proof.
  intros H.
  assert (Hex : forall t', wf L t' -> wf L (nth i (expand sz r (S L) from t') zero)).
  { intros t' H'. unfold expand. destruct (is_ir r && Nat.odd (S L)).
    - destruct (Nat.lt_ge_cases i (sz (S L))) as [Hi|Hi].
      + rewrite nth_ident_list by exact Hi. destruct (Nat.eqb i from); [exact H'|apply wf_zero].
      + rewrite nth_overflow; [apply wf_zero|]. unfold ident_list.
        now rewrite map_length, seq_length.
    - destruct (Nat.lt_ge_cases i (sz (S L))) as [Hi|Hi].
      + now rewrite nth_repeat_lt.
      + rewrite nth_overflow; [apply wf_zero|]. now rewrite repeat_length. }
  destruct t as [v|k cs]; cbn [unpack].
  - apply Hex. destruct L; cbn; auto.
  - cbn in H. destruct (Nat.eqb_spec k (S L)).
    + rewrite Forall_forall in H.
      destruct (Nat.lt_ge_cases i (length cs)) as [Hi|Hi].
      * apply H, nth_In, Hi.
      * rewrite nth_overflow by exact Hi. apply wf_zero.
    + apply Hex. exact H.
Qed.

Lemma reduced_wf r : forall L from t, reducedb sz r L from t = true -> wf L t.
Proof.
  induction L as [|L IH]; intros from t H.
  - destruct t; cbn in *; [reflexivity|discriminate].
  - destruct (Nat.eq_dec (top t) (S L)) as [E|E].
    + destruct t as [v|k cs]; cbn in E; [lia|]. subst k.
      apply (reduced_node sz r) in H. destruct H as (_ & _ & _ & Hc).
      cbn. rewrite Nat.eqb_refl. apply Forall_forall. intros c Hin.
      destruct (In_nth _ _ zero Hin) as (i & Hi & <-). eapply IH. apply Hc, Hi.
    + apply (reduced_skip sz r) in H; [|exact E]. destruct H as [_ H].
      destruct t as [v|k cs]; cbn; [exact I|].
      cbn in E. destruct (Nat.eqb_spec k (S L)); [contradiction|]. eapply IH, H.
Qed.

Section Apply.
Variables ra rb rr : rule.
Variable f : Z -> Z -> Z.

Lemma apply2_top : forall L from a b, top (apply2 sz f ra rb rr L from a b) <= L.
Proof.
  induction L as [|L IH]; intros from a b; cbn [apply2]; [cbn; lia|].
  apply mk_top. intros i.
  destruct (Nat.lt_ge_cases i (sz (S L))) as [Hi|Hi].
  - rewrite nth_map_seq by exact Hi. apply IH.
  - rewrite nth_overflow by (rewrite map_length, seq_length; exact Hi). cbn; lia.
Qed.

Lemma evalL_0 ir t x : evalL ir 0 t x = tval t.
Proof. destruct t; reflexivity. Qed.

Theorem apply2_eval : forall L from a b x,
  valid x -> wf L a -> wf L b ->
  cx ra L from x -> cx rb L from x -> cx rr L from x ->
  evalL (is_ir rr) L (apply2 sz f ra rb rr L from a b) x
  = f (evalL (is_ir ra) L a x) (evalL (is_ir rb) L b x).
Proof.
  induction L as [|L IH]; intros from a b x Hx Ha Hb Hca Hcb Hcr.
  - cbn [apply2]. now rewrite !evalL_0.
  - cbn [apply2]. rewrite mk_eval; auto.
    + rewrite nth_map_seq by apply Hx.
      rewrite IH; auto; try (intros _; reflexivity).
      * rewrite !unpack_eval; auto; now apply wf_top.
      * now apply wf_unpack.
      * now apply wf_unpack.
    + now rewrite map_length, seq_length.
    + intros i. destruct (Nat.lt_ge_cases i (sz (S L))) as [Hi|Hi].
      * rewrite nth_map_seq by exact Hi. apply apply2_top.
      * rewrite nth_overflow by (rewrite map_length, seq_length; exact Hi). cbn; lia.
Qed.

Theorem apply2_reduced (sz_pair : paired rr) :
  forall L from a b,
  reducedb sz rr L (Some from) (apply2 sz f ra rb rr L from a b) = true.
Proof.
  induction L as [|L IH]; intros from a b; [reflexivity|].
  cbn [apply2]. apply mk_reduced; auto.
  - now rewrite map_length, seq_length.
  - rewrite map_length, seq_length. intros i Hi. rewrite nth_map_seq by exact Hi. apply IH.
Qed.

End Apply.

Section Apply1.
Variables ra rr : rule.
Variable f : Z -> Z.

Lemma apply1_top : forall L from a, top (apply1 sz f ra rr L from a) <= L.
Proof.
  induction L as [|L IH]; intros from a; cbn [apply1]; [cbn; lia|].
  apply mk_top. intros i.
  destruct (Nat.lt_ge_cases i (sz (S L))) as [Hi|Hi].
  - rewrite nth_map_seq by exact Hi. apply IH.
  - rewrite nth_overflow by (rewrite map_length, seq_length; exact Hi). cbn; lia.
Qed.

Theorem apply1_eval : forall L from a x,
  valid x -> wf L a -> cx ra L from x -> cx rr L from x ->
  evalL (is_ir rr) L (apply1 sz f ra rr L from a) x = f (evalL (is_ir ra) L a x).
Proof.
  induction L as [|L IH]; intros from a x Hx Ha Hca Hcr.
  - cbn [apply1]. now rewrite !evalL_0.
  - cbn [apply1]. rewrite mk_eval; auto.
    + rewrite nth_map_seq by apply Hx.
      rewrite IH; auto; try (intros _; reflexivity).
      * rewrite !unpack_eval; auto; now apply wf_top.
      * now apply wf_unpack.
    + now rewrite map_length, seq_length.
    + intros i. destruct (Nat.lt_ge_cases i (sz (S L))) as [Hi|Hi].
      * rewrite nth_map_seq by exact Hi. apply apply1_top.
      * rewrite nth_overflow by (rewrite map_length, seq_length; exact Hi). cbn; lia.
Qed.

Theorem apply1_reduced (sz_pair : paired rr) :
  forall L from a,
  reducedb sz rr L (Some from) (apply1 sz f ra rr L from a) = true.
Proof.
  induction L as [|L IH]; intros from a; [reflexivity|].
  cbn [apply1]. apply mk_reduced; auto.
  - now rewrite map_length, seq_length.
  - rewrite map_length, seq_length. intros i Hi. rewrite nth_map_seq by exact Hi. apply IH.
Qed.

End Apply1.

End Reduce.
