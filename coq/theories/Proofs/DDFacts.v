(** Basic facts about the tree model: induction principle, decidable
    equality, evaluation lemmas. *)
From Coq Require Import List Arith ZArith Bool Lia.
From Meddly Require Import Model.DD.
Import ListNotations.
Local Open Scope nat_scope.

(** ** Induction principle with [Forall] on children *)

Section DDInd.
  Variable P : dd -> Prop.
  Hypothesis HT : forall v, P (T v).
  Hypothesis HN : forall k cs, Forall P cs -> P (N k cs).

  Fixpoint dd_ind' (t : dd) : P t :=
    match t with
    | T v => HT v
    | N k cs =>
        HN k cs
           ((fix go (l : list dd) : Forall P l :=
               match l with
               | [] => Forall_nil P
               | c :: l' => Forall_cons c (dd_ind' c) (go l')
               end) cs)
    end.
End DDInd.

(** ** Boolean equality *)

Fixpoint list_eqb (l1 l2 : list dd) : bool :=
  match l1, l2 with
  | [], [] => true
  | x :: l1', y :: l2' => dd_eqb x y && list_eqb l1' l2'
  | _, _ => false
  end.

Lemma dd_eqb_N k cs j ds :
  dd_eqb (N k cs) (N j ds) = Nat.eqb k j && list_eqb cs ds.
Proof.
  cbn [dd_eqb]. f_equal.
Qed.

Lemma dd_eqb_eq : forall a b, dd_eqb a b = true <-> a = b.
Proof.
  induction a as [v|k cs IH] using dd_ind'; intros [w|j ds].
  - cbn. rewrite Z.eqb_eq. split; congruence.
  - cbn. split; discriminate.
  - cbn. split; discriminate.
  - rewrite dd_eqb_N, andb_true_iff, Nat.eqb_eq.
    assert (Hl : list_eqb cs ds = true <-> cs = ds).
    { revert ds. induction IH as [|c cs Hc _ IHl]; intros [|d ds]; cbn;
        try (split; (reflexivity || discriminate)).
      rewrite andb_true_iff, Hc, IHl. split; [intros [-> ->]; reflexivity|].
      intros E; injection E; auto. }
    rewrite Hl. split; [intros [-> ->]; reflexivity|]. intros E; injection E; auto.
Qed.

Lemma dd_eqb_refl a : dd_eqb a a = true.
Proof. now apply dd_eqb_eq. Qed.

Lemma dd_eqb_neq a b : dd_eqb a b = false <-> a <> b.
Proof.
  split.
  - intros H E. apply dd_eqb_eq in E. congruence.
  - intros H. destruct (dd_eqb a b) eqn:E; [apply dd_eqb_eq in E; contradiction|reflexivity].
Qed.

Lemma dd_eq_dec (a b : dd) : {a = b} + {a <> b}.
Proof.
  destruct (dd_eqb a b) eqn:E; [left; now apply dd_eqb_eq|right; now apply dd_eqb_neq].
Qed.

Lemma is_zero_eq t : is_zero t = true <-> t = zero.
Proof.
  unfold zero. destruct t as [[| |]|]; cbn; split; try discriminate; try reflexivity; congruence.
Qed.

Lemma is_zero_false t : is_zero t = false <-> t <> zero.
Proof.
  rewrite <- is_zero_eq. destruct (is_zero t); split; congruence.
Qed.

Lemma all_zero_spec cs :
  forallb is_zero cs = true <-> forall i, nth i cs zero = zero.
Proof.
  rewrite forallb_forall. split.
  - intros H i. destruct (Nat.lt_ge_cases i (length cs)) as [Hi|Hi].
    + apply is_zero_eq, H, nth_In, Hi.
    + now apply nth_overflow.
  - intros H c Hc. apply is_zero_eq. destruct (In_nth _ _ zero Hc) as (i & _ & <-). apply H.
Qed.

Lemma all_same_spec cs :
  all_same cs = true <-> forall i, i < length cs -> nth i cs zero = hd zero cs.
Proof.
  destruct cs as [|c r]; cbn [all_same hd length].
  - split; [intros _ i Hi; lia|reflexivity].
  - rewrite forallb_forall. split.
    + intros H [|i] Hi; [reflexivity|]. cbn. symmetry. apply dd_eqb_eq, H, nth_In. lia.
    + intros H d Hd. apply dd_eqb_eq. destruct (In_nth _ _ zero Hd) as (i & Hi & <-).
      symmetry. apply (H (S i)). lia.
Qed.

Lemma all_same_const cs t :
  (forall i, i < length cs -> nth i cs zero = t) -> all_same cs = true.
Proof.
  intros H. apply all_same_spec. intros i Hi. rewrite (H i Hi).
  destruct cs as [|c r]; [cbn in Hi; lia|]. cbn. symmetry. apply (H 0). cbn; lia.
Qed.

Lemma singleton_at_spec i cs :
  singleton_at i cs = true <->
  nth i cs zero <> zero /\ forall j, j <> i -> nth j cs zero = zero.
Proof.
  unfold singleton_at. rewrite andb_true_iff, negb_true_iff, is_zero_false, forallb_forall.
  split; intros [H1 H2]; split; auto.
  - intros j Hj. destruct (Nat.lt_ge_cases j (length cs)) as [Hlt|Hge].
    + specialize (H2 j). rewrite in_seq in H2. specialize (H2 ltac:(lia)).
      apply orb_true_iff in H2. destruct H2 as [H2|H2].
      * apply Nat.eqb_eq in H2. contradiction.
      * now apply is_zero_eq.
    + now apply nth_overflow.
  - intros j _. destruct (Nat.eqb_spec j i); [reflexivity|]. cbn. apply is_zero_eq. now apply H2.
Qed.

Lemma singleton_any_spec cs :
  singleton_any cs = true <-> exists i, i < length cs /\ singleton_at i cs = true.
Proof.
  unfold singleton_any. rewrite existsb_exists. split.
  - intros (i & Hi & H). apply in_seq in Hi. exists i. split; [lia|exact H].
  - intros (i & Hi & H). exists i. split; [apply in_seq; lia|exact H].
Qed.

Lemma singleton_at_lt i cs : singleton_at i cs = true -> i < length cs.
Proof.
  intros H. apply singleton_at_spec in H. destruct H as [H _].
  destruct (Nat.lt_ge_cases i (length cs)); [assumption|].
  exfalso. apply H. now apply nth_overflow.
Qed.

(** ** rule clauses *)

Lemma skip_allowed_zero r : skip_allowed r zero = true.
Proof. destruct r; reflexivity. Qed.

Lemma node_rule_weaken r L i cs :
  node_rule_ok r L None cs = true -> node_rule_ok r L (Some i) cs = true.
Proof.
  unfold node_rule_ok. destruct r; auto. destruct (Nat.odd L); auto.
  rewrite !negb_true_iff. intros H.
  destruct (singleton_at i cs) eqn:Es; [|reflexivity].
  assert (singleton_any cs = true); [|congruence].
  apply singleton_any_spec. exists i. split; [now apply singleton_at_lt|assumption].
Qed.

Lemma node_rule_irrel r L from from' cs :
  is_ir r && Nat.odd L = false ->
  node_rule_ok r L from cs = node_rule_ok r L from' cs.
Proof.
  unfold node_rule_ok. destruct r; auto. cbn. now intros ->.
Qed.

(** ** upd *)

Lemma upd_same x k v : upd x k v k = v.
Proof. unfold upd. now rewrite Nat.eqb_refl. Qed.

Lemma upd_other x k v j : j <> k -> upd x k v j = x j.
Proof. unfold upd. intros H. destruct (Nat.eqb_spec j k); congruence. Qed.

(** ** top level of a tree *)

Definition top (t : dd) : nat := match t with T _ => 0 | N k _ => k end.

Section Sized.
Variable sz : nat -> nat.

Definition valid (x : nat -> nat) : Prop := forall k, x k < sz k.

Lemma upd_valid x k v : valid x -> v < sz k -> valid (upd x k v).
Proof.
  intros Hx Hv j. unfold upd. destruct (Nat.eqb_spec j k); subst; auto.
Qed.

(** ** Unfolding lemmas for [evalL] *)

Lemma evalL_node ir L cs x :
  evalL ir (S L) (N (S L) cs) x = evalL ir L (nth (x (S L)) cs zero) x.
Proof. cbn [evalL]. now rewrite Nat.eqb_refl. Qed.

Lemma evalL_skip ir L t x :
  top t <> S L ->
  evalL ir (S L) t x = if skip_ok ir (S L) x then evalL ir L t x else 0%Z.
Proof.
  intros H. destruct t as [v|k cs]; cbn [evalL]; [reflexivity|].
  cbn in H. destruct (Nat.eqb_spec k (S L)); [contradiction|reflexivity].
Qed.

Lemma evalL_zero ir L x : evalL ir L zero x = 0%Z.
Proof.
  induction L as [|L IH]; [reflexivity|].
  rewrite evalL_skip by (cbn; lia). now destruct (skip_ok ir (S L) x).
Qed.

(** which levels [evalL ir L] reads *)
Definition dep (ir : bool) (L : nat) : nat := if ir && Nat.odd L then S L else L.

Lemma dep_le ir L : dep ir L <= S L.
Proof. unfold dep. destruct (ir && Nat.odd L); lia. Qed.

Lemma dep_ge ir L : L <= dep ir L.
Proof. unfold dep. destruct (ir && Nat.odd L); lia. Qed.

Lemma skip_ok_ext ir L x y :
  (forall k, 1 <= k <= dep ir L -> x k = y k) -> 1 <= L ->
  skip_ok ir L x = skip_ok ir L y.
Proof.
  intros H HL. unfold skip_ok. unfold dep in H.
  destruct (ir && Nat.odd L) eqn:E; cbn; [|reflexivity].
  rewrite (H L), (H (S L)) by lia. reflexivity.
Qed.

Lemma evalL_ext ir : forall L t x y,
  (forall k, 1 <= k <= dep ir L -> x k = y k) ->
  evalL ir L t x = evalL ir L t y.
Proof.
  induction L as [|L IH]; intros t x y H; [reflexivity|].
  assert (Hd := dep_ge ir (S L)).
  assert (HL : forall k, 1 <= k <= dep ir L -> x k = y k).
  { intros k Hk. apply H. pose proof (dep_le ir L). lia. }
  destruct (Nat.eq_dec (top t) (S L)) as [E|E].
  - destruct t as [v|k cs]; cbn in E; [lia|]. subst k.
    rewrite !evalL_node. rewrite <- (H (S L)) by lia. now apply IH.
  - rewrite !evalL_skip by assumption.
    rewrite (skip_ok_ext ir (S L) x y) by (auto; lia).
    destruct (skip_ok ir (S L) y); [now apply IH|reflexivity].
Qed.

(** [evalS] as [nth] *)
Lemma evalS_N k cs x : evalS (N k cs) x = evalS (nth (x k) cs zero) x.
Proof.
  cbn [evalS]. generalize (x k) as i. induction cs as [|c cs IH]; intros i; cbn.
  - destruct i; reflexivity.
  - destruct i; [reflexivity|]. apply IH.
Qed.

End Sized.
