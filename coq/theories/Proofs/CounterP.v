(** C06: the width-changing counter array reads back as the unbounded count
    after any history of increments, decrements, expansions and shrinks. *)
From Coq Require Import List ZArith Bool Lia.
From Meddly Require Import Model.Counter.
Import ListNotations.
Local Open Scope Z_scope.

Ltac Zify.zify_post_hook ::= Z.div_mod_to_equations.

Definition count_ge (t : Z) (l : list Z) : Z := Z.of_nat (length (filter (fun v => t <=? v) l)).

Definition all_lt (b : Z) (l : list Z) : Prop := Forall (fun v => 0 <= v < b) l.

Definition Inv (c : ctr) : Prop :=
  (cw c = 8 /\ all_lt 256 (cdat c) /\ c09 c = 0 /\ c17 c = 0) \/
  (cw c = 16 /\ all_lt 65536 (cdat c) /\ c09 c = count_ge 256 (cdat c) /\ c17 c = 0) \/
  (cw c = 32 /\ all_lt 4294967296 (cdat c) /\ c09 c = count_ge 256 (cdat c)
   /\ c17 c = count_ge 65536 (cdat c)).

Lemma nth_upd_same i v l : (i < length l)%nat -> nth i (upd_nth i v l) 0 = v.
Proof. revert i; induction l as [|x l IH]; intros [|i] H; cbn in *; try lia; auto. apply IH; lia. Qed.

Lemma nth_upd_other i j v l : i <> j -> nth j (upd_nth i v l) 0 = nth j l 0.
Proof.
  revert i j; induction l as [|x l IH]; intros [|i] [|j] H; cbn; try reflexivity; try lia.
  apply IH. lia.
Qed.

Lemma length_upd i v l : length (upd_nth i v l) = length l.
Proof. revert i; induction l as [|x l IH]; intros [|i]; cbn; auto. Qed.

Lemma all_lt_upd b i v l : all_lt b l -> 0 <= v < b -> all_lt b (upd_nth i v l).
Proof.
  unfold all_lt. revert i; induction l as [|x l IH]; intros [|i] H Hv; cbn; auto.
  - inversion H; subst. constructor; auto.
  - inversion H; subst. constructor; auto.
Qed.

Lemma all_lt_nth b l i : all_lt b l -> (i < length l)%nat -> 0 <= nth i l 0 < b.
Proof.
  unfold all_lt. rewrite Forall_forall. intros H Hi. apply H, nth_In, Hi.
Qed.

Lemma all_lt_weaken b b' l : b <= b' -> all_lt b l -> all_lt b' l.
Proof. unfold all_lt. intros Hb H. eapply Forall_impl; [|exact H]. cbn. intros; lia. Qed.

Lemma count_ge_upd t i v l : (i < length l)%nat ->
  count_ge t (upd_nth i v l) =
  count_ge t l - (if t <=? nth i l 0 then 1 else 0) + (if t <=? v then 1 else 0).
Proof.
  unfold count_ge. revert i; induction l as [|x l IH]; intros [|i] H; cbn in *; try lia.
  - destruct (t <=? x), (t <=? v); cbn [length]; lia.
  - specialize (IH i ltac:(lia)). destruct (t <=? x); cbn [length]; lia.
Qed.

Lemma count_ge_zero t l : all_lt t l -> count_ge t l = 0.
Proof.
  unfold count_ge, all_lt. induction 1 as [|x l Hx _ IH]; cbn; [reflexivity|].
  destruct (Z.leb_spec t x); [lia|exact IH].
Qed.

Lemma count_ge_nonneg t l : 0 <= count_ge t l.
Proof. unfold count_ge. lia. Qed.

Lemma count_ge_pos t l i : (i < length l)%nat -> t <= nth i l 0 -> 0 < count_ge t l.
Proof.
  unfold count_ge. revert i; induction l as [|x l IH]; intros [|i] H Hv; cbn in *; try lia.
  - destruct (Z.leb_spec t x); cbn [length]; lia.
  - specialize (IH i ltac:(lia) Hv). destruct (t <=? x); cbn [length]; lia.
Qed.

(** ** increments *)
Theorem cincr_spec c i :
  Inv c -> (i < length (cdat c))%nat -> cget c i < 4294967295 ->
  Inv (cincr c i) /\ cdat (cincr c i) = upd_nth i (cget c i + 1) (cdat c).
Proof.
  intros HI Hi Hmax. unfold cincr, cget in *.
  destruct HI as [(Hw & Ha & H9 & H17)|[(Hw & Ha & H9 & H17)|(Hw & Ha & H9 & H17)]]; rewrite Hw; cbn [Z.eqb Pos.eqb].
  - pose proof (all_lt_nth _ _ _ Ha Hi) as Hv.
    destruct (Z.eqb_spec ((nth i (cdat c) 0 + 1) mod 256) 0) as [E|E]; cbn.
    + assert (Hv' : nth i (cdat c) 0 + 1 = 256) by lia. rewrite Hv'. split; [|reflexivity].
      right; left. cbn. repeat split; auto.
      * apply all_lt_upd; [eapply all_lt_weaken; [|exact Ha]; lia|lia].
      * rewrite count_ge_upd by exact Hi. rewrite (count_ge_zero 256 _ Ha).
        destruct (Z.leb_spec 256 (nth i (cdat c) 0)); cbn; lia.
    + assert (Hm : (nth i (cdat c) 0 + 1) mod 256 = nth i (cdat c) 0 + 1) by lia. rewrite Hm.
      split; [|reflexivity]. left. cbn. repeat split; auto. apply all_lt_upd; [exact Ha|lia].
  - pose proof (all_lt_nth _ _ _ Ha Hi) as Hv.
    destruct (Z.eqb_spec ((nth i (cdat c) 0 + 1) mod 65536) 0) as [E|E]; cbn.
    + assert (Hv' : nth i (cdat c) 0 + 1 = 65536) by lia. rewrite Hv'. split; [|reflexivity].
      right; right. cbn.
      destruct (Z.eqb_spec ((nth i (cdat c) 0 + 1) mod 65536) 256); [lia|].
      repeat split; auto.
      * apply all_lt_upd; [eapply all_lt_weaken; [|exact Ha]; lia|lia].
      * rewrite count_ge_upd by exact Hi. rewrite H9.
        destruct (Z.leb_spec 256 (nth i (cdat c) 0)); cbn; lia.
      * rewrite count_ge_upd by exact Hi. rewrite (count_ge_zero 65536 _ Ha).
        destruct (Z.leb_spec 65536 (nth i (cdat c) 0)); cbn; lia.
    + assert (Hm : (nth i (cdat c) 0 + 1) mod 65536 = nth i (cdat c) 0 + 1) by lia. rewrite Hm.
      split; [|reflexivity]. right; left. cbn. repeat split; auto.
      * apply all_lt_upd; [exact Ha|lia].
      * rewrite count_ge_upd by exact Hi. rewrite H9.
        destruct (Z.eqb_spec (nth i (cdat c) 0 + 1) 256);
          destruct (Z.leb_spec 256 (nth i (cdat c) 0));
          destruct (Z.leb_spec 256 (nth i (cdat c) 0 + 1)); lia.
  - pose proof (all_lt_nth _ _ _ Ha Hi) as Hv.
    assert (Hm : (nth i (cdat c) 0 + 1) mod 4294967296 = nth i (cdat c) 0 + 1) by lia. rewrite Hm.
    split; [|reflexivity]. right; right. cbn. repeat split; auto.
    + apply all_lt_upd; [exact Ha|lia].
    + rewrite count_ge_upd by exact Hi. rewrite H9.
      destruct (Z.eqb_spec (nth i (cdat c) 0 + 1) 256);
        destruct (Z.leb_spec 256 (nth i (cdat c) 0));
        destruct (Z.leb_spec 256 (nth i (cdat c) 0 + 1)); lia.
    + rewrite count_ge_upd by exact Hi. rewrite H17.
      destruct (Z.eqb_spec (nth i (cdat c) 0 + 1) 65536);
        destruct (Z.leb_spec 65536 (nth i (cdat c) 0));
        destruct (Z.leb_spec 65536 (nth i (cdat c) 0 + 1)); lia.
Qed.

(** ** decrements *)
Theorem cdecr_spec c i :
  Inv c -> (i < length (cdat c))%nat -> 0 < cget c i ->
  Inv (cdecr c i) /\ cdat (cdecr c i) = upd_nth i (cget c i - 1) (cdat c).
Proof.
  intros HI Hi Hpos. unfold cdecr, cget in *.
  destruct HI as [(Hw & Ha & H9 & H17)|[(Hw & Ha & H9 & H17)|(Hw & Ha & H9 & H17)]]; rewrite Hw; cbn [Z.eqb Pos.eqb].
  - pose proof (all_lt_nth _ _ _ Ha Hi) as Hv.
    assert (Hm : (nth i (cdat c) 0 - 1) mod 256 = nth i (cdat c) 0 - 1) by lia. rewrite Hm.
    split; [|reflexivity]. left. cbn. repeat split; auto. apply all_lt_upd; [exact Ha|lia].
  - pose proof (all_lt_nth _ _ _ Ha Hi) as Hv.
    assert (Hm : (nth i (cdat c) 0 - 1) mod 65536 = nth i (cdat c) 0 - 1) by lia. rewrite Hm.
    split; [|reflexivity]. right; left. cbn. repeat split; auto.
    + apply all_lt_upd; [exact Ha|lia].
    + rewrite count_ge_upd by exact Hi. rewrite H9.
      destruct (Z.eqb_spec (nth i (cdat c) 0) 256);
        destruct (Z.leb_spec 256 (nth i (cdat c) 0));
        destruct (Z.leb_spec 256 (nth i (cdat c) 0 - 1)); lia.
  - pose proof (all_lt_nth _ _ _ Ha Hi) as Hv.
    assert (Hm : (nth i (cdat c) 0 - 1) mod 4294967296 = nth i (cdat c) 0 - 1) by lia. rewrite Hm.
    split; [|reflexivity]. right; right. cbn. repeat split; auto.
    + apply all_lt_upd; [exact Ha|lia].
    + rewrite count_ge_upd by exact Hi. rewrite H9.
      destruct (Z.eqb_spec (nth i (cdat c) 0) 256);
        destruct (Z.leb_spec 256 (nth i (cdat c) 0));
        destruct (Z.leb_spec 256 (nth i (cdat c) 0 - 1)); lia.
    + rewrite count_ge_upd by exact Hi. rewrite H17.
      destruct (Z.eqb_spec (nth i (cdat c) 0) 65536);
        destruct (Z.leb_spec 65536 (nth i (cdat c) 0));
        destruct (Z.leb_spec 65536 (nth i (cdat c) 0 - 1)); lia.
Qed.

(** ** expansion *)
Lemma all_lt_app b l1 l2 : all_lt b l1 -> all_lt b l2 -> all_lt b (l1 ++ l2).
Proof. unfold all_lt. intros. apply Forall_app. tauto. Qed.

Lemma all_lt_repeat0 b n : 0 < b -> all_lt b (repeat 0 n).
Proof. intros Hb. unfold all_lt. induction n; cbn; constructor; auto. lia. Qed.

Lemma count_ge_app t l1 l2 : count_ge t (l1 ++ l2) = count_ge t l1 + count_ge t l2.
Proof. unfold count_ge. rewrite filter_app, app_length. lia. Qed.

(** ** narrowing: a data list [d] that satisfies the invariant's bounds and
    whose large entries are counted by c09/c17 *)
Lemma in_firstn (x : Z) n l : In x (firstn n l) -> In x l.
Proof.
  revert n; induction l as [|y l IH]; intros [|n] H; cbn in *; try contradiction.
  destruct H as [->|H]; [now left|right; eauto].
Qed.

Lemma all_lt_firstn b n l : all_lt b l -> all_lt b (firstn n l).
Proof.
  unfold all_lt. rewrite !Forall_forall. intros H x Hx. apply H. eapply in_firstn; eauto.
Qed.

Lemma count_ge_firstn t n l :
  0 < t -> Forall (fun v => v = 0) (skipn n l) -> count_ge t (firstn n l) = count_ge t l.
Proof.
  intros Ht Hz. rewrite <- (firstn_skipn n l) at 2. rewrite count_ge_app.
  assert (count_ge t (skipn n l) = 0); [|lia].
  apply count_ge_zero. unfold all_lt. eapply Forall_impl; [|exact Hz]. cbn. intros; lia.
Qed.

Lemma map_mod_id b l : all_lt b l -> map (fun v => v mod b) l = l.
Proof.
  unfold all_lt. induction 1 as [|x l Hx _ IH]; cbn; [reflexivity|].
  rewrite IH. f_equal. apply Z.mod_small. exact Hx.
Qed.

Lemma count_zero_all_lt t b l : all_lt b l -> count_ge t l = 0 -> 0 < t -> all_lt t l.
Proof.
  unfold all_lt, count_ge. induction 1 as [|x l Hx Hl IH]; intros Hc Ht; [constructor|].
  cbn in Hc. destruct (Z.leb_spec t x); cbn [length] in Hc; [lia|].
  constructor; [lia|]. apply IH; [exact Hc|exact Ht].
Qed.

(** [d] is the new data: within the current width's bounds, with the same
    numbers of large entries as the old data *)
Lemma cnarrow_spec c d :
  Inv c ->
  (forall b, all_lt b (cdat c) -> 0 < b -> all_lt b d) ->
  (forall t, 0 < t -> count_ge t d = count_ge t (cdat c)) ->
  Inv (cnarrow c d) /\ cdat (cnarrow c d) = d.
Proof.
  intros HI Hb Hc. unfold cnarrow.
  destruct HI as [(Hw & Ha & H9 & H17)|[(Hw & Ha & H9 & H17)|(Hw & Ha & H9 & H17)]]; rewrite Hw; cbn [Z.eqb Pos.eqb].
  - split; [|reflexivity]. left. cbn. repeat split; auto. apply Hb; [exact Ha|lia].
  - destruct (Z.ltb_spec 0 (c09 c)) as [Hp|Hn].
    + split; [|reflexivity]. right; left. cbn. repeat split; auto.
      * apply Hb; [exact Ha|lia].
      * rewrite Hc by lia. exact H9.
    + assert (H0 : count_ge 256 d = 0) by (rewrite Hc by lia; pose proof (count_ge_nonneg 256 (cdat c)); lia).
      assert (Hs : all_lt 256 d).
      { eapply count_zero_all_lt; [apply (Hb 65536 Ha); lia|exact H0|lia]. }
      cbn [cdat]. rewrite (map_mod_id 256 _ Hs). split; [|reflexivity].
      pose proof (count_ge_nonneg 256 (cdat c)).
      left. cbn. repeat split; auto. lia.
  - destruct (Z.ltb_spec 0 (c17 c)) as [Hp|Hn].
    + split; [|reflexivity]. right; right. cbn. repeat split; auto.
      * apply Hb; [exact Ha|lia].
      * rewrite Hc by lia. exact H9.
      * rewrite Hc by lia. exact H17.
    + assert (H0 : count_ge 65536 d = 0) by (rewrite Hc by lia; pose proof (count_ge_nonneg 65536 (cdat c)); lia).
      destruct (Z.ltb_spec 0 (c09 c)) as [Hp9|Hn9].
      * assert (Hs : all_lt 65536 d).
        { eapply count_zero_all_lt; [apply (Hb 4294967296 Ha); lia|exact H0|lia]. }
        cbn [cdat]. rewrite (map_mod_id 65536 _ Hs). split; [|reflexivity].
        pose proof (count_ge_nonneg 65536 (cdat c)).
        right; left. cbn. repeat split; auto; [|lia].
        rewrite Hc by lia. exact H9.
      * assert (H09 : count_ge 256 d = 0) by (rewrite Hc by lia; pose proof (count_ge_nonneg 256 (cdat c)); lia).
        assert (Hs : all_lt 256 d).
        { eapply count_zero_all_lt; [apply (Hb 4294967296 Ha); lia|exact H09|lia]. }
        cbn [cdat]. rewrite (map_mod_id 256 _ Hs). split; [|reflexivity].
        pose proof (count_ge_nonneg 256 (cdat c)). pose proof (count_ge_nonneg 65536 (cdat c)).
        left. cbn. repeat split; auto; lia.
Qed.

Theorem cexpand_spec c ns :
  Inv c -> Inv (cexpand c ns) /\
  cdat (cexpand c ns) = cdat c ++ repeat 0 (ns - length (cdat c)).
Proof.
  intros HI. unfold cexpand. destruct (Nat.ltb_spec (length (cdat c)) ns) as [Hlt|Hge].
  - apply cnarrow_spec; [exact HI| |].
    + intros b Hab Hb0. apply all_lt_app; [exact Hab|now apply all_lt_repeat0].
    + intros t Ht. rewrite count_ge_app.
      assert (count_ge t (repeat 0 (ns - length (cdat c))) = 0); [|lia].
      apply count_ge_zero. now apply all_lt_repeat0.
  - split; [exact HI|]. replace (ns - length (cdat c))%nat with 0%nat by lia. cbn. now rewrite app_nil_r.
Qed.

(** ** shrinking: the dropped elements must be unused (count 0), as they are
    for the handles above the last used one *)
Theorem cshrink_spec c ns :
  Inv c -> Forall (fun v => v = 0) (skipn ns (cdat c)) ->
  Inv (cshrink c ns) /\ cdat (cshrink c ns) = firstn ns (cdat c).
Proof.
  intros HI Hz. unfold cshrink. destruct (Nat.ltb_spec ns (length (cdat c))) as [Hlt|Hge].
  2:{ split; [exact HI|]. now rewrite firstn_all2 by lia. }
  apply cnarrow_spec; [exact HI| |].
  - intros b Hab _. now apply all_lt_firstn.
  - intros t Ht. now apply count_ge_firstn.
Qed.

Lemma Inv_init : Inv ctr_init.
Proof. left. cbn. repeat split; auto. constructor. Qed.

Theorem counter_refines : forall os c,
  Inv c -> legal_all (cdat c) os ->
  Inv (fold_left cstep os c) /\ cdat (fold_left cstep os c) = fold_left astep os (cdat c).
Proof.
  induction os as [|o os IH]; intros c HI HL; cbn [fold_left]; [split; auto|].
  destruct HL as [Ho HL].
  assert (Hs : Inv (cstep c o) /\ cdat (cstep c o) = astep (cdat c) o).
  { destruct o as [i|i|ns|ns]; cbn [cstep astep legal] in *.
    - destruct Ho. apply cincr_spec; auto.
    - destruct Ho. apply cdecr_spec; auto.
    - apply cexpand_spec; auto.
    - apply cshrink_spec; auto. }
  destruct Hs as [HI' Hd]. rewrite <- Hd in HL. destruct (IH _ HI' HL) as [A B].
  split; [exact A|]. rewrite B, Hd. reflexivity.
Qed.
