(** Lemmas about the fixed-width operations of Model/Bits.v *)
From Coq Require Import ZArith Bool Lia.
From Meddly Require Import Model.Bits.
Local Open Scope Z_scope.

Ltac Zify.zify_post_hook ::= Z.div_mod_to_equations.

Lemma wraps32_id x : -2147483648 <= x < 2147483648 -> wraps 32 x = x.
Proof.
  intros H. unfold wraps. change (2 ^ 32) with 4294967296. change (2 ^ (32 - 1)) with 2147483648.
  destruct (Z.ltb_spec (x mod 4294967296) 2147483648); lia.
Qed.

Lemma wraps64_id x : -9223372036854775808 <= x < 9223372036854775808 -> wraps 64 x = x.
Proof.
  intros H. unfold wraps. change (2 ^ 64) with 18446744073709551616.
  change (2 ^ (64 - 1)) with 9223372036854775808.
  destruct (Z.ltb_spec (x mod 18446744073709551616) 9223372036854775808); lia.
Qed.

Lemma wraps32_spec x :
  wraps 32 x = (if x mod 4294967296 <? 2147483648 then x mod 4294967296
                else x mod 4294967296 - 4294967296).
Proof. reflexivity. Qed.

Lemma wrapu32_spec x : wrapu 32 x = x mod 4294967296.
Proof. reflexivity. Qed.

Lemma wraps32_range x : -2147483648 <= wraps 32 x < 2147483648.
Proof.
  rewrite wraps32_spec. destruct (Z.ltb_spec (x mod 4294967296) 2147483648); lia.
Qed.

Lemma shiftl1 x : Z.shiftl x 1 = 2 * x.
Proof. rewrite Z.shiftl_mul_pow2 by lia. lia. Qed.

Lemma shiftr1 x : Z.shiftr x 1 = x / 2.
Proof. rewrite Z.shiftr_div_pow2 by lia. reflexivity. Qed.

(** bits of the sign marker *)
Lemma msb_bits n : 0 <= n -> Z.testbit (-2147483648) n = (31 <=? n).
Proof.
  intros Hn. change (-2147483648) with (Z.lnot (Z.ones 31)).
  rewrite Z.lnot_spec by exact Hn.
  destruct (Z.leb_spec 31 n).
  - rewrite Z.ones_spec_high by lia. reflexivity.
  - rewrite Z.ones_spec_low by lia. reflexivity.
Qed.

Lemma small_bits y n : 0 <= y < 2147483648 -> 31 <= n -> Z.testbit y n = false.
Proof.
  intros Hy Hn. destruct (Z.eq_dec y 0) as [->|Hy0]; [apply Z.bits_0|].
  apply Z.bits_above_log2; [lia|].
  assert (Z.log2 y < 31); [|lia].
  apply Z.log2_lt_pow2; [lia|]. change (2 ^ 31) with 2147483648. lia.
Qed.

Lemma neg_bits y n : -2147483648 <= y < 0 -> 31 <= n -> Z.testbit y n = true.
Proof.
  intros Hy Hn. apply Z.bits_above_log2_neg; [lia|].
  destruct (Z.eq_dec y (-1)) as [->|Hm1]; [cbn; lia|].
  assert (Z.log2 (Z.pred (- y)) < 31); [|lia].
  apply Z.log2_lt_pow2; [lia|]. change (2 ^ 31) with 2147483648. lia.
Qed.

Lemma lor_msb y :
  -2147483648 <= y < 2147483648 ->
  Z.lor y (-2147483648) = if y <? 0 then y else y - 2147483648.
Proof.
  intros Hy. destruct (Z.ltb_spec y 0) as [Hneg|Hpos].
  - apply Z.bits_inj'. intros n Hn. rewrite Z.lor_spec, msb_bits by exact Hn.
    destruct (Z.leb_spec 31 n).
    + rewrite neg_bits by lia. reflexivity.
    + apply orb_false_r.
  - assert (Hl : Z.land y (-2147483648) = 0).
    { apply Z.bits_inj'. intros n Hn. rewrite Z.land_spec, msb_bits, Z.bits_0 by exact Hn.
      destruct (Z.leb_spec 31 n).
      - rewrite small_bits by lia. reflexivity.
      - apply andb_false_r. }
    rewrite <- Z.lxor_lor by exact Hl. rewrite <- Z.add_nocarry_lxor by exact Hl. lia.
Qed.

Lemma land_low31 b : Z.land b 2147483647 = b mod 2147483648.
Proof.
  change 2147483647 with (Z.ones 31). rewrite Z.land_ones by lia. reflexivity.
Qed.
